// Package mc is the explicit-state explorer (engine E1): breadth-first search over the real
// transition functions. Live objects are never cloned: a state is the shortest history that
// reaches it; a successor is produced by replaying that history on a fresh instance and
// applying one more operation. States are deduplicated by a canonical digest supplied by the
// system under test. Every explored trace is an execution of the implementation.
package mc

import (
	"fmt"
	"runtime/debug"
	"sync"
	"sync/atomic"

	"verif/evid"
	"verif/par"
)

// Instance is one fresh copy of the system under test together with its reference model.
type Instance interface {
	// Ops lists the operations enabled in the current state, simplest first.
	Ops() []string
	// Apply executes op on the implementation and on the reference model and evaluates the
	// oracles. A non-nil *Fail is a property violation observed at this step.
	Apply(op string) *Fail
	// Digest is the canonical form of the property-relevant state (implementation state and
	// whatever model state is not a function of it).
	Digest() string
	// Close releases resources (files, goroutines).
	Close()
}

// Fail describes a violated oracle clause.
type Fail struct {
	Signature string // stable: clause + site/class
	What      string
}

func Failf(sig, format string, a ...interface{}) *Fail {
	return &Fail{Signature: sig, What: fmt.Sprintf(format, a...)}
}

type Spec struct {
	Name     string
	New      func() Instance
	MaxDepth int
	// MaxStates caps the search (0 = none); hitting it makes the result non-exhaustive.
	MaxStates int
	// Serial disables goroutine parallelism (instances sharing process-global state).
	Serial bool
	// StopAtFail: do not expand states reached through a failing transition (default true via
	// ExpandFailed=false).
	ExpandFailed bool
}

type Result struct {
	States      int64
	Transitions int64
	Executions  int64 // fresh-instance replays (each one an implementation run)
	DepthDone   int
	Exhaustive  bool
	Capped      string
	PerDepth    []int
	DistinctObs int
	Samples     [][]string
}

type node struct {
	hist []string
}

// replay builds a fresh instance and applies hist; a failure while replaying a prefix that was
// previously clean is a determinism error.
func replay(sp *Spec, hist []string) (Instance, *Fail) {
	inst := sp.New()
	for _, op := range hist {
		if f := safeApply(inst, op); f != nil {
			return inst, f
		}
	}
	return inst, nil
}

func safeApply(inst Instance, op string) (f *Fail) {
	defer func() {
		if e := recover(); e != nil {
			st := debug.Stack()
			f = &Fail{Signature: "panic|" + evid.PanicSite(st), What: fmt.Sprintf("panic: %v", e)}
		}
	}()
	return inst.Apply(op)
}

// Explore runs the BFS and records violations on r (each confirmed by two further replays of
// the failing history; a divergence is an engine error).
func Explore(r *evid.Run, sp *Spec) *Result {
	res := &Result{Exhaustive: true}
	seen := map[string]bool{}
	var mu sync.Mutex
	root := sp.New()
	seen[root.Digest()] = true
	root.Close()
	res.States = 1
	frontier := []node{{}}
	res.PerDepth = append(res.PerDepth, 1)
	for depth := 0; depth < sp.MaxDepth && len(frontier) > 0; depth++ {
		if r.Expired() {
			res.Exhaustive = false
			res.Capped = fmt.Sprintf("time budget reached at depth %d", depth)
			break
		}
		var next []node
		var capped int32
		work := func(i int) {
			if atomic.LoadInt32(&capped) != 0 {
				return
			}
			n := frontier[i]
			base, f := replay(sp, n.hist)
			atomic.AddInt64(&res.Executions, 1)
			if f != nil {
				base.Close()
				evid.Fatalf("%s: replay of a clean prefix failed (nondeterminism): %v: %s", sp.Name, n.hist, f.What)
			}
			ops := base.Ops()
			base.Close()
			for _, op := range ops {
				inst, f := replay(sp, n.hist)
				atomic.AddInt64(&res.Executions, 1)
				if f != nil {
					inst.Close()
					evid.Fatalf("%s: replay of a clean prefix failed (nondeterminism): %v: %s", sp.Name, n.hist, f.What)
				}
				f = safeApply(inst, op)
				atomic.AddInt64(&res.Transitions, 1)
				h := append(append([]string{}, n.hist...), op)
				if f != nil {
					inst.Close()
					confirm(r, sp, h, f)
					if !sp.ExpandFailed {
						continue
					}
				}
				d := inst.Digest()
				inst.Close()
				mu.Lock()
				if !seen[d] {
					seen[d] = true
					res.States++
					next = append(next, node{hist: h})
					if len(res.Samples) < 5 && len(h) == sp.MaxDepth {
						res.Samples = append(res.Samples, h)
					}
					if sp.MaxStates > 0 && res.States >= int64(sp.MaxStates) {
						atomic.StoreInt32(&capped, 1)
					}
				}
				mu.Unlock()
			}
		}
		if sp.Serial {
			for i := range frontier {
				work(i)
			}
		} else {
			par.Go(len(frontier), work)
		}
		if capped != 0 {
			res.Exhaustive = false
			res.Capped = fmt.Sprintf("state cap %d reached at depth %d", sp.MaxStates, depth+1)
			break
		}
		res.DepthDone = depth + 1
		res.PerDepth = append(res.PerDepth, len(next))
		frontier = next
	}
	if len(res.Samples) == 0 && len(frontier) > 0 {
		for i := 0; i < len(frontier) && i < 5; i++ {
			res.Samples = append(res.Samples, frontier[i].hist)
		}
	}
	return res
}

// confirm replays the failing history twice more; both must fail with the same signature.
func confirm(r *evid.Run, sp *Spec, h []string, f *Fail) {
	for k := 0; k < 2; k++ {
		inst, f2 := replay(sp, h)
		inst.Close()
		if f2 == nil || f2.Signature != f.Signature {
			got := "<no failure>"
			if f2 != nil {
				got = f2.Signature
			}
			evid.Fatalf("%s: failing history does not reproduce (nondeterminism): %v: first %s then %s", sp.Name, h, f.Signature, got)
		}
	}
	r.Violate(f.Signature, f.What, map[string]interface{}{"system": sp.Name, "history": h})
}

// Replay re-executes one stored history without search and records its verdict.
func Replay(r *evid.Run, sp *Spec, hist []string) {
	inst, f := replay(sp, hist)
	inst.Close()
	if f != nil {
		fmt.Printf("replay: %v -> FAIL %s: %s\n", hist, f.Signature, f.What)
		r.Violate(f.Signature, f.What, map[string]interface{}{"system": sp.Name, "history": hist})
	} else {
		fmt.Printf("replay: %v -> ok\n", hist)
	}
}

// Coverage renders the model-checking evidence keys.
func (res *Result) Coverage(rule string) evid.Coverage {
	samples := []interface{}{}
	for _, s := range res.Samples {
		samples = append(samples, s)
	}
	if len(samples) == 0 {
		samples = append(samples, []string{})
	}
	return evid.Coverage{
		"states":                        res.States,
		"transitions":                   res.Transitions,
		"traces_validated_against_impl": res.Executions,
		"max_depth_completed":           res.DepthDone,
		"states_per_depth":              res.PerDepth,
		"exhaustive":                    res.Exhaustive,
		"cap":                           res.Capped,
		"rule":                          rule,
		"samples":                       samples,
	}
}
