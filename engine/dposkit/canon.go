package dposkit

import (
	"crypto/sha256"
	"encoding/hex"
	"fmt"
	"reflect"
	"sort"
	"strings"
	"unsafe"
)

// Canon renders any value as a sorted list of "path = value" lines that does not depend on Go
// map iteration order: maps are rendered by sorted key, pointers and interfaces are followed
// (interfaces are prefixed with the dynamic type), []byte and byte arrays are hex, nil and empty
// maps/slices are the same, unexported fields are included (read through unsafe), functions,
// channels and sync primitives are skipped.
//
// Options:
//   - Skip: field paths (exact, with [*] for any map key / slice index) that are not rendered.
//   - AsSet: slice paths whose element order is not meaningful (elements are sorted by their
//     own rendering).
//   - ElideZero: map paths (matched as a suffix of the generic path) whose entries with a zero
//     scalar value or an empty map/slice value are rendered as absent (additive bookkeeping maps
//     where "x -= v" on rollback leaves a zero entry behind).
//   - SkipSuffix: like Skip, matched as a suffix of the generic path.
type CanonOpts struct {
	Skip       map[string]bool
	SkipSuffix []string
	AsSet      map[string]bool
	ElideZero  []string
}

func (o *CanonOpts) elide(gpath string) bool {
	for _, s := range o.ElideZero {
		if strings.HasSuffix(gpath, s) {
			return true
		}
	}
	return false
}

func isZeroish(v reflect.Value) bool {
	for v.Kind() == reflect.Ptr || v.Kind() == reflect.Interface {
		if v.IsNil() {
			return true
		}
		v = v.Elem()
	}
	switch v.Kind() {
	case reflect.Map, reflect.Slice:
		return v.Len() == 0
	case reflect.Int, reflect.Int8, reflect.Int16, reflect.Int32, reflect.Int64:
		return v.Int() == 0
	case reflect.Uint, reflect.Uint8, reflect.Uint16, reflect.Uint32, reflect.Uint64:
		return v.Uint() == 0
	}
	return false
}

type canon struct {
	o     *CanonOpts
	lines []string
	depth int
}

// Canon returns the canonical lines of v.
func Canon(v interface{}, o *CanonOpts) []string {
	if o == nil {
		o = &CanonOpts{}
	}
	c := &canon{o: o}
	c.walk("", "", reflect.ValueOf(v))
	sort.Strings(c.lines)
	return c.lines
}

// CanonHash is the hex sha256 of the canonical lines.
func CanonHash(lines []string) string {
	h := sha256.New()
	for _, l := range lines {
		h.Write([]byte(l))
		h.Write([]byte{'\n'})
	}
	return hex.EncodeToString(h.Sum(nil))
}

// DiffLines returns lines only in a ("-") and only in b ("+"), in sorted order, at most max.
func DiffLines(a, b []string, max int) []string {
	in := func(s []string) map[string]int {
		m := map[string]int{}
		for _, l := range s {
			m[l]++
		}
		return m
	}
	ma, mb := in(a), in(b)
	var out []string
	for _, l := range a {
		if mb[l] > 0 {
			mb[l]--
			continue
		}
		out = append(out, "- "+l)
	}
	mb = in(b)
	for _, l := range b {
		if ma[l] > 0 {
			ma[l]--
			continue
		}
		out = append(out, "+ "+l)
	}
	sort.Slice(out, func(i, j int) bool { return out[i][2:] < out[j][2:] || (out[i][2:] == out[j][2:] && out[i] < out[j]) })
	if max > 0 && len(out) > max {
		out = out[:max]
	}
	return out
}

// DiffFields returns the sorted distinct generic field paths (map keys and indices replaced by
// [*]) that differ between two canonical renderings.
func DiffFields(a, b []string) []string {
	set := map[string]bool{}
	for _, l := range DiffLines(a, b, 0) {
		p := l[2:]
		if i := SepIndex(p); i >= 0 {
			p = p[:i]
		}
		set[genericPath(p)] = true
	}
	var out []string
	for k := range set {
		out = append(out, k)
	}
	sort.Strings(out)
	return out
}

// SepIndex returns the index of the " = " that separates path and value in a canonical line
// (map keys may themselves contain " = " inside brackets/braces), or -1.
func SepIndex(l string) int {
	depth := 0
	for i := 0; i+2 < len(l); i++ {
		switch l[i] {
		case '[', '{':
			depth++
		case ']', '}':
			depth--
		case ' ':
			if depth == 0 && l[i+1] == '=' && l[i+2] == ' ' {
				return i
			}
		}
	}
	return -1
}

func genericPath(p string) string {
	var sb strings.Builder
	depth := 0
	for _, r := range p {
		switch {
		case r == '[':
			if depth == 0 {
				sb.WriteString("[*")
			}
			depth++
		case r == ']':
			depth--
			if depth == 0 {
				sb.WriteRune(']')
			}
		case depth == 0:
			sb.WriteRune(r)
		}
	}
	return sb.String()
}

func (c *canon) emit(path, val string) {
	c.lines = append(c.lines, path+" = "+val)
}

// scalar renders simple values inline; ok=false for composite values.
func scalar(v reflect.Value) (string, bool) {
	switch v.Kind() {
	case reflect.Bool:
		return fmt.Sprint(v.Bool()), true
	case reflect.Int, reflect.Int8, reflect.Int16, reflect.Int32, reflect.Int64:
		return fmt.Sprint(v.Int()), true
	case reflect.Uint, reflect.Uint8, reflect.Uint16, reflect.Uint32, reflect.Uint64, reflect.Uintptr:
		return fmt.Sprint(v.Uint()), true
	case reflect.Float32, reflect.Float64:
		return fmt.Sprint(v.Float()), true
	case reflect.String:
		return fmt.Sprintf("%q", v.String()), true
	case reflect.Slice:
		if v.Type().Elem().Kind() == reflect.Uint8 {
			b := make([]byte, v.Len())
			for i := range b {
				b[i] = byte(v.Index(i).Uint())
			}
			return "0x" + hex.EncodeToString(b), true
		}
	case reflect.Array:
		if v.Type().Elem().Kind() == reflect.Uint8 {
			b := make([]byte, v.Len())
			for i := range b {
				b[i] = byte(v.Index(i).Uint())
			}
			return "0x" + hex.EncodeToString(b), true
		}
	}
	return "", false
}

// InlineKey renders a map key the way Canon does inside a path.
func InlineKey(v reflect.Value) string { return inline(readable(v), &CanonOpts{}) }

// inline renders a (small) value on one line — used for map keys and set elements.
func inline(v reflect.Value, o *CanonOpts) string {
	if s, ok := scalar(v); ok {
		return s
	}
	sub := &canon{o: &CanonOpts{}}
	sub.walk("", "", v)
	sort.Strings(sub.lines)
	return "{" + strings.Join(sub.lines, "; ") + "}"
}

func readable(v reflect.Value) reflect.Value {
	if v.CanInterface() {
		return v
	}
	if v.CanAddr() {
		return reflect.NewAt(v.Type(), unsafe.Pointer(v.UnsafeAddr())).Elem()
	}
	// copy into addressable storage
	cp := reflect.New(v.Type()).Elem()
	// cannot Set from an unexported value; fall back to formatting
	_ = cp
	return v
}

func (c *canon) walk(path, gpath string, v reflect.Value) {
	if c.o.Skip[gpath] {
		return
	}
	for _, sfx := range c.o.SkipSuffix {
		if strings.HasSuffix(gpath, sfx) {
			return
		}
	}
	if !v.IsValid() {
		c.emit(path, "nil")
		return
	}
	c.depth++
	defer func() { c.depth-- }()
	if c.depth > 40 {
		c.emit(path, "<too deep>")
		return
	}
	v = readable(v)
	if s, ok := scalar(v); ok {
		if (v.Kind() == reflect.Slice) && v.Len() == 0 {
			s = "0x"
		}
		c.emit(path, s)
		return
	}
	switch v.Kind() {
	case reflect.Ptr:
		if v.IsNil() {
			c.emit(path, "nil")
			return
		}
		c.walk(path, gpath, v.Elem())
	case reflect.Interface:
		if v.IsNil() {
			c.emit(path, "nil")
			return
		}
		e := v.Elem()
		t := e.Type()
		for t.Kind() == reflect.Ptr {
			t = t.Elem()
		}
		c.emit(path+".(type)", t.String())
		c.walk(path, gpath, e)
	case reflect.Struct:
		t := v.Type()
		if strings.HasPrefix(t.PkgPath(), "sync") {
			return
		}
		if !v.CanAddr() {
			cp := reflect.New(t).Elem()
			if v.CanInterface() {
				cp.Set(v)
				v = cp
			}
		}
		for i := 0; i < v.NumField(); i++ {
			f := t.Field(i)
			name := f.Name
			c.walk(path+"."+name, gpath+"."+name, v.Field(i))
		}
	case reflect.Map:
		type kv struct {
			k string
			v reflect.Value
		}
		var items []kv
		it := v.MapRange()
		el := c.o.elide(gpath)
		for it.Next() {
			if el && isZeroish(it.Value()) {
				continue
			}
			items = append(items, kv{inline(readable(it.Key()), c.o), it.Value()})
		}
		sort.Slice(items, func(i, j int) bool { return items[i].k < items[j].k })
		c.emit(path+".len", fmt.Sprint(len(items)))
		for _, it := range items {
			n := len(c.lines)
			c.walk(path+"["+it.k+"]", gpath+"[*]", it.v)
			if len(c.lines) == n {
				// element without fields of its own (set membership): the key is the content
				c.emit(path+"["+it.k+"]", "{}")
			}
		}
	case reflect.Slice, reflect.Array:
		n := v.Len()
		c.emit(path+".len", fmt.Sprint(n))
		if c.o.AsSet[gpath] {
			var els []string
			for i := 0; i < n; i++ {
				els = append(els, inline(readable(v.Index(i)), c.o))
			}
			sort.Strings(els)
			for i, e := range els {
				c.emit(fmt.Sprintf("%s{%d}", path, i), e)
			}
			return
		}
		for i := 0; i < n; i++ {
			c.walk(fmt.Sprintf("%s[%d]", path, i), gpath+"[*]", v.Index(i))
		}
	case reflect.Func, reflect.Chan, reflect.UnsafePointer:
		// not state
	default:
		c.emit(path, fmt.Sprintf("<%s>", v.Kind()))
	}
}
