// Package keys holds the fixed, deterministic key material of the harness and hand-assembled
// program builders (standard / multisig / cross-chain / Schnorr) plus independent signature
// primitives. Nothing in here calls the repository's crypto or contract packages: keys are
// derived with crypto/sha256 + crypto/elliptic, scripts are assembled byte by byte from the
// documented layout, ECDSA signing uses a private deterministic nonce, and verification goes
// straight to Go's crypto/ecdsa. Checks therefore can use it both to build inputs and as the
// boring reference side of an oracle.
//
// Layouts (from core/contract, crypto/common.go):
//
//	standard    : 0x21 || pub(33) || 0xAC
//	multisig    : 0x50+m || (0x21 || pub(33))*n || 0x50+n || 0xAE
//	cross-chain : 0x50+m || (0x21 || pub(33))*n || 0x50+n || 0xAF
//	schnorr     : 0x51 || 0x21 || pub(33)
//	standard parameter : 0x40 || r(32) || s(32);  multisig parameter: that, repeated
package keys

import (
	"crypto/ecdsa"
	"crypto/elliptic"
	crand "crypto/rand"
	"crypto/sha256"
	"encoding/binary"
	"fmt"
	"math/big"
	mrand "math/rand"

	"golang.org/x/crypto/ripemd160"
)

// Count is the number of fixed keys.
const Count = 16

// Script opcodes / address prefixes (documented constants, not imported from the repository).
const (
	OpPush1         = 0x51
	OpCheckSig      = 0xAC
	OpCheckMultiSig = 0xAE
	OpCrossChain    = 0xAF

	PrefixStandard   = 0x21
	PrefixMultiSig   = 0x12
	PrefixCrossChain = 0x4B
	PrefixDeposit    = 0x1F
	PrefixCRDID      = 0x67
	PrefixDPoSV2     = 0x3F
)

var (
	curve = elliptic.P256()
	n     = curve.Params().N
	p     = curve.Params().P

	ds   [Count]*big.Int
	pubX [Count]*big.Int
	pubY [Count]*big.Int
)

func init() {
	for i := 0; i < Count; i++ {
		h := sha256.Sum256([]byte(fmt.Sprintf("verif-harness-key-%d", i)))
		d := new(big.Int).SetBytes(h[:])
		d.Mod(d, new(big.Int).Sub(n, big.NewInt(1)))
		d.Add(d, big.NewInt(1))
		ds[i] = d
		pubX[i], pubY[i] = curve.ScalarBaseMult(pad32(d))
	}
}

func pad32(v *big.Int) []byte {
	b := v.Bytes()
	out := make([]byte, 32)
	copy(out[32-len(b):], b)
	return out
}

// D is the private scalar of key i.
func D(i int) *big.Int { return new(big.Int).Set(ds[i]) }

// Priv is the 32-byte big-endian private key i.
func Priv(i int) []byte { return pad32(ds[i]) }

// XY returns the affine public point of key i.
func XY(i int) (*big.Int, *big.Int) { return new(big.Int).Set(pubX[i]), new(big.Int).Set(pubY[i]) }

// Compress encodes an affine point in the 33-byte SEC1 compressed form.
func Compress(x, y *big.Int) []byte {
	out := make([]byte, 33)
	out[0] = 2 + byte(y.Bit(0))
	copy(out[1:], pad32(x))
	return out
}

// Pub is the 33-byte compressed public key i.
func Pub(i int) []byte { return Compress(pubX[i], pubY[i]) }

// Pubs maps key indices to compressed public keys.
func Pubs(idx ...int) [][]byte {
	out := make([][]byte, len(idx))
	for k, i := range idx {
		out[k] = Pub(i)
	}
	return out
}

// AggregateD is the sum of the private scalars mod N (the private key matching AggregatePub).
func AggregateD(idx ...int) *big.Int {
	s := new(big.Int)
	for _, i := range idx {
		s.Add(s, ds[i])
	}
	return s.Mod(s, n)
}

// AggregatePub is the compressed sum of the public points of the given keys.
func AggregatePub(idx ...int) []byte {
	x, y := curve.ScalarBaseMult(pad32(AggregateD(idx...)))
	return Compress(x, y)
}

// StandardCode assembles 0x21 || pub || CHECKSIG.
func StandardCode(pub []byte) []byte {
	out := append([]byte{byte(len(pub))}, pub...)
	return append(out, OpCheckSig)
}

func mofn(m int, pubs [][]byte, last byte) []byte {
	out := []byte{byte(OpPush1 + m - 1)}
	for _, pk := range pubs {
		out = append(out, byte(len(pk)))
		out = append(out, pk...)
	}
	out = append(out, byte(OpPush1+len(pubs)-1), last)
	return out
}

// MultiSigCode assembles an m-of-n multisig script over pubs in the given order.
func MultiSigCode(m int, pubs ...[]byte) []byte { return mofn(m, pubs, OpCheckMultiSig) }

// CrossChainCode assembles an m-of-n cross-chain script over pubs in the given order.
func CrossChainCode(m int, pubs ...[]byte) []byte { return mofn(m, pubs, OpCrossChain) }

// SchnorrCode assembles PUSH1 || 0x21 || pub.
func SchnorrCode(pub []byte) []byte {
	return append([]byte{OpPush1, byte(len(pub))}, pub...)
}

// CodeHash is ripemd160(sha256(code)).
func CodeHash(code []byte) [20]byte {
	h := sha256.Sum256(code)
	r := ripemd160.New()
	r.Write(h[:])
	var out [20]byte
	copy(out[:], r.Sum(nil))
	return out
}

// ProgramHash is prefix || ripemd160(sha256(code)).
func ProgramHash(prefix byte, code []byte) [21]byte {
	var out [21]byte
	out[0] = prefix
	ch := CodeHash(code)
	copy(out[1:], ch[:])
	return out
}

// nonce derives a deterministic per-(key, digest, variant) scalar in [1, N-1].
func nonce(d *big.Int, digest []byte, variant int) *big.Int {
	var v [8]byte
	binary.BigEndian.PutUint64(v[:], uint64(variant))
	for ctr := 0; ; ctr++ {
		h := sha256.New()
		h.Write([]byte("verif-nonce"))
		h.Write(pad32(d))
		h.Write(digest)
		h.Write(v[:])
		h.Write([]byte{byte(ctr)})
		k := new(big.Int).SetBytes(h.Sum(nil))
		if k.Sign() > 0 && k.Cmp(n) < 0 {
			return k
		}
	}
}

// SignDigestD signs a 32-byte digest with private scalar d (textbook ECDSA, deterministic
// nonce). variant selects a different nonce, so one key can produce several distinct valid
// signatures over the same data.
func SignDigestD(d *big.Int, digest []byte, variant int) []byte {
	z := new(big.Int).SetBytes(digest)
	for {
		k := nonce(d, digest, variant)
		rx, _ := curve.ScalarBaseMult(pad32(k))
		r := new(big.Int).Mod(rx, n)
		kinv := new(big.Int).ModInverse(k, n)
		s := new(big.Int).Mul(r, d)
		s.Add(s, z)
		s.Mul(s, kinv)
		s.Mod(s, n)
		if r.Sign() == 0 || s.Sign() == 0 {
			variant += 1 << 20
			continue
		}
		out := make([]byte, 64)
		copy(out[:32], pad32(r))
		copy(out[32:], pad32(s))
		return out
	}
}

// Sign returns the 64-byte r||s ECDSA signature of sha256(data) under key i.
func Sign(i int, data []byte, variant int) []byte {
	dg := sha256.Sum256(data)
	return SignDigestD(ds[i], dg[:], variant)
}

// SigParam wraps 64-byte signatures as 0x40||sig each, concatenated.
func SigParam(sigs ...[]byte) []byte {
	out := make([]byte, 0, 65*len(sigs))
	for _, s := range sigs {
		out = append(out, byte(len(s)))
		out = append(out, s...)
	}
	return out
}

// VerifyECDSA is the independent reference verifier: compressed P-256 key, sha256(data),
// 64-byte r||s, decided by Go's crypto/ecdsa.
func VerifyECDSA(pub33 []byte, data []byte, sig []byte) bool {
	if len(sig) != 64 || len(pub33) != 33 {
		return false
	}
	x, y := elliptic.UnmarshalCompressed(curve, pub33)
	if x == nil {
		return false
	}
	dg := sha256.Sum256(data)
	r := new(big.Int).SetBytes(sig[:32])
	s := new(big.Int).SetBytes(sig[32:])
	return ecdsa.Verify(&ecdsa.PublicKey{Curve: curve, X: x, Y: y}, dg[:], r, s)
}

func jacobiIsOne(y *big.Int) bool { return big.Jacobi(y, p) == 1 }

func schnorrE(rx *big.Int, pub33 []byte, msg [32]byte) *big.Int {
	h := sha256.New()
	h.Write(pad32(rx))
	h.Write(pub33)
	h.Write(msg[:])
	e := new(big.Int).SetBytes(h.Sum(nil))
	return e.Mod(e, n)
}

// SignSchnorrD produces the 64-byte Schnorr signature r||s of msg under private scalar d:
// R = kG with Jacobi(Ry)=1 (k negated otherwise), e = H(Rx || compressed(P) || msg), s = k+e*d.
func SignSchnorrD(d *big.Int, msg [32]byte, variant int) [64]byte {
	px, py := curve.ScalarBaseMult(pad32(d))
	pub := Compress(px, py)
	k := nonce(d, msg[:], variant+7777)
	rx, ry := curve.ScalarBaseMult(pad32(k))
	if !jacobiIsOne(ry) {
		k.Sub(n, k)
	}
	e := schnorrE(rx, pub, msg)
	s := new(big.Int).Mul(e, d)
	s.Add(s, k)
	s.Mod(s, n)
	var out [64]byte
	copy(out[:32], pad32(rx))
	copy(out[32:], pad32(s))
	return out
}

// VerifySchnorr is the textbook check s*G == R + e*P with Rx == r and Ry a quadratic residue.
func VerifySchnorr(pub33 []byte, msg [32]byte, sig []byte) bool {
	if len(sig) != 64 || len(pub33) != 33 {
		return false
	}
	px, py := elliptic.UnmarshalCompressed(curve, pub33)
	if px == nil {
		return false
	}
	r := new(big.Int).SetBytes(sig[:32])
	s := new(big.Int).SetBytes(sig[32:])
	if r.Cmp(p) >= 0 || s.Cmp(n) >= 0 {
		return false
	}
	e := schnorrE(r, pub33, msg)
	sgx, sgy := curve.ScalarBaseMult(pad32(s))
	// R = sG - eP = sG + (N-e)P
	ne := new(big.Int).Sub(n, e)
	ne.Mod(ne, n)
	var rx, ry *big.Int
	if ne.Sign() == 0 {
		rx, ry = sgx, sgy
	} else {
		epx, epy := curve.ScalarMult(px, py, pad32(ne))
		if s.Sign() == 0 {
			rx, ry = epx, epy
		} else {
			rx, ry = curve.Add(sgx, sgy, epx, epy)
		}
	}
	if rx.Sign() == 0 && ry.Sign() == 0 {
		return false
	}
	return jacobiIsOne(ry) && rx.Cmp(r) == 0
}

type constReader byte

func (c constReader) Read(b []byte) (int, error) {
	for i := range b {
		b[i] = byte(c)
	}
	return len(b), nil
}

// FixRand replaces crypto/rand.Reader by a constant byte stream and seeds the global
// math/rand source, so that the repository's own signing functions (crypto.Sign uses
// crypto/rand, AggregateSignatures uses math/rand) produce the same bytes on every run.
// Verification verdicts never depend on this; it only makes outputs reproducible.
func FixRand() {
	crand.Reader = constReader(0x5a)
	mrand.Seed(20260921)
}
