// C02: decoding untrusted bytes never crashes or over-allocates.
//
// Bounded-exhaustive enumeration against the repository's real decoders: for every seed (each
// transaction type × payload version, Block, DposBlock, Header, AuxPow, Confirm, every p2p/msg and
// dpos/p2p/msg message — all produced by the repository's own serialisers) every truncation,
// every single-field substitution over the boundary alphabet (fields are discovered by a tracking
// reader from the decoder's own Read calls), every single-byte substitution over a 16-value
// alphabet; in the thorough tier every pair of fields and all 256 byte values.
// Oracle: the decoder returns (value | error), never panics, and the bytes it allocates
// (runtime.MemStats.TotalAlloc delta, single goroutine, worker subprocess under ulimit -v) stay
// below 64·len(input) + 24 MiB.
package main

import (
	"encoding/hex"
	"encoding/json"
	"fmt"
	"os"
	"runtime"
	"runtime/debug"
	"sort"
	"strconv"
	"strings"
	"time"

	"verif/evid"
	"verif/hx"
	"verif/par"
	"verif/wire"
)

const (
	// allocation bound: 64·len + allocConst. The constant covers the decoders that pre-size from a
	// *checked* count or length: ReadVarString's 16 MiB cap (one failed read of a maximal string),
	// ReadVarBytes up to MaxBlockContextSize (8 MB), inv 50 000 × 44 B, merkleblock 10 000 hashes.
	allocConst   = 24 << 20
	allocPerByte = 64
	// a decoder that keeps calling Read this many times in a row after the input is exhausted is
	// cut off (sentinel panic raised by the harness reader, recovered by the harness); what it
	// allocated until then is measured like any other case.
	eofReadCap  = 1 << 20
	workerMemMB = 2048
	learnMin    = 1 << 16 // only counts at least this large are learned as allocation sizes
)

type eofLoop struct{}
type suppressed struct{ site string }

// outcome of one decode
type outcome struct {
	Class    string // ok | err | panic | eofloop | suppressed
	Reads    int
	Alloc    uint64
	PanicAt  string
	PanicMsg string
	SupSite  string
}

var ms runtime.MemStats

func totalAlloc() uint64 {
	runtime.ReadMemStats(&ms)
	return ms.TotalAlloc
}

// capTracker wraps the tracker with the EOF-loop cut-off.
type capTracker struct {
	*wire.Tracker
	eofRun int
}

func (c *capTracker) Read(p []byte) (int, error) {
	n, err := c.Tracker.Read(p)
	if n == 0 && len(p) > 0 {
		c.eofRun++
		if c.eofRun >= eofReadCap {
			panic(eofLoop{})
		}
	} else {
		c.eofRun = 0
	}
	return n, err
}

func panicClass(msg string) string {
	switch {
	case strings.Contains(msg, "makeslice"):
		return "makeslice"
	case strings.Contains(msg, "index out of range"):
		return "index out of range"
	case strings.Contains(msg, "slice bounds out of range"):
		return "slice bounds out of range"
	case strings.Contains(msg, "nil pointer"):
		return "nil pointer dereference"
	case strings.Contains(msg, "divide by zero"):
		return "integer divide by zero"
	case strings.Contains(msg, "interface conversion"):
		return "interface conversion"
	}
	if len(msg) > 60 {
		msg = msg[:60]
	}
	return msg
}

// known maps a read site whose value is used, unchecked, as an allocation size (established by a
// measured violation) to the smallest value seen to violate. Allocation grows with the count, so
// any case that reads a value at least that large at that site is the same violation; it is
// stopped at that read (so that the worker survives) and counted under the same signature.
type known map[string]uint64

func (k known) min() uint64 {
	m := ^uint64(0)
	for _, v := range k {
		if v < m {
			m = v
		}
	}
	return m
}

func (k known) learn(site string, v uint64) bool {
	if site == "" || v < learnMin {
		return false
	}
	if cur, ok := k[site]; !ok || v < cur {
		k[site] = v
		return true
	}
	return false
}

func (k known) clone() known {
	o := known{}
	for a, b := range k {
		o[a] = b
	}
	return o
}

// decode runs the seed's decoder on input and measures it. For decoders that cannot take the
// tracking reader (DecodeBuf) the io.Reader twin is run first under the guard.
func decode(s *wire.Seed, input []byte, t *wire.Tracker, kn known) (o outcome) {
	if s.DecodeBuf != nil && len(kn) > 0 {
		tt := wire.NewTracker(input)
		tt.NoTrace = true
		if po := decode(s.TrackedTwin, input, tt, kn); po.Class == "suppressed" {
			return po
		}
	}
	ct := &capTracker{Tracker: t}
	if len(kn) > 0 && s.DecodeBuf == nil {
		lo := kn.min()
		t.Guard = func(rd *wire.Rd, val uint64) {
			if val < lo {
				return
			}
			site := t.SiteHere()
			if mv, ok := kn[site]; ok && val >= mv {
				panic(suppressed{site})
			}
		}
	}
	a0 := totalAlloc()
	func() {
		defer func() {
			if e := recover(); e != nil {
				switch x := e.(type) {
				case eofLoop:
					o.Class = "eofloop"
				case suppressed:
					o.Class = "suppressed"
					o.SupSite = x.site
				default:
					o.Class = "panic"
					o.PanicMsg = fmt.Sprint(e)
					o.PanicAt = evid.PanicSite(debug.Stack())
				}
			}
		}()
		var err error
		if s.DecodeBuf != nil {
			_, err = s.Run(input, nil)
		} else {
			if s.Setup != nil {
				s.Setup()
			}
			_, err = s.Decode(ct)
		}
		if err != nil {
			o.Class = "err"
		} else {
			o.Class = "ok"
		}
	}()
	a1 := totalAlloc()
	o.Alloc = a1 - a0
	o.Reads = t.Reads
	if o.Alloc > 16<<20 {
		runtime.GC() // give the address space back before the next large case
	}
	return o
}

func bound(n int) uint64 { return uint64(allocPerByte*n) + allocConst }

// ---------------------------------------------------------------------------------------------
// case enumeration (identical in parent and worker)

type caseGen struct {
	seed   []byte
	fields []wire.Field
	tier   string
}

// each calls f for every case of the seed, in a fixed order, starting at case index `from`; f
// returns false to stop. It returns the number of cases visited or skipped.
func (g *caseGen) each(from int, f func(idx int, kind, label string, input []byte) bool) int {
	idx := 0
	emit := func(kind, label string, mk func() []byte) bool {
		if idx >= from {
			if !f(idx, kind, label, mk()) {
				return false
			}
		}
		idx++
		return true
	}
	// 1. every truncation
	for l := 0; l < len(g.seed); l++ {
		l := l
		if !emit("trunc", strconv.Itoa(l), func() []byte { return append([]byte{}, g.seed[:l]...) }) {
			return idx
		}
	}
	// 2. every single-field substitution
	for fi, fd := range g.fields {
		for _, sb := range wire.FieldSubsts(g.seed, fd) {
			sb := sb
			if !emit("field", fmt.Sprintf("f%d@%d:%s", fi, fd.Off, sb.Label), func() []byte { return wire.Apply(g.seed, sb) }) {
				return idx
			}
		}
	}
	// 3. every single-byte substitution
	alpha := wire.ByteAlphabet16
	if g.tier == "thorough" {
		alpha = make([]byte, 256)
		for i := range alpha {
			alpha[i] = byte(i)
		}
	}
	for p := 0; p < len(g.seed); p++ {
		for _, v := range alpha {
			if v == g.seed[p] {
				continue
			}
			p, v := p, v
			if !emit("byte", fmt.Sprintf("%d=%02x", p, v), func() []byte {
				b := append([]byte{}, g.seed...)
				b[p] = v
				return b
			}) {
				return idx
			}
		}
	}
	// 4. thorough: every pair of fields over the reduced menu
	if g.tier == "thorough" {
		for i := 0; i < len(g.fields); i++ {
			si := wire.PairSubsts(g.seed, g.fields[i])
			for j := i + 1; j < len(g.fields); j++ {
				if g.fields[j].Off < g.fields[i].Off+g.fields[i].N {
					continue
				}
				sj := wire.PairSubsts(g.seed, g.fields[j])
				for _, a := range si {
					for _, b := range sj {
						a, b := a, b
						if !emit("pair", fmt.Sprintf("f%d:%s,f%d:%s", i, a.Label, j, b.Label), func() []byte { return wire.Apply(g.seed, a, b) }) {
							return idx
						}
					}
				}
			}
		}
	}
	return idx
}

// baseline decodes the unmodified seed with site tracking.
func baseline(s *wire.Seed) (trace []wire.Rd, ok bool) {
	src := s
	if s.TrackedTwin != nil {
		src = s.TrackedTwin
	}
	t := wire.NewTracker(src.Bytes)
	t.Sites = true
	if src.Setup != nil {
		src.Setup()
	}
	_, err := src.Decode(t)
	return t.Trace, err == nil && t.Remaining() == 0
}

// ---------------------------------------------------------------------------------------------
// diagnosis: find the read after which the allocation (or the allocation panic) happened

type diagResult struct {
	Signature string `json:"signature"`
	What      string `json:"what"`
	Class     string `json:"class"`
	Alloc     uint64 `json:"alloc"`
	Site      string `json:"site,omitempty"`   // learnable count site
	MinVal    uint64 `json:"minval,omitempty"` // the value read there
}

func rdValue(input []byte, rd wire.Rd) uint64 {
	if rd.Got == rd.N && (rd.N == 2 || rd.N == 4 || rd.N == 8) && rd.Off+rd.N <= len(input) {
		return wire.LEValue(input[rd.Off : rd.Off+rd.N])
	}
	return 0
}

// soleLargeRead: when the untracked decoder misbehaves on its own, the culprit count is named by
// the twin's trace if exactly one site read a large value.
func soleLargeRead(s *wire.Seed, input []byte) (string, uint64) {
	t := wire.NewTracker(input)
	t.Sites = true
	func() {
		defer func() { recover() }()
		if s.Setup != nil {
			s.Setup()
		}
		s.Decode(&capTracker{Tracker: t})
	}()
	site, val, n := "", uint64(0), 0
	for _, rd := range t.Trace {
		if v := rdValue(input, rd); v >= learnMin {
			if rd.Site != site {
				n++
			}
			site, val = rd.Site, v
		}
	}
	if n == 1 {
		return site, val
	}
	return "", 0
}

func diagnose(s *wire.Seed, input []byte, announce bool) diagResult {
	if s.DecodeBuf != nil {
		// untracked decoder (takes *bytes.Buffer): if its io.Reader twin misbehaves on the same
		// bytes the defect is shared and carries the twin's signature; otherwise it is the
		// untracked decoder's own.
		tw := diagnose(s.TrackedTwin, input, announce)
		if tw.Signature != "" {
			return tw
		}
		site, val := soleLargeRead(s.TrackedTwin, input)
		if announce {
			par.Announce(fmt.Sprintf("site:%s|self@%s#%d", s.Name, site, val))
		}
		t := wire.NewTracker(input)
		t.NoTrace = true
		o := decode(s, input, t, nil)
		bad := o.Class == "panic" || o.Alloc > bound(len(input))
		switch {
		case o.Class == "panic" && panicClass(o.PanicMsg) != "makeslice":
			return diagResult{Signature: "C02|panic|" + o.PanicAt + "|" + panicClass(o.PanicMsg), Class: "panic", Alloc: o.Alloc,
				What: fmt.Sprintf("%s panics: %s", s.Name, o.PanicMsg)}
		case bad:
			return diagResult{Signature: "C02|alloc|" + s.Name + "|self", Class: "alloc", Alloc: o.Alloc, Site: site, MinVal: val,
				What: fmt.Sprintf("%s allocates from an unchecked wire count (%d bytes allocated for %d input bytes %s) where the io.Reader decoder of the same layout does not; count read at %s", s.Name, o.Alloc, len(input), o.PanicMsg, site)}
		}
		return diagResult{}
	}
	t := wire.NewTracker(input)
	t.Sites = true
	var allocAt []uint64
	eofRun, maxEofRun := 0, 0
	t.OnRead = func(i int, rd *wire.Rd) {
		if rd.Got == 0 && rd.N > 0 {
			eofRun++
			if eofRun > maxEofRun {
				maxEofRun = eofRun
			}
			if eofRun > 4096 {
				// enough to name the loop; do not record a million trace entries
				t.NoTrace = true
				t.Sites = false
				return
			}
		} else {
			eofRun = 0
		}
		if announce {
			par.Announce(fmt.Sprintf("site:%s#%d", rd.Site, rdValue(input, *rd)))
		}
		allocAt = append(allocAt, totalAlloc())
	}
	o := decode(s, input, t, nil)
	end := totalAlloc()
	tr := t.Trace
	last := wire.Rd{Site: "none|field=?"}
	if len(tr) > 0 {
		last = tr[len(tr)-1]
	}
	over := o.Alloc > bound(len(input))
	switch {
	case o.Class == "panic" && panicClass(o.PanicMsg) != "makeslice":
		return diagResult{Signature: "C02|panic|" + o.PanicAt + "|" + panicClass(o.PanicMsg), Class: "panic", Alloc: o.Alloc,
			What: fmt.Sprintf("decoder panics at %s: %s", o.PanicAt, o.PanicMsg)}
	case o.Class == "panic":
		return diagResult{Signature: "C02|alloc|" + last.Site, Class: "alloc", Alloc: o.Alloc, Site: last.Site, MinVal: rdValue(input, last),
			What: fmt.Sprintf("slice sized from the unchecked wire value read at %s: %s", last.Site, o.PanicMsg)}
	case over && maxEofRun > 1000:
		return diagResult{Signature: "C02|alloc|eof-loop|" + last.Site, Class: "alloc", Alloc: o.Alloc,
			What: fmt.Sprintf("decoder keeps looping (and appending) after the input is exhausted: the read at %s fails with EOF and the error is ignored; %d bytes allocated for %d input bytes", last.Site, o.Alloc, len(input))}
	case over:
		// the read that completed just before the largest allocation jump
		best, bestJump := -1, uint64(0)
		for i := range allocAt {
			nxt := end
			if i+1 < len(allocAt) {
				nxt = allocAt[i+1]
			}
			if nxt > allocAt[i] && nxt-allocAt[i] > bestJump {
				best, bestJump = i, nxt-allocAt[i]
			}
		}
		if best < 0 || best >= len(tr) || bestJump < 1<<20 {
			return diagResult{Signature: "C02|alloc|gradual|" + last.Site, Class: "alloc", Alloc: o.Alloc,
				What: fmt.Sprintf("%d bytes allocated for %d input bytes without a single large allocation (last read %s)", o.Alloc, len(input), last.Site)}
		}
		c := tr[best]
		return diagResult{Signature: "C02|alloc|" + c.Site, Class: "alloc", Alloc: o.Alloc, Site: c.Site, MinVal: rdValue(input, c),
			What: fmt.Sprintf("%d bytes allocated for %d input bytes right after the wire value read at %s (unchecked count used as an allocation size)", o.Alloc, len(input), c.Site)}
	}
	return diagResult{}
}

// ---------------------------------------------------------------------------------------------
// worker

type artefact struct {
	Seed   string `json:"seed"`
	Kind   string `json:"kind"`
	Label  string `json:"label"`
	Input  string `json:"input_hex"`
	Alloc  uint64 `json:"alloc_bytes,omitempty"`
	Detail string `json:"detail,omitempty"`
}

type job struct {
	Op    string `json:"op"` // enum | diag
	Seed  int    `json:"seed"`
	From  int    `json:"from"`
	To    int    `json:"to,omitempty"` // exclusive; 0 = to the end
	Known known  `json:"known,omitempty"`
	Input string `json:"input,omitempty"`
}

type workerOut struct {
	Seed       string           `json:"seed"`
	Cases      int              `json:"cases"`
	Done       bool             `json:"done"`
	Invalid    bool             `json:"invalid"`
	Classes    map[string]int   `json:"classes"`
	Kinds      map[string]int   `json:"kinds"`
	Fields     int              `json:"fields"`
	MaxAlloc   uint64           `json:"max_alloc"`
	Violations []evid.Violation `json:"violations"`
	Known      known            `json:"known,omitempty"`
	Diag       *diagResult      `json:"diag,omitempty"`
}

func seedByIndex(i int) *wire.Seed {
	seeds, _ := wire.AllSeeds()
	if i < 0 || i >= len(seeds) {
		evid.Fatalf("seed index %d out of range", i)
	}
	return seeds[i]
}

func runWorker(r *evid.Run, js string) {
	var j job
	if err := json.Unmarshal([]byte(js), &j); err != nil {
		evid.Fatalf("job: %v", err)
	}
	s := seedByIndex(j.Seed)
	switch j.Op {
	case "enum":
		out := workerOut{Seed: s.Name, Classes: map[string]int{}, Kinds: map[string]int{}, Known: j.Known.clone()}
		tr, ok := baseline(s)
		if !ok {
			out.Done, out.Invalid = true, true
			par.Emit(out)
			return
		}
		fields := wire.Fields(tr)
		out.Fields = len(fields)
		g := &caseGen{seed: s.Bytes, fields: fields, tier: r.Tier}
		vidx := map[string]int{}
		addViol := func(sig, what string, art artefact) {
			if i, ok := vidx[sig]; ok {
				out.Violations[i].Count++
				return
			}
			vidx[sig] = len(out.Violations)
			out.Violations = append(out.Violations, evid.Violation{Signature: sig, What: what, Count: 1, Artefact: art})
		}
		completed := true
		g.each(j.From, func(idx int, kind, label string, input []byte) bool {
			if j.To > 0 && idx >= j.To {
				return false
			}
			par.Announce(fmt.Sprintf("%d:%d:%s:%s", j.Seed, idx, kind, label))
			t := wire.NewTracker(input)
			t.NoTrace = true
			o := decode(s, input, t, out.Known)
			out.Cases++
			out.Kinds[kind]++
			cls := o.Class
			if cls == "err" || cls == "ok" {
				cls = fmt.Sprintf("%s@%d", cls, o.Reads)
			}
			out.Classes[cls]++
			if o.Alloc > out.MaxAlloc {
				out.MaxAlloc = o.Alloc
			}
			switch {
			case o.Class == "suppressed":
				sig := "C02|alloc|" + o.SupSite
				if s.DecodeBuf != nil {
					if _, own := out.Known["self@"+o.SupSite]; own {
						sig = "C02|alloc|" + s.Name + "|self"
					}
				}
				addViol(sig, "", artefact{Seed: s.Name, Kind: kind, Label: label, Input: hex.EncodeToString(input), Detail: "stopped at the read of the count (site already shown to allocate from it)"})
			case o.Class == "panic" || o.Alloc > bound(len(input)):
				d := diagnose(s, input, false)
				if d.Signature == "" {
					// not reproduced on the second run: engine problem, never a verdict
					evid.Fatalf("violation on %s case %d (%s %s) did not reproduce under diagnosis", s.Name, idx, kind, label)
				}
				addViol(d.Signature, d.What, artefact{Seed: s.Name, Kind: kind, Label: label, Input: hex.EncodeToString(input), Alloc: d.Alloc})
				if out.Known.learn(d.Site, d.MinVal) && strings.HasSuffix(d.Signature, "|self") {
					out.Known["self@"+d.Site] = d.MinVal
				}
			}
			if r.Expired() {
				completed = false
				return false
			}
			return true
		})
		out.Done = completed
		par.Emit(out)
	case "diag":
		// single case, announcing every read site and value, so that the parent can name the
		// culprit even if this process is killed by the allocation.
		input, err := hex.DecodeString(j.Input)
		if err != nil {
			evid.Fatalf("diag: bad hex")
		}
		par.Announce("site:none|field=?#0")
		d := diagnose(s, input, true)
		par.Emit(workerOut{Seed: s.Name, Diag: &d, Done: true})
	default:
		evid.Fatalf("unknown job %q", js)
	}
}

func jobString(j job) string {
	b, _ := json.Marshal(j)
	return string(b)
}

// diagInSubprocess runs one input in a fresh worker and turns a death into a signature.
func diagInSubprocess(scr string, si int, s *wire.Seed, input []byte) diagResult {
	res := par.Procs([]string{jobString(job{Op: "diag", Seed: si, Input: hex.EncodeToString(input)})}, scr, par.Opts{MemMB: workerMemMB, Timeout: 5 * time.Minute, Parallel: 1})
	r0 := res[0]
	if !r0.Died {
		var wo workerOut
		if err := json.Unmarshal(r0.Out, &wo); err != nil || wo.Diag == nil {
			evid.Fatalf("diag worker output: %v %s", err, r0.Stderr)
		}
		return *wo.Diag
	}
	if r0.TimedOut {
		evid.Fatalf("diag worker timed out on %s", s.Name)
	}
	if !strings.HasPrefix(r0.Announced, "site:") {
		evid.Fatalf("diag worker died without announcing a site: %s", r0.Stderr)
	}
	site := strings.TrimPrefix(r0.Announced, "site:")
	var val uint64
	if k := strings.LastIndex(site, "#"); k >= 0 {
		val, _ = strconv.ParseUint(site[k+1:], 10, 64)
		site = site[:k]
	}
	fatal := "killed"
	if strings.Contains(r0.Stderr, "out of memory") || strings.Contains(r0.Stderr, "cannot allocate memory") {
		fatal = "fatal error: out of memory"
	}
	if k := strings.Index(site, "|self@"); k >= 0 {
		// the untracked decoder died on its own (its twin had finished cleanly)
		name, csite := site[:k], site[k+len("|self@"):]
		return diagResult{Signature: "C02|alloc|" + name + "|self", Class: "alloc", Site: csite, MinVal: val,
			What: fmt.Sprintf("%s dies (%s under a %d MiB address-space limit) allocating from an unchecked wire count where the io.Reader decoder of the same layout does not; count read at %s", name, fatal, workerMemMB, csite)}
	}
	return diagResult{Signature: "C02|alloc|" + site, Class: "alloc", Site: site, MinVal: val,
		What: fmt.Sprintf("decoder process dies (%s under a %d MiB address-space limit) right after the wire value read at %s (unchecked count used as an allocation size)", fatal, workerMemMB, site)}
}

// ---------------------------------------------------------------------------------------------

type pend struct {
	si, from, to int
	known        known
}

func main() {
	r := evid.Start("C02", "exploration")
	scr := evid.Scratch("c02")
	defer os.RemoveAll(scr)
	if js, ok := par.Worker(); ok {
		hx.QuietLogs(scr)
		runWorker(r, js)
		os.RemoveAll(scr)
		return
	}
	hx.QuietLogs(scr)
	seeds, skipped := wire.AllSeeds()
	if len(os.Args) > 1 && os.Args[1] == "--seeds" {
		listSeeds(seeds, skipped)
		os.RemoveAll(scr)
		return
	}
	if r.Replay != "" {
		replay(r, scr, seeds)
		return
	}

	var pending []pend
	invalid := []string{}
	only := os.Getenv("VERIF_C02_ONLY") // debugging aid: restrict to seeds whose name contains this
	for i, s := range seeds {
		if only != "" && !strings.Contains(s.Name, only) {
			continue
		}
		if err := s.Validate(); err != nil {
			invalid = append(invalid, s.Name+": "+err.Error())
			continue
		}
		pending = append(pending, pend{si: i, known: known{}})
	}
	type seedStat struct {
		Cases, Fields int
		MaxAlloc      uint64
		Classes       map[string]int
		Kinds         map[string]int
	}
	perSeed := map[string]*seedStat{}
	stat := func(n string) *seedStat {
		ws := perSeed[n]
		if ws == nil {
			ws = &seedStat{Classes: map[string]int{}, Kinds: map[string]int{}}
			perSeed[n] = ws
		}
		return ws
	}
	exhaustive := true
	deaths := 0
	whatOf := map[string]string{}
	type lateViol struct{ v evid.Violation }
	var late []lateViol
	for rounds := 0; len(pending) > 0; rounds++ {
		if rounds > 2000 {
			evid.Fatalf("too many restart rounds")
		}
		jobs := make([]string, len(pending))
		for i, p := range pending {
			jobs[i] = jobString(job{Op: "enum", Seed: p.si, From: p.from, To: p.to, Known: p.known})
		}
		results := par.Procs(jobs, scr, par.Opts{MemMB: workerMemMB, Timeout: 40 * time.Minute, Env: []string{"GOMAXPROCS=2"}})
		var next []pend
		for i, res := range results {
			p := pending[i]
			s := seeds[p.si]
			ws := stat(s.Name)
			if res.Died {
				if res.TimedOut {
					evid.Fatalf("worker for %s timed out (announced %q)", s.Name, res.Announced)
				}
				// the announced case killed the worker: out-of-memory or a fatal runtime error
				a := strings.SplitN(res.Announced, ":", 4)
				if len(a) < 4 {
					evid.Fatalf("worker for %s died without announcing a case: %s", s.Name, res.Stderr)
				}
				idx, _ := strconv.Atoi(a[1])
				deaths++
				tr, _ := baseline(s)
				g := &caseGen{seed: s.Bytes, fields: wire.Fields(tr), tier: r.Tier}
				var input []byte
				g.each(idx, func(_ int, kind, label string, in []byte) bool { input = in; return false })
				d := diagInSubprocess(scr, p.si, s, input)
				if d.Signature == "" {
					evid.Fatalf("worker for %s died on case %s but the case is clean when re-run alone: %s", s.Name, res.Announced, res.Stderr)
				}
				art := artefact{Seed: s.Name, Kind: a[2], Label: a[3], Input: hex.EncodeToString(input), Detail: "worker process died on this input"}
				kn := p.known.clone()
				learned := kn.learn(d.Site, d.MinVal)
				if learned && strings.HasSuffix(d.Signature, "|self") {
					kn["self@"+d.Site] = d.MinVal
				}
				whatOf[d.Signature] = d.What
				if learned {
					// the worker's counters for [from, idx) died with it: run the segment again
					// with the guard armed; the killer is then stopped at the read of the count
					// and counted once. Keep the artefact of the unguarded death.
					late = append(late, lateViol{evid.Violation{Signature: d.Signature, What: d.What, Count: 0, Artefact: art}})
					next = append(next, pend{si: p.si, from: p.from, to: p.to, known: kn})
				} else {
					// cannot be guarded: count the killer here, re-run the prefix bounded, and
					// continue behind the killer
					r.Violate(d.Signature, d.What, art)
					ws.Cases++
					ws.Kinds[a[2]]++
					ws.Classes["died"]++
					if idx > p.from {
						next = append(next, pend{si: p.si, from: p.from, to: idx, known: kn})
					}
					if p.to == 0 || idx+1 < p.to {
						next = append(next, pend{si: p.si, from: idx + 1, to: p.to, known: kn})
					}
				}
				continue
			}
			var wo workerOut
			if err := json.Unmarshal(res.Out, &wo); err != nil {
				evid.Fatalf("worker output for %s: %v\n%s", s.Name, err, res.Stderr)
			}
			if wo.Invalid {
				invalid = append(invalid, s.Name+": baseline decode failed in worker")
				continue
			}
			if !wo.Done {
				exhaustive = false
			}
			ws.Cases += wo.Cases
			ws.Fields = wo.Fields
			if wo.MaxAlloc > ws.MaxAlloc {
				ws.MaxAlloc = wo.MaxAlloc
			}
			for k, v := range wo.Classes {
				ws.Classes[k] += v
			}
			for k, v := range wo.Kinds {
				ws.Kinds[k] += v
			}
			for _, v := range wo.Violations {
				if v.What != "" {
					whatOf[v.Signature] = v.What
				}
			}
			for _, v := range wo.Violations {
				late = append(late, lateViol{v})
			}
		}
		pending = next
	}
	// merge violations in a deterministic order: by seed order is implied by results order within
	// a round; sort by signature, artefacts with a measured allocation first
	sort.SliceStable(late, func(i, j int) bool {
		if late[i].v.Signature != late[j].v.Signature {
			return late[i].v.Signature < late[j].v.Signature
		}
		ai, _ := json.Marshal(late[i].v.Artefact)
		aj, _ := json.Marshal(late[j].v.Artefact)
		si, sj := strings.Contains(string(ai), "stopped at the read"), strings.Contains(string(aj), "stopped at the read")
		if si != sj {
			return !si
		}
		return false
	})
	for _, l := range late {
		v := l.v
		if v.What == "" {
			v.What = whatOf[v.Signature]
			if v.What == "" {
				v.What = "allocation sized from the unchecked wire value read at " + strings.TrimPrefix(v.Signature, "C02|alloc|")
			}
		}
		r.MergeViolation(v)
	}
	// totals
	names := make([]string, 0, len(perSeed))
	for n := range perSeed {
		names = append(names, n)
	}
	sort.Strings(names)
	totalCases, fieldsTotal := 0, 0
	var maxAlloc uint64
	classes, kinds := map[string]int{}, map[string]int{}
	distinct := map[string]bool{}
	samples := &evid.Samples{N: 8}
	for _, n := range names {
		ws := perSeed[n]
		totalCases += ws.Cases
		fieldsTotal += ws.Fields
		if ws.MaxAlloc > maxAlloc {
			maxAlloc = ws.MaxAlloc
		}
		for k, v := range ws.Classes {
			classes[k] += v
			// non-trivial: the decoder got past its first read (reads >= 2) or misbehaved
			nt := true
			if strings.HasPrefix(k, "err@") || strings.HasPrefix(k, "ok@") {
				rd, _ := strconv.Atoi(k[strings.Index(k, "@")+1:])
				nt = rd >= 2
			}
			if nt && v > 0 {
				distinct[n+"|"+k] = true
			}
		}
		for k, v := range ws.Kinds {
			kinds[k] += v
		}
		sd := seedNamed(seeds, n)
		samples.Add(map[string]interface{}{"seed": n, "seed_len": len(sd.Bytes), "fields": ws.Fields, "cases": ws.Cases, "outcome_classes": len(ws.Classes), "seed_hex_prefix": hexPrefix(sd.Bytes, 48)})
	}
	okCount, errCount := 0, 0
	for k, v := range classes {
		if strings.HasPrefix(k, "ok@") {
			okCount += v
		} else if strings.HasPrefix(k, "err@") {
			errCount += v
		}
	}
	r.Assume = append(r.Assume,
		"allocation is measured as the runtime.MemStats.TotalAlloc delta of the decode call on the only running goroutine of a worker process",
		fmt.Sprintf("bound = %d*len(input) + %d MiB; the constant covers checked pre-sizing (ReadVarString 16 MiB cap, ReadVarBytes up to 8 MB, inv/merkleblock/addr/locator caps)", allocPerByte, allocConst>>20),
		"once a read site has been measured to feed an unchecked allocation, later cases that read an equal or larger value at that site are stopped at that read and counted under the same signature (allocation is monotone in the count); this keeps workers alive and does not change which signatures are reported",
		"checkpoint decoders reading from disk (dpos/state, cr/state, mempool, wallet) are not covered",
	)
	cov := evid.Coverage{
		"evaluations":         totalCases,
		"distinct_nontrivial": len(distinct),
		"rule": "per seed (valid encoding produced by the repository's serialisers): every truncation, every single-field substitution over the boundary alphabet " +
			"(fields = 1/2/4/8-byte reads seen by the tracking reader; 1-byte fields also replaced by 3/5/9-byte var-int encodings, canonical and non-canonical), " +
			"every single-byte substitution over a 16-value alphabet (thorough: 256 values and all field pairs over a reduced menu). " +
			"distinct_nontrivial = distinct (seed, outcome class) pairs where the decoder got past its first read; outcome class = ok@reads / err@reads / panic / eofloop / suppressed / died",
		"exhaustive":                  exhaustive,
		"seeds":                       len(names),
		"seeds_invalid":               invalid,
		"seeds_skipped":               skipped,
		"fields_discovered":           fieldsTotal,
		"cases_by_kind":               kinds,
		"decoded_ok":                  okCount,
		"rejected_with_error":         errCount,
		"panics":                      classes["panic"],
		"eof_loops_cut_off":           classes["eofloop"],
		"stopped_at_known_count_site": classes["suppressed"],
		"worker_deaths":               deaths,
		"max_alloc_bytes_seen":        maxAlloc,
		"samples":                     samples.Out,
	}
	os.RemoveAll(scr)
	r.Finish(cov)
}

func seedNamed(seeds []*wire.Seed, n string) *wire.Seed {
	for _, s := range seeds {
		if s.Name == n {
			return s
		}
	}
	return nil
}

func hexPrefix(b []byte, n int) string {
	if len(b) > n {
		b = b[:n]
	}
	return hex.EncodeToString(b)
}

func listSeeds(seeds []*wire.Seed, skipped []string) {
	tot := 0
	for i, s := range seeds {
		tr, ok := baseline(s)
		fs := wire.Fields(tr)
		verr := s.Validate()
		fmt.Printf("%3d %-55s len=%4d reads=%3d fields=%3d baseline_ok=%v valid=%v\n", i, s.Name, len(s.Bytes), len(tr), len(fs), ok, verr)
		if len(os.Args) > 2 && (os.Args[2] == "-v" || os.Args[2] == s.Name) {
			for _, f := range fs {
				fmt.Printf("      @%d w%d %s\n", f.Off, f.N, f.Site)
			}
		}
		g := &caseGen{seed: s.Bytes, fields: fs, tier: "quick"}
		tot += g.each(1<<60, func(int, string, string, []byte) bool { return true })
	}
	fmt.Println("skipped:", skipped)
	fmt.Println("total quick cases:", tot)
}

func replay(r *evid.Run, scr string, seeds []*wire.Seed) {
	var a artefact
	sig := r.LoadReplay(&a)
	fmt.Printf("replaying %s: seed %s, %s %s, %d input bytes\n", sig, a.Seed, a.Kind, a.Label, len(a.Input)/2)
	si := -1
	for i, s := range seeds {
		if s.Name == a.Seed {
			si = i
		}
	}
	if si < 0 {
		evid.Fatalf("replay: unknown seed %q", a.Seed)
	}
	input, err := hex.DecodeString(a.Input)
	if err != nil {
		evid.Fatalf("replay: bad hex")
	}
	d := diagInSubprocess(scr, si, seeds[si], input)
	os.RemoveAll(scr)
	if d.Signature != "" {
		fmt.Printf("  reproduced: %s — %s\n", d.Signature, d.What)
		r.Violate(d.Signature, d.What, a)
	} else {
		fmt.Println("  not reproduced: the decoder returned without panic within the allocation bound")
	}
	r.Finish(evid.Coverage{})
}
