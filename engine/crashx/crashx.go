// Package crashx is the crash-point enumeration engine (E3), process-stop model.
//
// A Recorder watches one database directory. Every call of Point (from statements injected at
// build time by vinst, and from the File wrapper around the flat block files) copies the directory
// byte for byte into a scratch directory: what a `kill -9` at that instant would leave behind,
// because the code under test writes its flat files with WriteAt (no user-space buffering) and
// the metadata store flushes its journal on every write. The process keeps running, so one
// execution of a history yields all its crash states. Snapshots whose content and context are
// identical to the previous one are recorded as points but stored once.
//
// The engine knows nothing about the database; the check supplies the context string (which
// commit is in progress, what is durable) and later reopens every stored snapshot.
package crashx

import (
	"crypto/sha256"
	"encoding/hex"
	"fmt"
	"io"
	"os"
	"path/filepath"
	"sort"
	"time"
)

// Point is one visited crash point.
type Point struct {
	Seq     int    // order of visit within the execution
	Site    string // "func@file:line" or "file:<op>@<n>"
	Context string // supplied by the check (opaque to the engine)
	Snap    int    // index of the stored snapshot that represents the disk state at this point
}

// Snapshot is one stored, distinct (content, context) disk state.
type Snapshot struct {
	Dir     string
	Hash    string
	Context string
	First   int // Seq of the first point that produced it
	Site    string
	Points  int // how many points it represents
}

type Recorder struct {
	DBDir    string // directory being watched
	SnapRoot string // scratch directory for snapshots
	Context  string // current context, set by the check
	Enabled  bool
	Only     int // if >= 0: store only the snapshot of the point with this Seq (replay mode)

	Points    []Point
	Snapshots []Snapshot
	Retries   int // copies repeated because the directory changed while it was being copied
	last      string
	err       error
}

func New(dbDir, snapRoot string) *Recorder {
	return &Recorder{DBDir: dbDir, SnapRoot: snapRoot, Only: -1}
}

// Err reports a snapshot I/O problem (engine error, never a verdict).
func (r *Recorder) Err() error { return r.err }

// Point records a crash point and snapshots the directory.
func (r *Recorder) Point(site string) {
	if !r.Enabled || r.err != nil {
		return
	}
	seq := len(r.Points)
	if r.Only >= 0 && seq != r.Only {
		r.Points = append(r.Points, Point{Seq: seq, Site: site, Context: r.Context, Snap: -1})
		return
	}
	h, err := HashDir(r.DBDir)
	if err != nil {
		r.err = err
		return
	}
	key := h + "|" + r.Context
	if key == r.last && len(r.Snapshots) > 0 {
		s := &r.Snapshots[len(r.Snapshots)-1]
		s.Points++
		r.Points = append(r.Points, Point{Seq: seq, Site: site, Context: r.Context, Snap: len(r.Snapshots) - 1})
		return
	}
	// The copy must be a point-in-time image. The metadata store may run background work
	// (table compaction, obsolete-file removal) while the directory is being copied; a copy that
	// straddles such a change is a state no process stop can leave behind. So the directory is
	// hashed again after the copy and the copy is repeated until nothing moved in between.
	dst := filepath.Join(r.SnapRoot, fmt.Sprintf("snap%05d", seq))
	stable := false
	for try := 0; try < 50 && !stable; try++ {
		os.RemoveAll(dst)
		if err := CopyDir(r.DBDir, dst); err != nil {
			r.err = err
			return
		}
		h2, err := HashDir(r.DBDir)
		if err != nil {
			r.err = err
			return
		}
		hc, err := HashDir(dst)
		if err != nil {
			r.err = err
			return
		}
		if h2 == h && hc == h {
			stable = true
			break
		}
		r.Retries++
		time.Sleep(time.Duration(try+1) * time.Millisecond)
		if h, err = HashDir(r.DBDir); err != nil {
			r.err = err
			return
		}
	}
	if !stable {
		r.err = fmt.Errorf("directory %s kept changing while being copied (point %d, %s)", r.DBDir, seq, site)
		return
	}
	key = h + "|" + r.Context
	r.last = key
	r.Snapshots = append(r.Snapshots, Snapshot{Dir: dst, Hash: h, Context: r.Context, First: seq, Site: site, Points: 1})
	r.Points = append(r.Points, Point{Seq: seq, Site: site, Context: r.Context, Snap: len(r.Snapshots) - 1})
}

// CopyDir copies a directory tree (regular files only; lock files included as plain files).
func CopyDir(src, dst string) error {
	return filepath.Walk(src, func(p string, info os.FileInfo, err error) error {
		if err != nil {
			if os.IsNotExist(err) {
				return nil // a file removed while walking: it is gone in the crash state too
			}
			return err
		}
		rel, _ := filepath.Rel(src, p)
		to := filepath.Join(dst, rel)
		if info.IsDir() {
			return os.MkdirAll(to, 0o755)
		}
		if !info.Mode().IsRegular() {
			return nil
		}
		in, err := os.Open(p)
		if err != nil {
			if os.IsNotExist(err) {
				return nil
			}
			return err
		}
		defer in.Close()
		out, err := os.Create(to)
		if err != nil {
			return err
		}
		if _, err := io.Copy(out, in); err != nil {
			out.Close()
			return err
		}
		return out.Close()
	})
}

// HashDir hashes names and contents of all regular files of a directory tree.
func HashDir(dir string) (string, error) {
	var files []string
	err := filepath.Walk(dir, func(p string, info os.FileInfo, err error) error {
		if err != nil {
			if os.IsNotExist(err) {
				return nil
			}
			return err
		}
		if info.Mode().IsRegular() {
			files = append(files, p)
		}
		return nil
	})
	if err != nil {
		return "", err
	}
	sort.Strings(files)
	h := sha256.New()
	for _, p := range files {
		rel, _ := filepath.Rel(dir, p)
		b, err := os.ReadFile(p)
		if err != nil {
			if os.IsNotExist(err) {
				continue
			}
			return "", err
		}
		fmt.Fprintf(h, "%s\x00%d\x00", rel, len(b))
		h.Write(b)
	}
	return hex.EncodeToString(h.Sum(nil)[:12]), nil
}

// Filer is the method set of the flat-file abstraction of the code under test.
type Filer interface {
	io.Closer
	io.WriterAt
	io.ReaderAt
	Truncate(size int64) error
	Sync() error
}

// File wraps a flat file: every mutating operation is a crash point (before the operation; the
// state after it is the "before" of the next point), a WriteAt is additionally torn at the given
// offsets, and a planned failure can be injected.
type File struct {
	Under Filer
	Rec   *Recorder
	Name  string
	// Tear returns the prefix lengths at which a write of n bytes is torn (0 < k < n).
	Tear func(n int) []int
	// FailWrite, if set, is consulted before every WriteAt with the running write number of the
	// whole execution; returning (k, true) writes only k bytes and reports an error.
	FailWrite func(n int, size int) (int, bool)
	Counter   *int
	// FailOp, if set, is consulted before every WriteAt, Sync and Truncate with the running
	// number of such operations (OpCounter) and the operation name; returning (k, true) makes the
	// operation fail (a WriteAt after writing k bytes) WITHOUT any crash: in-process fault.
	FailOp    func(n int, op string, size int) (int, bool)
	OpCounter *int
}

func (f *File) fault(op string, size int) (int, bool) {
	if f.OpCounter == nil || f.FailOp == nil {
		return 0, false
	}
	*f.OpCounter++
	return f.FailOp(*f.OpCounter, op, size)
}

type injectedError struct{}

func (injectedError) Error() string { return "crashx: injected write failure" }

// ErrInjected is returned by a WriteAt that was told to fail.
var ErrInjected error = injectedError{}

func (f *File) ReadAt(p []byte, off int64) (int, error) { return f.Under.ReadAt(p, off) }

func (f *File) WriteAt(p []byte, off int64) (int, error) {
	n := 0
	if f.Counter != nil {
		*f.Counter++
		n = *f.Counter
	}
	f.Rec.Point(fmt.Sprintf("file:WriteAt(%d bytes)@%s", len(p), f.Name))
	if k, fail := f.fault("WriteAt", len(p)); fail {
		if k > len(p) {
			k = len(p) / 2
		}
		if k > 0 {
			f.Under.WriteAt(p[:k], off)
		}
		return k, ErrInjected
	}
	if f.FailWrite != nil {
		if k, fail := f.FailWrite(n, len(p)); fail {
			if k > 0 {
				f.Under.WriteAt(p[:k], off)
			}
			f.Rec.Point(fmt.Sprintf("file:WriteAt-failed-after-%d@%s", k, f.Name))
			return k, ErrInjected
		}
	}
	if f.Tear != nil {
		for _, k := range f.Tear(len(p)) {
			if k <= 0 || k >= len(p) {
				continue
			}
			if _, err := f.Under.WriteAt(p[:k], off); err != nil {
				return 0, err
			}
			f.Rec.Point(fmt.Sprintf("file:WriteAt-torn(%d of %d)@%s", k, len(p), f.Name))
		}
	}
	return f.Under.WriteAt(p, off)
}

func (f *File) Truncate(size int64) error {
	f.Rec.Point(fmt.Sprintf("file:Truncate@%s", f.Name))
	if _, fail := f.fault("Truncate", 0); fail {
		return ErrInjected
	}
	return f.Under.Truncate(size)
}

func (f *File) Sync() error {
	f.Rec.Point(fmt.Sprintf("file:Sync@%s", f.Name))
	if _, fail := f.fault("Sync", 0); fail {
		return ErrInjected
	}
	return f.Under.Sync()
}

func (f *File) Close() error {
	f.Rec.Point(fmt.Sprintf("file:Close@%s", f.Name))
	return f.Under.Close()
}
