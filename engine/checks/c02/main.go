// C02: decoding untrusted bytes never crashes or over-allocates.
//
// Bounded-exhaustive enumeration against the repository's real decoders: for every seed (each
// transaction type × payload version, Block, DposBlock, Header, AuxPow, Confirm, every p2p/msg and
// dpos/p2p/msg message — all produced by the repository's own serialisers) every truncation,
// every single-field substitution over the boundary alphabet (fields are discovered by a tracking
// reader from the decoder's own Read calls), every single-byte substitution over a 16-value
// alphabet; in the thorough tier every pair of fields and all 256 byte values.
// Oracle: the decoder returns (value | error), never panics, and the bytes it allocates
// (runtime.MemStats.TotalAlloc delta, single goroutine, worker subprocess under ulimit -v) stay
// below 64·len(input) + 24 MiB.
package main

import (
	"encoding/hex"
	"encoding/json"
	"fmt"
	"os"
	"runtime"
	"runtime/debug"
	"sort"
	"strconv"
	"strings"
	"time"

	"verif/evid"
	"verif/hx"
	"verif/par"
	"verif/wire"
)

const (
	// allocation bound: 64·len + allocConst. The constant covers the decoders that pre-size from a
	// *checked* count or length: ReadVarString's 16 MiB cap (one failed read of a maximal string),
	// ReadVarBytes up to MaxBlockContextSize (8 MB), inv 50 000 × 44 B, merkleblock 10 000 hashes.
	allocConst  = 24 << 20
	allocPerByte = 64
	// a decoder that keeps calling Read this many times in a row after the input is exhausted is
	// cut off (sentinel panic raised by the harness reader, recovered by the harness); what it
	// allocated until then is measured like any other case.
	eofReadCap = 1 << 20
	workerMemMB = 1536
)

type eofLoop struct{}

// outcome of one decode
type outcome struct {
	Class   string // ok | err | panic | eofloop
	Reads   int
	Alloc   uint64
	PanicAt string
	PanicMsg string
	Left    int
}

var ms runtime.MemStats

func totalAlloc() uint64 {
	runtime.ReadMemStats(&ms)
	return ms.TotalAlloc
}

// capReader wraps the tracker with the EOF-loop cut-off.
type capTracker struct {
	*wire.Tracker
	eofRun int
}

func (c *capTracker) Read(p []byte) (int, error) {
	n, err := c.Tracker.Read(p)
	if n == 0 && len(p) > 0 {
		c.eofRun++
		if c.eofRun >= eofReadCap {
			panic(eofLoop{})
		}
	} else {
		c.eofRun = 0
	}
	return n, err
}

func panicClass(msg string) string {
	switch {
	case strings.Contains(msg, "makeslice"):
		return "makeslice"
	case strings.Contains(msg, "index out of range"):
		return "index out of range"
	case strings.Contains(msg, "slice bounds out of range"):
		return "slice bounds out of range"
	case strings.Contains(msg, "nil pointer"):
		return "nil pointer dereference"
	case strings.Contains(msg, "divide by zero"):
		return "integer divide by zero"
	case strings.Contains(msg, "interface conversion"):
		return "interface conversion"
	case strings.Contains(msg, "out of memory"):
		return "out of memory"
	}
	if len(msg) > 60 {
		msg = msg[:60]
	}
	return msg
}

// decode runs the seed's decoder on input and measures it.
func decode(s *wire.Seed, input []byte, t *wire.Tracker) (o outcome) {
	ct := &capTracker{Tracker: t}
	a0 := totalAlloc()
	func() {
		defer func() {
			if e := recover(); e != nil {
				if _, ok := e.(eofLoop); ok {
					o.Class = "eofloop"
					return
				}
				o.Class = "panic"
				o.PanicMsg = fmt.Sprint(e)
				o.PanicAt = evid.PanicSite(debug.Stack())
			}
		}()
		var err error
		if s.DecodeBuf != nil {
			_, err = s.Run(input, nil)
		} else {
			if s.Setup != nil {
				s.Setup()
			}
			_, err = s.Decode(ct)
		}
		if err != nil {
			o.Class = "err"
		} else {
			o.Class = "ok"
		}
	}()
	a1 := totalAlloc()
	o.Alloc = a1 - a0
	o.Reads = t.Reads
	o.Left = t.Remaining()
	return o
}

func bound(n int) uint64 { return uint64(allocPerByte*n) + allocConst }

// ---------------------------------------------------------------------------------------------
// case enumeration (identical in parent — for counting — and worker)

type caseGen struct {
	seed   []byte
	fields []wire.Field
	tier   string
}

// each calls f(kind, label, input) for every case of the seed, in a fixed order, starting at
// case index `from`; f returns false to stop.
func (g *caseGen) each(from int, f func(idx int, kind, label string, input []byte) bool) int {
	idx := 0
	emit := func(kind, label string, mk func() []byte) bool {
		if idx >= from {
			if !f(idx, kind, label, mk()) {
				return false
			}
		}
		idx++
		return true
	}
	// 1. every truncation
	for l := 0; l < len(g.seed); l++ {
		l := l
		if !emit("trunc", strconv.Itoa(l), func() []byte { return append([]byte{}, g.seed[:l]...) }) {
			return idx
		}
	}
	// 2. every single-field substitution
	for fi, fd := range g.fields {
		for _, sb := range wire.FieldSubsts(g.seed, fd) {
			sb := sb
			if !emit("field", fmt.Sprintf("f%d@%d:%s", fi, fd.Off, sb.Label), func() []byte { return wire.Apply(g.seed, sb) }) {
				return idx
			}
		}
	}
	// 3. every single-byte substitution
	if g.tier == "thorough" {
		for p := 0; p < len(g.seed); p++ {
			for v := 0; v < 256; v++ {
				if byte(v) == g.seed[p] {
					continue
				}
				p, v := p, v
				if !emit("byte", fmt.Sprintf("%d=%02x", p, v), func() []byte {
					b := append([]byte{}, g.seed...)
					b[p] = byte(v)
					return b
				}) {
					return idx
				}
			}
		}
	} else {
		for p := 0; p < len(g.seed); p++ {
			for _, v := range wire.ByteAlphabet16 {
				if v == g.seed[p] {
					continue
				}
				p, v := p, v
				if !emit("byte", fmt.Sprintf("%d=%02x", p, v), func() []byte {
					b := append([]byte{}, g.seed...)
					b[p] = v
					return b
				}) {
					return idx
				}
			}
		}
	}
	// 4. thorough: every pair of fields over the reduced menu
	if g.tier == "thorough" {
		for i := 0; i < len(g.fields); i++ {
			si := wire.PairSubsts(g.seed, g.fields[i])
			for j := i + 1; j < len(g.fields); j++ {
				if g.fields[j].Off < g.fields[i].Off+g.fields[i].N {
					continue
				}
				sj := wire.PairSubsts(g.seed, g.fields[j])
				for _, a := range si {
					for _, b := range sj {
						a, b := a, b
						if !emit("pair", fmt.Sprintf("f%d:%s,f%d:%s", i, a.Label, j, b.Label), func() []byte { return wire.Apply(g.seed, a, b) }) {
							return idx
						}
					}
				}
			}
		}
	}
	return idx
}

// baseline decodes the unmodified seed with site tracking.
func baseline(s *wire.Seed) (trace []wire.Rd, ok bool) {
	src := s
	if s.TrackedTwin != nil {
		src = s.TrackedTwin
	}
	t := wire.NewTracker(src.Bytes)
	t.Sites = true
	if src.Setup != nil {
		src.Setup()
	}
	_, err := src.Decode(t)
	return t.Trace, err == nil && t.Remaining() == 0
}

// ---------------------------------------------------------------------------------------------
// diagnosis: find the read after which the allocation (or the allocation panic) happened

type diagResult struct {
	Signature string `json:"signature"`
	What      string `json:"what"`
	Class     string `json:"class"`
	Alloc     uint64 `json:"alloc"`
}

func diagnose(s *wire.Seed, input []byte, announce bool) diagResult {
	if s.DecodeBuf != nil {
		// untracked decoder: if the io.Reader twin misbehaves on the same bytes the defect is
		// shared and carries the twin's signature; otherwise it is the untracked decoder's own.
		o := outcome{}
		if announce {
			par.Announce("site:" + s.Name + "|field=self")
		}
		tw := diagnose(s.TrackedTwin, input, false)
		if tw.Signature != "" {
			if announce {
				par.Announce("site:" + strings.TrimPrefix(strings.TrimPrefix(tw.Signature, "C02|alloc|"), "C02|panic|"))
			}
		}
		t := wire.NewTracker(input)
		t.NoTrace = true
		o = decode(s, input, t)
		if tw.Signature != "" && (o.Class == "panic" || o.Alloc > bound(len(input))) {
			return tw
		}
		switch {
		case o.Class == "panic" && panicClass(o.PanicMsg) != "makeslice":
			return diagResult{Signature: "C02|panic|" + o.PanicAt + "|" + panicClass(o.PanicMsg), Class: "panic", Alloc: o.Alloc,
				What: fmt.Sprintf("%s panics: %s", s.Name, o.PanicMsg)}
		case o.Class == "panic" || o.Alloc > bound(len(input)):
			return diagResult{Signature: "C02|alloc|" + s.Name + "|field=self", Class: "alloc", Alloc: o.Alloc,
				What: fmt.Sprintf("%s allocates from an unchecked wire count (%d bytes for %d input bytes; %s)", s.Name, o.Alloc, len(input), o.PanicMsg)}
		}
		return diagResult{}
	}
	t := wire.NewTracker(input)
	t.Sites = true
	var allocAt []uint64
	eofRun, maxEofRun := 0, 0
	t.OnRead = func(i int, rd *wire.Rd) {
		if rd.Got == 0 && rd.N > 0 {
			eofRun++
			if eofRun > maxEofRun {
				maxEofRun = eofRun
			}
			if eofRun > 4096 {
				// enough to name the loop; do not record a million trace entries
				t.NoTrace = true
				t.Sites = false
				return
			}
		} else {
			eofRun = 0
		}
		if announce {
			par.Announce("site:" + rd.Site)
		}
		allocAt = append(allocAt, totalAlloc())
	}
	start := totalAlloc()
	o := decode(s, input, t)
	end := start + o.Alloc
	tr := t.Trace
	last := "none|field=?"
	if len(tr) > 0 {
		last = tr[len(tr)-1].Site
	}
	over := o.Alloc > bound(len(input))
	switch {
	case o.Class == "panic" && panicClass(o.PanicMsg) != "makeslice":
		return diagResult{Signature: "C02|panic|" + o.PanicAt + "|" + panicClass(o.PanicMsg), Class: "panic", Alloc: o.Alloc,
			What: fmt.Sprintf("decoder panics at %s: %s", o.PanicAt, o.PanicMsg)}
	case o.Class == "panic":
		return diagResult{Signature: "C02|alloc|" + last, Class: "alloc", Alloc: o.Alloc,
			What: fmt.Sprintf("slice sized from the unchecked wire value read at %s: %s", last, o.PanicMsg)}
	case over && maxEofRun > 1000:
		return diagResult{Signature: "C02|alloc|eof-loop|" + last, Class: "alloc", Alloc: o.Alloc,
			What: fmt.Sprintf("decoder keeps looping (and appending) after the input is exhausted; the read at %s fails with EOF and the error is ignored; %d bytes allocated for %d input bytes", last, o.Alloc, len(input))}
	case over:
		// the read that completed just before the largest allocation jump
		best, bestJump := -1, uint64(0)
		for i := range allocAt {
			nxt := end
			if i+1 < len(allocAt) {
				nxt = allocAt[i+1]
			}
			if j := nxt - allocAt[i]; j > bestJump {
				best, bestJump = i, j
			}
		}
		site := last
		if best >= 0 && best < len(tr) {
			site = tr[best].Site
		}
		if bestJump < 1<<20 {
			site = "gradual|" + last
		}
		return diagResult{Signature: "C02|alloc|" + site, Class: "alloc", Alloc: o.Alloc,
			What: fmt.Sprintf("%d bytes allocated for %d input bytes right after the wire value read at %s (unchecked count used as an allocation size)", o.Alloc, len(input), site)}
	}
	return diagResult{}
}

// ---------------------------------------------------------------------------------------------
// worker

type artefact struct {
	Seed   string `json:"seed"`
	Kind   string `json:"kind"`
	Label  string `json:"label"`
	Input  string `json:"input_hex"`
	Alloc  uint64 `json:"alloc_bytes,omitempty"`
	Detail string `json:"detail,omitempty"`
}

type workerOut struct {
	Seed       string            `json:"seed"`
	Cases      int               `json:"cases"`
	Done       bool              `json:"done"`
	Classes    map[string]int    `json:"classes"`
	Kinds      map[string]int    `json:"kinds"`
	Fields     int               `json:"fields"`
	CountLike  int               `json:"count_like"`
	MaxAlloc   uint64            `json:"max_alloc"`
	Violations []evid.Violation  `json:"violations"`
	Sample     map[string]string `json:"sample"`
	Diag       *diagResult       `json:"diag,omitempty"`
}

func seedByIndex(i int) *wire.Seed {
	seeds, _ := wire.AllSeeds()
	if i < 0 || i >= len(seeds) {
		evid.Fatalf("seed index %d out of range", i)
	}
	return seeds[i]
}

func runWorker(r *evid.Run, job string) {
	debug.SetGCPercent(100)
	parts := strings.Split(job, ":")
	switch parts[0] {
	case "enum":
		si, _ := strconv.Atoi(parts[1])
		from, _ := strconv.Atoi(parts[2])
		s := seedByIndex(si)
		out := workerOut{Seed: s.Name, Classes: map[string]int{}, Kinds: map[string]int{}, Sample: map[string]string{}}
		tr, ok := baseline(s)
		if !ok {
			out.Done = true
			out.Sample["invalid_seed"] = "1"
			par.Emit(out)
			return
		}
		fields := wire.Fields(tr)
		out.Fields = len(fields)
		g := &caseGen{seed: s.Bytes, fields: fields, tier: r.Tier}
		seenSig := map[string]bool{}
		n := g.each(from, func(idx int, kind, label string, input []byte) bool {
			par.Announce(fmt.Sprintf("%d:%d:%s:%s", si, idx, kind, label))
			t := wire.NewTracker(input)
			t.NoTrace = true
			o := decode(s, input, t)
			out.Cases++
			out.Kinds[kind]++
			cls := o.Class
			if cls == "err" || cls == "ok" {
				cls = fmt.Sprintf("%s@%d", cls, o.Reads)
			}
			out.Classes[cls]++
			if o.Alloc > out.MaxAlloc {
				out.MaxAlloc = o.Alloc
			}
			if o.Class == "panic" || o.Alloc > bound(len(input)) {
				d := diagnose(s, input, false)
				if d.Signature == "" {
					// not reproduced on the second run: engine problem, never a verdict
					evid.Fatalf("violation on %s case %d (%s %s) did not reproduce under diagnosis", s.Name, idx, kind, label)
				}
				if !seenSig[d.Signature] {
					seenSig[d.Signature] = true
					out.Violations = append(out.Violations, evid.Violation{Signature: d.Signature, What: d.What, Count: 1,
						Artefact: artefact{Seed: s.Name, Kind: kind, Label: label, Input: hex.EncodeToString(input), Alloc: d.Alloc}})
				} else {
					for i := range out.Violations {
						if out.Violations[i].Signature == d.Signature {
							out.Violations[i].Count++
						}
					}
				}
			}
			if r.Expired() {
				return false
			}
			return true
		})
		_ = n
		out.Done = !r.Expired()
		par.Emit(out)
	case "diag":
		// diag:<seed index>:<hex input> — single case, announcing every read site, so that the
		// parent can name the culprit even if this process is killed by the allocation.
		si, _ := strconv.Atoi(parts[1])
		s := seedByIndex(si)
		input, err := hex.DecodeString(parts[2])
		if err != nil {
			evid.Fatalf("diag: bad hex")
		}
		par.Announce("site:none|field=?")
		d := diagnose(s, input, true)
		par.Emit(workerOut{Seed: s.Name, Diag: &d, Done: true})
	default:
		evid.Fatalf("unknown job %q", job)
	}
}

// diagInSubprocess runs one input in a fresh worker and turns a death into a signature.
func diagInSubprocess(scr string, si int, s *wire.Seed, input []byte) diagResult {
	res := par.Procs([]string{fmt.Sprintf("diag:%d:%s", si, hex.EncodeToString(input))}, scr, par.Opts{MemMB: workerMemMB, Timeout: 5 * time.Minute, Parallel: 1})
	r0 := res[0]
	if !r0.Died {
		var wo workerOut
		if err := json.Unmarshal(r0.Out, &wo); err != nil || wo.Diag == nil {
			evid.Fatalf("diag worker output: %v", err)
		}
		return *wo.Diag
	}
	if r0.TimedOut {
		evid.Fatalf("diag worker timed out on %s", s.Name)
	}
	if !strings.HasPrefix(r0.Announced, "site:") {
		evid.Fatalf("diag worker died without announcing a site: %s", r0.Stderr)
	}
	site := strings.TrimPrefix(r0.Announced, "site:")
	fatal := "killed"
	if strings.Contains(r0.Stderr, "out of memory") || strings.Contains(r0.Stderr, "cannot allocate memory") {
		fatal = "fatal error: out of memory"
	}
	return diagResult{Signature: "C02|alloc|" + site, Class: "alloc",
		What: fmt.Sprintf("decoder process dies (%s under a %d MiB address-space limit) right after the wire value read at %s (unchecked count used as an allocation size)", fatal, workerMemMB, site)}
}

// ---------------------------------------------------------------------------------------------

func main() {
	r := evid.Start("C02", "exploration")
	scr := evid.Scratch("c02")
	defer os.RemoveAll(scr)
	if job, ok := par.Worker(); ok {
		hx.QuietLogs(scr)
		runWorker(r, job)
		os.RemoveAll(scr)
		return
	}
	hx.QuietLogs(scr)
	seeds, skipped := wire.AllSeeds()
	if len(os.Args) > 1 && os.Args[1] == "--seeds" {
		listSeeds(seeds, skipped)
		os.RemoveAll(scr)
		return
	}
	if r.Replay != "" {
		replay(r, scr, seeds)
		return
	}

	// jobs: one worker per seed
	type pend struct {
		si   int
		from int
	}
	var pending []pend
	invalid := []string{}
	for i, s := range seeds {
		if err := s.Validate(); err != nil {
			invalid = append(invalid, s.Name+": "+err.Error())
			continue
		}
		pending = append(pending, pend{i, 0})
	}
	total := workerOut{Classes: map[string]int{}, Kinds: map[string]int{}}
	perSeed := map[string]*workerOut{}
	distinct := map[string]bool{}
	exhaustive := true
	deaths := 0
	samples := &evid.Samples{N: 8}
	rounds := 0
	for len(pending) > 0 {
		rounds++
		if rounds > 4000 {
			evid.Fatalf("too many restart rounds")
		}
		jobs := make([]string, len(pending))
		for i, p := range pending {
			jobs[i] = fmt.Sprintf("enum:%d:%d", p.si, p.from)
		}
		results := par.Procs(jobs, scr, par.Opts{MemMB: workerMemMB, Timeout: 40 * time.Minute, Env: []string{"GOMAXPROCS=2"}})
		var next []pend
		for i, res := range results {
			p := pending[i]
			s := seeds[p.si]
			if res.Died {
				if res.TimedOut {
					evid.Fatalf("worker for %s timed out (announced %q)", s.Name, res.Announced)
				}
				// the announced case killed the worker: out-of-memory or a fatal runtime error
				a := strings.SplitN(res.Announced, ":", 4)
				if len(a) < 4 {
					evid.Fatalf("worker for %s died without announcing a case: %s", s.Name, res.Stderr)
				}
				idx, _ := strconv.Atoi(a[1])
				deaths++
				// regenerate the input of that case
				tr, _ := baseline(s)
				g := &caseGen{seed: s.Bytes, fields: wire.Fields(tr), tier: r.Tier}
				var input []byte
				g.each(idx, func(_ int, kind, label string, in []byte) bool { input = in; return false })
				d := diagInSubprocess(scr, p.si, s, input)
				if d.Signature == "" {
					evid.Fatalf("worker for %s died on case %s but the case is clean when re-run alone: %s", s.Name, res.Announced, res.Stderr)
				}
				r.Violate(d.Signature, d.What, artefact{Seed: s.Name, Kind: a[2], Label: a[3], Input: hex.EncodeToString(input), Detail: "worker process died on this input"})
				ws := perSeed[s.Name]
				if ws == nil {
					ws = &workerOut{Seed: s.Name, Classes: map[string]int{}, Kinds: map[string]int{}}
					perSeed[s.Name] = ws
				}
				ws.Cases += idx + 1 - p.from
				ws.Classes["died"]++
				next = append(next, pend{p.si, idx + 1})
				continue
			}
			var wo workerOut
			if err := json.Unmarshal(res.Out, &wo); err != nil {
				evid.Fatalf("worker output for %s: %v\n%s", s.Name, err, res.Stderr)
			}
			if !wo.Done {
				exhaustive = false
			}
			ws := perSeed[s.Name]
			if ws == nil {
				ws = &workerOut{Seed: s.Name, Classes: map[string]int{}, Kinds: map[string]int{}}
				perSeed[s.Name] = ws
			}
			ws.Cases += wo.Cases
			ws.Fields = wo.Fields
			if wo.MaxAlloc > ws.MaxAlloc {
				ws.MaxAlloc = wo.MaxAlloc
			}
			for k, v := range wo.Classes {
				ws.Classes[k] += v
			}
			for k, v := range wo.Kinds {
				ws.Kinds[k] += v
			}
			for _, v := range wo.Violations {
				r.MergeViolation(v)
			}
		}
		pending = next
	}
	// totals
	names := make([]string, 0, len(perSeed))
	for n := range perSeed {
		names = append(names, n)
	}
	sort.Strings(names)
	fieldsTotal := 0
	var maxAlloc uint64
	for _, n := range names {
		ws := perSeed[n]
		total.Cases += ws.Cases
		fieldsTotal += ws.Fields
		if ws.MaxAlloc > maxAlloc {
			maxAlloc = ws.MaxAlloc
		}
		for k, v := range ws.Classes {
			total.Classes[k] += v
			// non-trivial: the decoder got past its first read (reads >= 2) or misbehaved
			nt := true
			if strings.HasPrefix(k, "err@") || strings.HasPrefix(k, "ok@") {
				rd, _ := strconv.Atoi(k[strings.Index(k, "@")+1:])
				nt = rd >= 2
			}
			if nt {
				distinct[n+"|"+k] = true
			}
		}
		for k, v := range ws.Kinds {
			total.Kinds[k] += v
		}
		samples.Add(map[string]interface{}{"seed": n, "seed_len": len(seedNamed(seeds, n).Bytes), "fields": ws.Fields, "cases": ws.Cases, "outcome_classes": len(ws.Classes), "seed_hex_prefix": hexPrefix(seedNamed(seeds, n).Bytes, 48)})
	}
	okCount, errCount := 0, 0
	for k, v := range total.Classes {
		if strings.HasPrefix(k, "ok@") {
			okCount += v
		} else if strings.HasPrefix(k, "err@") {
			errCount += v
		}
	}
	r.Assume = append(r.Assume,
		"allocation is measured as the runtime.MemStats.TotalAlloc delta of the decode call on the only running goroutine of a worker process",
		fmt.Sprintf("bound = %d*len(input) + %d MiB; the constant covers checked pre-sizing (ReadVarString 16 MiB cap, ReadVarBytes up to 8 MB, inv/merkleblock/addr/locator caps)", allocPerByte, allocConst>>20),
		"checkpoint decoders reading from disk (dpos/state, cr/state, mempool, wallet) are not covered",
	)
	cov := evid.Coverage{
		"evaluations":         total.Cases,
		"distinct_nontrivial": len(distinct),
		"rule": "per seed (valid encoding produced by the repository's serialisers): every truncation, every single-field substitution over the boundary alphabet " +
			"(fields = 1/2/4/8-byte reads seen by the tracking reader; 1-byte fields also replaced by 3/5/9-byte var-int encodings, canonical and non-canonical), " +
			"every single-byte substitution over a 16-value alphabet (thorough: 256 values and all field pairs over a reduced menu). " +
			"distinct_nontrivial = distinct (seed, outcome class) pairs where the decoder got past its first read; outcome class = ok@reads / err@reads / panic / eofloop / died",
		"exhaustive":           exhaustive,
		"seeds":                len(names),
		"seeds_invalid":        invalid,
		"seeds_skipped":        skipped,
		"fields_discovered":    fieldsTotal,
		"cases_by_kind":        total.Kinds,
		"decoded_ok":           okCount,
		"rejected_with_error":  errCount,
		"panics":               total.Classes["panic"],
		"eof_loops_cut_off":    total.Classes["eofloop"],
		"worker_deaths":        deaths,
		"max_alloc_bytes_seen": maxAlloc,
		"samples":              samples.Out,
	}
	os.RemoveAll(scr)
	r.Finish(cov)
}

func seedNamed(seeds []*wire.Seed, n string) *wire.Seed {
	for _, s := range seeds {
		if s.Name == n {
			return s
		}
	}
	return nil
}

func hexPrefix(b []byte, n int) string {
	if len(b) > n {
		b = b[:n]
	}
	return hex.EncodeToString(b)
}

func listSeeds(seeds []*wire.Seed, skipped []string) {
	tot := 0
	for i, s := range seeds {
		tr, ok := baseline(s)
		fs := wire.Fields(tr)
		verr := s.Validate()
		fmt.Printf("%3d %-55s len=%4d reads=%3d fields=%3d baseline_ok=%v valid=%v\n", i, s.Name, len(s.Bytes), len(tr), len(fs), ok, verr)
		if len(os.Args) > 2 && (os.Args[2] == "-v" || os.Args[2] == s.Name) {
			for _, f := range fs {
				fmt.Printf("      @%d w%d %s\n", f.Off, f.N, f.Site)
			}
		}
		g := &caseGen{seed: s.Bytes, fields: fs, tier: "quick"}
		tot += g.each(1<<60, func(int, string, string, []byte) bool { return true })
	}
	fmt.Println("skipped:", skipped)
	fmt.Println("total quick cases:", tot)
}

func replay(r *evid.Run, scr string, seeds []*wire.Seed) {
	var a artefact
	sig := r.LoadReplay(&a)
	fmt.Printf("replaying %s: seed %s, %s %s, %d input bytes\n", sig, a.Seed, a.Kind, a.Label, len(a.Input)/2)
	si := -1
	for i, s := range seeds {
		if s.Name == a.Seed {
			si = i
		}
	}
	if si < 0 {
		evid.Fatalf("replay: unknown seed %q", a.Seed)
	}
	input, err := hex.DecodeString(a.Input)
	if err != nil {
		evid.Fatalf("replay: bad hex")
	}
	d := diagInSubprocess(scr, si, seeds[si], input)
	os.RemoveAll(scr)
	if d.Signature != "" {
		fmt.Printf("  reproduced: %s — %s\n", d.Signature, d.What)
		r.Violate(d.Signature, d.What, a)
	} else {
		fmt.Println("  not reproduced: the decoder returned without panic within the allocation bound")
	}
	r.Finish(evid.Coverage{})
}
