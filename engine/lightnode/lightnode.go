// Package lightnode is the "light node tier" driver: the fixture the repository's own
// test/unit/txvalidator_test.go and core/transaction/kit_test.go use — a real BlockChain
// (genesis only, real ffldb chain store) whose ledger globals are installed, an ArbitratorsMock
// holding a harness-chosen arbiter set, references injected either through
// SetParameters/SetReferences (per-check verdicts) or through the UTXO cache / synthetic blocks
// saved with ChainStore.SaveBlock (full ContextCheck verdicts) — so that any transaction type's
// SanityCheck / SpecialContextCheck / ContextCheck verdict is the node's own.
//
// The repository keeps this state in process globals (config.DefaultParams,
// blockchain.DefaultLedger, functions.*): one Node per process. Use par.Procs when several
// configurations are needed.
package lightnode

import (
	"errors"
	"fmt"
	"path/filepath"
	"runtime/debug"

	"github.com/elastos/Elastos.ELA/blockchain"
	"github.com/elastos/Elastos.ELA/common"
	"github.com/elastos/Elastos.ELA/common/config"
	"github.com/elastos/Elastos.ELA/core/checkpoint"
	"github.com/elastos/Elastos.ELA/core/transaction"
	"github.com/elastos/Elastos.ELA/core/types"
	common2 "github.com/elastos/Elastos.ELA/core/types/common"
	"github.com/elastos/Elastos.ELA/core/types/functions"
	"github.com/elastos/Elastos.ELA/core/types/interfaces"
	crstate "github.com/elastos/Elastos.ELA/cr/state"
	"github.com/elastos/Elastos.ELA/dpos/state"
	elaerr "github.com/elastos/Elastos.ELA/errors"

	"verif/evid"
)

// Options of a Node.
type Options struct {
	// Tweak edits the (mainnet default) parameters before the chain is built.
	Tweak func(p *config.Configuration)
	// ArbiterKeys are the compressed node public keys of the current arbitrators
	// (ArbitratorsMock.CurrentArbitrators, which the mock also reports as the cross-chain
	// arbiters). CRCKeys fill ArbitratorsMock.CRCArbitrators.
	ArbiterKeys   [][]byte
	CRCKeys       [][]byte
	MajorityCount int
}

// Node is one light node.
type Node struct {
	Dir      string
	Params   *config.Configuration // == &config.DefaultParams
	Store    blockchain.IChainStore
	Chain    *blockchain.BlockChain
	Arbiters *state.ArbitratorsMock
	Ckp      *checkpoint.Manager

	tip    *blockchain.BlockNode
	blocks []*savedBlock
	prev   *blockchain.Ledger
}

type savedBlock struct {
	block *types.Block
	node  *blockchain.BlockNode
}

// InitFunctions installs the transaction constructors the repository expects in
// core/types/functions (done by every entry point of the repository itself).
func InitFunctions() {
	functions.GetTransactionByTxType = transaction.GetTransaction
	functions.GetTransactionByBytes = transaction.GetTransactionByBytes
	functions.CreateTransaction = transaction.CreateTransaction
	functions.GetTransactionParameters = transaction.GetTransactionparameters
}

// Members builds arbiter members from compressed public keys.
func Members(keys [][]byte) ([]state.ArbiterMember, error) {
	out := make([]state.ArbiterMember, 0, len(keys))
	for _, k := range keys {
		m, err := state.NewOriginArbiter(k)
		if err != nil {
			return nil, err
		}
		out = append(out, m)
	}
	return out, nil
}

// New builds the node in dir (a scratch directory owned by the caller).
func New(dir string, o Options) (*Node, error) {
	InitFunctions()
	config.DefaultParams = *config.GetDefaultParams()
	params := &config.DefaultParams
	params.DataDir = filepath.Join(dir, "data")
	if o.Tweak != nil {
		o.Tweak(params)
	}
	params.Sterilize()
	blockchain.FoundationAddress = *params.FoundationProgramHash

	store, err := blockchain.NewChainStore(filepath.Join(dir, "chain"), params)
	if err != nil {
		return nil, err
	}
	ckp := checkpoint.NewManager(params)
	ckp.SetDataPath(filepath.Join(dir, "checkpoints"))
	st := state.NewState(params, nil, nil, nil,
		func() bool { return false },
		nil, nil, nil, nil, nil, nil, nil)
	committee := crstate.NewCommittee(params, ckp)
	chain, err := blockchain.New(store, params, st, committee, ckp)
	if err != nil {
		store.Close()
		return nil, err
	}
	n := &Node{Dir: dir, Params: params, Store: store, Chain: chain, Ckp: ckp}
	committee.RegisterFuncitons(&crstate.CommitteeFuncsConfig{
		GetTxReference:                   chain.UTXOCache.GetTxReference,
		GetUTXO:                          store.GetFFLDB().GetUTXO,
		GetHeight:                        func() uint32 { return store.GetHeight() },
		CreateCRAppropriationTransaction: chain.CreateCRCAppropriationTransaction,
	})
	if err := chain.Init(nil); err != nil {
		store.Close()
		return nil, err
	}
	cur, err := Members(o.ArbiterKeys)
	if err != nil {
		store.Close()
		return nil, err
	}
	crc, err := Members(o.CRCKeys)
	if err != nil {
		store.Close()
		return nil, err
	}
	n.Arbiters = state.NewArbitratorsMock(cur, 0, o.MajorityCount)
	n.Arbiters.CRCArbitrators = crc
	n.prev = blockchain.DefaultLedger
	blockchain.DefaultLedger = &blockchain.Ledger{
		Blockchain:  chain,
		Store:       store,
		Arbitrators: n.Arbiters,
		Committee:   committee,
	}
	n.tip = chain.BestChain
	return n, nil
}

// Close releases the database and restores the previous ledger global.
func (n *Node) Close() {
	n.Store.Close()
	blockchain.DefaultLedger = n.prev
}

// SetArbiters replaces the current (= cross-chain) arbitrators of the mock.
func (n *Node) SetArbiters(keys [][]byte) error {
	m, err := Members(keys)
	if err != nil {
		return err
	}
	n.Arbiters.CurrentArbitrators = m
	return nil
}

// SetCRCArbiters replaces the CRC arbitrators of the mock.
func (n *Node) SetCRCArbiters(keys [][]byte) error {
	m, err := Members(keys)
	if err != nil {
		return err
	}
	n.Arbiters.CRCArbitrators = m
	return nil
}

// Config returns a copy of the chain parameters with tweak applied (what the repository's
// tests do to reach an era: `chainParams := *s.Chain.GetParams(); chainParams.X = …`).
func (n *Node) Config(tweak func(p *config.Configuration)) *config.Configuration {
	c := *n.Params
	if tweak != nil {
		tweak(&c)
	}
	return &c
}

// Height of the store.
func (n *Node) Height() uint32 { return n.Store.GetHeight() }

// SaveBlock persists a synthetic block (no PoW, no coinbase requirement, no signatures) holding
// txs on top of the current tip through ChainStore.SaveBlock — the real per-transaction save
// processors and indexes run. This is the seam core/transaction/kit_test.go uses.
func (n *Node) SaveBlock(txs ...interfaces.Transaction) (uint32, error) {
	b := &types.Block{
		Header: common2.Header{
			Height:    n.Store.GetHeight() + 1,
			Previous:  *n.tip.Hash,
			Timestamp: n.tip.Timestamp + 2,
		},
		Transactions: txs,
	}
	h := b.Hash()
	node := blockchain.NewBlockNode(&b.Header, &h)
	node.InMainChain = true
	node.Parent = n.tip
	if err := n.Store.SaveBlock(b, node, nil, blockchain.CalcPastMedianTime(node)); err != nil {
		return 0, err
	}
	n.blocks = append(n.blocks, &savedBlock{b, node})
	n.tip = node
	n.Chain.UTXOCache.CleanCache()
	return b.Height, nil
}

// RollbackTip disconnects the last block saved with SaveBlock through ChainStore.RollbackBlock.
func (n *Node) RollbackTip() error {
	if len(n.blocks) == 0 {
		return errors.New("nothing to roll back")
	}
	sb := n.blocks[len(n.blocks)-1]
	if err := n.Store.RollbackBlock(sb.block, sb.node, nil, blockchain.CalcPastMedianTime(sb.node)); err != nil {
		return err
	}
	n.blocks = n.blocks[:len(n.blocks)-1]
	n.tip = sb.node.Parent
	n.Chain.UTXOCache.CleanCache()
	return nil
}

// InjectReference makes input resolve to output in the chain's UTXO cache (what GetTxReference
// consults first) and, if prev is given, makes the previous transaction known to the cache.
// The store itself is not changed: checks that consult the unspent index (IsDoubleSpend) still
// need a block saved with SaveBlock.
func (n *Node) InjectReference(in *common2.Input, out *common2.Output, prev interfaces.Transaction) {
	c := n.Chain.UTXOCache
	c.Lock()
	c.InsertReference(in, out)
	if prev != nil {
		c.TxCache[in.Previous.TxID] = prev
	}
	c.Unlock()
}

// TxParams builds the parameters object of the checkers.
func (n *Node) TxParams(tx interfaces.Transaction, height uint32, cfg *config.Configuration) *transaction.TransactionParameters {
	if cfg == nil {
		cfg = n.Params
	}
	return &transaction.TransactionParameters{
		Transaction: tx,
		BlockHeight: height,
		TimeStamp:   n.Chain.BestChain.Timestamp,
		Config:      cfg,
		BlockChain:  n.Chain,
	}
}

// Verdict of one driven check.
type Verdict struct {
	Err      error  // nil = accepted
	Code     string // ELAError code name, if any
	End      bool   // SpecialContextCheck's second result
	Panicked bool
	PanicMsg string
	Site     string // first repository frame of a panic
}

func (v Verdict) Accepted() bool { return v.Err == nil && !v.Panicked }

func (v Verdict) String() string {
	switch {
	case v.Panicked:
		return "panic: " + v.PanicMsg
	case v.Err != nil:
		return v.Err.Error()
	}
	return "accepted"
}

func guard(v *Verdict) {
	if r := recover(); r != nil {
		v.Panicked = true
		v.PanicMsg = fmt.Sprint(r)
		v.Site = evid.PanicSite(debug.Stack())
	}
}

func fromELA(v *Verdict, e elaerr.ELAError) {
	if e == nil {
		return
	}
	v.Code = fmt.Sprintf("%d", int(e.Code()))
	if inner := e.InnerError(); inner != nil {
		v.Err = inner
	} else {
		v.Err = e
	}
}

// SpecialContextCheck drives tx.SpecialContextCheck() with parameters and references injected
// through SetParameters/SetReferences.
func (n *Node) SpecialContextCheck(tx interfaces.Transaction, height uint32, cfg *config.Configuration,
	refs map[*common2.Input]common2.Output) (v Verdict) {
	defer guard(&v)
	tx.SetParameters(n.TxParams(tx, height, cfg))
	tx.SetReferences(refs)
	e, end := tx.SpecialContextCheck()
	v.End = end
	fromELA(&v, e)
	return
}

// ContextCheck drives the complete tx.ContextCheck (references resolved by the chain's UTXO
// cache / store).
func (n *Node) ContextCheck(tx interfaces.Transaction, height uint32, cfg *config.Configuration) (refs map[*common2.Input]common2.Output, v Verdict) {
	defer guard(&v)
	refs, e := tx.ContextCheck(n.TxParams(tx, height, cfg))
	fromELA(&v, e)
	return
}

// SanityCheck drives the complete tx.SanityCheck.
func (n *Node) SanityCheck(tx interfaces.Transaction, height uint32, cfg *config.Configuration) (v Verdict) {
	defer guard(&v)
	fromELA(&v, tx.SanityCheck(n.TxParams(tx, height, cfg)))
	return
}

// Tx3Exists reports whether the side-chain-hash index holds h.
func (n *Node) Tx3Exists(h common.Uint256) bool {
	return n.Store.IsSidechainTxHashDuplicate(h)
}
