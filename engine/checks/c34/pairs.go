package main

// Stage 2 of C34: exhaustive pair coverage of the conflict table.
//
// The check carries its own table (classTable) of which transaction kinds claim which unique
// resource class — written from the statement and the repository's slot definitions, one class
// per conflict slot. For every class and every ORDERED pair of members (A, B) — same kind
// included — two real typed transactions are built that share the class's key and differ in
// every other key and input, and four short histories are run on a fresh real TxPool:
//
//	app:A  /  app:B            each is admitted alone and owns an entry in the class's slot
//	app:A app:B                A and B are never pooled together
//	app:A app:B blk:pool       the pool and every conflict slot end up empty
//	app:A blk:pool app:B       invariants hold (B may enter once A is confirmed)
//
// The registered (slot, transaction type) table of the production conflict manager is read at
// run time through the verif hook; a registered pair the class table does not cover is an
// engine error (exit 2), so a new slot/type shows up as a gap instead of going untested. A pair
// of the class table that the production table lost is found behaviourally (both admitted).

import (
	"fmt"
	"os"
	"sort"
	"strings"

	"github.com/elastos/Elastos.ELA/common"
	"github.com/elastos/Elastos.ELA/core/checkpoint"
	"github.com/elastos/Elastos.ELA/core/contract"
	pg "github.com/elastos/Elastos.ELA/core/contract/program"
	"github.com/elastos/Elastos.ELA/core/types"
	ctypes "github.com/elastos/Elastos.ELA/core/types/common"
	"github.com/elastos/Elastos.ELA/core/types/functions"
	"github.com/elastos/Elastos.ELA/core/types/interfaces"
	"github.com/elastos/Elastos.ELA/core/types/outputpayload"
	"github.com/elastos/Elastos.ELA/core/types/payload"
	"github.com/elastos/Elastos.ELA/crypto"
	elaerr "github.com/elastos/Elastos.ELA/errors"
	"github.com/elastos/Elastos.ELA/mempool"

	"verif/evid"
)

// a member of a class: a transaction kind and the builder fields that carry the class's key.
type member struct {
	kind   string
	typ    ctypes.TxType
	fields []string
}

type classDef struct {
	slot    string
	members []member
	// sameKindOnly: keys are payload hashes, two different kinds cannot produce the same key
	sameKindOnly bool
}

const sharedSeed = 0xC8

var fieldNames = []string{"input", "owner", "node", "nick", "crpub", "cid", "crnick", "cmdid", "progcode", "draft", "propdid", "customid",
	"target", "scname", "scmagic", "scgenesis", "prophash", "trackhash", "revdid", "revhash", "rwhash", "crwhash", "stake", "claim",
	"nftref", "nftstake", "nftdestroy", "schash", "rdhash", "special", "mscode"}

func defaultSeeds(variant int) map[string]byte {
	m := map[string]byte{}
	for i, f := range fieldNames {
		m[f] = byte(0x10 + variant*0x40 + i)
	}
	return m
}

var (
	rp = func(f ...string) member { return member{"RegisterProducer", ctypes.RegisterProducer, f} }
	up = func(f ...string) member { return member{"UpdateProducer", ctypes.UpdateProducer, f} }
	cp = func(f ...string) member { return member{"CancelProducer", ctypes.CancelProducer, f} }
	ap = func(f ...string) member { return member{"ActivateProducer", ctypes.ActivateProducer, f} }
	rc = func(f ...string) member { return member{"RegisterCR", ctypes.RegisterCR, f} }
	// code / payload forms of RegisterCR (strRegisterCRPublicKey branches on them)
	rcD = func(f ...string) member { return member{"RegisterCR{did}", ctypes.RegisterCR, f} }
	rcS = func(f ...string) member { return member{"RegisterCR{schnorr}", ctypes.RegisterCR, f} }
	rcM = func(f ...string) member { return member{"RegisterCR{multisig}", ctypes.RegisterCR, f} }
	uc = func(f ...string) member { return member{"UpdateCR", ctypes.UpdateCR, f} }
	xc = func(f ...string) member { return member{"UnregisterCR", ctypes.UnregisterCR, f} }
	cn = func(f ...string) member { return member{"CRCouncilMemberClaimNode", ctypes.CRCouncilMemberClaimNode, f} }
	pr = func(ptype string, f ...string) member { return member{"CRCProposal/" + ptype, ctypes.CRCProposal, f} }
)

// classTable: one class per conflict slot of the statement's "unique resources".
var classTable = []classDef{
	{slot: "DPoSOwnerPublicKey", members: []member{rp("owner"), up("owner"), cp("owner"), rc("crpub"), rcD("crpub"), rcS("crpub")}},
	// a multi-signature CR is identified by its code, which no single-key form can equal
	{slot: "DPoSOwnerPublicKey", members: []member{rcM("mscode")}},
	{slot: "DPoSNodePublicKey", members: []member{rcM("mscode")}},
	{slot: "DPoSActivateCancel", members: []member{cp("owner"), ap("node")}},
	{slot: "DPoSNodePublicKey", members: []member{rp("node"), up("node"), ap("node"), rc("crpub"), rcD("crpub"), rcS("crpub"), cn("node")}},
	{slot: "DPoSOwnerNodePublicKeys", members: []member{
		{"RegisterProducer[owner]", ctypes.RegisterProducer, []string{"owner"}}, {"RegisterProducer[node]", ctypes.RegisterProducer, []string{"node"}},
		{"UpdateProducer[owner]", ctypes.UpdateProducer, []string{"owner"}}, {"UpdateProducer[node]", ctypes.UpdateProducer, []string{"node"}}}},
	{slot: "CRCouncilMemberNodePublicKey", members: []member{cn("node")}},
	{slot: "CRCouncilMemberDID", members: []member{cn("cmdid")}},
	{slot: "DPoSNickname", members: []member{rp("nick"), up("nick")}},
	{slot: "CrDID", members: []member{rc("cid"), rcS("cid"), rcM("cid"), uc("cid"), xc("cid")}},
	{slot: "CrNickname", members: []member{rc("crnick"), rcS("crnick"), uc("crnick")}},
	{slot: "ProgramCode", members: []member{{"ReturnDepositCoin", ctypes.ReturnDepositCoin, []string{"progcode"}}, {"ReturnCRDepositCoin", ctypes.ReturnCRDepositCoin, []string{"progcode"}}}},
	{slot: "ChangeCustomIDFee", members: []member{pr("ChangeCustomIDFee")}},
	{slot: "ReserveCustomID", members: []member{pr("ReserveCustomID")}},
	{slot: "CloseProposalTargetProposalHash", members: []member{pr("CloseProposal", "target")}},
	{slot: "ChangeProposalOwnerTargetProposalHash", members: []member{pr("ChangeProposalOwner", "target")}},
	{slot: "CRCProposalDraftHash", members: []member{pr("Normal", "draft"), pr("CloseProposal", "draft")}},
	{slot: "CRCProposalDID", members: []member{pr("Normal", "propdid"), pr("ReserveCustomID", "propdid")}},
	{slot: "CRCProposalCustomID", members: []member{pr("ReceiveCustomID", "customid")}},
	{slot: "CRCProposalRegisterSideChainName", members: []member{pr("RegisterSideChain", "scname")}},
	{slot: "CRCProposalRegisterSideChainMagicNumber", members: []member{pr("RegisterSideChain", "scmagic")}},
	{slot: "CRCProposalRegisterSideChainGenesisHash", members: []member{pr("RegisterSideChain", "scgenesis")}},
	{slot: "CRCProposalHash", members: []member{{"CRCProposalWithdraw", ctypes.CRCProposalWithdraw, []string{"prophash"}}}},
	{slot: "CRCProposalTrackingHash", members: []member{{"CRCProposalTracking", ctypes.CRCProposalTracking, []string{"trackhash"}}}},
	{slot: "CRCProposalReviewKey", members: []member{{"CRCProposalReview", ctypes.CRCProposalReview, []string{"revdid", "revhash"}}}},
	{slot: "CRCAppropriationKey", members: []member{{"CRCAppropriation", ctypes.CRCAppropriation, nil}}},
	{slot: "CRCSecretaryGeneral", members: []member{pr("SecretaryGeneral")}},
	{slot: "CRCProposalRealWithdrawKey", members: []member{{"CRCProposalRealWithdraw", ctypes.CRCProposalRealWithdraw, []string{"rwhash"}}}},
	{slot: "DposV2ClaimRewardRealWithdrawKey", members: []member{{"DposV2ClaimRewardRealWithdraw", ctypes.DposV2ClaimRewardRealWithdraw, []string{"crwhash"}}}},
	{slot: "ExchangeVotes", members: []member{{"ExchangeVotes", ctypes.ExchangeVotes, []string{"stake"}}, {"Voting", ctypes.Voting, []string{"stake"}},
		{"ReturnVotes", ctypes.ReturnVotes, []string{"stake"}}, {"ReturnVotes{v1}", ctypes.ReturnVotes, []string{"stake"}}, {"CreateNFT", ctypes.CreateNFT, []string{"stake"}}}},
	{slot: "DposV2ClaimReward", members: []member{{"DposV2ClaimReward", ctypes.DposV2ClaimReward, []string{"claim"}}, {"DposV2ClaimReward{v1}", ctypes.DposV2ClaimReward, []string{"claim"}}}},
	{slot: "VotesRealWithdraw", members: []member{{"VotesRealWithdraw", ctypes.VotesRealWithdraw, nil}}},
	{slot: "RevertToDPOSHash", members: []member{{"RevertToDPOS", ctypes.RevertToDPOS, nil}}},
	{slot: "SpecialTxHash", sameKindOnly: true, members: []member{
		{"IllegalProposalEvidence", ctypes.IllegalProposalEvidence, []string{"special"}}, {"IllegalVoteEvidence", ctypes.IllegalVoteEvidence, []string{"special"}},
		{"IllegalBlockEvidence", ctypes.IllegalBlockEvidence, []string{"special"}}, {"IllegalSidechainEvidence", ctypes.IllegalSidechainEvidence, []string{"special"}},
		{"InactiveArbitrators", ctypes.InactiveArbitrators, []string{"special"}}, {"NextTurnDPOSInfo", ctypes.NextTurnDPOSInfo, []string{"special"}}}},
	{slot: "CustomIDProposalResult", members: []member{{"ProposalResult", ctypes.ProposalResult, nil}}},
	{slot: "SidechainTxHashes", members: []member{{"WithdrawFromSideChain", ctypes.WithdrawFromSideChain, []string{"schash"}},
		{"WithdrawFromSideChain{v1}", ctypes.WithdrawFromSideChain, []string{"schash"}}, {"WithdrawFromSideChain{v2}", ctypes.WithdrawFromSideChain, []string{"schash"}}}},
	{slot: "SidechainReturnDepositTxHashes", members: []member{{"ReturnSideChainDepositCoin", ctypes.ReturnSideChainDepositCoin, []string{"rdhash"}}}},
	{slot: "NFTDestroyFromSideChainHash", members: []member{{"NFTDestroyFromSideChain", ctypes.NFTDestroyFromSideChain, []string{"nftdestroy"}}}},
	{slot: "TxInputsReferKeys", members: []member{{"TransferAsset", ctypes.TransferAsset, []string{"input"}}, rp("input"), {"WithdrawFromSideChain", ctypes.WithdrawFromSideChain, []string{"input"}}}},
	{slot: "createnft", members: []member{{"CreateNFT", ctypes.CreateNFT, []string{"nftref"}}}},
	{slot: "createnftstakeaddr", members: []member{{"CreateNFT", ctypes.CreateNFT, []string{"nftstake"}}}},
}

// cancelOwnerSeeds: owner keys a CancelProducer of the pair stage may name; they are registered
// (node key = owner key) in the real DPoS state, because the pool derives the cancel key from it.
func cancelOwnerSeeds() []byte {
	return []byte{defaultSeeds(0)["owner"], defaultSeeds(1)["owner"], sharedSeed}
}

var fund2 interfaces.Transaction // funding transaction of the pair stage

func stakeCode(seed byte) []byte { return stdCode(pub(seed)) }

func schnorrCode(seed byte) []byte {
	pk, err := crypto.DecodePoint(pub(seed))
	if err != nil {
		evid.Fatalf("decode point: %v", err)
	}
	c, err := contract.CreateSchnorrRedeemScript(pk)
	if err != nil || !contract.IsSchnorr(c) {
		evid.Fatalf("schnorr code: %v", err)
	}
	return c
}

func multisigCode(seed byte) []byte {
	var pks []*crypto.PublicKey
	for i := byte(0); i < 3; i++ {
		pk, err := crypto.DecodePoint(pub(seed ^ (i << 6) ^ 0x05))
		if err != nil {
			evid.Fatalf("decode point: %v", err)
		}
		pks = append(pks, pk)
	}
	c, err := contract.CreateMultiSigRedeemScript(2, pks)
	if err != nil {
		evid.Fatalf("multisig code: %v", err)
	}
	return c
}

func stakeHash(seed byte) common.Uint168 {
	ct, err := contract.CreateStakeContractByCode(stakeCode(seed))
	if err != nil {
		evid.Fatalf("stake contract: %v", err)
	}
	return *ct.ToProgramHash()
}

// buildPairTx builds one real typed transaction of the given kind from field seeds.
func buildPairTx(kind string, s map[string]byte, nonce string) interfaces.Transaction {
	base, ptype, _ := strings.Cut(kind, "/")
	if i := strings.IndexByte(base, '['); i >= 0 {
		base = base[:i]
	}
	// {form}: the code / payload-version form of the transaction (the key functions of
	// conflictfunc.go branch on it)
	form := ""
	if i := strings.IndexByte(base, '{'); i >= 0 {
		form = strings.TrimSuffix(base[i+1:], "}")
		base = base[:i]
	}
	var ins []*ctypes.Input
	outs := plainOutputs(1, 900000)
	programs := []*pg.Program{}
	var t ctypes.TxType
	var pv byte
	var p interfaces.Payload
	withInput := true
	switch base {
	case "TransferAsset":
		t, p = ctypes.TransferAsset, &payload.TransferAsset{}
	case "RegisterProducer", "UpdateProducer":
		t = ctypes.RegisterProducer
		if base == "UpdateProducer" {
			t = ctypes.UpdateProducer
		}
		p = &payload.ProducerInfo{OwnerKey: pub(s["owner"]), NodePublicKey: pub(s["node"]), NickName: fmt.Sprintf("nick-%02x", s["nick"]), Url: "http://example.org", Location: 1, NetAddress: "127.0.0.1:20338", Signature: []byte{1}}
	case "CancelProducer":
		t, p = ctypes.CancelProducer, &payload.ProcessProducer{OwnerKey: pub(s["owner"]), Signature: []byte{1}}
	case "ActivateProducer":
		t, p = ctypes.ActivateProducer, &payload.ActivateProducer{NodePublicKey: pub(s["node"]), Signature: []byte{1}}
		withInput = false
	case "RegisterCR":
		info := &payload.CRInfo{Code: stdCode(pub(s["crpub"])), CID: h168(s["cid"]), DID: h168(s["cid"] ^ 0xff), NickName: fmt.Sprintf("cr-%02x", s["crnick"]), Url: "http://example.org", Location: 1, Signature: []byte{1}}
		t, p = ctypes.RegisterCR, info
		switch form {
		case "":
		case "did":
			pv = payload.CRInfoDIDVersion
		case "schnorr":
			// as on the wire: the payload carries no code, the program does
			pv, info.Code = payload.CRInfoSchnorrVersion, []byte{}
			programs = []*pg.Program{{Code: schnorrCode(s["crpub"]), Parameter: []byte{1}}}
		case "multisig":
			pv, info.Code = payload.CRInfoMultiSignVersion, []byte{}
			programs = []*pg.Program{{Code: multisigCode(s["mscode"]), Parameter: []byte{1}}}
		default:
			evid.Fatalf("RegisterCR form %q", form)
		}
	case "UpdateCR":
		t, p = ctypes.UpdateCR, &payload.CRInfo{Code: stdCode(pub(s["crpub"])), CID: h168(s["cid"]), DID: h168(s["cid"] ^ 0xff), NickName: fmt.Sprintf("cr-%02x", s["crnick"]), Url: "http://example.org", Location: 1, Signature: []byte{1}}
	case "UnregisterCR":
		t, p = ctypes.UnregisterCR, &payload.UnregisterCR{CID: h168(s["cid"]), Signature: []byte{1}}
	case "CRCouncilMemberClaimNode":
		t, p = ctypes.CRCouncilMemberClaimNode, &payload.CRCouncilMemberClaimNode{NodePublicKey: pub(s["node"]), CRCouncilCommitteeDID: h168(s["cmdid"]), CRCouncilCommitteeSignature: []byte{1}}
	case "ReturnDepositCoin", "ReturnCRDepositCoin":
		t, p = ctypes.ReturnDepositCoin, &payload.ReturnDepositCoin{}
		if base == "ReturnCRDepositCoin" {
			t, p = ctypes.ReturnCRDepositCoin, &payload.ReturnDepositCoin{}
		}
		programs = []*pg.Program{{Code: stdCode(pub(s["progcode"])), Parameter: []byte{1}}}
	case "CRCProposal":
		t, pv = ctypes.CRCProposal, payload.CRCProposalVersion
		cp := &payload.CRCProposal{CategoryData: "c34", OwnerKey: pub(42), DraftHash: h256(s["draft"]), Recipient: h168(0x77), CRCouncilMemberDID: h168(s["propdid"]), Signature: []byte{1}, CRCouncilMemberSignature: []byte{1}}
		switch ptype {
		case "Normal":
			cp.ProposalType = payload.Normal
			cp.Budgets = []payload.Budget{{Type: payload.Imprest, Stage: 0, Amount: 10}, {Type: payload.FinalPayment, Stage: 1, Amount: 20}}
		case "CloseProposal":
			cp.ProposalType = payload.CloseProposal
			cp.TargetProposalHash = h256(s["target"])
		case "ChangeProposalOwner":
			cp.ProposalType = payload.ChangeProposalOwner
			cp.TargetProposalHash = h256(s["target"])
			cp.NewOwnerKey = pub(43)
			cp.NewRecipient = h168(0x78)
			cp.NewOwnerSignature = []byte{1}
		case "SecretaryGeneral":
			cp.ProposalType = payload.SecretaryGeneral
			cp.SecretaryGeneralPublicKey = pub(44)
			cp.SecretaryGeneralDID = h168(s["cmdid"])
			cp.SecretaryGeneraSignature = []byte{1}
		case "ReserveCustomID":
			cp.ProposalType = payload.ReserveCustomID
			cp.ReservedCustomIDList = []string{fmt.Sprintf("reserved%02x", s["customid"])}
		case "ReceiveCustomID":
			cp.ProposalType = payload.ReceiveCustomID
			cp.ReceivedCustomIDList = []string{fmt.Sprintf("id%02x", s["customid"]), fmt.Sprintf("other%02x%02x", s["customid"], s["draft"])}
			cp.ReceiverDID = h168(0x79)
		case "ChangeCustomIDFee":
			cp.ProposalType = payload.ChangeCustomIDFee
			cp.CustomIDFeeRateInfo = payload.CustomIDFeeRateInfo{RateOfCustomIDFee: 1, EIDEffectiveHeight: 100}
		case "RegisterSideChain":
			cp.ProposalType = payload.RegisterSideChain
			cp.SideChainInfo = payload.SideChainInfo{SideChainName: fmt.Sprintf("chain%02x", s["scname"]), MagicNumber: uint32(s["scmagic"]), GenesisHash: h256(s["scgenesis"]), ExchangeRate: 100000000, EffectiveHeight: 100, ResourcePath: "http://example.org"}
		default:
			evid.Fatalf("proposal type %q", ptype)
		}
		p = cp
	case "CRCProposalWithdraw":
		t, p = ctypes.CRCProposalWithdraw, &payload.CRCProposalWithdraw{ProposalHash: h256(s["prophash"]), OwnerKey: pub(42), Signature: []byte{1}}
	case "CRCProposalTracking":
		t, p = ctypes.CRCProposalTracking, &payload.CRCProposalTracking{ProposalHash: h256(s["trackhash"]), MessageHash: h256(1), OwnerKey: pub(42), OwnerSignature: []byte{1}, SecretaryGeneralOpinionHash: h256(2), SecretaryGeneralSignature: []byte{1}}
	case "CRCProposalReview":
		t, p = ctypes.CRCProposalReview, &payload.CRCProposalReview{ProposalHash: h256(s["revhash"]), VoteResult: payload.Approve, OpinionHash: h256(3), DID: h168(s["revdid"]), Signature: []byte{1}}
	case "CRCAppropriation":
		t, p = ctypes.CRCAppropriation, &payload.CRCAppropriation{}
	case "CRCProposalRealWithdraw":
		t, p = ctypes.CRCProposalRealWithdraw, &payload.CRCProposalRealWithdraw{WithdrawTransactionHashes: []common.Uint256{h256(s["rwhash"]), h256(s["rwhash"] ^ s["draft"])}}
	case "DposV2ClaimRewardRealWithdraw":
		t, p = ctypes.DposV2ClaimRewardRealWithdraw, &payload.DposV2ClaimRewardRealWithdraw{WithdrawTransactionHashes: []common.Uint256{h256(s["crwhash"])}}
		withInput = false
	case "ExchangeVotes":
		t, p = ctypes.ExchangeVotes, &payload.ExchangeVotes{}
		outs = []*ctypes.Output{{Value: 1000, ProgramHash: stakeHash(s["stake"]), Type: ctypes.OTStake, Payload: &outputpayload.ExchangeVotesOutput{Version: 0, StakeAddress: stakeHash(s["stake"])}}}
	case "Voting":
		t, p = ctypes.Voting, &payload.Voting{}
		programs = []*pg.Program{{Code: stakeCode(s["stake"]), Parameter: []byte{1}}}
	case "ReturnVotes":
		rv := &payload.ReturnVotes{ToAddr: h168(0x7a), Code: stakeCode(s["stake"]), Value: 100, Signature: []byte{1}}
		t, pv, p = ctypes.ReturnVotes, payload.ReturnVotesVersionV0, rv
		programs = []*pg.Program{{Code: stakeCode(s["stake"]), Parameter: []byte{1}}}
		if form == "v1" { // the code is only in the program
			pv, rv.Code, rv.Signature = payload.ReturnVotesVersionV0+1, nil, nil
		}
	case "CreateNFT":
		t, p = ctypes.CreateNFT, &payload.CreateNFT{ReferKey: h256(s["nftref"]), StakeAddress: fmt.Sprintf("Sstake%02x", s["nftstake"]), GenesisBlockHash: h256(4)}
		programs = []*pg.Program{{Code: stakeCode(s["stake"]), Parameter: []byte{1}}}
	case "DposV2ClaimReward":
		cr := &payload.DPoSV2ClaimReward{ToAddr: h168(0x7b), Code: stakeCode(s["claim"]), Value: 100, Signature: []byte{1}}
		t, pv, p = ctypes.DposV2ClaimReward, payload.DposV2ClaimRewardVersionV0, cr
		programs = []*pg.Program{{Code: stakeCode(s["claim"]), Parameter: []byte{1}}}
		if form == "v1" {
			pv, cr.Code, cr.Signature = payload.DposV2ClaimRewardVersionV1, nil, nil
		}
	case "VotesRealWithdraw":
		t, p = ctypes.VotesRealWithdraw, &payload.VotesRealWithdrawPayload{VotesRealWithdraw: []payload.VotesRealWidhdraw{{ReturnVotesTXHash: h256(s["draft"]), StakeAddress: h168(0x7c), Value: 10}}}
		withInput = false
	case "RevertToDPOS":
		t, p = ctypes.RevertToDPOS, &payload.RevertToDPOS{WorkHeightInterval: 10, RevertToPOWBlockHeight: uint32(s["draft"])}
		withInput = false
	case "ProposalResult":
		t, p = ctypes.ProposalResult, &payload.RecordProposalResult{ProposalResults: []payload.ProposalResult{{ProposalHash: h256(s["draft"]), ProposalType: payload.ReserveCustomID, Result: true}}}
		withInput = false
	case "IllegalProposalEvidence":
		ev := func(b byte) payload.ProposalEvidence {
			return payload.ProposalEvidence{Proposal: payload.DPOSProposal{Sponsor: pub(45), BlockHash: h256(b), ViewOffset: 0, Sign: []byte{1}}, BlockHeader: []byte{b, 1, 2}, BlockHeight: 10}
		}
		t, p = ctypes.IllegalProposalEvidence, &payload.DPOSIllegalProposals{Evidence: ev(s["special"]), CompareEvidence: ev(s["special"] ^ 0x55)}
		withInput = false
	case "IllegalVoteEvidence":
		ev := func(b byte) payload.VoteEvidence {
			return payload.VoteEvidence{ProposalEvidence: payload.ProposalEvidence{Proposal: payload.DPOSProposal{Sponsor: pub(45), BlockHash: h256(b), Sign: []byte{1}}, BlockHeader: []byte{b, 1, 2}, BlockHeight: 10},
				Vote: payload.DPOSProposalVote{ProposalHash: h256(b), Signer: pub(46), Accept: true, Sign: []byte{1}}}
		}
		t, p = ctypes.IllegalVoteEvidence, &payload.DPOSIllegalVotes{Evidence: ev(s["special"]), CompareEvidence: ev(s["special"] ^ 0x55)}
		withInput = false
	case "IllegalBlockEvidence":
		ev := func(b byte) payload.BlockEvidence {
			return payload.BlockEvidence{Header: []byte{b, 1, 2}, BlockConfirm: []byte{b, 3}, Signers: [][]byte{pub(45)}}
		}
		t, p = ctypes.IllegalBlockEvidence, &payload.DPOSIllegalBlocks{CoinType: payload.ELACoin, BlockHeight: 10, Evidence: ev(s["special"]), CompareEvidence: ev(s["special"] ^ 0x55)}
		withInput = false
	case "IllegalSidechainEvidence":
		t, p = ctypes.IllegalSidechainEvidence, &payload.SidechainIllegalData{IllegalType: payload.SidechainIllegalProposal, Height: 10, IllegalSigner: pub(45),
			Evidence: payload.SidechainIllegalEvidence{DataHash: h256(s["special"])}, CompareEvidence: payload.SidechainIllegalEvidence{DataHash: h256(s["special"] ^ 0x55)},
			GenesisBlockAddress: "XKUh4GLhFJiqAMTF6HyWQrV9pK9HcGUdfJ", Signs: [][]byte{{1}}}
		withInput = false
	case "InactiveArbitrators":
		t, p = ctypes.InactiveArbitrators, &payload.InactiveArbitrators{Sponsor: pub(45), Arbitrators: [][]byte{pub(s["special"])}, BlockHeight: 10}
		withInput = false
	case "NextTurnDPOSInfo":
		t, p = ctypes.NextTurnDPOSInfo, &payload.NextTurnDPOSInfo{WorkingHeight: uint32(s["special"]), CRPublicKeys: [][]byte{pub(45)}, DPOSPublicKeys: [][]byte{pub(46)}}
		withInput = false
	case "WithdrawFromSideChain":
		t, pv, p = ctypes.WithdrawFromSideChain, payload.WithdrawFromSideChainVersion, &payload.WithdrawFromSideChain{BlockHeight: 100, GenesisBlockAddress: "eb7adb1fea0dd6185b09a43bdcd4924bb22bff7151f0b1b4e08699840ab1384b",
			SideChainTransactionHashes: []common.Uint256{h256(s["schash"]), h256(s["schash"] ^ s["draft"])}}
		if form == "v1" || form == "v2" {
			// as on the wire: the side-chain hashes travel in the outputs, the payload has
			// none (v1) / only the signer indexes (v2, Schnorr)
			pv, p = payload.WithdrawFromSideChainVersionV1, &payload.WithdrawFromSideChain{}
			if form == "v2" {
				pv, p = payload.WithdrawFromSideChainVersionV2, &payload.WithdrawFromSideChain{Signers: []uint8{0, 1}}
			}
			outs = nil
			for i, h := range []common.Uint256{h256(s["schash"]), h256(s["schash"] ^ s["draft"])} {
				outs = append(outs, &ctypes.Output{Value: 1000, ProgramHash: h168(byte(0x60 + i)), Type: ctypes.OTWithdrawFromSideChain,
					Payload: &outputpayload.Withdraw{Version: 0, GenesisBlockAddress: "XKUh4GLhFJiqAMTF6HyWQrV9pK9HcGUdfJ", SideChainTransactionHash: h, TargetData: []byte{1}}})
			}
		}
	case "ReturnSideChainDepositCoin":
		t, p = ctypes.ReturnSideChainDepositCoin, &payload.ReturnSideChainDepositCoin{}
		outs = []*ctypes.Output{{Value: 1000, ProgramHash: h168(0x60), Type: ctypes.OTReturnSideChainDepositCoin,
			Payload: &outputpayload.ReturnSideChainDeposit{Version: 0, GenesisBlockAddress: "XKUh4GLhFJiqAMTF6HyWQrV9pK9HcGUdfJ", DepositTransactionHash: h256(s["rdhash"])}}}
	case "NFTDestroyFromSideChain":
		t, p = ctypes.NFTDestroyFromSideChain, &payload.NFTDestroyFromSideChain{IDs: []common.Uint256{h256(s["nftdestroy"])}, OwnerStakeAddresses: []common.Uint168{h168(0x7d)}, GenesisBlockHash: h256(5)}
	default:
		evid.Fatalf("pair stage: no builder for kind %q", kind)
	}
	if withInput {
		ins = []*ctypes.Input{{Previous: ctypes.OutPoint{TxID: fund2.Hash(), Index: uint16(s["input"])}, Sequence: 0}}
	}
	attrs := []*ctypes.Attribute{{Usage: ctypes.Nonce, Data: []byte(nonce)}}
	return functions.CreateTransaction(ctypes.TxVersion09, t, pv, p, attrs, ins, outs, 0, programs)
}

// ---------------------------------------------------------------------------------------------

// ptx is one pair-stage transaction; its wrapper answers the context check from "confirmed".
type ptx struct {
	interfaces.Transaction
	kind      string
	confirmed *bool
	budget    common.Fixed64
}

func (w *ptx) SanityCheck(interfaces.Parameters) elaerr.ELAError { return nil }
func (w *ptx) ContextCheck(interfaces.Parameters) (map[*ctypes.Input]ctypes.Output, elaerr.ELAError) {
	if *w.confirmed {
		return nil, elaerr.Simple(elaerr.ErrTxDuplicate, fmt.Errorf("already on chain"))
	}
	return nil, nil
}

type pairStats struct {
	classes, pairs, histories, ops  int
	skippedHistories               int
	rejectedSecond, admittedSecond int
	notConstructible                []string
}

func newPtx(kind string, variant int, fields []string, nonce string) *ptx {
	s := defaultSeeds(variant)
	for _, f := range fields {
		s[f] = sharedSeed
	}
	real := buildPairTx(kind, s, nonce)
	p := &ptx{Transaction: real, kind: kind, confirmed: new(bool)}
	if cp, ok := real.Payload().(*payload.CRCProposal); ok {
		for _, b := range cp.Budgets {
			p.budget += b.Amount
		}
	}
	size := real.GetSize()
	real.SetFee(common.Fixed64(10 * size))
	real.Hash()
	return p
}

// pairInvariants: generic invariants on a pool that can only hold a and/or b.
func pairInvariants(pool *mempool.TxPool, slot string, a, b *ptx, after string) (sig, what string) {
	s := pool.VerifSnapshot()
	known := map[common.Uint256]*ptx{a.Hash(): a, b.Hash(): b}
	pooled := map[common.Uint256]*ptx{}
	for _, h := range s.TxnList {
		if known[h] == nil {
			return "C34|unknown-pooled-tx|after=" + after, "pool holds a transaction that was never submitted"
		}
		pooled[h] = known[h]
	}
	if len(pooled) == 2 {
		return fmt.Sprintf("C34|shared-resource|slot=%s|%s+%s|after=%s", slot, a.kind, b.kind, after),
			fmt.Sprintf("a %s and a %s transaction that claim the same %s key are pooled together", a.kind, b.kind, slot)
	}
	owns := map[common.Uint256]bool{}
	for _, e := range s.Slots {
		p := pooled[e.Tx]
		if p == nil {
			kind := "unknown"
			if k := known[e.Tx]; k != nil {
				kind = k.kind
			}
			return fmt.Sprintf("C34|index-dangling|slot=%s|tx=%s|after=%s", e.Slot, kind, after), fmt.Sprintf("conflict slot %s holds a key of a %s transaction that is not in the pool", e.Slot, kind)
		}
		if e.Slot == slot {
			owns[e.Tx] = true
		}
	}
	for h, p := range pooled {
		if !owns[h] {
			return fmt.Sprintf("C34|index-missing|slot=%s|tx=%s|after=%s", slot, p.kind, after), fmt.Sprintf("a pooled %s transaction has no entry in conflict slot %s", p.kind, slot)
		}
	}
	var bytes uint64
	var budget common.Fixed64
	seen := map[common.Uint256]bool{}
	for _, it := range s.Fees {
		p := pooled[it.Hash]
		if p == nil || seen[it.Hash] {
			return "C34|fees-not-pooled|after=" + after, "fee list holds a transaction that is not in the pool (or twice)"
		}
		seen[it.Hash] = true
		if int(it.Size) != p.GetSize() {
			return "C34|fees-item-size|after=" + after, "fee list records a size that is not the transaction's size"
		}
	}
	for h, p := range pooled {
		if !seen[h] {
			return fmt.Sprintf("C34|fees-missing|tx=%s|after=%s", p.kind, after), fmt.Sprintf("a pooled %s transaction is not in the fee list", p.kind)
		}
		bytes += uint64(p.GetSize())
		budget += p.budget
	}
	if s.FeesTotalSize != bytes {
		return "C34|total-size|after=" + after, "fee list total size differs from the sum of the pooled transaction sizes"
	}
	if s.ProposalsUsedAmount != budget {
		return "C34|proposal-amount|after=" + after, "proposalsUsedAmount differs from the sum of the budgets of the pooled proposals"
	}
	return "", ""
}

// runPairStage enumerates every class and ordered member pair.
func runPairStage(r *evid.Run) *pairStats {
	st := &pairStats{}
	// coverage: every registered (slot, type) pair must be a member of the class of that slot
	covered := map[string]bool{}
	for _, c := range classTable {
		for _, m := range c.members {
			covered[fmt.Sprintf("%s/%d", c.slot, m.typ)] = true
		}
	}
	for _, p := range mempool.VerifConflictTable() {
		key := fmt.Sprintf("%s/%d", p.Slot, p.Type)
		if p.Type == 0xff {
			key = fmt.Sprintf("%s/%d", p.Slot, ctypes.TransferAsset)
		}
		if !covered[key] {
			fatal("conflict table coverage gap: slot %s is registered for transaction type %s (0x%02x) but the check's class table has no colliding pair for it — extend classTable in engine/checks/c34/pairs.go", p.Slot, ctypes.TxType(p.Type).Name(), p.Type)
		}
	}
	// a kind that owns no entry in a slot when pooled alone is reported once; its pairs in that
	// slot are consequences of the same defect and are not run
	broken := map[string]bool{}
	for _, c := range classTable {
		st.classes++
		for ai, ma := range c.members {
			for bi, mb := range c.members {
				if c.sameKindOnly && ai != bi {
					continue
				}
				label := fmt.Sprintf("%s: %s then %s", c.slot, ma.kind, mb.kind)
				st.pairs++
				histories := [][]string{{"A"}, {"B"}, {"A", "B"}, {"A", "B", "blk"}, {"A", "blk", "B"}, {"A", "B", "A"}}
				for hi, h := range histories {
					if len(h) > 1 && os.Getenv("VERIF_C34_NOSKIP") == "" && (broken[c.slot+"|"+ma.kind] || broken[c.slot+"|"+mb.kind]) {
						st.skippedHistories++
						continue
					}
					a := newPtx(ma.kind, 0, ma.fields, "pairA")
					b := newPtx(mb.kind, 1, mb.fields, "pairB")
					if a.Hash() == b.Hash() {
						fatal("pair stage: %s built the same transaction twice", label)
					}
					ckp := checkpoint.NewManager(params)
					pool := mempool.NewTxPool(params, ckp)
					st.histories++
					for oi, op := range h {
						st.ops++
						after := "app"
						switch op {
						case "A", "B":
							tx := a
							if op == "B" {
								tx = b
							}
							err := pool.AppendToTxPoolWithoutEvent(tx)
							if len(h) == 1 && err != nil {
								ckp.Unregister("cp_txPool")
								fatal("pair stage: %s: transaction %s is not admitted alone (%v): the pair is not exercised", label, op, err)
							}
							if op == "B" && hi == 2 {
								if err != nil {
									st.rejectedSecond++
								} else {
									st.admittedSecond++
								}
							}
						case "blk":
							after = "blk"
							var txs []interfaces.Transaction
							for _, p := range []*ptx{a, b} {
								if pool.HaveTransaction(p.Hash()) {
									*p.confirmed = true
									txs = append(txs, p.Transaction)
								}
							}
							pool.CleanSubmittedTransactions(&types.Block{Header: ctypes.Header{Height: 1}, Transactions: txs})
							pool.CheckAndCleanAllTransactions()
							if pool.GetTransactionCount() != 0 {
								r.Violate(fmt.Sprintf("C34|confirmed-tx-stays-pooled|slot=%s|after=blk", c.slot), "a transaction confirmed by a block is still pooled after the post-block cleanup",
									map[string]interface{}{"system": "pairs", "slot": c.slot, "a": ma.kind, "b": mb.kind, "history": h[:oi+1]})
							}
						}
						if sig, what := pairInvariants(pool, c.slot, a, b, after); sig != "" {
							if len(h) == 1 && strings.HasPrefix(sig, "C34|index-missing|") {
								k := ma.kind
								if h[0] == "B" {
									k = mb.kind
								}
								broken[c.slot+"|"+k] = true
							}
							r.Violate(sig, what, map[string]interface{}{"system": "pairs", "slot": c.slot, "a": ma.kind, "b": mb.kind, "a_fields": ma.fields, "b_fields": mb.fields, "history": h[:oi+1]})
							break
						}
					}
					ckp.Unregister("cp_txPool")
				}
			}
		}
	}
	sort.Strings(st.notConstructible)
	return st
}
