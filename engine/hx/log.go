// Package hx holds small harness helpers shared by checks (log silencing, fixed keys, …).
package hx

import (
	"os"
	"path/filepath"

	"github.com/elastos/Elastos.ELA/common/log"
)

// QuietLogs installs the repository's default logger (several packages dereference it
// unconditionally) with a level above every message, writing into dir.
func QuietLogs(dir string) {
	os.MkdirAll(dir, 0o755)
	log.NewDefault(filepath.Join(dir, "logs"), 255, 0, 0)
}
