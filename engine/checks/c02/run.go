package main

import (
	"encoding/hex"
	"encoding/json"
	"fmt"
	"os"
	"runtime"
	"runtime/pprof"
	"sort"
	"strconv"
	"strings"
	"time"

	"verif/evid"
	"verif/hx"
	"verif/par"
	"verif/wire"
)

type artefact struct {
	Seed   string `json:"seed"`
	Kind   string `json:"kind"`
	Label  string `json:"label"`
	Input  string `json:"input_hex"`
	Alloc  uint64 `json:"alloc_bytes,omitempty"`
	Detail string `json:"detail,omitempty"`
}

// seg is a contiguous range of case indices of one seed.
type seg struct {
	Seed int `json:"s"`
	From int `json:"f"`
	To   int `json:"t"` // exclusive
}

type job struct {
	Op    string `json:"op"` // enum | diag
	Segs  []seg  `json:"segs,omitempty"`
	Known known  `json:"known,omitempty"`
	Seed  int    `json:"seed,omitempty"`  // diag
	Input string `json:"input,omitempty"` // diag
}

type seedStat struct {
	Cases    int            `json:"cases"`
	Fields   int            `json:"fields"`
	MaxAlloc uint64         `json:"max_alloc"`
	Classes  map[string]int `json:"classes"`
	Kinds    map[string]int `json:"kinds"`
}

type workerOut struct {
	PerSeed    map[string]*seedStat `json:"per_seed"`
	Done       bool                 `json:"done"`
	Expired    bool                 `json:"expired"`
	SegIdx     int                  `json:"seg_idx"` // segment in progress
	Next       int                  `json:"next"`    // first case of that segment not yet executed
	Invalid    []string             `json:"invalid,omitempty"`
	Violations []evid.Violation     `json:"violations"`
	Known      known                `json:"known,omitempty"`
	Diag       *diagResult          `json:"diag,omitempty"`
	ElapsedMs  int64                `json:"elapsed_ms"`
}

func (o *workerOut) stat(n string) *seedStat {
	ws := o.PerSeed[n]
	if ws == nil {
		ws = &seedStat{Classes: map[string]int{}, Kinds: map[string]int{}}
		o.PerSeed[n] = ws
	}
	return ws
}

func runWorker(r *evid.Run, js string) {
	runtime.MemProfileRate = 0
	t0 := time.Now()
	var j job
	if err := json.Unmarshal([]byte(js), &j); err != nil {
		evid.Fatalf("job: %v", err)
	}
	seeds, _ := wire.AllSeeds()
	switch j.Op {
	case "enum":
		out := workerOut{PerSeed: map[string]*seedStat{}, Known: j.Known.clone()}
		if out.Known == nil {
			out.Known = known{}
		}
		vidx := map[string]int{}
		addViol := func(sig, what string, art artefact) {
			if i, ok := vidx[sig]; ok {
				out.Violations[i].Count++
				return
			}
			vidx[sig] = len(out.Violations)
			out.Violations = append(out.Violations, evid.Violation{Signature: sig, What: what, Count: 1, Artefact: art})
		}
		n := 0
		for k, sg := range j.Segs {
			if sg.Seed < 0 || sg.Seed >= len(seeds) {
				evid.Fatalf("seed index %d out of range", sg.Seed)
			}
			s := seeds[sg.Seed]
			out.SegIdx, out.Next = k, sg.From
			tr, ok := baseline(s)
			if !ok {
				out.Invalid = append(out.Invalid, s.Name)
				continue
			}
			fields := wire.Fields(tr)
			ws := out.stat(s.Name)
			ws.Fields = len(fields)
			g := &caseGen{seed: s.Bytes, fields: fields, tier: r.Tier}
			g.each(sg.From, func(idx int, kind, label string, input []byte) bool {
				if idx >= sg.To {
					return false
				}
				if n > 0 && n%128 == 0 {
					par.Emit(out) // checkpoint: counters survive a later death of this process
				}
				n++
				par.Announce(fmt.Sprintf("%d:%d:%s:%s", sg.Seed, idx, kind, label))
				t := wire.NewTracker(input)
				t.NoTrace = true
				o := decode(s, input, t, out.Known)
				ws.Cases++
				ws.Kinds[kind]++
				cls := o.Class
				if cls == "err" || cls == "ok" {
					cls = cls + "@" + strconv.Itoa(o.Reads)
				}
				ws.Classes[cls]++
				if o.Alloc > ws.MaxAlloc {
					ws.MaxAlloc = o.Alloc
				}
				switch {
				case o.Class == "suppressed":
					addViol(o.SupSite, "", artefact{Seed: s.Name, Kind: kind, Label: label, Input: hex.EncodeToString(input), Detail: "stopped at the read of the count (site already shown to allocate from it)"})
				case o.Class == "panic" || o.Alloc > bound(len(input)):
					d := diagnose(s, input, false)
					if d.Signature == "" {
						// not reproduced on the second run: engine problem, never a verdict
						evid.Fatalf("violation on %s case %d (%s %s) did not reproduce under diagnosis", s.Name, idx, kind, label)
					}
					addViol(d.Signature, d.What, artefact{Seed: s.Name, Kind: kind, Label: label, Input: hex.EncodeToString(input), Alloc: d.Alloc})
					out.Known.learn(d.Site, guardFrom(d, len(input)), d.Signature, strings.HasSuffix(d.Signature, "|self"))
				}
				out.Next = idx + 1
				if r.Expired() {
					out.Expired = true
					return false
				}
				return true
			})
			if out.Expired {
				break
			}
		}
		out.Done = !out.Expired
		out.ElapsedMs = time.Since(t0).Milliseconds()
		par.Emit(out)
	case "diag":
		// single case, announcing every read site and value, so that the parent can name the
		// culprit even if this process is killed by the allocation.
		input, err := hex.DecodeString(j.Input)
		if err != nil {
			evid.Fatalf("diag: bad hex")
		}
		par.Announce("site:none|field=?#0")
		d := diagnose(seeds[j.Seed], input, true)
		par.Emit(workerOut{Diag: &d, Done: true})
	default:
		evid.Fatalf("unknown job %q", js)
	}
}

func jobString(j job) string {
	b, _ := json.Marshal(j)
	return string(b)
}

// diagInSubprocess runs one input in a fresh worker and turns a death into a signature.
func diagInSubprocess(scr string, si int, s *wire.Seed, input []byte) diagResult {
	res := par.Procs([]string{jobString(job{Op: "diag", Seed: si, Input: hex.EncodeToString(input)})}, scr, par.Opts{MemMB: workerMemMB, Timeout: 5 * time.Minute, Parallel: 1, Env: []string{"GOMAXPROCS=2"}})
	return diagOf(res[0], s)
}

func diagOf(r0 par.Result, s *wire.Seed) diagResult {
	if !r0.Died {
		var wo workerOut
		if err := json.Unmarshal(r0.Out, &wo); err != nil || wo.Diag == nil {
			evid.Fatalf("diag worker output: %v %s", err, r0.Stderr)
		}
		return *wo.Diag
	}
	if r0.TimedOut {
		evid.Fatalf("diag worker timed out on %s", s.Name)
	}
	if !strings.HasPrefix(r0.Announced, "site:") {
		evid.Fatalf("diag worker died without announcing a site: %s", r0.Stderr)
	}
	site := strings.TrimPrefix(r0.Announced, "site:")
	var val uint64
	if k := strings.LastIndex(site, "#"); k >= 0 {
		val, _ = strconv.ParseUint(site[k+1:], 10, 64)
		site = site[:k]
	}
	fatal := "killed"
	if strings.Contains(r0.Stderr, "out of memory") || strings.Contains(r0.Stderr, "cannot allocate memory") {
		fatal = "fatal error: out of memory"
	}
	if k := strings.Index(site, "|self@"); k >= 0 {
		// the untracked decoder died on its own (its twin had finished cleanly)
		name, csite := site[:k], site[k+len("|self@"):]
		return diagResult{Signature: "C02|alloc|" + name + "|self", Class: "alloc", Site: csite, MinVal: val,
			What: fmt.Sprintf("%s dies (%s under a %d MiB address-space limit) allocating from an unchecked wire count where the io.Reader decoder of the same layout does not; count read at %s", name, fatal, workerMemMB, csite)}
	}
	return diagResult{Signature: "C02|alloc|" + site, Class: "alloc", Site: site, MinVal: val,
		What: fmt.Sprintf("decoder process dies (%s under a %d MiB address-space limit) right after the wire value read at %s (unchecked count used as an allocation size)", fatal, workerMemMB, site)}
}

// ---------------------------------------------------------------------------------------------

type pend struct {
	segs  []seg
	known known
}

func segCases(ss []seg) int {
	n := 0
	for _, s := range ss {
		n += s.To - s.From
	}
	return n
}

// pack groups segments into jobs of about `size` cases, splitting long segments.
func pack(ss []seg, size int) []pend {
	var out []pend
	var cur []seg
	room := size
	flush := func() {
		if len(cur) > 0 {
			out = append(out, pend{segs: cur, known: known{}})
			cur, room = nil, size
		}
	}
	for _, s := range ss {
		for s.From < s.To {
			n := s.To - s.From
			if n > room {
				n = room
			}
			cur = append(cur, seg{s.Seed, s.From, s.From + n})
			s.From += n
			room -= n
			if room == 0 {
				flush()
			}
		}
	}
	flush()
	return out
}

func main() {
	r := evid.Start("C02", "exploration")
	scr := evid.Scratch("c02")
	defer os.RemoveAll(scr)
	if js, ok := par.Worker(); ok {
		hx.QuietLogs(scr)
		if pf := os.Getenv("VERIF_C02_PROF"); pf != "" {
			f, _ := os.Create(pf)
			pprof.StartCPUProfile(f)
		}
		runWorker(r, js)
		pprof.StopCPUProfile()
		os.RemoveAll(scr)
		return
	}
	hx.QuietLogs(scr)
	seeds, skipped := wire.AllSeeds()
	if len(os.Args) > 1 && os.Args[1] == "--seeds" {
		listSeeds(seeds, skipped)
		os.RemoveAll(scr)
		return
	}
	if r.Replay != "" {
		replay(r, scr, seeds)
		return
	}

	invalid := []string{}
	only := os.Getenv("VERIF_C02_ONLY") // debugging aid: restrict to seeds whose name contains this
	var ph1, ph2 []seg
	nSeeds := 0
	for i, s := range seeds {
		if only != "" && !strings.Contains(s.Name, only) {
			continue
		}
		if err := s.Validate(); err != nil {
			invalid = append(invalid, s.Name+": "+err.Error())
			continue
		}
		nSeeds++
		tr, _ := baseline(s)
		fs := wire.Fields(tr)
		nf := 0
		for _, fd := range fs {
			nf += len(wire.FieldSubsts(s.Bytes, fd))
		}
		g := &caseGen{seed: s.Bytes, fields: fs, tier: r.Tier}
		total := g.each(1<<62, func(int, string, string, []byte) bool { return true })
		l := len(s.Bytes)
		// phase 1: the field substitutions (this is where count sites are learned from moderate
		// values); phase 2: truncations, byte substitutions and pairs, with everything learned
		// in phase 1 armed from the start
		// (fields in reverse stream order: a count near the end is learned before substitutions
		// of earlier length fields shift garbage into it)
		var per []seg
		a := l
		for _, fd := range fs {
			k := len(wire.FieldSubsts(s.Bytes, fd))
			per = append(per, seg{i, a, a + k})
			a += k
		}
		for k := len(per) - 1; k >= 0; k-- {
			if per[k].To > per[k].From {
				ph1 = append(ph1, per[k])
			}
		}
		ph2 = append(ph2, seg{i, 0, l}, seg{i, l + nf, total})
	}
	perSeed := map[string]*seedStat{}
	stat := func(n string) *seedStat {
		ws := perSeed[n]
		if ws == nil {
			ws = &seedStat{Classes: map[string]int{}, Kinds: map[string]int{}}
			perSeed[n] = ws
		}
		return ws
	}
	exhaustive := true
	deaths, procs := 0, 0
	whatOf := map[string]string{}
	var late []evid.Violation
	union := known{} // count sites learned so far, shared with every worker started later
	merge := func(k known) {
		for a, b := range k {
			union.learn(a, b.Min, b.Sig, b.Own) // Own entries only ever apply to untracked decoders' pre-screen
		}
	}
	withUnion := func(k known) known {
		o := k.clone()
		for a, b := range union {
			o.learn(a, b.Min, b.Sig, b.Own)
		}
		return o
	}
	caseInput := func(s *wire.Seed, idx int) (input []byte) {
		tr, _ := baseline(s)
		g := &caseGen{seed: s.Bytes, fields: wire.Fields(tr), tier: r.Tier}
		g.each(idx, func(_ int, kind, label string, in []byte) bool { input = in; return false })
		return
	}
	// runJobs executes the given jobs to completion, restarting workers behind killers.
	runJobs := func(pending []pend) {
		for rounds := 0; len(pending) > 0; rounds++ {
			if rounds > 2000 {
				evid.Fatalf("too many restart rounds")
			}
			jobs := make([]string, len(pending))
			for i, p := range pending {
				jobs[i] = jobString(job{Op: "enum", Segs: p.segs, Known: withUnion(p.known)})
			}
			procs += len(jobs)
			t0 := time.Now()
			results := par.Procs(jobs, scr, par.Opts{MemMB: workerMemMB, Timeout: 40 * time.Minute, Env: []string{"GOMAXPROCS=2"}})
			if os.Getenv("VERIF_C02_DEBUG") != "" {
				fmt.Fprintf(os.Stderr, "round %d: %d jobs in %.1fs\n", rounds, len(jobs), time.Since(t0).Seconds())
			}
			var next []pend
			type dead struct {
				p         pend
				si, idx   int
				kind, lbl string
				input     []byte
			}
			var dd []dead
			for i, res := range results {
				p := pending[i]
				if res.Died {
					if res.TimedOut {
						evid.Fatalf("worker timed out (announced %q)", res.Announced)
					}
					// the announced case killed the worker before its first checkpoint
					a := strings.SplitN(res.Announced, ":", 4)
					if len(a) < 4 {
						evid.Fatalf("worker died without announcing a case: %s", res.Stderr)
					}
					si, _ := strconv.Atoi(a[0])
					idx, _ := strconv.Atoi(a[1])
					deaths++
					dd = append(dd, dead{p: p, si: si, idx: idx, kind: a[2], lbl: a[3], input: caseInput(seeds[si], idx)})
					continue
				}
				var wo workerOut
				if err := json.Unmarshal(res.Out, &wo); err != nil {
					evid.Fatalf("worker output: %v\n%s", err, res.Stderr)
				}
				if os.Getenv("VERIF_C02_DEBUG") != "" && wo.ElapsedMs > 5000 {
					var ns []string
					for n, st := range wo.PerSeed {
						ns = append(ns, fmt.Sprintf("%s:%d", n, st.Cases))
					}
					sort.Strings(ns)
					fmt.Fprintf(os.Stderr, "  slow job %.1fs viol=%d %v\n", float64(wo.ElapsedMs)/1000, len(wo.Violations), ns)
				}
				for _, n := range wo.Invalid {
					invalid = append(invalid, n+": baseline decode failed in worker")
				}
				for n, st := range wo.PerSeed {
					ws := stat(n)
					ws.Cases += st.Cases
					if st.Fields > 0 {
						ws.Fields = st.Fields
					}
					if st.MaxAlloc > ws.MaxAlloc {
						ws.MaxAlloc = st.MaxAlloc
					}
					for k, v := range st.Classes {
						ws.Classes[k] += v
					}
					for k, v := range st.Kinds {
						ws.Kinds[k] += v
					}
				}
				for _, v := range wo.Violations {
					if v.What != "" {
						whatOf[v.Signature] = v.What
					}
					late = append(late, v)
				}
				merge(wo.Known)
				switch {
				case wo.Expired:
					exhaustive = false
				case !wo.Done:
					// only a checkpoint: the process died later; continue behind the checkpoint
					rest := []seg{}
					if wo.SegIdx < len(p.segs) {
						cur := p.segs[wo.SegIdx]
						if wo.Next < cur.To {
							rest = append(rest, seg{cur.Seed, wo.Next, cur.To})
						}
						rest = append(rest, p.segs[wo.SegIdx+1:]...)
					}
					if len(rest) > 0 {
						next = append(next, pend{segs: rest, known: wo.Known})
					}
				}
			}
			// name the culprits of this round's killers, in parallel
			if len(dd) > 0 {
				dj := make([]string, len(dd))
				for i, d := range dd {
					dj[i] = jobString(job{Op: "diag", Seed: d.si, Input: hex.EncodeToString(d.input)})
				}
				procs += len(dj)
				t1 := time.Now()
				dres := par.Procs(dj, scr, par.Opts{MemMB: workerMemMB, Timeout: 5 * time.Minute, Env: []string{"GOMAXPROCS=2"}})
				if os.Getenv("VERIF_C02_DEBUG") != "" {
					fmt.Fprintf(os.Stderr, "  diag: %d jobs in %.1fs\n", len(dj), time.Since(t1).Seconds())
				}
				for i, d := range dd {
					s := seeds[d.si]
					dg := diagOf(dres[i], s)
					if os.Getenv("VERIF_C02_DEBUG") != "" {
						fmt.Fprintf(os.Stderr, "  death: %s case %d %s %s -> %s site=%s val=%d\n", s.Name, d.idx, d.kind, d.lbl, dg.Signature, dg.Site, dg.MinVal)
					}
					if dg.Signature == "" {
						evid.Fatalf("worker died on %s case %d (%s %s) but the case is clean when re-run alone", s.Name, d.idx, d.kind, d.lbl)
					}
					art := artefact{Seed: s.Name, Kind: d.kind, Label: d.lbl, Input: hex.EncodeToString(d.input), Detail: "worker process died on this input"}
					kn := d.p.known.clone()
					learned := kn.learn(dg.Site, dg.MinVal, dg.Signature, strings.HasSuffix(dg.Signature, "|self"))
					whatOf[dg.Signature] = dg.What
					if learned {
						// run the job again with the guard armed; the killer is then stopped at
						// the read of the count and counted once
						merge(kn)
						late = append(late, evid.Violation{Signature: dg.Signature, What: dg.What, Count: 0, Artefact: art})
						next = append(next, pend{segs: d.p.segs, known: kn})
						continue
					}
					// cannot be guarded: count the killer here and run the job again without it
					late = append(late, evid.Violation{Signature: dg.Signature, What: dg.What, Count: 1, Artefact: art})
					ws := stat(s.Name)
					ws.Cases++
					ws.Kinds[d.kind]++
					ws.Classes["died"]++
					var rest []seg
					cut := false
					for _, sg := range d.p.segs {
						if !cut && sg.Seed == d.si && d.idx >= sg.From && d.idx < sg.To {
							cut = true
							if d.idx > sg.From {
								rest = append(rest, seg{sg.Seed, sg.From, d.idx})
							}
							if d.idx+1 < sg.To {
								rest = append(rest, seg{sg.Seed, d.idx + 1, sg.To})
							}
							continue
						}
						rest = append(rest, sg)
					}
					if !cut {
						evid.Fatalf("killer case %d of %s is not in the job that died", d.idx, s.Name)
					}
					if len(rest) > 0 {
						next = append(next, pend{segs: rest, known: kn})
					}
				}
			}
			pending = next
		}
	}
	size1, size2 := 1000, 2000
	if r.Thorough() {
		size1, size2 = 20000, 60000
	}
	runJobs(pack(ph1, size1))
	runJobs(pack(ph2, size2))

	// merge violations in a deterministic order: by signature, measured artefacts first, then by
	// seed and label
	key := func(v evid.Violation) string {
		b, _ := json.Marshal(v.Artefact)
		var a artefact
		json.Unmarshal(b, &a)
		k := "0"
		if strings.HasPrefix(a.Detail, "stopped") {
			k = "2"
		} else if strings.HasPrefix(a.Detail, "worker") {
			k = "1"
		}
		return v.Signature + "\x00" + k + "\x00" + a.Seed + "\x00" + a.Kind + "\x00" + a.Label
	}
	sort.SliceStable(late, func(i, j int) bool { return key(late[i]) < key(late[j]) })
	caseCount := map[string]int{}
	reported := map[string]bool{}
	for _, v := range late {
		if v.What == "" {
			v.What = whatOf[v.Signature]
			if v.What == "" {
				v.What = "allocation sized from the unchecked wire value read at " + strings.TrimPrefix(v.Signature, "C02|alloc|")
			}
		}
		// one report per signature (the first artefact in the order above); the number of
		// violating cases per signature is informational and goes into the coverage
		caseCount[v.Signature] += v.Count
		if !reported[v.Signature] {
			reported[v.Signature] = true
			r.Violate(v.Signature, v.What, v.Artefact)
		}
	}

	// totals
	names := make([]string, 0, len(perSeed))
	for n := range perSeed {
		names = append(names, n)
	}
	sort.Strings(names)
	totalCases, fieldsTotal := 0, 0
	var maxAlloc uint64
	classes, kinds := map[string]int{}, map[string]int{}
	distinct := map[string]bool{}
	samples := &evid.Samples{N: 8}
	for _, n := range names {
		ws := perSeed[n]
		totalCases += ws.Cases
		fieldsTotal += ws.Fields
		if ws.MaxAlloc > maxAlloc {
			maxAlloc = ws.MaxAlloc
		}
		for k, v := range ws.Classes {
			classes[k] += v
			// non-trivial: the decoder got past its first read (reads >= 2) or misbehaved
			nt := true
			if strings.HasPrefix(k, "err@") || strings.HasPrefix(k, "ok@") {
				rd, _ := strconv.Atoi(k[strings.Index(k, "@")+1:])
				nt = rd >= 2
			}
			if nt && v > 0 {
				distinct[n+"|"+k] = true
			}
		}
		for k, v := range ws.Kinds {
			kinds[k] += v
		}
		sd := seedNamed(seeds, n)
		samples.Add(map[string]interface{}{"seed": n, "seed_len": len(sd.Bytes), "fields": ws.Fields, "cases": ws.Cases, "outcome_classes": len(ws.Classes), "seed_hex_prefix": hexPrefix(sd.Bytes, 48)})
	}
	okCount, errCount := 0, 0
	for k, v := range classes {
		if strings.HasPrefix(k, "ok@") {
			okCount += v
		} else if strings.HasPrefix(k, "err@") {
			errCount += v
		}
	}
	planned := segCases(ph1) + segCases(ph2)
	if totalCases != planned && exhaustive {
		evid.Fatalf("case accounting: executed %d of %d planned cases", totalCases, planned)
	}
	r.Assume = append(r.Assume,
		"allocation is measured as the delta of the process-wide cumulative heap allocation counter (/gc/heap/allocs:bytes = MemStats.TotalAlloc) over the decode call, on the only running goroutine of a worker process",
		fmt.Sprintf("bound = %d*len(input) + %d MiB; the constant covers checked pre-sizing (ReadVarString 16 MiB cap, ReadVarBytes up to 8 MB, inv/merkleblock/addr/locator caps)", allocPerByte, allocConst>>20),
		"once a read site has been measured to feed an unchecked allocation or loop bound, later cases that read a value at that site whose predicted allocation is at least twice the bound are stopped at that read and counted under the same signature (allocation is monotone in the count); this keeps workers alive and does not change which signatures are reported",
		"checkpoint decoders reading from disk (dpos/state, cr/state, mempool, wallet) are not covered",
	)
	cov := evid.Coverage{
		"evaluations":         totalCases,
		"distinct_nontrivial": len(distinct),
		"rule": "per seed (valid encoding produced by the repository's serialisers): every truncation, every single-field substitution over the boundary alphabet " +
			"(fields = 1/2/4/8-byte reads seen by the tracking reader; 1-byte fields also replaced by 3/5/9-byte var-int encodings, canonical and non-canonical), " +
			"quick: every single-byte substitution of every field byte and of the first 64 bytes over the 8-value alphabet {00,01,02,7f,80,fd,fe,ff}; thorough: every byte × 256 values and all field pairs over a reduced menu. " +
			"distinct_nontrivial = distinct (seed, outcome class) pairs where the decoder got past its first read; outcome class = ok@reads / err@reads / panic / eofloop / suppressed / died",
		"exhaustive":                   exhaustive,
		"seeds":                        nSeeds,
		"seeds_invalid":                invalid,
		"seeds_skipped":                skipped,
		"fields_discovered":            fieldsTotal,
		"cases_by_kind":                kinds,
		"decoded_ok":                   okCount,
		"rejected_with_error":          errCount,
		"panics":                       classes["panic"],
		"eof_loops_cut_off":            classes["eofloop"],
		"stopped_at_known_count_site":  classes["suppressed"],
		"violating_cases_by_signature": caseCount,
		"worker_deaths":                deaths,
		"worker_processes":             procs,
		"max_alloc_bytes_seen":         maxAlloc,
		"samples":                      samples.Out,
	}
	os.RemoveAll(scr)
	r.Finish(cov)
}
