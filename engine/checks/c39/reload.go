// Filter replacement: a peer may send filterload again at any time. Sequences of two and three
// loads with bit arrays of different sizes (smaller→larger, larger→smaller, equal) through
// Filter.Reload, through bloom.TxFilter.Load on the same TxFilter object and through the
// server's filter.Filter.Load; everything the client inserted into the LAST loaded filter, and
// everything added with filteradd afterwards, must match.
package main

import (
	"bytes"
	"fmt"

	"github.com/elastos/Elastos.ELA/core/types/interfaces"
	"github.com/elastos/Elastos.ELA/elanet/bloom"
	"github.com/elastos/Elastos.ELA/elanet/filter"
	"github.com/elastos/Elastos.ELA/p2p/msg"
)

type clientFilter struct {
	size      int
	hashFuncs uint32
	tweak     uint32
	items     []int // menu indexes inserted by the client
	txs       []int // transactions whose output-0 address the client inserted
	payload   []byte
}

func (k *checker) buildClient(size int, pos int, txs []interfaces.Transaction) clientFilter {
	c := clientFilter{size: size, hashFuncs: 5, tweak: uint32(100 + pos)}
	ref := &refFilter{bits: make([]byte, size), hashFuncs: c.hashFuncs, tweak: c.tweak}
	for j := 0; j < 3; j++ {
		i := (pos + 2*j + size) % len(k.menu)
		c.items = append(c.items, i)
		ref.add(k.menu[i].Data)
	}
	ti := (pos + size) % len(txs)
	c.txs = append(c.txs, ti)
	ph := txs[ti].Outputs()[0].ProgramHash
	ref.add(ph[:])
	c.payload = filterLoadBytes(ref.bits, c.hashFuncs, c.tweak, 1, nil)
	return c
}

func decodeLoad(p []byte) *msg.FilterLoad {
	var fl msg.FilterLoad
	if err := fl.Deserialize(bytes.NewReader(p)); err != nil {
		panic(err)
	}
	return &fl
}

func (k *checker) reloads(txs []interfaces.Transaction) int64 {
	sizes := []int{1, 8, 64, 512}
	var seqs [][]int
	for _, a := range sizes {
		for _, b := range sizes {
			seqs = append(seqs, []int{a, b})
			for _, c := range sizes {
				seqs = append(seqs, []int{a, b, c})
			}
		}
	}
	extra := k.menu[7] // added with filteradd after the last load
	extraTx := txs[len(txs)-1]
	var n int64
	for _, sq := range seqs {
		var cl []clientFilter
		for pos, sz := range sq {
			cl = append(cl, k.buildClient(sz, pos, txs))
		}
		last := cl[len(cl)-1]
		name := fmt.Sprint(sq)
		for _, path := range []string{"Filter.Reload", "LoadFilter+Unload+Reload", "NewFilter+Reload", "TxFilter.Load", "filter.Filter.Load"} {
			art := artefact{Cfg: cfg{Origin: "wire", Size: last.size, HashFuncs: last.hashFuncs, Tweak: last.tweak, Flags: 1}, Step: "reload", Sequence: path + " sizes " + name}
			var direct *bloom.Filter
			var tf filter.TxFilter
			var server *filter.Filter
			var misses []string
			site := guarded(func() {
				switch path {
				case "Filter.Reload", "LoadFilter+Unload+Reload", "NewFilter+Reload":
					if path == "NewFilter+Reload" {
						direct = bloom.NewFilter(uint32(cl[0].size), 3, 0.01)
					} else {
						direct = bloom.LoadFilter(decodeLoad(cl[0].payload))
					}
					direct.Matches(k.menu[0].Data) // the object has been used before it is replaced
					for _, c := range cl[1:] {
						if path == "LoadFilter+Unload+Reload" {
							direct.Unload()
						}
						direct.Reload(decodeLoad(c.payload))
					}
				case "TxFilter.Load":
					tf = bloom.NewTxFilter()
					for _, c := range cl {
						if err := tf.Load(c.payload); err != nil {
							panic(err)
						}
						tf.MatchConfirmed(txs[0])
					}
				case "filter.Filter.Load":
					server = filter.New(func(uint8) filter.TxFilter { return bloom.NewTxFilter() })
					for _, c := range cl {
						if err := server.Load(&msg.TxFilterLoad{Type: filter.FTBloom, Data: c.payload}); err != nil {
							panic(err)
						}
						server.MatchConfirmed(txs[0])
					}
				}
				// everything in the last loaded filter must match
				if direct != nil {
					for _, i := range last.items {
						if !direct.Matches(k.menu[i].Data) {
							misses = append(misses, "item "+k.menu[i].Name)
						}
					}
					direct.Add(extra.Data)
					if !direct.Matches(extra.Data) {
						misses = append(misses, "filteradd after reload: "+extra.Name)
					}
				}
				present := func(tx interfaces.Transaction) bool {
					switch {
					case direct != nil:
						return direct.MatchTxAndUpdate(tx)
					case tf != nil:
						return tf.MatchConfirmed(tx) && tf.MatchUnconfirmed(tx)
					}
					return server.MatchConfirmed(tx) && server.MatchUnconfirmed(tx)
				}
				for _, ti := range last.txs {
					if !present(txs[ti]) {
						misses = append(misses, fmt.Sprintf("payment to the watched address of tx %d", ti))
					}
				}
				ph := extraTx.Outputs()[1].ProgramHash
				switch {
				case direct != nil:
					direct.Add(ph[:])
				case tf != nil:
					tf.Add(ph[:])
				default:
					server.Add(ph[:])
				}
				if !present(extraTx) {
					misses = append(misses, "payment to an address added with filteradd after the last load")
				}
			})
			n++
			k.evals += int64(len(last.items) + 4)
			k.cases.Add("reload/" + path + "/" + name)
			rel := "equal"
			if len(sq) >= 2 && sq[len(sq)-1] > sq[len(sq)-2] {
				rel = "smaller-to-larger"
			} else if len(sq) >= 2 && sq[len(sq)-1] < sq[len(sq)-2] {
				rel = "larger-to-smaller"
			}
			if site != "" {
				k.panics[site]++
				k.violate("C39|panic|"+site+"|after-filter-replacement", "a filter object panics after its filter was replaced ("+art.Sequence+")", art)
				continue
			}
			if len(misses) > 0 {
				p := path
				if p == "LoadFilter+Unload+Reload" || p == "NewFilter+Reload" {
					p = "Filter.Reload"
				}
				k.violate("C39|false-negative|after-filter-replacement|"+p+"|"+rel, fmt.Sprintf("after replacing the filter (%s) elements of the last loaded filter do not match: %v", art.Sequence, misses), art)
			}
		}
	}
	return n
}
