#!/bin/bash
# Runs the pinned suite (guard OFF) on $1 (default /repo) and compares with BASELINE.json stable_pass.
REPO="${1:-/repo}"
export GOFLAGS=-mod=mod GOPROXY=off GOSUMDB=off GOTOOLCHAIN=local
OUT=$(mktemp /dev/shm/baseline-XXXX.json)
(cd "$REPO" && go test -mod=mod -json -vet=off -count=1 -timeout 25m ./... > "$OUT" 2>/dev/null)
python3 - "$OUT" <<'PY'
import json,sys
base=set(json.load(open('/root/.vp/BASELINE.json'))['stable_pass'])
passed=set()
for l in open(sys.argv[1]):
    try: e=json.loads(l)
    except: continue
    if e.get('Action')=='pass' and e.get('Test'):
        passed.add(e['Package']+'::'+e['Test'])
missing=sorted(base-passed)
print(f"baseline stable_pass={len(base)} passed_now={len(passed)} missing={len(missing)}")
for m in missing[:40]: print("  MISSING", m)
sys.exit(1 if missing else 0)
PY
rc=$?
rm -f "$OUT"
exit $rc
