// Input-less ("zero cost") transactions for the block menu: NextTurnDPOSInfo and ActivateProducer
// carry no inputs, outputs, attributes or programs and pass the per-transaction sanity check at
// the harness height, so CheckBlockSanity lets blocks containing them through.
package main

import (
	"github.com/elastos/Elastos.ELA/core/contract/program"
	ctypes "github.com/elastos/Elastos.ELA/core/types/common"
	"github.com/elastos/Elastos.ELA/core/types/functions"
	"github.com/elastos/Elastos.ELA/core/types/interfaces"
	"github.com/elastos/Elastos.ELA/core/types/payload"

	"verif/blockkit"
)

func inputless(i int) interfaces.Transaction {
	blockkit.Register()
	if i%2 == 0 {
		pk := make([]byte, 33)
		pk[0], pk[1], pk[2] = 2, byte(i), byte(i>>8)
		return functions.CreateTransaction(0, ctypes.NextTurnDPOSInfo, payload.NextTurnDPOSInfoVersion,
			&payload.NextTurnDPOSInfo{WorkingHeight: uint32(1000 + i), CRPublicKeys: [][]byte{pk}, DPOSPublicKeys: [][]byte{pk}},
			[]*ctypes.Attribute{}, []*ctypes.Input{}, []*ctypes.Output{}, 0, []*program.Program{})
	}
	pk := make([]byte, 33)
	pk[0], pk[1], pk[2] = 3, byte(i), byte(i>>8)
	return functions.CreateTransaction(0, ctypes.ActivateProducer, 0,
		&payload.ActivateProducer{NodePublicKey: pk, Signature: make([]byte, 64)},
		[]*ctypes.Attribute{}, []*ctypes.Input{}, []*ctypes.Output{}, 0, []*program.Program{})
}
