package main

import (
	"fmt"
	"sort"
	"strings"
	"sync/atomic"

	"verif/dposkit"
	"verif/evid"
	"verif/par"
)

// Part (b): a DPoS node restored from a checkpoint taken at height j and fed the blocks above j
// must end in the same state as the node that processed every block.
//
// Histories: each regime's warm-up prefix followed by every admissible block kind (full
// alphabet) and, thorough tier, every two-block sequence over the representative
// alphabet. For every history and EVERY height j below its tip: checkpoint bytes as the manager
// writes them (SetHeight, Snapshot, Serialize) -> fresh instance -> Deserialize + OnInit (the
// Manager.Restore path) -> state compared at once (clause restored-state) -> blocks j+1.. fed ->
// state compared with the uninterrupted run (clause restore-then-continue).

type restoreCase struct {
	Part    string   `json:"part"` // "restore"
	Regime  string   `json:"regime"`
	History []string `json:"history"`
	At      uint32   `json:"checkpoint_height"`
}

type restoreCounters struct {
	histories, restores, blocksFed, compares, mismatches int64
}

// restoreHistory checks every restore height of one history.
func restoreHistory(w *dposkit.World, sk *dposkit.Sink, regime string, warm, h []string, only int64, ct *restoreCounters) {
	// uninterrupted run, remembering the canonical state at every height
	full := w.NewInst()
	defer full.Close()
	var lines [][]string
	var saved [][]byte
	ops := append(append([]string{}, warm...), h...)
	for _, op := range ops {
		full.Apply(op)
		lines = append(lines, stateLines(full))
		b, err := full.SaveCheckpoint()
		if err != nil {
			sk.Violate("C23|checkpoint-save-error", fmt.Sprintf("saving the DPoS checkpoint at height %d failed: %v (regime %s, history %v)", full.Height, err, regime, h),
				restoreCase{"restore", regime, h, full.Height})
			return
		}
		saved = append(saved, b)
	}
	atomic.AddInt64(&ct.histories, 1)
	N := uint32(len(ops))
	final := lines[N-1]
	for j := uint32(1); j < N; j++ {
		if only >= 0 && uint32(only) != j {
			continue
		}
		art := restoreCase{"restore", regime, h, j}
		in, err := w.RestoreInst(full, j, saved[j-1])
		if err != nil {
			sk.Violate("C23|checkpoint-load-error", fmt.Sprintf("loading the DPoS checkpoint of height %d failed: %v (regime %s, history %v)", j, err, regime, h), art)
			continue
		}
		atomic.AddInt64(&ct.restores, 1)
		atomic.AddInt64(&ct.compares, 1)
		restored := stateLines(in)
		report := func(clause string, want, got []string) {
			atomic.AddInt64(&ct.mismatches, 1)
			all := dposkit.DiffLines(want, got, 0)
			for _, f := range dposkit.DiffFieldNames(want, got) {
				sig := fmt.Sprintf("C23|%s|field=%s", clause, f)
				if sk.Seen(sig) {
					continue
				}
				var diff []string
				base := strings.TrimSuffix(strings.TrimSuffix(strings.TrimSuffix(f, "[membership]"), "[extra]"), "[missing]")
				for _, l := range all {
					if strings.HasPrefix(dposkit.FoldProducer(dposkit.Generic(pathOf(l[2:]))), base) && len(diff) < 6 {
						diff = append(diff, l)
					}
				}
				sk.Violate(sig, fmt.Sprintf("regime %s, history %v, checkpoint at height %d of %d: %s differs (- node that processed every block, + node restored from the checkpoint): %s",
					regime, h, j, N, f, strings.Join(diff, " | ")), art)
			}
		}
		same := equalLines(restored, lines[j-1])
		if !same {
			report("restored-state", lines[j-1], restored)
		}
		for k := j + 1; k <= N; k++ {
			in.Reprocess(k)
		}
		atomic.AddInt64(&ct.blocksFed, int64(N-j))
		atomic.AddInt64(&ct.compares, 1)
		if got := stateLines(in); !equalLines(got, final) && same {
			// only reported when the restored state itself looked identical: otherwise the
			// difference was already reported at its origin
			report("restore-then-continue", final, got)
		}
		in.Close()
	}
}

// stateLines is dposkit.StateLines with DposV2EffectedProducers reduced to its key set: the map
// is a secondary index holding the same *Producer objects as the primary producer maps; after a
// restore it holds separate copies (each map is deserialized on its own), which go stale as the
// primary objects change. The repository only reads the size and the keys of this index
// (isDposV2Active), so stale values cannot influence anything and are not compared.
func stateLines(in *dposkit.Inst) []string {
	const pfx = ".StateKeyFrame.DposV2EffectedProducers["
	var out []string
	seen := map[string]bool{}
	for _, l := range dposkit.StateLines(in) {
		if !strings.HasPrefix(l, pfx) {
			out = append(out, l)
			continue
		}
		if i := strings.Index(l, "]"); i > 0 {
			k := l[:i+1] + " = {}"
			if !seen[k] {
				seen[k] = true
				out = append(out, k)
			}
		}
	}
	sort.Strings(out)
	return out
}

func pathOf(l string) string {
	if i := dposkit.SepIndex(l); i >= 0 {
		return l[:i]
	}
	return l
}

func equalLines(a, b []string) bool {
	if len(a) != len(b) {
		return false
	}
	for i := range a {
		if a[i] != b[i] {
			return false
		}
	}
	return true
}

// restorePart enumerates the histories and returns coverage numbers.
func restorePart(r *evid.Run, w *dposkit.World) (restoreCounters, []interface{}) {
	var ct restoreCounters
	regimes := w.Regimes()
	reps := w.Representatives()
	depth := r.Pick(1, 2)
	var samples []interface{}
	for _, name := range dposkit.RegimeNames {
		if name == "claim" {
			// its warm-up writes reward balances directly (op seedreward), which a node fed the
			// stored blocks again does not repeat: not usable for restore-and-continue
			continue
		}
		warm := regimes[name]
		// level-wise enumeration (the enabled block kinds of a state are read from an instance)
		type node struct {
			hist []string
			only bool
		}
		frontier := []node{{nil, true}}
		var all []node
		for d := 0; d < depth; d++ {
			next := make([][]node, len(frontier))
			par.Go(len(frontier), func(i int) {
				n := frontier[i]
				in := w.NewInst()
				for _, op := range warm {
					in.Apply(op)
				}
				for _, op := range n.hist {
					in.Apply(op)
				}
				if ok, _ := in.Consistent(); !ok {
					in.Close()
					return
				}
				ops := in.Ops()
				rep := in.OpsFor(reps)
				in.Close()
				if d >= 1 {
					if !n.only {
						return
					}
					ops = rep
				}
				for _, op := range ops {
					isRep := false
					for _, x := range rep {
						isRep = isRep || x == op
					}
					next[i] = append(next[i], node{append(append([]string{}, n.hist...), op), n.only && isRep})
				}
			})
			frontier = nil
			for _, l := range next {
				frontier = append(frontier, l...)
			}
			all = append(all, frontier...)
		}
		all = append([]node{{nil, true}}, all...)
		sinks := make([]dposkit.Sink, len(all))
		par.Go(len(all), func(i int) {
			restoreHistory(w, &sinks[i], name, warm, all[i].hist, -1, &ct)
		})
		for i := range sinks {
			sinks[i].MergeInto(r)
		}
		if len(all) > 1 {
			samples = append(samples, map[string]interface{}{"part": "restore", "regime": name, "history": all[len(all)/2].hist, "restore_heights": fmt.Sprintf("1..%d", len(warm)+len(all[len(all)/2].hist)-1)})
		}
		if r.Expired() {
			break
		}
	}
	return ct, samples
}
