package main

// Input shapes: the same outpoint listed several times. The references map the node builds has
// one entry per listed *Input, so a transaction that lists an outpoint k times counts the spent
// output k times in the fee; only the per-type CheckTransactionInput keeps that from happening.
// Oracle: input check, output check and fee check all pass => sum(outputs) <= sum(DISTINCT
// outputs spent).

import (
	"fmt"
	"math/big"

	"github.com/elastos/Elastos.ELA/common"
	"github.com/elastos/Elastos.ELA/core"
	common2 "github.com/elastos/Elastos.ELA/core/types/common"
)

type inRef struct {
	Slot int    // which outpoint (0 = A, 1 = B)
	Seq  uint32 // Sequence of this copy
}

type inputShape struct {
	Name string
	Ins  []inRef
}

func inputShapes() []inputShape {
	const m = 0xffffffff
	return []inputShape{
		{"A,A (equal sequence)", []inRef{{0, 0}, {0, 0}}},
		{"A,A' (different sequence)", []inRef{{0, 0}, {0, 1}}},
		{"A,A' (sequence 0 / max-1)", []inRef{{0, 0}, {0, m - 1}}},
		{"A,A',A'' (three sequences)", []inRef{{0, 0}, {0, 1}, {0, 2}}},
		{"A,A,A' (equal and different)", []inRef{{0, 0}, {0, 0}, {0, 7}}},
		{"A,B,A' (around a distinct outpoint)", []inRef{{0, 0}, {1, 0}, {0, 1}}},
		{"A,B,A (equal sequence around a distinct outpoint)", []inRef{{0, 0}, {1, 0}, {0, 0}}},
		{"A,A',B", []inRef{{0, 0}, {0, 1}, {1, 0}}},
	}
}

const shapeValue = 1000

func allShapes() []inputShape {
	return append([]inputShape{
		{"A (single)", []inRef{{0, 0}}},
		{"A,B (distinct)", []inRef{{0, 0}, {1, 0}}},
	}, inputShapes()...)
}

// evalShape runs the three per-type checks on one transaction of the given input shape.
func (f *fixture) evalShape(t common2.TxType, h uint32, sh inputShape, total int64) (inOK, outOK, feeOK bool, distinct int, pan string) {
	d := map[int]bool{}
	var ins []*common2.Input
	refs := map[*common2.Input]common2.Output{}
	for _, ir := range sh.Ins {
		in := &common2.Input{Previous: common2.OutPoint{Index: uint16(ir.Slot)}, Sequence: ir.Seq}
		in.Previous.TxID[0] = 0xD1
		in.Previous.TxID[1] = byte(ir.Slot + 1)
		var ph common.Uint168
		ph[0] = 0x21
		ph[1] = byte(ir.Slot + 1)
		ins = append(ins, in)
		// what UTXOCache.GetTxReference returns: one entry per listed input
		refs[in] = common2.Output{AssetID: core.ELAAssetID, Value: shapeValue, ProgramHash: ph}
		d[ir.Slot] = true
	}
	distinct = len(d)
	tx := f.mkTx(t, f.outputs(t, []int64{total}), ins, h)
	defer func() {
		if r := recover(); r != nil {
			pan = fmt.Sprint(r)
		}
	}()
	inOK = tx.CheckTransactionInput() == nil
	outOK = tx.CheckTransactionOutput() == nil
	feeOK = tx.CheckTransactionFee(refs) == nil
	return
}

func shapeTotals(k int64) []int64 {
	var out []int64
	for j := int64(1); j <= k; j++ {
		out = append(out, shapeValue*j-minFee, shapeValue*j)
	}
	return out
}

func judgeShape(sh inputShape, distinct int, total int64) (bool, string) {
	spent := big.NewInt(shapeValue * int64(distinct))
	if big.NewInt(total).Cmp(spent) > 0 {
		return true, fmt.Sprintf("inputs %s (%d distinct outpoint(s) worth %s) with an output of %d pass the input, output and fee checks: the spent output is counted once per listed copy", sh.Name, distinct, spent, total)
	}
	return false, ""
}

func (f *fixture) runInputShapes(res *workerOut, addViol func(sig, what string, c caseA)) {
	classes := map[string]int{}
	types := allTypes()
	// baseline (TransferAsset) first, so that other types are named only when they differ
	for i, t := range types {
		if t.T == common2.TransferAsset {
			types[0], types[i] = types[i], types[0]
		}
	}
	base := map[string]bool{}
	for _, t := range types {
		for _, h := range []uint32{100, 3000000} {
			for _, sh := range allShapes() {
				for _, total := range shapeTotals(int64(len(sh.Ins))) {
					inOK, outOK, feeOK, distinct, pan := f.evalShape(t.T, h, sh, total)
					res.ShapeEvals++
					if pan != "" {
						res.Panics[t.Name+": input shapes: "+trim(pan)]++
						continue
					}
					acc := inOK && outOK && feeOK
					key := fmt.Sprintf("%d|%s|%d", h, sh.Name, total)
					if t.T == common2.TransferAsset {
						base[key] = acc
						classes[fmt.Sprintf("shape=%s|out=%d|input-check=%v|accepted=%v", sh.Name, total, inOK, acc)]++
					}
					if !acc {
						continue
					}
					res.ShapeAccepted++
					if bad, what := judgeShape(sh, distinct, total); bad {
						site := "common"
						if !base[key] {
							site = t.Name
						}
						addViol("C01|value-created|outpoint-counted-twice|"+site, what,
							caseA{Type: int(t.T), Name: t.Name, H: h, Outputs: amounts{total}, Inputs: amounts{}, Shape: sh.Name})
					}
				}
			}
		}
	}
	for k, v := range classes {
		res.Classes["inputs|"+k] += v
	}
}
