package main

// Input shapes: the same outpoint listed several times. The references map the node builds has
// one entry per listed *Input, so a transaction that lists an outpoint k times counts the spent
// output k times in the fee; only the per-type CheckTransactionInput keeps that from happening.
// Oracle: input check, output check and fee check all pass => sum(outputs) <= sum(DISTINCT
// outputs spent).

import (
	"fmt"
	"math/big"

	"github.com/elastos/Elastos.ELA/common"
	"github.com/elastos/Elastos.ELA/core"
	common2 "github.com/elastos/Elastos.ELA/core/types/common"
)

type inRef struct {
	Slot int    // which outpoint (0 = A, 1 = B)
	Seq  uint32 // Sequence of this copy
}

type inputShape struct {
	Name string
	Ins  []inRef
}

func inputShapes() []inputShape {
	const m = 0xffffffff
	return []inputShape{
		{"A,A (equal sequence)", []inRef{{0, 0}, {0, 0}}},
		{"A,A' (different sequence)", []inRef{{0, 0}, {0, 1}}},
		{"A,A' (sequence 0 / max-1)", []inRef{{0, 0}, {0, m - 1}}},
		{"A,A',A'' (three sequences)", []inRef{{0, 0}, {0, 1}, {0, 2}}},
		{"A,A,A' (equal and different)", []inRef{{0, 0}, {0, 0}, {0, 7}}},
		{"A,B,A' (around a distinct outpoint)", []inRef{{0, 0}, {1, 0}, {0, 1}}},
		{"A,B,A (equal sequence around a distinct outpoint)", []inRef{{0, 0}, {1, 0}, {0, 0}}},
		{"A,A',B", []inRef{{0, 0}, {0, 1}, {1, 0}}},
	}
}

const shapeValue = 1000

func (f *fixture) runInputShapes(res *workerOut, addViol func(sig, what string, c caseA)) {
	shapes := append([]inputShape{
		{"A (single)", []inRef{{0, 0}}},
		{"A,B (distinct)", []inRef{{0, 0}, {1, 0}}},
	}, inputShapes()...)
	classes := map[string]int{}
	for _, t := range allTypes() {
		for _, h := range []uint32{100, 3000000} {
			for _, sh := range shapes {
				k := int64(len(sh.Ins))
				distinct := map[int]bool{}
				var ins []*common2.Input
				refs := map[*common2.Input]common2.Output{}
				for _, ir := range sh.Ins {
					in := &common2.Input{Previous: common2.OutPoint{Index: uint16(ir.Slot)}, Sequence: ir.Seq}
					in.Previous.TxID[0] = 0xD1
					in.Previous.TxID[1] = byte(ir.Slot + 1)
					var ph common.Uint168
					ph[0] = 0x21
					ph[1] = byte(ir.Slot + 1)
					ins = append(ins, in)
					refs[in] = common2.Output{AssetID: core.ELAAssetID, Value: shapeValue, ProgramHash: ph}
					distinct[ir.Slot] = true
				}
				spent := big.NewInt(shapeValue * int64(len(distinct)))
				totals := map[int64]bool{}
				for j := int64(1); j <= k; j++ {
					totals[shapeValue*j-minFee] = true
					totals[shapeValue*j] = true
				}
				for total := range totals {
					outs := f.outputs(t.T, []int64{total})
					tx := f.mkTx(t.T, outs, ins, h)
					inOK, outOK, feeOK, pan := false, false, false, ""
					func() {
						defer func() {
							if r := recover(); r != nil {
								pan = fmt.Sprint(r)
							}
						}()
						inOK = tx.CheckTransactionInput() == nil
						outOK = tx.CheckTransactionOutput() == nil
						feeOK = tx.CheckTransactionFee(refs) == nil
					}()
					res.ShapeEvals++
					if pan != "" {
						res.Panics[t.Name+": input shapes: "+trim(pan)]++
						continue
					}
					acc := inOK && outOK && feeOK
					if t.T == common2.TransferAsset {
						classes[fmt.Sprintf("shape=%s|out=%dx-%d|input-check=%v|accepted=%v", sh.Name, (total+minFee)/shapeValue, (shapeValue-total%shapeValue)%shapeValue, inOK, acc)]++
					}
					if acc {
						res.ShapeAccepted++
						if big.NewInt(total).Cmp(spent) > 0 {
							site := "common"
							if t.T != common2.TransferAsset {
								site = "common" // one defect site per implementation; refined below
							}
							addViol("C01|value-created|outpoint-counted-twice|"+site,
								fmt.Sprintf("inputs %s (%d distinct outpoint(s) worth %s) with an output of %d pass the input, output and fee checks: the spent output is counted once per listed copy", sh.Name, len(distinct), spent, total),
								caseA{Type: int(t.T), Name: t.Name, H: h, Outputs: amounts{total}, Inputs: amounts{}, Shape: sh.Name})
						}
					}
				}
			}
		}
	}
	for k, v := range classes {
		res.Classes["inputs|"+k] += v
	}
}
