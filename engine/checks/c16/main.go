// C16: ffldb behaves like an ordered, transactional key-value store.
//
// Real code: database.Create/Open("ffldb") and everything reachable through database.DB / Tx /
// Bucket / Cursor (Begin, View, Update, Commit, Rollback, Close, Metadata, Bucket, CreateBucket,
// CreateBucketIfNotExists, DeleteBucket, Put, Get, Delete, ForEach, ForEachBucket, Cursor + First/
// Last/Next/Prev/Seek/Delete/Key/Value, StoreBlock/HasBlock/FetchBlock), cache knobs through the
// verif-tagged ffldb.VerifSetCache.
//
// Search: see explore.go (two-level explicit-state search, every operation executed on the real
// database, state = shortest history). Reference model: model.go. Oracles: inst.go.
package main

import (
	"encoding/json"
	"fmt"
	"math/rand"
	"os"
	"runtime/debug"
	"sort"
	"strconv"
	"strings"
	"time"

	"verif/evid"
	"verif/par"
)

type artefact struct {
	Config  string   `json:"cache_config"`
	History []string `json:"history"`
}

type workerOut struct {
	Job          string
	TxStates     int64
	OuterStates  int64
	Transitions  int64
	Executions   int64
	Commits      int64
	Reopens      int64
	FailedUpd    int64
	Rollbacks    int64
	CursorChecks int64
	Pruned       int64
	Merged       int64
	Capped       bool
	Tainted      bool
	Samples      [][]string
	Violations   []evid.Violation
}

func cfgByName(n string) cacheCfg {
	for _, c := range cacheCfgs {
		if c.Name == n {
			return c
		}
	}
	evid.Fatalf("unknown cache configuration %q", n)
	return cacheCfg{}
}

// replayHistory executes a flat operation list with every oracle enabled and returns the
// failures of every step.
func replayHistory(scratch string, cfg cacheCfg, hist []string) []failure {
	in := newInst(scratch+"/replay", cfg)
	defer in.close()
	var out []failure
	for _, op := range hist {
		switch {
		case op == "begin:rw":
			in.begin(true)
		case op == "begin:ro":
			in.begin(false)
		case op == "commit" || op == "rollback":
			if in.tx != nil {
				in.end(op)
			}
		case op == "reopen":
			in.abort()
			in.reopen()
		case strings.HasPrefix(op, "upderr:"):
			in.abort()
			var body []string
			if s := strings.TrimPrefix(op, "upderr:"); s != "" {
				body = strings.Split(s, ",")
			}
			in.updErr(body)
		default:
			in.applyOp(op)
		}
		out = append(out, in.fails...)
		in.fails = in.fails[:0]
	}
	return out
}

// populated is the second initial state: every bucket exists and holds keys, committed and made
// durable by a close+reopen, so that deletes and overwrites of durable data, cached removals and
// their flush are reachable within a few operations.
var populated = []event{
	{Body: []string{"p:001", "p:020", "mk:1", "p:111", "p:100", "mk:2", "p:210"}},
	{Reopen: true},
}

// dirty is the third initial state: the populated durable database plus one more commit that is
// NOT followed by a reopen, so under the caching configurations the write cache holds a removal
// of a durable key, an overwrite, and a nested bucket that was deleted and created again.
var dirty = append(append([]event{}, populated...),
	event{Body: []string{"d:00", "p:021", "rm:2", "mk:2", "p:220"}})

// dirtyRemoved is the fourth initial state: the populated durable database plus one more commit,
// NOT followed by a reopen, that deletes the nested bucket y (with its key), a key of x and a root
// key and does not re-create them: under the caching configurations the write cache holds only
// removals of durable entries, so every existence test (CreateBucket, Bucket, CreateBucketIfNotExists,
// Put/Get) has to consult the cached removals.
var dirtyRemoved = append(append([]event{}, populated...),
	event{Body: []string{"rm:2", "d:11", "d:00"}})

func runWorker(r *evid.Run, job string) {
	rand.Seed(1) // treap priorities of the transaction/cache treaps: fixed per worker
	f := strings.Split(job, ":")
	cfg := cfgByName(f[0])
	shard, _ := strconv.Atoi(f[1])
	nshards, _ := strconv.Atoi(f[2])
	depth, _ := strconv.Atoi(f[3])
	scratch := evid.Scratch("c16w")
	defer os.RemoveAll(scratch)
	e := &explorer{cfg: cfg, depth: depth, shard: shard, nshards: nshards, scratch: scratch, memo: map[string]int{}, fails: map[string]*recorded{}, stop: r.Expired}
	if len(f) > 4 && f[4] == "populated" {
		e.init = populated
	}
	if len(f) > 4 && f[4] == "dirty-cache" {
		e.init = dirty
	}
	if len(f) > 4 && f[4] == "dirty-removed" {
		e.init = dirtyRemoved
	}
	if len(f) > 4 && f[4] == "populated-cursor" {
		// cursor family on durable data: only cursor operations inside the transaction (one Seek
		// key), every walk that deleted through the cursor is committed and compared afterwards
		e.init = populated
		e.cursorCommits = true
		e.opFilter = func(op string) bool {
			return op[0] == 'c' && op != "cS:0" && op != "cS:2"
		}
	}
	if d := os.Getenv("VERIF_C16_DEADLINE"); d != "" {
		if t, err := strconv.ParseInt(d, 10, 64); err == nil {
			e.stop = func() bool { return r.Expired() || time.Now().Unix() > t }
		}
	}
	in := e.fresh(nil)
	var cur *inst // instance executing an operation (for the history of a panic)
	e.onExec = func(x *inst) { cur = x }
	func() {
		defer func() {
			if p := recover(); p != nil {
				if s, ok := p.(string); ok && strings.HasPrefix(s, "engine:") {
					panic(p)
				}
				// a panic inside the code under test: report it with the history that was running and
				// stop this shard (locks of the interrupted transaction may still be held)
				st := debug.Stack()
				x := cur
				if x == nil {
					x = in
				}
				x.quiet = false
				x.failf("panic|"+evid.PanicSite(st), "panic: %v", p)
				e.record(x)
				e.capped = true
			}
		}()
		e.exploreState(in, nil, 0)
		in.close()
	}()
	out := workerOut{Job: job, TxStates: e.txStates, OuterStates: e.outerStates, Transitions: e.transitions, Executions: e.executions,
		Commits: e.commits, Reopens: e.reopens, FailedUpd: e.failedUpd, Rollbacks: e.rollbacks, CursorChecks: e.cursorChecks, Pruned: e.pruned, Merged: e.mergedTransitions, Capped: e.capped && !e.tainted, Tainted: e.tainted, Samples: e.samples}
	for _, sig := range e.order {
		rec := e.fails[sig]
		// confirm by two plain replays of the recorded history on fresh databases
		for i := 0; i < 2 && !strings.HasPrefix(sig, "C16|panic|"); i++ {
			ok := false
			for _, fl := range replayHistory(scratch, cfg, rec.Hist) {
				if fl.sig == sig {
					ok = true
				}
			}
			if !ok {
				evid.Fatalf("failing history does not reproduce: %s: %v", sig, rec.Hist)
			}
		}
		out.Violations = append(out.Violations, evid.Violation{Signature: sig, What: rec.What, Count: rec.Count, Artefact: artefact{Config: cfg.Name, History: rec.Hist}})
	}
	os.RemoveAll(scratch)
	par.Emit(out)
}

func main() {
	r := evid.Start("C16", "model_checking")
	if job, ok := par.Worker(); ok {
		runWorker(r, job)
		return
	}
	if r.Replay != "" {
		var a artefact
		r.LoadReplay(&a)
		rand.Seed(1)
		scratch := evid.Scratch("c16r")
		fl := replayHistory(scratch, cfgByName(a.Config), a.History)
		os.RemoveAll(scratch)
		for _, f := range fl {
			fmt.Printf("replay: %v -> FAIL %s: %s\n", a.History, f.sig, f.what)
			r.Violate(f.sig, f.what, a)
		}
		if len(fl) == 0 {
			fmt.Printf("replay: %v -> ok\n", a.History)
		}
		r.Finish(evid.Coverage{})
	}
	// Depth bounds (number of operations) per initial state: quick 5 from the empty database and 3
	// from the populated and from the dirty-cache state; thorough 8 and 6 (time-capped).
	depth := r.Pick(5, 8)
	if s := os.Getenv("VERIF_C16_DEPTH"); s != "" {
		depth, _ = strconv.Atoi(s)
	}
	depthPop := depth - 2
	type start struct {
		name    string
		depth   int
		nshards int
	}
	starts := []start{{"empty", depth, 16}, {"populated", depthPop, 16}, {"dirty-cache", depthPop, 16}, {"populated-cursor", r.Pick(6, 8), 8}, {"dirty-removed", depthPop, 16}}
	if depthPop <= 3 {
		starts[1].nshards, starts[2].nshards, starts[4].nshards = 4, 4, 4
	}
	// thorough: global time cap (the full depth-8 space needs ~45 min); workers that start after
	// the deadline return at once, the run ends with exit 0 and exhaustive=false
	if r.Thorough() && os.Getenv("VERIF_C16_DEADLINE") == "" {
		os.Setenv("VERIF_C16_DEADLINE", strconv.FormatInt(time.Now().Add(22*time.Minute).Unix(), 10))
	}
	var jobs []string
	starts[0], starts[3] = starts[3], starts[0] // few long shards first
	for _, st := range starts {
		for _, c := range cacheCfgs {
			for s := 0; s < st.nshards; s++ {
				jobs = append(jobs, fmt.Sprintf("%s:%d:%d:%d:%s", c.Name, s, st.nshards, st.depth, st.name))
			}
		}
	}
	scratch := evid.Scratch("c16")
	defer os.RemoveAll(scratch)
	results := par.Procs(jobs, scratch, par.Opts{Timeout: 3 * time.Hour, MemMB: 6144})
	os.RemoveAll(scratch)
	var tot workerOut
	var all []evid.Violation
	perCfg := map[string]map[string]int{}
	capped := false
	var samples []interface{}
	for _, res := range results {
		if res.Died || res.Out == nil {
			evid.Fatalf("worker %s died (announced %q): %s", res.Job, res.Announced, res.Stderr)
		}
		var o workerOut
		if err := json.Unmarshal(res.Out, &o); err != nil {
			evid.Fatalf("worker %s: %v", res.Job, err)
		}
		tot.TxStates += o.TxStates
		tot.OuterStates += o.OuterStates
		tot.Transitions += o.Transitions
		tot.Executions += o.Executions
		tot.Commits += o.Commits
		tot.Reopens += o.Reopens
		tot.FailedUpd += o.FailedUpd
		tot.Rollbacks += o.Rollbacks
		tot.CursorChecks += o.CursorChecks
		tot.Pruned += o.Pruned
		tot.Merged += o.Merged
		capped = capped || o.Capped || o.Tainted
		cn := strings.SplitN(o.Job, ":", 2)[0]
		for _, v := range o.Violations {
			all = append(all, v)
			if perCfg[v.Signature] == nil {
				perCfg[v.Signature] = map[string]int{}
			}
			perCfg[v.Signature][cn] += v.Count
		}
		if len(o.Samples) > 0 && len(samples) < 4 && strings.Contains(o.Job, ":0:") {
			samples = append(samples, map[string]interface{}{"cache_config": cn, "history": o.Samples[0]})
		}
	}
	// one artefact per signature: shortest history, ties by job order; differential across cache
	// configurations: a signature seen under some configurations only says so in its text
	hlen := func(v evid.Violation) int {
		b, _ := json.Marshal(v.Artefact)
		var a artefact
		json.Unmarshal(b, &a)
		return len(a.History)
	}
	best := map[string]int{}
	for i, v := range all {
		if j, ok := best[v.Signature]; !ok || hlen(v) < hlen(all[j]) {
			best[v.Signature] = i
		}
	}
	var sigs []string
	for s := range best {
		sigs = append(sigs, s)
	}
	sort.Strings(sigs)
	for _, s := range sigs {
		v := all[best[s]]
		v.Count = 0
		var cn []string
		for c, n := range perCfg[s] {
			cn = append(cn, c)
			v.Count += n
		}
		sort.Strings(cn)
		if len(cn) < len(cacheCfgs) {
			v.What += fmt.Sprintf(" [only under cache configuration(s) %v]", cn)
		}
		r.MergeViolation(v)
	}
	if len(samples) == 0 {
		samples = append(samples, []string{})
	}
	var cn []string
	for _, c := range cacheCfgs {
		cn = append(cn, fmt.Sprintf("%s(maxSize=%d,flushInterval=%d)", c.Name, c.MaxSize, c.Interval))
	}
	cov := evid.Coverage{
		"states":                                         tot.TxStates + tot.OuterStates,
		"transitions":                                    tot.Transitions,
		"traces_validated_against_impl":                  tot.TxStates + tot.Commits + tot.Reopens,
		"transaction_states":                             tot.TxStates,
		"committed_states_expanded":                      tot.OuterStates,
		"fresh_databases":                                tot.Executions,
		"commits_executed":                               tot.Commits,
		"reopens_executed":                               tot.Reopens,
		"rollbacks_checked_no_trace":                     tot.Rollbacks,
		"failed_updates_checked_no_trace":                tot.FailedUpd,
		"cursor_operations_checked":                      tot.CursorChecks,
		"transitions_into_merged_states_executed":        tot.Merged,
		"max_depth_completed":                            depth,
		"max_depth_from_populated_and_dirty_cache_state": depthPop,
		"cache_configurations":                           cn,
		"exhaustive":                                     !capped,
		"samples":                                        samples,
		"rule": "operations {begin(rw|ro), put/delete on 3 buckets (root, x, x/y) x 3 keys x 2 values, createBucket/deleteBucket x,y, storeBlock (max 2), cursor(bucket), cursor First/Last/Next/Prev/Seek(k)/Delete, commit, rollback, update-returning-error, close+reopen}; all histories up to the depth bound (number of operations), explored per cache configuration from the empty database and (two operations less) from a populated durable one (all three buckets with keys, committed, closed and reopened) and from a dirty-cache one (the populated database plus one more commit that deletes a durable key, overwrites one and re-creates a nested bucket, not followed by a reopen) and from a dirty-removed one (the populated database plus one more commit, not followed by a reopen, that deletes a nested bucket, a key of a bucket and a root key without re-creating them); plus a cursor family on the populated durable database (only cursor operations inside the transaction, depth 6 quick / 8 thorough, every walk that deleted through the cursor committed and compared); " +
			"transaction states merged on (visible content, pending status of every key and bucket, stored blocks, cursor bucket/position/validity and the cursor's operation history since its last First/Last/Seek); committed states merged on (content, blocks, bucket id counter, cached entries, just-reopened); every merged state is reached by replaying its shortest history on the real database; " +
			"oracle after every operation: existence of every bucket, Get of every key, ForEach, ForEachBucket, full cursor forward = ForEach + ForEachBucket and backward = mirror image, Writable, blocks, documented error codes of non-mutating bad calls; after commit/rollback/failed Update/reopen the same in a fresh read-only transaction plus ErrTxClosed on every stale handle",
	}
	r.Assume = append(r.Assume,
		"key names (a,b,c) and bucket names (x,y) are disjoint and keys sort first: the contract does not fix the relative order of keys and nested buckets in a cursor, nor does ffldb implement ErrIncompatibleValue for a key named like a bucket",
		"a cursor is continued with Next/Prev only while its bucket has not been modified by anything but Cursor.Delete (interface.go: other modifications invalidate the cursor until it is repositioned); Key/Value right after Cursor.Delete are not read",
		"Bucket.Delete with an empty key is not probed (interface.go says ErrKeyRequired, the implementation documents a no-op)",
		"one cursor at a time; single-threaded use; block storage is covered in depth by C18")
	r.Finish(cov)
}
