// C17: ffldb survives a crash at any point (process-stop model, engine crashx).
//
// Real code: database/ffldb driven through database.Create/Open, Tx.StoreBlock, Bucket Put/Delete/
// CreateBucket/DeleteBucket, Commit, Close. Crash points = every statement of the commit / flush /
// rollback / block-write functions (injected at BUILD time into overlay copies of the current
// working tree by engine/vinst, calling the verif-tagged ffldb.VerifCrashPoint) plus every
// operation on the flat block files (WriteAt incl. torn writes, Truncate, Sync, Close, delete)
// through the package's own file seams. At every point the database directory is copied; every
// distinct copy is later reopened and must be one complete committed state.
package main

import (
	"bytes"
	"encoding/json"
	"fmt"
	"os"
	"path/filepath"
	"runtime/debug"
	"sort"
	"strconv"
	"strings"
	"time"

	"github.com/btcsuite/btcd/wire"

	"github.com/elastos/Elastos.ELA/common"
	"github.com/elastos/Elastos.ELA/database"
	"github.com/elastos/Elastos.ELA/database/ffldb"

	"verif/crashx"
	"verif/evid"
	"verif/par"
)

const magic = wire.BitcoinNet(0x17171717)
const maxFile = 256

// ---- histories -----------------------------------------------------------------------------------

type action struct {
	Kind string `json:"k"`           // put | del | mkb | rmb | sb
	Path string `json:"p,omitempty"` // "a" (root key), "n/a" (key in bucket n), "n" (bucket)
	Val  string `json:"v,omitempty"`
	Size int    `json:"s,omitempty"` // block size for sb
}

type step struct {
	Reopen  bool     `json:"reopen,omitempty"`  // clean Close + Open instead of a commit
	Actions []action `json:"actions,omitempty"` // one read-write transaction, committed
	Flush   bool     `json:"flush,omitempty"`   // write-back configuration: this commit flushes the cache
	// FailWrite > 0: the FailWrite-th flat-file WriteAt of this commit fails after FailAfter bytes
	FailWrite int `json:"fail_write,omitempty"`
	FailAfter int `json:"fail_after,omitempty"`
}

type history struct {
	Name  string `json:"name"`
	Steps []step `json:"steps"`
}

func put(p, v string) action { return action{Kind: "put", Path: p, Val: v} }
func del(p string) action    { return action{Kind: "del", Path: p} }
func mkb(p string) action    { return action{Kind: "mkb", Path: p} }
func rmb(p string) action    { return action{Kind: "rmb", Path: p} }
func sb(n int) action        { return action{Kind: "sb", Size: n} }
func tx(a ...action) step    { return step{Actions: a} }

func histories(thorough bool) []history {
	hs := []history{
		{"blocks-and-keys-rollover", []step{tx(sb(100), put("a", "1")), tx(sb(100), put("b", "2")), {Actions: []action{sb(100), del("a")}, Flush: true}, tx(put("c", "3")), tx(sb(20), put("a", "4"))}},
		{"exact-fill-then-rollover", []step{tx(sb(244)), {Actions: []action{sb(1), put("a", "1")}, Flush: true}, tx(sb(80), sb(80), put("b", "2")), tx(sb(75), del("b"))}},
		{"metadata-and-buckets-only", []step{tx(put("a", "1"), mkb("n"), put("n/a", "x")), {Actions: []action{del("a"), put("n/b", "y")}, Flush: true}, tx(rmb("n"), put("b", "2")), tx(put("a", "3"), mkb("n"), put("n/c", "z"))}},
		{"one-transaction-over-three-files", []step{tx(put("a", "1")), {Actions: []action{sb(100), sb(100), sb(100), sb(100), sb(100), put("b", "2")}, Flush: true}, tx(sb(10), del("a"))}},
		{"failed-commit-same-file", []step{tx(sb(100), put("a", "1")), {Actions: []action{sb(50), sb(60), put("b", "2")}, FailWrite: 7, FailAfter: 20, Flush: true}, tx(sb(80), put("c", "3")), tx(sb(30), put("d", "4"))}},
		{"failed-commit-after-rollover", []step{tx(sb(200), put("a", "1")), {Actions: []action{sb(100), sb(100), put("b", "2")}, FailWrite: 7, FailAfter: 0, Flush: true}, tx(sb(50), put("c", "3")), tx(sb(100), put("d", "4"))}},
		{"empty-commit-and-reopen", []step{tx(put("a", "1"), sb(100)), tx(), {Reopen: true}, {Actions: []action{sb(100), sb(100), del("a")}, Flush: true}, tx(put("b", "2")), {Reopen: true}, tx(sb(40), put("c", "3"))}},
	}
	if thorough {
		hs = append(hs,
			history{"many-small-blocks", []step{tx(sb(30), sb(30), sb(30)), tx(sb(30), sb(30), sb(30), put("a", "1")), {Actions: []action{sb(30), sb(30), sb(30), sb(30)}, Flush: true}, tx(sb(30), del("a")), tx(sb(200)), tx(sb(200), put("b", "2"))}},
			history{"failed-first-write-of-file", []step{tx(sb(244)), {Actions: []action{sb(100), put("a", "1")}, FailWrite: 1, FailAfter: 2, Flush: true}, tx(sb(100), put("b", "2")), {Reopen: true}, tx(sb(100))}},
			history{"bucket-churn", []step{tx(mkb("n"), put("n/a", "1"), put("n/b", "2"), put("a", "0")), tx(rmb("n")), {Actions: []action{mkb("n"), put("n/a", "3")}, Flush: true}, tx(del("n/a"), put("n/c", "4"), sb(100)), tx(rmb("n"), sb(100), sb(100))}},
		)
	}
	return hs
}

// Cache configurations: flush on every commit (cache limit 0), write-back (nothing is flushed
// except by the commits marked Flush and by Close), small-cache (limit 64 bytes: the cache is
// flushed whenever the previous commits exceed it, i.e. every second or third commit).
var configs = []string{"flush-every-commit", "write-back", "small-cache"}

// ---- model -----------------------------------------------------------------------------------------

type state struct {
	Meta   map[string]string // "a" -> value, "n/" -> "" (bucket marker), "n/a" -> value
	Blocks map[int]int       // block index -> size
}

func (s state) clone() state {
	n := state{Meta: map[string]string{}, Blocks: map[int]int{}}
	for k, v := range s.Meta {
		n.Meta[k] = v
	}
	for k, v := range s.Blocks {
		n.Blocks[k] = v
	}
	return n
}

func (s state) String() string {
	var ks []string
	for k, v := range s.Meta {
		ks = append(ks, k+"="+v)
	}
	sort.Strings(ks)
	var bs []int
	for b := range s.Blocks {
		bs = append(bs, b)
	}
	sort.Ints(bs)
	return fmt.Sprintf("meta{%s} blocks%v", strings.Join(ks, " "), bs)
}

func (s state) equal(o state) bool { return s.String() == o.String() }

func blockHash(i int) common.Uint256 {
	var h common.Uint256
	for j := range h {
		h[j] = byte(0x51 + i*13 + j)
	}
	h[31] = byte(i)
	return h
}

func blockData(i, size int) []byte {
	b := make([]byte, size)
	for j := range b {
		b[j] = byte(j*5 + i*17 + 3)
	}
	return b
}

// apply returns the model state after the transaction; next = first unused block index.
func apply(s state, acts []action, next *int) state {
	n := s.clone()
	for _, a := range acts {
		switch a.Kind {
		case "put":
			n.Meta[a.Path] = a.Val
		case "del":
			delete(n.Meta, a.Path)
		case "mkb":
			n.Meta[a.Path+"/"] = ""
		case "rmb":
			for k := range n.Meta {
				if strings.HasPrefix(k, a.Path+"/") {
					delete(n.Meta, k)
				}
			}
		case "sb":
			n.Blocks[*next] = a.Size
			*next++
		}
	}
	return n
}

// ---- driving the real database ---------------------------------------------------------------------

func bucketFor(t database.Tx, path string) (database.Bucket, string) {
	b := t.Metadata()
	if i := strings.Index(path, "/"); i >= 0 {
		return b.Bucket([]byte(path[:i])), path[i+1:]
	}
	return b, path
}

func runActions(t database.Tx, acts []action, next int) error {
	for _, a := range acts {
		switch a.Kind {
		case "put":
			b, k := bucketFor(t, a.Path)
			if err := b.Put([]byte(k), []byte(a.Val)); err != nil {
				return err
			}
		case "del":
			b, k := bucketFor(t, a.Path)
			if err := b.Delete([]byte(k)); err != nil {
				return err
			}
		case "mkb":
			if _, err := t.Metadata().CreateBucket([]byte(a.Path)); err != nil {
				return err
			}
		case "rmb":
			if err := t.Metadata().DeleteBucket([]byte(a.Path)); err != nil {
				return err
			}
		case "sb":
			if err := t.StoreBlock(blockHash(next), blockData(next, a.Size)); err != nil {
				return err
			}
			next++
		}
	}
	return nil
}

func setup(db database.DB, cfg string, flushNow bool) {
	ffldb.VerifSetMaxBlockFileSize(db, maxFile)
	switch {
	case cfg == "flush-every-commit" || flushNow:
		ffldb.VerifSetCache(db, 0, -1)
	case cfg == "small-cache":
		ffldb.VerifSetCache(db, 64, 1<<62)
	default:
		ffldb.VerifSetCache(db, 1<<40, 1<<62)
	}
}

// readState reads everything visible through the public interface.
func readState(db database.DB, known map[int]int) (st state, problems []string) {
	st = state{Meta: map[string]string{}, Blocks: map[int]int{}}
	err := db.View(func(t database.Tx) error {
		var walk func(b database.Bucket, prefix string) error
		walk = func(b database.Bucket, prefix string) error {
			if err := b.ForEach(func(k, v []byte) error {
				if prefix == "" && strings.HasPrefix(string(k), "ffldb-") {
					return nil
				}
				st.Meta[prefix+string(k)] = string(v)
				return nil
			}); err != nil {
				return err
			}
			var kids []string
			if err := b.ForEachBucket(func(k []byte) error {
				if prefix == "" && strings.HasPrefix(string(k), "ffldb-") {
					return nil
				}
				kids = append(kids, string(k))
				return nil
			}); err != nil {
				return err
			}
			for _, k := range kids {
				st.Meta[prefix+k+"/"] = ""
				if nb := b.Bucket([]byte(k)); nb != nil {
					if err := walk(nb, prefix+k+"/"); err != nil {
						return err
					}
				}
			}
			return nil
		}
		if err := walk(t.Metadata(), ""); err != nil {
			return err
		}
		var idx []int
		for i := range known {
			idx = append(idx, i)
		}
		sort.Ints(idx)
		for _, i := range idx {
			h := blockHash(i)
			has, err := t.HasBlock(h)
			if err != nil {
				return err
			}
			if !has {
				continue
			}
			got, err := t.FetchBlock(&h)
			if err != nil {
				problems = append(problems, fmt.Sprintf("block %d is indexed but FetchBlock fails: %v", i, err))
				continue
			}
			if !bytes.Equal(got, blockData(i, known[i])) {
				problems = append(problems, fmt.Sprintf("block %d is readable but its bytes differ from what was stored", i))
				continue
			}
			st.Blocks[i] = known[i]
		}
		return nil
	})
	if err != nil {
		problems = append(problems, "reading the database failed: "+err.Error())
	}
	return st, problems
}

// ---- one execution of a history with all crash points recorded ---------------------------------------

type execution struct {
	H        history
	Cfg      string
	States   []state     // States[j] = model after commit j (States[0] = empty database)
	Known    map[int]int // every block index any transaction tried to store -> size
	Rec      *crashx.Recorder
	Problems []violation // violations observed while running (no crash involved)
}

type violation struct {
	Sig, What string
	Seq       int
	Site      string
}

func siteClass(site string) string {
	if strings.HasPrefix(site, "file:") {
		s := strings.TrimPrefix(site, "file:")
		if i := strings.IndexAny(s, "(@"); i >= 0 {
			s = s[:i]
		}
		s = strings.TrimRight(s, "0123456789")
		return "file." + strings.TrimSuffix(s, "-")
	}
	if i := strings.Index(site, "@"); i >= 0 {
		return site[:i]
	}
	return site
}

func execute(h history, cfg string, scratch string, only int) (ex *execution) {
	ex = &execution{H: h, Cfg: cfg, Known: map[int]int{}}
	// a panic of the code under test while the history runs (no crash involved) is a violation of
	// its own; the crash states recorded so far are still checked
	defer func() {
		if p := recover(); p != nil {
			if ex.Rec != nil {
				ex.Rec.Enabled = false
			}
			ex.Problems = append(ex.Problems, violation{Sig: "panic-without-crash|" + evid.PanicSite(debug.Stack()), What: fmt.Sprintf("history %s (%s): panic while executing the history: %v", h.Name, cfg, p)})
		}
	}()
	dbDir := filepath.Join(scratch, "db")
	os.RemoveAll(scratch)
	os.MkdirAll(scratch, 0o755)
	rec := crashx.New(dbDir, filepath.Join(scratch, "snaps"))
	rec.Only = only
	ex.Rec = rec
	ffldb.VerifCrashPoint = rec.Point
	defer func() { ffldb.VerifCrashPoint = nil }()

	writes := 0
	var failPlan func(n, size int) (int, bool)
	install := func(db database.DB) {
		ffldb.VerifWrapFiles(db,
			func(num uint32, f ffldb.VerifFiler) ffldb.VerifFiler {
				return &crashx.File{Under: f, Rec: rec, Name: fmt.Sprintf("%09d.fdb", num), Counter: &writes,
					Tear: func(n int) []int {
						if n == 4 {
							return []int{2}
						}
						if n > 8 {
							return []int{n / 2}
						}
						return nil
					},
					FailWrite: func(n, size int) (int, bool) {
						if failPlan != nil {
							return failPlan(n, size)
						}
						return 0, false
					}}
			}, nil,
			func(num uint32, after bool) {
				if !after {
					rec.Point(fmt.Sprintf("file:Delete@%09d.fdb", num))
				}
			})
	}
	db, err := database.Create("ffldb", dbDir, magic)
	if err != nil {
		evid.Fatalf("create: %v", err)
	}
	setup(db, cfg, false)
	install(db)
	cur := state{Meta: map[string]string{}, Blocks: map[int]int{}}
	ex.States = append(ex.States, cur)
	next, durable, commits := 0, 0, 0
	rec.Enabled = true
	for _, st := range h.Steps {
		if st.Reopen {
			rec.Context = fmt.Sprintf("%d %d close", durable, commits)
			if err := db.Close(); err != nil {
				ex.Problems = append(ex.Problems, violation{Sig: "close-error", What: "Close failed: " + err.Error()})
			}
			durable = commits
			rec.Context = fmt.Sprintf("%d %d open", durable, commits)
			db, err = database.Open("ffldb", dbDir, magic)
			if err != nil {
				ex.Problems = append(ex.Problems, violation{Sig: "clean-reopen-fails", What: "Open after a clean Close failed: " + err.Error()})
				return ex
			}
			setup(db, cfg, false)
			install(db)
			continue
		}
		commits++
		// register the blocks this transaction tries to store
		n := next
		for _, a := range st.Actions {
			if a.Kind == "sb" {
				ex.Known[n] = a.Size
				n++
			}
		}
		flush := cfg == "flush-every-commit" || st.Flush
		setup(db, cfg, st.Flush)
		rec.Context = fmt.Sprintf("%d %d commit", durable, commits)
		base := writes
		if st.FailWrite > 0 {
			fw, fa := st.FailWrite, st.FailAfter
			failPlan = func(n, size int) (int, bool) {
				if n-base == fw {
					if fa > size {
						return size / 2, true
					}
					return fa, true
				}
				return 0, false
			}
		}
		t, err := db.Begin(true)
		if err != nil {
			evid.Fatalf("begin: %v", err)
		}
		if err := runActions(t, st.Actions, next); err != nil {
			// the model says the operation is valid (e.g. the bucket exists): the database lost state
			t.Rollback()
			rec.Enabled = false
			db.Close()
			ex.Problems = append(ex.Problems, violation{Sig: "operation-fails-without-crash", What: fmt.Sprintf("commit %d: an operation that is valid in the model state %v failed on the database: %v", commits, cur, err)})
			return ex
		}
		err = t.Commit()
		failPlan = nil
		if st.FailWrite > 0 {
			if err == nil {
				evid.Fatalf("history %s: the injected write failure did not make the commit fail", h.Name)
			}
			// failed commit: nothing changes; the block indices it tried stay unused forever
			ex.States = append(ex.States, cur)
			next = n
		} else {
			if err != nil {
				ex.Problems = append(ex.Problems, violation{Sig: "commit-error", What: fmt.Sprintf("commit %d failed without fault injection: %v", commits, err)})
				return ex
			}
			cur = apply(cur, st.Actions, &next)
			ex.States = append(ex.States, cur)
		}
		if flush && err == nil {
			durable = commits // (a failed commit never reaches the cache flush)
		}
		if ck, cr := ffldb.VerifCacheLen(db); err == nil && ck == 0 && cr == 0 {
			durable = commits // the commit went straight to leveldb (size-triggered flush)
		}
		setup(db, cfg, false)
	}
	rec.Context = fmt.Sprintf("%d %d close", durable, commits)
	if err := db.Close(); err != nil {
		ex.Problems = append(ex.Problems, violation{Sig: "close-error", What: "final Close failed: " + err.Error()})
	}
	rec.Enabled = false
	// no-crash oracle: a clean reopen shows the last state
	db, err = database.Open("ffldb", dbDir, magic)
	if err != nil {
		ex.Problems = append(ex.Problems, violation{Sig: "clean-reopen-fails", What: "Open after the final clean Close failed: " + err.Error()})
		return ex
	}
	got, probs := readState(db, ex.Known)
	db.Close()
	if len(probs) > 0 || !got.equal(cur) {
		ex.Problems = append(ex.Problems, violation{Sig: "clean-run-state", What: fmt.Sprintf("without any crash the reopened database shows %v %v, expected %v", got, probs, cur)})
	}
	if rec.Err() != nil {
		evid.Fatalf("snapshot: %v", rec.Err())
	}
	return ex
}

// instrumentedSites is set by build.sh (-ldflags -X) to the number of statement sites vinst
// injected; a binary built without the overlay refuses to produce a verdict.
var instrumentedSites string

// instrumentedFuncs is set by build.sh to the comma separated list of instrumented functions.
var instrumentedFuncs string

func ffldbInstrumented() int {
	n, _ := strconv.Atoi(instrumentedSites)
	return n
}

// checkSnapshot reopens one crash state and evaluates the oracle. durable/interrupted bound the
// commits whose state may be visible.
func checkSnapshot(ex *execution, dir string, durable, interrupted int) (clause, what string, j int) {
	defer func() {
		if e := recover(); e != nil {
			clause, what, j = "panic-after-crash", fmt.Sprintf("panic while reopening/reading the crash state: %v\n%s", e, firstFrames(debug.Stack())), -1
		}
	}()
	db, err := database.Open("ffldb", dir, magic)
	if err != nil {
		return "open-fails", "reopening the crash state failed: " + err.Error(), -1
	}
	setup(db, "flush-every-commit", false)
	got, probs := readState(db, ex.Known)
	if len(probs) > 0 {
		db.Close()
		return "block-incomplete", strings.Join(probs, "; "), -1
	}
	j = -1
	for k := durable; k <= interrupted && k < len(ex.States); k++ {
		if got.equal(ex.States[k]) {
			j = k
			break
		}
	}
	if j < 0 {
		db.Close()
		var want []string
		for k := durable; k <= interrupted && k < len(ex.States); k++ {
			want = append(want, fmt.Sprintf("after commit %d: %v", k, ex.States[k]))
		}
		other := ""
		for k := range ex.States {
			if got.equal(ex.States[k]) {
				other = fmt.Sprintf(" (it equals the state after commit %d, which is outside the allowed range)", k)
			}
		}
		return "mixed-state", fmt.Sprintf("visible state %v is none of the allowed states [%s]%s", got, strings.Join(want, " | "), other), -1
	}
	// later commits continue to work
	extra := 90
	err = db.Update(func(t database.Tx) error {
		if err := t.Metadata().Put([]byte("zz"), []byte("after-crash")); err != nil {
			return err
		}
		return t.StoreBlock(blockHash(extra), blockData(extra, 60))
	})
	if err != nil {
		db.Close()
		return "next-commit-fails", "a commit after recovery failed: " + err.Error(), j
	}
	if err := db.Close(); err != nil {
		return "next-commit-fails", "Close after the post-recovery commit failed: " + err.Error(), j
	}
	db, err = database.Open("ffldb", dir, magic)
	if err != nil {
		return "next-commit-fails", "reopen after the post-recovery commit failed: " + err.Error(), j
	}
	known := map[int]int{extra: 60}
	for k, v := range ex.Known {
		known[k] = v
	}
	got2, probs := readState(db, known)
	db.Close()
	want := ex.States[j].clone()
	want.Meta["zz"] = "after-crash"
	want.Blocks[extra] = 60
	if len(probs) > 0 || !got2.equal(want) {
		return "next-commit-lost", fmt.Sprintf("after recovery + one more commit + reopen the database shows %v %v, expected %v", got2, probs, want), j
	}
	return "", "", j
}

func firstFrames(st []byte) string {
	lines := strings.Split(string(st), "\n")
	if len(lines) > 14 {
		lines = lines[:14]
	}
	return strings.Join(lines, "\n")
}

// ---- second family: in-process write faults (no crash, no reopen) ------------------------------------

// faultRun executes the history; during commit number fc (1-based) the fk-th flat-file operation
// (WriteAt / Sync / Truncate) fails with an error. fc = 0: no fault, only counts the operations of
// every commit. After the failed commit, WITHOUT reopening: the commit must have reported an
// error, the visible state must be the state before it (no trace), every committed block must
// still fetch byte-exact, one more commit storing a block must work; then the same after a clean
// close + reopen.
func faultRun(h history, cfg, dir string, fc, fk int) (opsPerCommit []int, probs []violation, opKind string) {
	os.RemoveAll(dir)
	defer os.RemoveAll(dir)
	defer func() {
		if p := recover(); p != nil {
			probs = append(probs, violation{Sig: "fault|panic|" + evid.PanicSite(debug.Stack()), What: fmt.Sprintf("history %s (%s), fault at operation %d of commit %d: panic: %v", h.Name, cfg, fk, fc, p)})
		}
	}()
	rec := crashx.New(dir, dir+"-snaps") // disabled: this family takes no snapshots
	ops, commits, base := 0, 0, 0
	install := func(db database.DB) {
		ffldb.VerifWrapFiles(db, func(num uint32, f ffldb.VerifFiler) ffldb.VerifFiler {
			return &crashx.File{Under: f, Rec: rec, Name: fmt.Sprintf("%09d.fdb", num), OpCounter: &ops,
				FailOp: func(n int, op string, size int) (int, bool) {
					if commits == fc && n-base == fk {
						opKind = op
						return size / 2, true
					}
					return 0, false
				}}
		}, nil, nil)
	}
	db, err := database.Create("ffldb", dir, magic)
	if err != nil {
		evid.Fatalf("create: %v", err)
	}
	defer func() {
		if db != nil {
			db.Close()
		}
	}()
	setup(db, cfg, false)
	install(db)
	cur := state{Meta: map[string]string{}, Blocks: map[int]int{}}
	known := map[int]int{}
	next := 0
	where := func() string {
		return fmt.Sprintf("history %s (%s), %s fails as operation %d of commit %d", h.Name, cfg, opKind, fk, fc)
	}
	check := func(clause string, want state, extra string) bool {
		got, ps := readState(db, known)
		if len(ps) > 0 {
			probs = append(probs, violation{Sig: "fault|read-fails-" + clause + "|" + opKind, What: where() + ": " + extra + ": " + strings.Join(ps, "; ")})
			return false
		}
		if !got.equal(want) {
			probs = append(probs, violation{Sig: "fault|state-" + clause + "|" + opKind, What: fmt.Sprintf("%s: %s: visible state %v, expected %v", where(), extra, got, want)})
			return false
		}
		return true
	}
	for _, st := range h.Steps {
		if st.Reopen {
			db.Close()
			if db, err = database.Open("ffldb", dir, magic); err != nil {
				evid.Fatalf("fault family: clean reopen: %v", err)
			}
			setup(db, cfg, false)
			install(db)
			continue
		}
		commits++
		base = ops
		n := next
		for _, a := range st.Actions {
			if a.Kind == "sb" {
				known[n] = a.Size
				n++
			}
		}
		setup(db, cfg, st.Flush)
		t, err := db.Begin(true)
		if err != nil {
			evid.Fatalf("begin: %v", err)
		}
		if err := runActions(t, st.Actions, next); err != nil {
			evid.Fatalf("fault family: action: %v", err)
		}
		err = t.Commit()
		setup(db, cfg, false)
		opsPerCommit = append(opsPerCommit, ops-base)
		if commits != fc {
			if err != nil {
				evid.Fatalf("fault family: commit %d failed without a fault: %v", commits, err)
			}
			cur = apply(cur, st.Actions, &next)
			continue
		}
		next = n // the indices the failed transaction used are never reused
		if err == nil {
			probs = append(probs, violation{Sig: "fault|commit-reports-success|" + opKind, What: where() + ": Commit returned nil although a flat-file operation failed"})
			return
		}
		// 1. no trace, everything committed earlier still readable — without reopening
		if !check("after-failed-commit", cur, "right after the failed commit, same process") {
			return
		}
		// 2. later commits continue to work
		extra := 90
		known[extra] = 60
		if err := db.Update(func(t database.Tx) error {
			if err := t.Metadata().Put([]byte("zz"), []byte("after-fault")); err != nil {
				return err
			}
			return t.StoreBlock(blockHash(extra), blockData(extra, 60))
		}); err != nil {
			probs = append(probs, violation{Sig: "fault|next-commit-fails|" + opKind, What: where() + ": the next commit (one key, one block) failed: " + err.Error()})
			return
		}
		want := cur.clone()
		want.Meta["zz"] = "after-fault"
		want.Blocks[extra] = 60
		if !check("after-next-commit", want, "after one more commit, same process") {
			return
		}
		// 3. and after a clean close + reopen
		if err := db.Close(); err != nil {
			probs = append(probs, violation{Sig: "fault|close-fails|" + opKind, What: where() + ": Close failed: " + err.Error()})
			db = nil
			return
		}
		if db, err = database.Open("ffldb", dir, magic); err != nil {
			db = nil
			probs = append(probs, violation{Sig: "fault|reopen-fails|" + opKind, What: where() + ": Open after a clean Close failed: " + err.Error()})
			return
		}
		setup(db, cfg, false)
		check("after-reopen", want, "after close + reopen")
		return
	}
	return
}

type faultOutT struct {
	Runs       int
	Kinds      map[string]int
	Violations []evid.Violation
}

func faultFamily(h history, cfg, scratch string) faultOutT {
	out := faultOutT{Kinds: map[string]int{}}
	for _, st := range h.Steps {
		if st.FailWrite > 0 {
			return out // histories with their own scripted fault belong to the crash family
		}
	}
	ops, _, _ := faultRun(h, cfg, filepath.Join(scratch, "fdb"), 0, 0)
	seen := map[string]int{}
	for c, n := range ops {
		for k := 1; k <= n; k++ {
			_, probs, kind := faultRun(h, cfg, filepath.Join(scratch, "fdb"), c+1, k)
			out.Runs++
			out.Kinds[kind]++
			for _, v := range probs {
				if i, ok := seen[v.Sig]; ok {
					out.Violations[i].Count++
					continue
				}
				seen[v.Sig] = len(out.Violations)
				out.Violations = append(out.Violations, evid.Violation{Signature: "C17|" + v.Sig, What: v.What, Count: 1,
					Artefact: artefact{History: h, Config: cfg, Seq: -(c+1)*1000 - k, Site: "fault:" + kind}})
			}
		}
	}
	return out
}

// ---- worker / parent -----------------------------------------------------------------------------

type artefact struct {
	History history `json:"history"`
	Config  string  `json:"cache_config"`
	Seq     int     `json:"crash_point_seq"`
	Site    string  `json:"site"`
	Context string  `json:"durable_interrupted"`
}

type workerOut struct {
	Job        string
	Points     int
	Snapshots  int
	NonTrivial int
	Retries    int
	Sites      map[string]int
	Outcomes   map[string]int // siteClass|old or new
	Violations []evid.Violation
	Sample     interface{}
	FaultRuns  int
	FaultKinds map[string]int
}

func parseCtx(c string) (int, int) {
	var d, i int
	var w string
	fmt.Sscanf(c, "%d %d %s", &d, &i, &w)
	return d, i
}

func runJob(h history, cfg string, scratch string, only int) workerOut {
	ex := execute(h, cfg, scratch, only)
	out := workerOut{Points: len(ex.Rec.Points), Snapshots: len(ex.Rec.Snapshots), Retries: ex.Rec.Retries, Sites: map[string]int{}, Outcomes: map[string]int{}}
	for _, p := range ex.Rec.Points {
		out.Sites[siteClass(p.Site)]++
	}
	seen := map[string]bool{}
	addV := func(sig, what string, a artefact) {
		if seen[sig] {
			for i := range out.Violations {
				if out.Violations[i].Signature == sig {
					out.Violations[i].Count++
				}
			}
			return
		}
		seen[sig] = true
		out.Violations = append(out.Violations, evid.Violation{Signature: sig, What: what, Count: 1, Artefact: a})
	}
	for _, v := range ex.Problems {
		addV("C17|"+v.Sig, v.What, artefact{History: h, Config: cfg, Seq: -1})
	}
	firstHash := map[string]string{}
	for _, s := range ex.Rec.Snapshots {
		d, i := parseCtx(s.Context)
		if _, ok := firstHash[s.Context]; !ok {
			firstHash[s.Context] = s.Hash
		} else if firstHash[s.Context] != s.Hash {
			out.NonTrivial++
		}
		par.Announce(fmt.Sprintf("%s/%s point %d %s", h.Name, cfg, s.First, s.Site))
		clause, what, j := checkSnapshot(ex, s.Dir, d, i)
		if clause != "" {
			addV(fmt.Sprintf("C17|%s|%s", clause, siteClass(s.Site)),
				fmt.Sprintf("history %s (%s), crash at point %d (%s, durable commit %d, interrupted commit %d): %s", h.Name, cfg, s.First, s.Site, d, i, what),
				artefact{History: h, Config: cfg, Seq: s.First, Site: s.Site, Context: s.Context})
		} else if j == i && i > d {
			out.Outcomes[siteClass(s.Site)+"|new"]++
		} else {
			out.Outcomes[siteClass(s.Site)+"|old"]++
		}
		os.RemoveAll(s.Dir)
	}
	if len(ex.Rec.Points) > 3 {
		p := ex.Rec.Points[len(ex.Rec.Points)/2]
		out.Sample = map[string]interface{}{"history": h.Name, "cache_config": cfg, "crash_point_seq": p.Seq, "site": p.Site, "durable_interrupted": p.Context}
	}
	return out
}

func main() {
	r := evid.Start("C17", "fault_enumeration")
	hs := histories(r.Thorough())
	if job, ok := par.Worker(); ok {
		f := strings.SplitN(job, "|", 2)
		scratch := evid.Scratch("c17w")
		defer os.RemoveAll(scratch)
		for _, h := range hs {
			if h.Name == f[0] {
				out := runJob(h, f[1], scratch, -1)
				out.Job = job
				fo := faultFamily(h, f[1], scratch)
				out.FaultRuns, out.FaultKinds = fo.Runs, fo.Kinds
				out.Violations = append(out.Violations, fo.Violations...)
				os.RemoveAll(scratch)
				par.Emit(out)
				return
			}
		}
		evid.Fatalf("unknown job %q", job)
	}
	if r.Replay != "" {
		var a artefact
		r.LoadReplay(&a)
		scratch := evid.Scratch("c17r")
		if a.Seq < -1 { // in-process fault: -(commit*1000 + operation)
			_, probs, _ := faultRun(a.History, a.Config, filepath.Join(scratch, "fdb"), (-a.Seq)/1000, (-a.Seq)%1000)
			os.RemoveAll(scratch)
			for _, v := range probs {
				fmt.Printf("replay: %s/%s fault %d -> FAIL C17|%s: %s\n", a.History.Name, a.Config, a.Seq, v.Sig, v.What)
				r.Violate("C17|"+v.Sig, v.What, a)
			}
			if len(probs) == 0 {
				fmt.Printf("replay: %s/%s fault %d -> ok\n", a.History.Name, a.Config, a.Seq)
			}
			r.Finish(evid.Coverage{})
		}
		out := runJob(a.History, a.Config, scratch, a.Seq)
		os.RemoveAll(scratch)
		for _, v := range out.Violations {
			fmt.Printf("replay: %s/%s point %d -> FAIL %s: %s\n", a.History.Name, a.Config, a.Seq, v.Signature, v.What)
			r.Violate(v.Signature, v.What, a)
		}
		if len(out.Violations) == 0 {
			fmt.Printf("replay: %s/%s point %d (%s) -> ok\n", a.History.Name, a.Config, a.Seq, a.Site)
		}
		r.Finish(evid.Coverage{})
	}
	if ffldbInstrumented() == 0 {
		evid.Fatalf("the binary was built without the crash-point overlay (run it through ./run, which uses build.sh)")
	}
	var jobs []string
	for _, h := range hs {
		for _, c := range configs {
			jobs = append(jobs, h.Name+"|"+c)
		}
	}
	scratch := evid.Scratch("c17")
	defer os.RemoveAll(scratch)
	results := par.Procs(jobs, scratch, par.Opts{Timeout: time.Hour, MemMB: 4096})
	os.RemoveAll(scratch)
	points, snaps, nontrivial, retries, faultRuns := 0, 0, 0, 0, 0
	faultKinds := map[string]int{}
	sites := map[string]int{}
	outcomes := map[string]int{}
	var samples []interface{}
	for _, res := range results {
		if res.Died || res.Out == nil {
			// a process death while reopening a crash state is a finding of the state it announced
			if res.Announced != "" {
				r.Violate("C17|process-dies-after-crash", "worker died while checking "+res.Announced+": "+tail(res.Stderr), map[string]string{"job": res.Job, "announced": res.Announced})
				continue
			}
			evid.Fatalf("worker %s died: %s", res.Job, res.Stderr)
		}
		var o workerOut
		if err := json.Unmarshal(res.Out, &o); err != nil {
			evid.Fatalf("worker %s: %v", res.Job, err)
		}
		points += o.Points
		snaps += o.Snapshots
		nontrivial += o.NonTrivial
		retries += o.Retries
		faultRuns += o.FaultRuns
		for k, v := range o.FaultKinds {
			faultKinds[k] += v
		}
		for k, v := range o.Sites {
			sites[k] += v
		}
		for k, v := range o.Outcomes {
			outcomes[k] += v
		}
		for _, v := range o.Violations {
			r.MergeViolation(v)
		}
		if o.Sample != nil && len(samples) < 4 {
			samples = append(samples, o.Sample)
		}
	}
	if len(samples) == 0 {
		samples = append(samples, "none")
	}
	cov := evid.Coverage{
		"evaluations":                             snaps,
		"distinct_nontrivial":                     nontrivial,
		"crash_points_visited":                    points,
		"crash_states_reopened":                   snaps,
		"in_process_fault_runs":                   faultRuns,
		"in_process_faults_by_operation":          faultKinds,
		"copies_repeated_because_directory_moved": retries,
		"points_per_site":                         sites,
		"recovered_state_per_site":                outcomes,
		"instrumented_statement_sites":            ffldbInstrumented(),
		"instrumented_functions":                  strings.Split(instrumentedFuncs, ","),
		"histories":                               len(hs),
		"cache_configurations":                    configs,
		"max_block_file_size":                     maxFile,
		"exhaustive":                              true,
		"samples":                                 samples,
		"rule": "for every history (3-7 commits mixing block stores that roll block files over at 256 bytes, metadata puts/deletes, bucket create/delete, an injected flat-file write failure that makes a commit fail, clean close+reopen) x cache configuration {flush on every commit, write-back with one flushing commit}: one execution visits every crash point = every statement of the instrumented ffldb functions + every flat-file WriteAt (also torn in the middle), Truncate, Sync, Close, Delete; the directory is copied at every point; evaluations = distinct (directory content, durable/interrupted context) copies, each reopened with the real driver; distinct_nontrivial = copies whose content differs from the content at the beginning of the commit/close in progress; " +
			"second family (in-process faults, no crash, no reopen): for every history without a scripted fault, every commit and every k, the k-th flat-file WriteAt (after half its bytes) / Sync / Truncate of that commit returns an error: Commit must report an error, the visible state must be the state before the commit with every earlier block still byte-exact, one more commit storing a block must succeed and be readable, and the same after a clean close + reopen; " +
			"oracle: Open succeeds without panic; the visible metadata and the set of fetchable blocks equal the model state after exactly one commit j with durable <= j <= interrupted; every indexed block fetches with its stored bytes; one more commit + close + reopen shows that state plus the new commit",
	}
	r.Assume = append(r.Assume,
		"process-stop model: everything handed to the operating system by write() survives, nothing is reordered (power-loss reordering is not modelled; an omitted fsync is therefore invisible)",
		"write-back configuration: the durability point is the last cache flush (ffldb's documented behaviour), any commit state between it and the interrupted commit is accepted",
		"goleveldb's own recovery of its journal/manifest is trusted to be atomic per batch/transaction")
	r.Finish(cov)
}

func tail(s string) string {
	if len(s) > 600 {
		return s[len(s)-600:]
	}
	return s
}
