package main

// The CR half: deposits of CR candidates / council members.
//
// Implementation side: a real cr/state.Committee (fresh per history) driven through the shared
// crkit fixture: every offered transaction gets the node's verdict (HeightVersionCheck,
// CheckTransactionPayload, SpecialContextCheck with references resolved from the outputs created
// so far) and accepted transactions are applied with Committee.ProcessBlock. Parameters are the
// shrunk regime of crkit.Params (first voting period = heights 1..7, first committee at height 8,
// 2 seats, duty period 20, deposit lock-up 3 blocks).
//
// Reference side: per candidate the unspent outputs on its deposit address (plain integers) and
// the lock the rules require at least: 5000 ELA while the candidate stands in the first voting
// period, during the lock-up blocks after it unregistered, and while it is a council member in
// office (the latter read from the committee: elections are C22/C29's subject). Penalties are
// whatever the committee has charged (DepositInfo.Penalty): their computation is not part of this
// property, only that they cannot be withdrawn.

import (
	"fmt"
	"sort"
	"strconv"
	"strings"

	"github.com/elastos/Elastos.ELA/common"
	"github.com/elastos/Elastos.ELA/core/contract/program"
	"github.com/elastos/Elastos.ELA/core/types"
	ctypes "github.com/elastos/Elastos.ELA/core/types/common"
	"github.com/elastos/Elastos.ELA/core/types/functions"
	"github.com/elastos/Elastos.ELA/core/types/outputpayload"
	"github.com/elastos/Elastos.ELA/core/types/payload"
	crstate "github.com/elastos/Elastos.ELA/cr/state"

	"verif/crkit"
	"verif/evid"
)

var crCands = []string{"c1", "c2", "c3"}

const (
	crFirstCommittee = 8 // crkit.Params: CRCommitteeStartHeight
	crLockup         = 3 // crkit.Params: DepositLockupBlocks
)

type crM struct {
	registered bool
	regH       uint32
	unregH     uint32 // 0: not unregistered
	utxos      []utxo
	deposited  int64
	withdrawn  int64
}

func (m *crM) balance() int64 { return sum(m.utxos) }

type crInst struct {
	w       *crkit.World
	m       map[string]*crM
	nonce   uint64
	vrOut   *ctypes.Input // voter vr's current output (nil: the initial one)
	changed bool
	trust   bool
	nv      *counters
}

func newCRInst() *crInst {
	in := &crInst{w: crkit.NewWorld(crkit.Params()), m: map[string]*crM{}, nv: NV}
	in.w.Skip = func(string) bool { return in.trust }
	for _, c := range crCands {
		in.m[c] = &crM{}
	}
	return in
}

func (in *crInst) Close()          { in.w.Close() }
func (in *crInst) Changed() bool   { return in.changed }
func (in *crInst) SetTrust(t bool) { in.trust = t }
func (in *crInst) Blocks() int     { return int(in.w.Height) }

func (in *crInst) Ops() []string {
	ops := []string{"e", "e6"}
	for _, c := range crCands {
		ops = append(ops, "reg:"+c)
	}
	for _, c := range crCands {
		ops = append(ops, "top:"+c)
	}
	ops = append(ops, "vote:v1:a", "vote:v2:c", "vote12", "unvote:v1")
	for _, c := range crCands {
		ops = append(ops, "unreg:"+c)
	}
	ops = append(ops, "imp:vi:c1:big")
	for _, c := range crCands {
		for _, d := range []string{"0", "-1", "+1"} {
			ops = append(ops, "retcr:"+c+":"+d)
		}
	}
	for _, c := range crCands {
		ops = append(ops, "pair:retcr:"+c)
	}
	return ops
}

// lockMin is the part of the deposit that certainly has to stay once the block at height h is
// processed (an under-approximation: where the rules are not obvious nothing is demanded).
func (in *crInst) lockMin(c string, h uint32) int64 {
	m := in.m[c]
	if !m.registered {
		return 0
	}
	// a council member in office; after the term (when no successor committee could be elected
	// the members linger in the committee's map with the election period closed) nothing is
	// demanded
	if mem := in.w.C.GetMember(crkit.K(c).DID); mem != nil && mem.MemberState == crstate.MemberElected && in.w.C.IsInElectionPeriod() {
		return lockV1
	}
	// At a committee change every candidate that did not get a seat has its lock released,
	// also one that unregistered less than the lock-up ago. Only candidates of the first voting
	// period are given a demand (later registrations: nothing is demanded).
	if m.regH >= crFirstCommittee || h >= crFirstCommittee {
		return 0
	}
	if m.unregH != 0 && h >= m.unregH+crLockup {
		return 0
	}
	return lockV1
}

// everMember: c sits or sat on the council.
func (in *crInst) everMember(c string) bool {
	k := crkit.K(c)
	if in.w.C.GetMember(k.DID) != nil {
		return true
	}
	for _, ms := range in.w.C.HistoryMembers {
		for _, hm := range ms {
			if hm.Info.CID.IsEqual(k.CID) {
				return true
			}
		}
	}
	return false
}

func (in *crInst) dep(c string) (total, locked, penalty int64, ok bool) {
	d := in.w.C.GetState().DepositInfo[crkit.K(c).CID]
	if d == nil {
		return 0, 0, 0, false
	}
	return int64(d.TotalAmount), int64(d.DepositAmount), int64(d.Penalty), true
}

func (in *crInst) credit(b *types.Block) {
	for _, tx := range b.Transactions {
		for i, o := range tx.Outputs() {
			for _, c := range crCands {
				if o.ProgramHash.IsEqual(crkit.K(c).Deposit) {
					m := in.m[c]
					m.utxos = append(m.utxos, utxo{op: ctypes.OutPoint{TxID: tx.Hash(), Index: uint16(i)}, value: int64(o.Value)})
					if tx.TxType() != ctypes.ReturnCRDepositCoin {
						m.deposited += int64(o.Value)
					}
				}
			}
		}
	}
}

// offer asks the node for its verdict on txs (unless replaying an explored prefix) and applies
// them in one block.
func (in *crInst) offer(class string, txs ...crkit.Tx) bool {
	if !in.trust {
		for _, tx := range txs {
			in.nv.Offers++
			if err := in.w.Check(tx, 0); err != nil {
				in.nv.RejContext++
				in.nv.Verdicts[class+"|reject"]++
				return false
			}
			in.nv.Accepted++
			in.nv.Verdicts[class+"|accept"]++
		}
	}
	b := in.w.MakeBlock(txs...)
	if err := crkit.CheckBlockRules(b); err != nil {
		return false
	}
	in.w.Process(b)
	in.credit(b)
	in.changed = true
	return true
}

func (in *crInst) returnTx(c string, spend []utxo, amount int64) crkit.Tx {
	k := crkit.K(c)
	var ins []*ctypes.Input
	var total int64
	for _, u := range spend {
		ins = append(ins, crkit.In(u.op.TxID, u.op.Index))
		total += u.value
	}
	fee := txFee
	if amount < fee {
		fee = amount
	}
	outs := []*ctypes.Output{out(k.Addr, amount-fee)}
	if total-amount > 0 {
		outs = append(outs, out(k.Deposit, total-amount))
	}
	return functions.CreateTransaction(ctypes.TxVersion09, ctypes.ReturnCRDepositCoin, 0, &payload.ReturnDepositCoin{}, []*ctypes.Attribute{},
		ins, outs, 0, []*program.Program{{Code: k.Code, Parameter: []byte{0x40}}})
}

func (in *crInst) Apply(op string) *fail {
	in.changed = false
	f := strings.Split(op, ":")
	isEmpty := len(op) >= 1 && op[0] == 'e' && strings.Trim(op[1:], "0123456789") == ""
	if isEmpty {
		f[0] = "e"
	}
	worldOp := op
	if op == "regall" { // seeds only: the three candidates register in one block
		worldOp = "reg:c1+reg:c2+reg:c3"
	}
	switch f[0] {
	case "e", "reg", "regall", "unreg", "vote", "unvote", "imp":
		if f[0] == "imp" && !in.w.C.IsInElectionPeriod() {
			// Impeaching the members that linger after a term without successor only exists in
			// the pre-DPoS-v2 election code explored here (from DPoSV2StartHeight on
			// changeCommitteeMembers clears them), so it is left out.
			return nil
		}
		if f[0] == "reg" && in.m[f[1]].registered {
			// registering again in a later voting period is left out (the deposit rules for
			// it are not obvious enough for a reference)
			return nil
		}
		blocks, err := in.w.Offer(worldOp)
		if !in.trust && f[0] != "e" {
			in.nv.Offers++
			if err != nil {
				in.nv.RejContext++
				in.nv.Verdicts["cr-"+f[0]+"|reject"]++
			} else {
				in.nv.Accepted++
				in.nv.Verdicts["cr-"+f[0]+"|accept"]++
			}
		}
		if err != nil {
			return nil
		}
		from := len(in.w.Blocks)
		in.w.Apply(blocks)
		in.changed = true
		for _, b := range in.w.Blocks[from:] {
			in.credit(b)
		}
		switch f[0] {
		case "reg":
			in.m[f[1]].registered, in.m[f[1]].regH = true, in.w.Height
		case "regall":
			for _, c := range crCands {
				in.m[c].registered, in.m[c].regH = true, in.w.Height
			}
		case "unreg":
			if in.m[f[1]].unregH == 0 {
				in.m[f[1]].unregH = in.w.Height
			}
		}
		return in.invariants(f[0], "")
	case "vote12", "vu":
		// voter vr puts all CR votes on c1 and c2 (the patterns of crkit all include c3 or c4);
		// "vu:<c>" (seeds only) carries the unregistration of c in the same block
		k := crkit.K("vr")
		prev := in.vrOut
		if prev == nil {
			prev = crkit.In(common.Hash([]byte("verif-utxo-vr")), 0)
		}
		in.nonce++
		tx := crkit.VoteTx(k, prev, outputpayload.CRC, []crkit.CV{{Candidate: crkit.K("c1").CID.Bytes(), Votes: 30 * crkit.ELA}, {Candidate: crkit.K("c2").CID.Bytes(), Votes: 20 * crkit.ELA}},
			50*crkit.ELA, uint64(in.w.Height+1)<<16|in.nonce&0xffff)
		txs := []crkit.Tx{tx}
		if f[0] == "vu" {
			txs = append(txs, crkit.UnregisterCR(crkit.K(f[1])))
		}
		if !in.offer("cr-"+f[0], txs...) {
			return nil
		}
		in.vrOut = crkit.In(tx.Hash(), 0)
		if f[0] == "vu" && in.m[f[1]].unregH == 0 {
			in.m[f[1]].unregH = in.w.Height
		}
		return in.invariants("vote", "")
	case "top":
		c := f[1]
		if !in.m[c].registered {
			return nil
		}
		in.nonce++
		in.offer("cr-topup", crkit.Fund(crkit.K("treasury"), crkit.K(c).Deposit, common.Fixed64(topUpValue), uint64(in.w.Height+1)<<16|in.nonce&0xffff))
		if !in.changed {
			return nil
		}
		return in.invariants("top", "")
	case "retcr":
		return in.applyReturn(f[1], f[2])
	case "pair":
		return in.applyPair(f[2])
	}
	evid.Fatalf("unknown op %q", op)
	return nil
}

// available amount as the reference sees it: what sits on the deposit address minus the
// penalties charged minus the minimal lock.
func (in *crInst) avail(c string) int64 {
	_, _, pen, _ := in.dep(c)
	return in.m[c].balance() - pen - in.lockMin(c, in.w.Height)
}

func (in *crInst) applyReturn(c, delta string) *fail {
	m := in.m[c]
	if len(m.utxos) == 0 {
		return nil
	}
	// the probe is placed around the committee's own figure (the reference lock is only a lower
	// bound); the verdict is then judged against the reference
	implAvail := int64(in.w.C.GetAvailableDepositAmount(crkit.K(c).CID))
	refAvail := in.avail(c)
	amount := implAvail
	switch delta {
	case "-1":
		amount = implAvail - 1
	case "+1":
		amount = implAvail + 1
		if implAvail < 0 {
			amount = 1
		}
	}
	if amount <= 0 || amount > m.balance() {
		return nil
	}
	_, lockedBefore, pen, _ := in.dep(c)
	pre := fmt.Sprintf("its deposit address holds %s, penalties are %s, at least %s must stay locked (the committee reports an available amount of %s)", ela(m.balance()), ela(pen), ela(in.lockMin(c, in.w.Height)), ela(implAvail))
	tx := in.returnTx(c, m.utxos, amount)
	spent := m.utxos
	if !in.offer("cr-return"+delta, tx) {
		if delta == "+1" && !in.trust {
			in.nv.CRRetAboveRejected++
		}
		return nil
	}
	if !in.trust {
		switch delta {
		case "0":
			in.nv.CRRetAtAvail++
		}
	}
	// offer() credited the change output; drop the spent outputs
	m.utxos = m.utxos[len(spent):]
	m.withdrawn += amount
	if amount > implAvail {
		return failf("C28|cr-deposit-overdraw|verdict|ReturnCRDepositCoin", "CR %s: a deposit return taking %s out of the deposit address was accepted by SpecialContextCheck although %s", c, ela(amount), pre)
	}
	if amount > refAvail {
		sig := "C28|cr-deposit-overdraw|ledger|ReturnCRDepositCoin"
		if lockedBefore < 0 {
			sig += "|state-lock-negative"
		}
		return failf(sig, "CR %s: a deposit return taking %s out of the deposit address was accepted although %s", c, ela(amount), pre)
	}
	return in.invariants("retcr", c)
}

func (in *crInst) applyPair(c string) *fail {
	m := in.m[c]
	implAvail := int64(in.w.C.GetAvailableDepositAmount(crkit.K(c).CID))
	if len(m.utxos) < 2 || implAvail <= txFee {
		return nil
	}
	u1, u2 := m.utxos[:1], m.utxos[1:]
	a1, a2 := min64(implAvail, sum(u1)), min64(implAvail, sum(u2))
	if a1 <= txFee || a2 <= txFee {
		return nil
	}
	refAvail := min64(in.avail(c), implAvail)
	t1, t2 := in.returnTx(c, u1, a1), in.returnTx(c, u2, a2)
	n := len(m.utxos)
	if !in.offer("cr-pair-return", t1, t2) {
		return nil
	}
	if !in.trust {
		in.nv.PairsAccepted++
	}
	m.utxos = m.utxos[n:]
	m.withdrawn += a1 + a2
	if a1+a2 > refAvail {
		return failf("C28|same-block|ReturnCRDepositCoin+ReturnCRDepositCoin",
			"two transactions, each valid against the state before the block (as BlockChain.checkTxsContext validates them), were applied in one block: CR %s took %s + %s out of its deposit address although only %s were available", c, ela(a1), ela(a2), ela(refAvail))
	}
	return in.invariants("pair", c)
}

func (in *crInst) invariants(after, ret string) *fail {
	var soft *fail
	for _, c := range crCands {
		m := in.m[c]
		total, locked, pen, ok := in.dep(c)
		if !ok {
			if m.registered {
				evid.Fatalf("harness: CR %s registered in the ledger but unknown to the committee", c)
			}
			continue
		}
		if total < 0 {
			return failf("C28|negative|cr.DepositInfo.TotalAmount|after="+after, "CR %s: total deposit %s is negative", c, ela(total))
		}
		if pen < 0 {
			return failf("C28|negative|cr.DepositInfo.Penalty|after="+after, "CR %s: penalty %s is negative", c, ela(pen))
		}
		if locked < 0 && soft == nil {
			role := "|candidate"
			if in.everMember(c) {
				role = "|member"
			}
			soft = failf("C28|negative|cr.DepositInfo.DepositAmount"+role, "CR %s: the locked part of the deposit is %s, so the available amount is %s although only %s sit on the deposit address and penalties are %s", c, ela(locked), ela(total-locked-pen), ela(m.balance()), ela(pen))
			soft.soft = true
		}
		if c == ret {
			if m.balance() < pen+in.lockMin(c, in.w.Height) {
				return failf("C28|cr-deposit-overdraw|ledger|after="+after, "CR %s: deposited %s, withdrawn %s, so %s remain on the deposit address, less than penalties %s + required lock %s", c, ela(m.deposited), ela(m.withdrawn), ela(m.balance()), ela(pen), ela(in.lockMin(c, in.w.Height)))
			}
			if total-locked-pen < 0 {
				return failf("C28|negative|cr.AvailableDepositAmount|after="+after, "CR %s: available amount %s is negative after a deposit return", c, ela(total-locked-pen))
			}
		}
	}
	return soft
}

// Digest: per candidate the committee's deposit figures, candidate/member state with relative
// ages, the deposit outputs; plus the position in the election cycle. Dropped: hashes, votes of
// voters (covered by the candidates' vote totals), proposals (none are made).
func (in *crInst) Digest() string {
	var sb strings.Builder
	h := in.w.Height
	fmt.Fprintf(&sb, "h%d v%v e%v|", h, in.w.C.IsInVotingPeriod(h+1), in.w.C.IsInElectionPeriod())
	for _, c := range crCands {
		m := in.m[c]
		k := crkit.K(c)
		total, locked, pen, ok := in.dep(c)
		if !ok {
			sb.WriteString("-|")
			continue
		}
		fmt.Fprintf(&sb, "t%d l%d p%d", total, locked, pen)
		if ca := in.w.C.GetCandidate(k.CID); ca != nil {
			fmt.Fprintf(&sb, " c%d:%d:%d", ca.State, ca.Votes, h-ca.RegisterHeight)
			if ca.State == crstate.Canceled {
				fmt.Fprintf(&sb, ":%d", h-ca.CancelHeight)
			}
		}
		if mem := in.w.C.GetMember(k.DID); mem != nil {
			fmt.Fprintf(&sb, " m%d:%d", mem.MemberState, mem.ImpeachmentVotes)
		}
		var hist []string
		for session, ms := range in.w.C.HistoryMembers {
			for _, hm := range ms {
				if hm.Info.CID.IsEqual(k.CID) {
					hist = append(hist, strconv.Itoa(int(session))+":"+strconv.Itoa(int(hm.MemberState)))
				}
			}
		}
		sort.Strings(hist)
		vals := make([]int64, 0, len(m.utxos))
		for _, u := range m.utxos {
			vals = append(vals, u.value)
		}
		fmt.Fprintf(&sb, " H%v u%d x%v|", hist, m.unregH, vals)
	}
	for _, v := range crkit.Voters {
		if o, ok := in.w.Outs[in.w.VoteOutKey(v)]; ok {
			fmt.Fprintf(&sb, "%s:%d:%d,", v, o.Type, o.Value)
		}
	}
	return sb.String()
}
