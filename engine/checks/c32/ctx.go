package main

// part (c): the frozen-address rule as seen through the complete DefaultChecker.ContextCheck on a
// light node: signed, otherwise fully valid TransferAsset transactions on real unspent outputs.

import (
	"fmt"
	"path/filepath"

	"github.com/elastos/Elastos.ELA/common"
	"github.com/elastos/Elastos.ELA/common/config"
	"github.com/elastos/Elastos.ELA/core/contract/program"
	"github.com/elastos/Elastos.ELA/core/transaction"
	common2 "github.com/elastos/Elastos.ELA/core/types/common"
	"github.com/elastos/Elastos.ELA/core/types/outputpayload"
	"github.com/elastos/Elastos.ELA/core/types/payload"
	"github.com/elastos/Elastos.ELA/crypto"

	"verif/evid"
	"verif/lightnode"
)

type ctxRes struct {
	Shape    string `json:"shape"` // spends | pays | spends+pays | unrelated | pays-coordinated
	Cfg      string `json:"cfg"`   // mainnet+harness | empty
	H        uint32 `json:"h"`
	Accepted bool   `json:"accepted"`
	Err      string `json:"err"`
	Panicked bool   `json:"panicked"`
}

func runCtx(scr string) []ctxRes {
	n, err := lightnode.New(filepath.Join(scr, "node"), lightnode.Options{})
	if err != nil {
		evid.Fatalf("light node: %v", err)
	}
	defer n.Close()
	frozenKey := lightnode.FixedKey("c32-frozen", 0)
	freeKey := lightnode.FixedKey("c32-free", 0)
	fh, oh := frozenKey.StandardHash(), freeKey.StandardHash()
	faddr, err := fh.ToAddress()
	if err != nil {
		evid.Fatalf("address: %v", err)
	}
	fund, err := n.Fund("c32", lightnode.Output(fh, 1000), lightnode.Output(oh, 1000))
	if err != nil {
		evid.Fatalf("fund: %v", err)
	}
	coord := mustHash(coordAddress)
	shapes := []struct {
		name    string
		spendF  bool
		payment common.Uint168
		mapping bool // the paying output is an OTMapping output with a valid signed payload
	}{
		{"spends", true, oh, false},
		{"pays", false, fh, false},
		{"spends+pays", true, fh, false},
		{"unrelated", false, oh, false},
		{"pays-coordinated", false, coord, false},
		{"pays-through-mapping-output", false, fh, true},
		{"unrelated-mapping-output", false, oh, true},
	}
	withList := n.Config(func(p *config.Configuration) {
		h := fh
		p.FrozenAddresses = append(append([]config.FrozenAddress{}, p.FrozenAddresses...),
			config.FrozenAddress{Address: faddr, DisableStartHeight: coordStart, ProgramHash: &h})
	})
	empty := n.Config(func(p *config.Configuration) { p.FrozenAddresses = nil })
	var out []ctxRes
	for _, cfg := range []struct {
		name string
		c    *config.Configuration
	}{{"mainnet+harness", withList}, {"empty", empty}} {
		for _, s := range shapes {
			for _, h := range []uint32{coordStart - 1, coordStart, coordStart + 1} {
				idx, key := 1, freeKey
				if s.spendF {
					idx, key = 0, frozenKey
				}
				attr := common2.NewAttribute(common2.Nonce, []byte("c32-"+s.name))
				tx := transaction.CreateTransaction(common2.TxVersion09, common2.TransferAsset, 0, &payload.TransferAsset{},
					[]*common2.Attribute{&attr}, []*common2.Input{lightnode.Input(fund, idx)},
					[]*common2.Output{lightnode.Output(s.payment, 400), lightnode.Output(oh, 400)}, 0, nil)
				if s.mapping {
					m := &outputpayload.Mapping{Version: 0, OwnerKey: freeKey.Compressed, SideProducerID: []byte("verif-side-producer")}
					sig, err := crypto.Sign(freeKey.Priv, m.Data())
					if err != nil {
						evid.Fatalf("sign mapping: %v", err)
					}
					m.Signature = sig
					tx.Outputs()[0].Type = common2.OTMapping
					tx.Outputs()[0].Payload = m
				}
				p, err := lightnode.SignStandard(tx, key)
				if err != nil {
					evid.Fatalf("sign: %v", err)
				}
				tx.SetPrograms([]*program.Program{p})
				_, v := n.ContextCheck(tx, h, cfg.c)
				out = append(out, ctxRes{Shape: s.name, Cfg: cfg.name, H: h, Accepted: v.Accepted(), Err: v.String(), Panicked: v.Panicked})
			}
		}
	}
	return out
}

func judgeCtx(r *evid.Run, xs []ctxRes, classes *evid.Distinct) (accepted int) {
	for _, x := range xs {
		if x.Panicked {
			evid.Fatalf("ContextCheck panicked in the C32 fixture: %s", x.Err)
		}
		art := map[string]interface{}{"kind": "context", "case": x}
		forbidden := x.Cfg != "empty" && x.Shape != "unrelated" && x.Shape != "unrelated-mapping-output" && x.H >= coordStart
		classes.Add(fmt.Sprintf("ctx|%s|%s|h-S=%d|accepted=%v", x.Cfg, x.Shape, int64(x.H)-int64(coordStart), x.Accepted))
		if x.Accepted {
			accepted++
		}
		if forbidden && x.Accepted {
			r.Violate("C32|context|accepted-forbidden|"+x.Shape, "the complete ContextCheck accepts a signed TransferAsset that "+x.Shape+" a frozen address at or after its start height", art)
		}
		if !forbidden && !x.Accepted {
			r.Violate("C32|context|rejected-permitted|"+x.Shape, "the complete ContextCheck rejects a fully valid transaction no frozen entry concerns at that height: "+x.Err, art)
		}
	}
	return
}
