package main

// Reference model of the metadata store: per bucket a sorted map of keys and a separate set of
// child buckets (keys and bucket names are different namespaces), plus the pending overlay of the
// open transaction. Universe: buckets r (tx.Metadata()), x (child of r), y (child of x); keys
// a, b, c; values "" (present with empty value) and "1". Bucket names and key names are kept
// disjoint (see assumptions in main.go).

import (
	"fmt"
	"strings"
)

const (
	bR = 0
	bX = 1
	bY = 2
)

var bucketName = [3]string{"r", "x", "y"}
var keyName = [3]string{"a", "b", "c"}
var valBytes = [2][]byte{{}, []byte("1")}

// store is the content of the three buckets.
type store struct {
	exists [3]bool    // r always true
	val    [3][3]int8 // -1 absent, else index into valBytes (meaningful only if the bucket exists)
}

func emptyStore() store {
	var s store
	s.exists[bR] = true
	for b := range s.val {
		for k := range s.val[b] {
			s.val[b][k] = -1
		}
	}
	return s
}

func (s store) String() string {
	var sb strings.Builder
	for b := 0; b < 3; b++ {
		if !s.exists[b] {
			continue
		}
		sb.WriteString(bucketName[b] + "{")
		for k := 0; k < 3; k++ {
			if s.val[b][k] >= 0 {
				fmt.Fprintf(&sb, "%s=%q ", keyName[k], valBytes[s.val[b][k]])
			}
		}
		sb.WriteString("}")
	}
	return sb.String()
}

func (s *store) dropBucket(b int) {
	s.exists[b] = false
	for k := range s.val[b] {
		s.val[b][k] = -1
	}
}

// elem is one element of a bucket listing: a key or a child bucket.
type elem struct {
	name   string
	bucket bool
}

// txModel is the model of an open transaction.
type txModel struct {
	writable bool
	w        store      // what the transaction must see
	st       [3][3]int8 // pending status per key: 0 untouched, 1 put "", 2 put "1", 3 deleted
	bst      [3]int8    // bucket: 0 untouched, 1 created in tx, 2 deleted in tx
	gen      [3]int8    // creations of the bucket inside this transaction
	blocks   int        // blocks stored in this transaction

	// cursor
	cur      bool
	curB     int
	curValid bool   // false after the bucket was modified by anything but Cursor.Delete
	curOps   string // cursor operations since the last absolute positioning (hidden iterator state)
	curAt    string // name of the element under the cursor ("" = exhausted / not positioned)
	curIsB   bool
	curGap   bool // element under the cursor was just deleted through the cursor
	curStale bool // the transaction was modified after the cursor had been created
	gapNext  string
	gapPrev  string
}

func (t *txModel) digest() string {
	return fmt.Sprintf("%v|%v|%v|%v|%v|%d|%v,%d,%v,%s,%s,%v,%v", t.writable, t.w.exists, t.w.val, t.st, t.bst, t.blocks,
		t.cur, t.curB, t.curValid, t.curOps, t.curAt, t.curIsB, t.curGap) + fmt.Sprint(t.gen, t.curStale, t.gapNext, t.gapPrev)
}

// overlayDigest identifies what a commit will write (cursor state is irrelevant to commit).
func (t *txModel) overlayDigest() string {
	return fmt.Sprintf("%v|%v|%v|%v|%v|%d", t.w.exists, t.w.val, t.st, t.bst, t.gen, t.blocks)
}

// touch invalidates a cursor on bucket b (any modification except Cursor.Delete).
func (t *txModel) touch(b int) {
	if t.cur && t.curB == b {
		t.curValid = false
	}
}

// ops enabled in the transaction model, simplest first.
func (t *txModel) ops(maxBlocks int) []string {
	var o []string
	if t.writable {
		for b := 0; b < 3; b++ {
			if !t.w.exists[b] {
				continue
			}
			for k := 0; k < 3; k++ {
				for v := 0; v < 2; v++ {
					o = append(o, fmt.Sprintf("p:%d%d%d", b, k, v))
				}
			}
		}
		for b := 0; b < 3; b++ {
			if !t.w.exists[b] {
				continue
			}
			for k := 0; k < 3; k++ {
				o = append(o, fmt.Sprintf("d:%d%d", b, k))
			}
		}
		if !t.w.exists[bX] {
			o = append(o, "mk:1")
		} else {
			o = append(o, "rm:1")
			if !t.w.exists[bY] {
				o = append(o, "mk:2")
			} else {
				o = append(o, "rm:2")
			}
		}
		if t.blocks < maxBlocks {
			o = append(o, "sb")
		}
	}
	for b := 0; b < 3; b++ {
		if t.w.exists[b] {
			o = append(o, fmt.Sprintf("c:%d", b))
		}
	}
	if t.cur {
		o = append(o, "cF", "cL", "cS:0", "cS:1", "cS:2")
		if t.curValid {
			o = append(o, "cN", "cP")
			if t.writable && t.curAt != "" && !t.curIsB && !t.curGap && !strings.HasPrefix(t.curAt, "ffldb-") {
				o = append(o, "cD")
			}
		}
	}
	return o
}

// listing is the model's element order of a bucket: keys ascending, then (root only) the
// driver's own entries, then child buckets ascending. Key names sort before bucket names in the
// harness universe, which makes this the order of the raw keys; a differing real order is
// reported as an engine error, not as a violation (the contract does not fix the interleaving).
func listing(w *store, b int) []elem {
	var l []elem
	for k := 0; k < 3; k++ {
		if w.val[b][k] >= 0 {
			l = append(l, elem{keyName[k], false})
		}
	}
	if b == bR {
		l = append(l, elem{"ffldb-writeloc", false}, elem{"ffldb-blockidx", true})
	}
	if b < bY && w.exists[b+1] {
		l = append(l, elem{bucketName[b+1], true})
	}
	return l
}

func find(l []elem, name string) int {
	for i, e := range l {
		if e.name == name {
			return i
		}
	}
	return -1
}

func keyIndex(k string) int {
	for i, n := range keyName {
		if n == k {
			return i
		}
	}
	return 0
}

// cursorStep advances the cursor model by one cursor operation and returns the element the real
// cursor must now be at ("" = exhausted). For cD it returns the deleted element.
func (t *txModel) cursorStep(op string) (want string, wantB bool) {
	if strings.HasPrefix(op, "c:") {
		b := int(op[2] - '0')
		t.cur, t.curB, t.curValid, t.curOps, t.curAt, t.curIsB, t.curGap, t.curStale = true, b, true, "", "", false, false, false
		t.gapNext, t.gapPrev = "", ""
		return "", false
	}
	l := listing(&t.w, t.curB)
	at := func(i int) (string, bool) {
		if i < 0 || i >= len(l) {
			return "", false
		}
		return l[i].name, l[i].bucket
	}
	switch {
	case op == "cF":
		want, wantB = at(0)
		t.curOps = "F"
	case op == "cL":
		want, wantB = at(len(l) - 1)
		t.curOps = "L"
	case strings.HasPrefix(op, "cS:"):
		k := keyName[int(op[3]-'0')]
		i := 0
		for i < len(l) && l[i].name < k {
			i++
		}
		want, wantB = at(i)
		t.curOps = "S" + k
	case op == "cN" || op == "cP":
		d, gap := 1, t.gapNext
		if op == "cP" {
			d, gap = -1, t.gapPrev
		}
		switch {
		case t.curGap:
			want = gap
			if i := find(l, want); i >= 0 {
				wantB = l[i].bucket
			}
		case t.curAt != "":
			want, wantB = at(find(l, t.curAt) + d)
		}
		t.curOps += op[1:]
	case op == "cD":
		i := find(l, t.curAt)
		t.gapNext, _ = at(i + 1)
		t.gapPrev, _ = at(i - 1)
		k := keyIndex(t.curAt)
		t.w.val[t.curB][k] = -1
		t.st[t.curB][k] = 3
		t.curGap = true
		t.curStale = true
		t.curOps += "D"
		return t.curAt, false
	}
	t.curValid, t.curGap = true, false
	t.curAt, t.curIsB = want, wantB
	t.gapNext, t.gapPrev = "", ""
	return want, wantB
}

// step applies any in-transaction operation to the model.
func (t *txModel) step(op string) {
	if op[0] == 'c' {
		t.cursorStep(op)
		return
	}
	t.applyWrite(op)
}

// applyWrite applies a non-cursor operation to the model.
func (t *txModel) applyWrite(op string) {
	if t.cur {
		t.curStale = true
	}
	switch {
	case strings.HasPrefix(op, "p:"):
		b, k, v := int(op[2]-'0'), int(op[3]-'0'), int8(op[4]-'0')
		t.w.val[b][k] = v
		t.st[b][k] = 1 + v
		t.touch(b)
	case strings.HasPrefix(op, "d:"):
		b, k := int(op[2]-'0'), int(op[3]-'0')
		t.w.val[b][k] = -1
		t.st[b][k] = 3
		t.touch(b)
	case strings.HasPrefix(op, "mk:"):
		b := int(op[3] - '0')
		t.w.exists[b] = true
		t.bst[b] = 1
		t.gen[b]++
		for k := range t.st[b] {
			t.st[b][k] = 0
		}
		t.touch(b - 1)
	case strings.HasPrefix(op, "rm:"):
		b := int(op[3] - '0')
		for c := b; c < 3; c++ {
			if !t.w.exists[c] {
				continue
			}
			for k := range t.st[c] {
				if t.w.val[c][k] >= 0 {
					t.st[c][k] = 3
				}
			}
			t.w.dropBucket(c)
			t.bst[c] = 2
			if t.cur && t.curB == c {
				t.cur = false // the cursor's bucket is gone
			}
		}
		t.touch(b - 1)
	case op == "sb":
		t.blocks++
	}
}
