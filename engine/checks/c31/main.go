// C31: cross-chain UTXO emergency policy.
//
// (a) every transaction type the repository can construct x payload versions x reference sets x
// heights around both thresholds, through the real policy helper used by
// DefaultChecker.ContextCheck (hook: transaction.VerifCheckCrossChainUTXO), against a reference
// table written from the property statement.
// (b) settings.Settings.SetupConfig for every ActiveNet spelling x config-file overrides of both
// heights, one worker subprocess per ActiveNet spelling,
// globals re-initialised before every configuration (SetupConfig mutates config.DefaultParams,
// config.Parameters and the pact limits).
package main

import (
	"encoding/json"
	"fmt"
	"math"
	"os"
	"path/filepath"
	"sort"
	"strconv"
	"strings"

	"github.com/elastos/Elastos.ELA/common"
	"github.com/elastos/Elastos.ELA/common/config"
	"github.com/elastos/Elastos.ELA/common/config/settings"
	"github.com/elastos/Elastos.ELA/core/transaction"
	common2 "github.com/elastos/Elastos.ELA/core/types/common"
	"github.com/elastos/Elastos.ELA/core/types/interfaces"

	"verif/evid"
	"verif/hx"
	"verif/par"
)

// The coordinated mainnet constants of the emergency release (the statement's "coordinated
// constants"); pinned here so that a silent change of either is seen.
const (
	coordFreeze      uint32 = 2256110
	coordRestriction uint32 = 2256724
	disabled         uint32 = math.MaxUint32
)

// Address prefixes (first byte of a program hash), from the address specification.
const (
	pfxStandard   byte = 0x21
	pfxMultiSig   byte = 0x12
	pfxCrossChain byte = 0x4B
	pfxDeposit    byte = 0x1F
	pfxDPoSV2     byte = 0x3F
)

// Transaction types the statement names (wire values of the protocol).
const (
	ttWithdrawFromSideChain      = 0x07
	ttReturnSideChainDepositCoin = 0x51
)

type refSet struct {
	Name     string
	Prefixes []byte
}

var refSets = []refSet{
	{"empty", nil},
	{"cross", []byte{pfxCrossChain}},
	{"cross+cross", []byte{pfxCrossChain, pfxCrossChain}},
	{"cross+standard", []byte{pfxCrossChain, pfxStandard}},
	{"standard+cross+standard", []byte{pfxStandard, pfxCrossChain, pfxStandard}},
	{"cross+multisig", []byte{pfxCrossChain, pfxMultiSig}},
	{"cross+deposit", []byte{pfxCrossChain, pfxDeposit}},
	{"standard", []byte{pfxStandard}},
	{"standard+multisig", []byte{pfxStandard, pfxMultiSig}},
	{"deposit+dposv2", []byte{pfxDeposit, pfxDPoSV2}},
}

func mkRefs(prefixes []byte) map[*common2.Input]common2.Output {
	m := map[*common2.Input]common2.Output{}
	for i, p := range prefixes {
		var ph common.Uint168
		ph[0] = p
		ph[1] = byte(i + 1)
		in := &common2.Input{Previous: common2.OutPoint{Index: uint16(i)}}
		in.Previous.TxID[0] = byte(i + 1)
		m[in] = common2.Output{Value: 100, ProgramHash: ph}
	}
	return m
}

// refVerdict is the reference table: true = the policy lets the transaction through.
// Written from the statement:
//   - the policy concerns transactions that spend at least one cross-chain UTXO;
//   - before the freeze height nothing changes;
//   - in the freeze window [F, R) no such transaction is accepted;
//   - from R on only WithdrawFromSideChain of the supported versions (0,1,2) and the legacy
//     (version 0) ReturnSideChainDepositCoin spending only cross-chain UTXOs may spend them.
func refVerdict(txType byte, pv byte, prefixes []byte, h, f, r uint32) bool {
	cross, all := false, true
	for _, p := range prefixes {
		if p == pfxCrossChain {
			cross = true
		} else {
			all = false
		}
	}
	if !cross {
		return true
	}
	if h < f {
		return true
	}
	if h < r {
		return false
	}
	switch txType {
	case ttWithdrawFromSideChain:
		return pv <= 2
	case ttReturnSideChainDepositCoin:
		return pv == 0 && all
	}
	return false
}

func allTypes() []common2.TxType {
	var out []common2.TxType
	for b := 0; b < 256; b++ {
		if _, err := transaction.GetTransaction(common2.TxType(b)); err == nil {
			out = append(out, common2.TxType(b))
		}
	}
	return out
}

func mkTx(tt common2.TxType, pv byte) interfaces.Transaction {
	p, _ := interfaces.GetPayload(tt, pv)
	return transaction.CreateTransaction(common2.TxVersion09, tt, pv, p, nil, nil, nil, 0, nil)
}

type caseA struct {
	Type    int    `json:"type"`
	PV      int    `json:"payload_version"`
	Refs    string `json:"refs"`
	H, F, R uint32
}

func evalA(c caseA) (got bool, want bool, errs string) {
	var rs refSet
	for _, x := range refSets {
		if x.Name == c.Refs {
			rs = x
		}
	}
	tx := mkTx(common2.TxType(c.Type), byte(c.PV))
	err := transaction.VerifCheckCrossChainUTXO(tx, mkRefs(rs.Prefixes), c.H, c.F, c.R)
	want = refVerdict(byte(c.Type), byte(c.PV), rs.Prefixes, c.H, c.F, c.R)
	if err != nil {
		errs = err.Error()
	}
	return err == nil, want, errs
}

func band(h, f, r uint32) string {
	switch {
	case h < f:
		return "before-freeze"
	case h < r:
		return "freeze-window"
	}
	return "restricted"
}

func typeClass(t int) string {
	switch t {
	case ttWithdrawFromSideChain:
		return "WithdrawFromSideChain"
	case ttReturnSideChainDepositCoin:
		return "ReturnSideChainDepositCoin"
	}
	return "other-type"
}

func violateA(r *evid.Run, c caseA, got, want bool, errs string) {
	kind := "accepted-forbidden"
	if want {
		kind = "rejected-permitted"
	}
	refs := "none-cross-chain"
	for _, x := range refSets {
		if x.Name != c.Refs {
			continue
		}
		nc := 0
		for _, p := range x.Prefixes {
			if p == pfxCrossChain {
				nc++
			}
		}
		if nc > 0 && nc == len(x.Prefixes) {
			refs = "only-cross-chain"
		} else if nc > 0 {
			refs = "mixed"
		}
	}
	sig := fmt.Sprintf("C31|policy|%s|%s|%s|refs=%s", kind, band(c.H, c.F, c.R), typeClass(c.Type), refs)
	if (c.Type == ttWithdrawFromSideChain || c.Type == ttReturnSideChainDepositCoin) && band(c.H, c.F, c.R) == "restricted" {
		sig += fmt.Sprintf("|pv=%d", c.PV)
	}
	r.Violate(sig, fmt.Sprintf("policy check verdict differs from the statement's table (got accept=%v, want %v, err=%q)", got, want, errs),
		map[string]interface{}{"kind": "policy", "case": c})
}

// ---------------------------------------------------------------------------------------------
// part (b): configurations

var netNames = []string{"<absent>", "", "mainnet", "MainNet", "main", "MAIN", "testnet", "test", "regnet", "regtest", "reg", "private-net"}

type override struct {
	Name string
	Set  bool
	Val  uint32
}

var overrides = []override{{"absent", false, 0}, {"0", true, 0}, {"1", true, 1}, {"constant", true, 0}, {"max", true, math.MaxUint32}}

type caseB struct {
	Net     string `json:"net"`
	Freeze  string `json:"freeze_override"`
	Restr   string `json:"restriction_override"`
	Instant bool   `json:"instant_block"`
}

func isMainnetName(n string) bool {
	// the name set the code and its pinned test define: absent/empty, "mainnet", "main",
	// case-insensitive
	switch strings.ToLower(n) {
	case "<absent>", "", "mainnet", "main":
		return true
	}
	return false
}

func ovVal(name string, constant uint32) (bool, uint32) {
	for _, o := range overrides {
		if o.Name == name {
			if name == "constant" {
				return true, constant
			}
			return o.Set, o.Val
		}
	}
	evid.Fatalf("unknown override %q", name)
	return false, 0
}

type resB struct {
	Case      caseB  `json:"case"`
	Freeze    uint32 `json:"freeze"`
	Restr     uint32 `json:"restriction"`
	GlobalF   uint32 `json:"global_freeze"`
	GlobalR   uint32 `json:"global_restriction"`
	SameObj   bool   `json:"parameters_is_result"`
	ActiveNet string `json:"active_net"`
	Magic     uint32 `json:"magic"`
	// effect of the resulting heights on the real policy check
	FreezeAtF      bool `json:"transfer_rejected_at_coord_freeze"`
	TransferAtR    bool `json:"transfer_rejected_at_coord_restriction"`
	AnyRejectBelow bool `json:"any_reject_at_probe_heights"`
}

func runB(scr string, c caseB) resB {
	dir, err := os.MkdirTemp(scr, "cfg")
	if err != nil {
		evid.Fatalf("tmp: %v", err)
	}
	defer os.RemoveAll(dir)
	conf := map[string]interface{}{}
	if c.Net != "<absent>" {
		conf["ActiveNet"] = c.Net
	}
	if set, v := ovVal(c.Freeze, coordFreeze); set {
		conf["CrossChainUTXOFreezeHeight"] = v
	}
	if set, v := ovVal(c.Restr, coordRestriction); set {
		conf["CrossChainUTXORestrictionHeight"] = v
	}
	if c.Instant {
		conf["PowConfiguration"] = map[string]interface{}{"InstantBlock": true}
	}
	b, _ := json.Marshal(map[string]interface{}{"Configuration": conf})
	path := filepath.Join(dir, "config.json")
	if err := os.WriteFile(path, b, 0o600); err != nil {
		evid.Fatalf("write config: %v", err)
	}
	config.DefaultParams = *config.GetDefaultParams()
	config.DefaultParams.Conf = path
	config.Parameters = nil
	got := settings.NewSettings().SetupConfig(false, "", "")
	res := resB{Case: c, Freeze: got.CrossChainUTXOFreezeHeight, Restr: got.CrossChainUTXORestrictionHeight,
		ActiveNet: got.ActiveNet, Magic: got.Magic}
	if config.Parameters != nil {
		res.GlobalF = config.Parameters.CrossChainUTXOFreezeHeight
		res.GlobalR = config.Parameters.CrossChainUTXORestrictionHeight
		res.SameObj = config.Parameters == got
	}
	// effect on the real check
	transfer := mkTx(common2.TransferAsset, 0)
	refs := mkRefs([]byte{pfxCrossChain})
	res.FreezeAtF = transaction.VerifCheckCrossChainUTXO(transfer, refs, coordFreeze, got.CrossChainUTXOFreezeHeight, got.CrossChainUTXORestrictionHeight) != nil
	res.TransferAtR = transaction.VerifCheckCrossChainUTXO(transfer, refs, coordRestriction, got.CrossChainUTXOFreezeHeight, got.CrossChainUTXORestrictionHeight) != nil
	for _, h := range []uint32{0, 1, coordFreeze - 1, coordFreeze, coordRestriction, coordRestriction + 1, 1 << 31, math.MaxUint32 - 1} {
		if transaction.VerifCheckCrossChainUTXO(transfer, refs, h, got.CrossChainUTXOFreezeHeight, got.CrossChainUTXORestrictionHeight) != nil {
			res.AnyRejectBelow = true
		}
	}
	return res
}

func judgeB(r *evid.Run, x resB) (class string) {
	art := map[string]interface{}{"kind": "config", "case": x.Case, "result": x}
	netClass := "other-net"
	if isMainnetName(x.Case.Net) {
		netClass = "mainnet"
	}
	if x.GlobalF != x.Freeze || x.GlobalR != x.Restr || !x.SameObj {
		r.Violate("C31|config|global-parameters-differ|"+netClass, "config.Parameters does not carry the heights SetupConfig returned", art)
	}
	if netClass == "mainnet" {
		if x.Freeze != coordFreeze {
			r.Violate("C31|config|mainnet-freeze-height", fmt.Sprintf("mainnet freeze height is %d, not the coordinated constant %d", x.Freeze, coordFreeze), art)
		}
		if x.Restr != coordRestriction {
			r.Violate("C31|config|mainnet-restriction-height", fmt.Sprintf("mainnet restriction height is %d, not the coordinated constant %d", x.Restr, coordRestriction), art)
		}
		if !x.FreezeAtF || !x.TransferAtR {
			r.Violate("C31|config|mainnet-policy-ineffective", "with the configured heights the policy check lets a TransferAsset spend a cross-chain UTXO at the coordinated heights", art)
		}
	} else {
		if x.Freeze != disabled || x.Restr != disabled {
			r.Violate("C31|config|other-net-not-disabled", fmt.Sprintf("non-mainnet network %q ends with heights (%d,%d), policy not disabled", x.Case.Net, x.Freeze, x.Restr), art)
		}
		if x.AnyRejectBelow {
			r.Violate("C31|config|other-net-policy-active", "policy rejects a cross-chain spend on a network that keeps it disabled", art)
		}
	}
	return fmt.Sprintf("%s|F=%d|R=%d|magic=%d", netClass, x.Freeze, x.Restr, x.Magic)
}

func casesB(r *evid.Run) []caseB {
	var out []caseB
	for _, n := range netNames {
		for _, f := range overrides {
			for _, rr := range overrides {
				out = append(out, caseB{Net: n, Freeze: f.Name, Restr: rr.Name})
			}
		}
		// InstantBlock takes another branch of SetupConfig before the enforcement
		for _, f := range []string{"absent", "0"} {
			out = append(out, caseB{Net: n, Freeze: f, Restr: f, Instant: true})
		}
	}
	return out
}

func main() {
	r := evid.Start("C31", "exploration")
	scr := evid.Scratch("c31")
	defer os.RemoveAll(scr)
	hx.QuietLogs(filepath.Join(scr, "log"))

	if job, ok := par.Worker(); ok {
		// worker: one ActiveNet spelling per process; the process
		// globals are re-initialised before every configuration of the group
		if job == "ctx" {
			par.Announce("ctx")
			par.Emit(runCtx(scr))
			os.RemoveAll(scr)
			return
		}
		var cs []caseB
		if err := json.Unmarshal([]byte(job), &cs); err != nil {
			evid.Fatalf("job: %v", err)
		}
		var out []resB
		for _, c := range cs {
			b, _ := json.Marshal(c)
			par.Announce(string(b))
			out = append(out, runB(scr, c))
		}
		par.Emit(out)
		os.RemoveAll(scr)
		return
	}

	if r.Replay != "" {
		var a struct {
			Kind string          `json:"kind"`
			Case json.RawMessage `json:"case"`
		}
		sig := r.LoadReplay(&a)
		fmt.Printf("replaying %s\n", sig)
		switch a.Kind {
		case "policy":
			var c caseA
			json.Unmarshal(a.Case, &c)
			got, want, errs := evalA(c)
			fmt.Printf("case %+v: accepted=%v want=%v err=%q\n", c, got, want, errs)
			if got != want {
				violateA(r, c, got, want, errs)
			}
		case "config":
			var c caseB
			json.Unmarshal(a.Case, &c)
			x := runB(scr, c)
			fmt.Printf("case %+v: %+v\n", c, x)
			judgeB(r, x)
		case "context":
			xs := runCtx(scr)
			for _, x := range xs {
				fmt.Printf("%+v\n", x)
			}
			judgeCtx(r, xs, &evid.Distinct{})
		}
		os.RemoveAll(scr)
		r.Finish(evid.Coverage{})
	}

	// ---- (a)
	types := allTypes()
	pvs := []int{0, 1, 2, 3, 4, 255}
	if r.Thorough() {
		pvs = pvs[:0]
		for v := 0; v < 256; v++ {
			pvs = append(pvs, v)
		}
	}
	type fr struct{ F, R uint32 }
	frs := []fr{{coordFreeze, coordRestriction}, {disabled, disabled}, {100, 200}}
	if config.MainNetCrossChainUTXOFreezeHeight != coordFreeze || config.MainNetCrossChainUTXORestrictionHeight != coordRestriction {
		r.Violate("C31|config|coordinated-constants-changed", fmt.Sprintf("config constants (%d,%d) differ from the coordinated heights (%d,%d)",
			config.MainNetCrossChainUTXOFreezeHeight, config.MainNetCrossChainUTXORestrictionHeight, coordFreeze, coordRestriction), map[string]interface{}{"kind": "constants"})
	}
	if config.DisabledCrossChainUTXORestrictionHeight != disabled {
		r.Violate("C31|config|disabled-value-changed", "the disabled value is not MaxUint32 (a reachable height would activate the policy)", map[string]interface{}{"kind": "constants"})
	}
	var evalsA, acc, rej int64
	classes := &evid.Distinct{}
	samples := &evid.Samples{N: 8}
	for _, x := range frs {
		hs := map[uint32]bool{}
		for _, h := range []uint32{0, x.F - 1, x.F, x.F + 1, x.R - 1, x.R, x.R + 1, (x.F + x.R) / 2, math.MaxUint32} {
			hs[h] = true
		}
		var hl []uint32
		for h := range hs {
			hl = append(hl, h)
		}
		sort.Slice(hl, func(i, j int) bool { return hl[i] < hl[j] })
		for _, t := range types {
			for _, pv := range pvs {
				for _, rs := range refSets {
					for _, h := range hl {
						c := caseA{Type: int(t), PV: pv, Refs: rs.Name, H: h, F: x.F, R: x.R}
						got, want, errs := evalA(c)
						evalsA++
						if got {
							acc++
						} else {
							rej++
						}
						if got != want {
							violateA(r, c, got, want, errs)
						}
						hasCross := strings.Contains(rs.Name, "cross")
						if hasCross {
							classes.Add(fmt.Sprintf("%s|%s|%v|%s", band(h, x.F, x.R), typeClass(int(t)), got, errs))
						}
						if hasCross && h >= x.F && t == common2.WithdrawFromSideChain {
							samples.Add(map[string]interface{}{"case": c, "accepted": got, "err": errs})
						}
					}
				}
			}
		}
	}

	// ---- (b)
	cb := casesB(r)
	var jobs []string
	for i := 0; i < len(cb); {
		j := i
		for j < len(cb) && cb[j].Net == cb[i].Net {
			j++
		}
		b, _ := json.Marshal(cb[i:j])
		jobs = append(jobs, string(b))
		i = j
	}
	jobs = append(jobs, "ctx")
	results := par.Procs(jobs, scr, par.Opts{Timeout: 120e9, MemMB: 4096, Env: []string{"GOMAXPROCS=2"}})
	cfgClasses := &evid.Distinct{}
	var mainnetCfg, otherCfg, nCfg, ctxN, ctxAcc int
	for i, w := range results {
		if w.Died || w.Out == nil {
			os.RemoveAll(scr)
			evid.Fatalf("config worker %s died (timeout=%v): %s", jobs[i], w.TimedOut, w.Stderr)
		}
		if jobs[i] == "ctx" {
			var cx []ctxRes
			if err := json.Unmarshal(w.Out, &cx); err != nil {
				os.RemoveAll(scr)
				evid.Fatalf("ctx worker output: %v", err)
			}
			ctxN = len(cx)
			ctxAcc = judgeCtx(r, cx, classes)
			continue
		}
		var xs []resB
		if err := json.Unmarshal(w.Out, &xs); err != nil {
			os.RemoveAll(scr)
			evid.Fatalf("config worker output: %v", err)
		}
		for _, x := range xs {
			cfgClasses.Add(judgeB(r, x))
			if isMainnetName(x.Case.Net) {
				mainnetCfg++
			} else {
				otherCfg++
			}
			nCfg++
			if nCfg%61 == 0 {
				samples.Add(map[string]interface{}{"config": x.Case, "freeze": x.Freeze, "restriction": x.Restr, "magic": x.Magic})
			}
		}
	}
	if nCfg != len(cb) {
		evid.Fatalf("config results %d != cases %d", nCfg, len(cb))
	}
	os.RemoveAll(scr)

	typeNames := make([]string, 0, len(types))
	for _, t := range types {
		typeNames = append(typeNames, strconv.Itoa(int(t)))
	}
	r.Assume = append(r.Assume,
		"the coordinated mainnet heights are 2256110 (freeze) and 2256724 (restriction); the mainnet name set is {absent, \"\", mainnet, main} case-insensitively, as the code and its pinned test define",
		"SetupConfig is driven with withScrew=false (command-line binding is not exercised; the two heights carry no command-line tag)")
	r.Finish(evid.Coverage{
		"evaluations":         evalsA + int64(len(cb)) + int64(ctxN),
		"distinct_nontrivial": classes.Len() + cfgClasses.Len(),
		"rule": "(a) every constructible transaction type x payload versions {0,1,2,3,4,255} (thorough: all 256) x 10 reference sets (prefix mixes) x heights {0,F-1,F,F+1,mid,R-1,R,R+1,MaxUint32} for (F,R) in {mainnet constants, disabled, (100,200)}, verdict of the real policy helper == table written from the statement; " +
			"(b) SetupConfig on a config file for 12 ActiveNet spellings x 5x5 overrides of both heights (+ InstantBlock branch), in worker subprocesses: mainnet names -> coordinated constants and the policy is effective at them, other names -> disabled and no probe height rejects. " +
			"(c) complete ContextCheck on a light node for signed, otherwise fully valid TransferAsset transactions spending {cross-chain, standard, both} real unspent outputs x 6 heights x {mainnet heights, disabled}: forbidden => rejected, everything else accepted. " +
			"non-trivial = distinct (height band, type class, verdict, error) classes over cases that spend a cross-chain UTXO + distinct resulting configurations",
		"exhaustive":       true,
		"policy_verdicts":  evalsA,
		"policy_accepted":  acc,
		"policy_rejected":  rej,
		"tx_types":         len(types),
		"tx_type_values":   strings.Join(typeNames, ","),
		"policy_classes":   classes.Map(),
		"context_verdicts": ctxN,
		"context_accepted": ctxAcc,
		"configurations":   len(cb),
		"config_mainnet":   mainnetCfg,
		"config_other":     otherCfg,
		"config_classes":   cfgClasses.Map(),
		"samples":          samples.Out,
	})
}
