package main

// (a'') light-node confirmation for the ActivateProducer finding: a registered producer that
// has been set inactive activates itself with a transaction whose outputs contain a negative
// amount (the type's per-output check validates nothing after NFTStartHeight and its fee check
// only wants fee == 0).

import (
	"bytes"
	"fmt"
	"path/filepath"

	"github.com/elastos/Elastos.ELA/common"
	"github.com/elastos/Elastos.ELA/core/contract"
	"github.com/elastos/Elastos.ELA/core/contract/program"
	"github.com/elastos/Elastos.ELA/core/transaction"
	"github.com/elastos/Elastos.ELA/core/types"
	common2 "github.com/elastos/Elastos.ELA/core/types/common"
	"github.com/elastos/Elastos.ELA/core/types/interfaces"
	"github.com/elastos/Elastos.ELA/core/types/payload"
	"github.com/elastos/Elastos.ELA/crypto"

	"verif/evid"
	"verif/lightnode"
)

type apRes struct {
	Name     string  `json:"name"`
	Outputs  amounts `json:"outputs"`
	Input    int64   `json:"input_value"` // value of the DISTINCT outputs spent
	Inputs   int     `json:"inputs_listed"`
	Distinct int     `json:"distinct_outpoints"`
	Sanity   string  `json:"sanity"`
	Context  string  `json:"context"`
	Accepted bool    `json:"accepted"`
	Producer string  `json:"producer_state"`
}

func runAPConfirm(scr string) []apRes {
	n, err := lightnode.New(filepath.Join(scr, "node"), lightnode.Options{})
	if err != nil {
		evid.Fatalf("light node: %v", err)
	}
	defer n.Close()
	owner := lightnode.FixedKey("c01-producer-owner", 0)
	nodeKey := lightnode.FixedKey("c01-producer-node", 0)
	payer := lightnode.FixedKey("c01-owner", 0)
	dep, err := contract.CreateDepositContractByPubKey(owner.Pub)
	if err != nil {
		evid.Fatalf("deposit contract: %v", err)
	}
	st := n.Chain.GetState()
	info := &payload.ProducerInfo{OwnerKey: owner.Compressed, NodePublicKey: nodeKey.Compressed,
		NickName: "verif", Url: "http://verif", Location: 1, NetAddress: "127.0.0.1:20338"}
	reg := transaction.CreateTransaction(common2.TxVersion09, common2.RegisterProducer, 0, info, []*common2.Attribute{},
		[]*common2.Input{}, []*common2.Output{lightnode.Output(*dep.ToProgramHash(), 6000*100000000)}, 0, []*program.Program{})
	const h0 = 2000000
	st.ProcessBlock(&types.Block{Header: common2.Header{Height: h0}, Transactions: []interfaces.Transaction{reg}}, nil, 0)
	for i := uint32(1); i <= 7; i++ {
		st.ProcessBlock(&types.Block{Header: common2.Header{Height: h0 + i}}, nil, 0)
	}
	st.ProcessSpecialTxPayload(&payload.InactiveArbitrators{Arbitrators: [][]byte{nodeKey.Compressed}}, h0+8)
	pstate := "unknown"
	if p := st.GetProducer(nodeKey.Compressed); p != nil {
		pstate = p.State().String()
	}
	var fundOuts []*common2.Output
	for i := 0; i < 16; i++ {
		fundOuts = append(fundOuts, lightnode.Output(payer.StandardHash(), 1000))
	}
	fund, err := n.Fund("c01-ap", fundOuts...)
	if err != nil {
		evid.Fatalf("fund: %v", err)
	}
	var out []apRes
	next := 0
	for i, vct := range []struct {
		name string
		outs []int64
		ins  []inRef
	}{
		{"control: 1000 -> 1000 (fee 0)", []int64{1000}, nil},
		{"negative output: 1000 -> 1000000, -999000", []int64{1000000, -999000}, nil},
		{"wrapping outputs: 1000 -> 2^62 x4, 1000", []int64{1 << 62, 1 << 62, 1 << 62, 1 << 62, 1000}, nil},
		{"control: two distinct inputs -> 2000", []int64{2000}, []inRef{{0, 0}, {1, 0}}},
		{"same outpoint twice (equal sequence) -> 2000", []int64{2000}, []inRef{{0, 0}, {0, 0}}},
		{"same outpoint twice (different sequence) -> 2000", []int64{2000}, []inRef{{0, 0}, {0, 1}}},
		{"same outpoint three times -> 3000", []int64{3000}, []inRef{{0, 0}, {0, 1}, {0, 2}}},
		{"A,B,A' -> 3000", []int64{3000}, []inRef{{0, 0}, {1, 0}, {0, 1}}},
	} {
		ap := &payload.ActivateProducer{NodePublicKey: nodeKey.Compressed}
		buf := new(bytes.Buffer)
		ap.SerializeUnsigned(buf, 0)
		sig, err := crypto.Sign(nodeKey.Priv, buf.Bytes())
		if err != nil {
			evid.Fatalf("sign: %v", err)
		}
		ap.Signature = sig
		var outs []*common2.Output
		for _, v := range vct.outs {
			outs = append(outs, lightnode.Output(payer.StandardHash(), common.Fixed64(v)))
		}
		attr := common2.NewAttribute(common2.Nonce, []byte(fmt.Sprintf("c01-ap-%d", i)))
		shape := vct.ins
		if shape == nil {
			shape = []inRef{{0, 0}}
		}
		var ins []*common2.Input
		distinct := map[int]bool{}
		for _, ir := range shape {
			in := lightnode.Input(fund, next+ir.Slot)
			in.Sequence = ir.Seq
			ins = append(ins, in)
			distinct[ir.Slot] = true
		}
		next += len(distinct)
		tx := transaction.CreateTransaction(common2.TxVersion09, common2.ActivateProducer, 0, ap,
			[]*common2.Attribute{&attr}, ins, outs, 0, nil)
		p, err := lightnode.SignStandard(tx, payer)
		if err != nil {
			evid.Fatalf("sign: %v", err)
		}
		tx.SetPrograms([]*program.Program{p})
		r := apRes{Name: vct.name, Outputs: vct.outs, Input: 1000 * int64(len(distinct)), Inputs: len(ins), Distinct: len(distinct), Producer: pstate}
		h := uint32(h0 + 20)
		s := n.SanityCheck(tx, h, nil)
		r.Sanity = s.String()
		r.Context = "-"
		if s.Accepted() {
			_, c := n.ContextCheck(tx, h, nil)
			r.Context = c.String()
			r.Accepted = c.Accepted()
		}
		out = append(out, r)
	}
	return out
}
