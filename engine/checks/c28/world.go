package main

// The system under test and its reference ledger.
//
// Implementation side: a real dpos/state.State (fresh per history) installed into the one
// BlockChain of the process (light node tier). Every operation "offers" a transaction: the
// transaction's own SanityCheck and SpecialContextCheck (parameters + references injected, as
// the repository's txvalidator tests do) decide whether it is put into the next block; accepted
// transactions are applied with State.ProcessBlock.
//
// Reference side (plain integers, no code shared with the repository): per producer the unspent
// outputs sitting on its deposit address, the penalties charged to it and the lock the rules
// require; per stake address the coins exchanged for vote rights minus the coins returned.

import (
	"bytes"
	"crypto/sha256"
	"encoding/binary"
	"fmt"
	"sort"
	"strconv"
	"strings"

	"github.com/elastos/Elastos.ELA/blockchain"
	"github.com/elastos/Elastos.ELA/common"
	"github.com/elastos/Elastos.ELA/common/config"
	"github.com/elastos/Elastos.ELA/core"
	"github.com/elastos/Elastos.ELA/core/checkpoint"
	"github.com/elastos/Elastos.ELA/core/contract/program"
	"github.com/elastos/Elastos.ELA/core/transaction"
	"github.com/elastos/Elastos.ELA/core/types"
	ctypes "github.com/elastos/Elastos.ELA/core/types/common"
	"github.com/elastos/Elastos.ELA/core/types/functions"
	"github.com/elastos/Elastos.ELA/core/types/interfaces"
	"github.com/elastos/Elastos.ELA/core/types/outputpayload"
	"github.com/elastos/Elastos.ELA/core/types/payload"
	crstate "github.com/elastos/Elastos.ELA/cr/state"
	"github.com/elastos/Elastos.ELA/dpos/state"
	"github.com/elastos/Elastos.ELA/events"

	"verif/evid"
	"verif/keys"
	"verif/lightnode"
	"verif/mc"
)

const (
	ELA        = int64(100000000)
	baseHeight = uint32(2000000) // above every activation height of the default parameters

	// shrunk time parameters (all of them are configuration parameters of the node)
	lockupBlocks   = 3  // CRConfiguration.DepositLockupBlocks
	minDepositLock = 3  // DPoSConfiguration.DPoSV2DepositCoinMinLockTime
	minVoteLock    = 2  // DPoSConfiguration.DPoSV2MinVotesLockTime
	stakeSpan      = 16 // StakeUntil = register height + stakeSpan
	voteSpan       = 3  // vote LockTime = block height + voteSpan
	waitBlocks     = 6  // "wait" = this many empty blocks (state.ActivateDuration)
	// regime "activating": DPoSV2ActiveHeight = baseHeight + activateOffset
	activateOffset = 12

	regDeposit = 5000 * ELA
	topUpValue = 1000 * ELA
	penaltyELA = 200 * ELA // IllegalPenalty and DPoSV2IllegalPenalty
	stakeValue = 10 * ELA
	txFee      = int64(100)

	lockV1 = 5000 * ELA // crstate.MinDepositAmount
	lockV2 = 2000 * ELA // crstate.MinDPoSV2DepositAmount

	nProducers = 2
)

// world is the per-process fixture: the BlockChain value the transaction checks consult (they
// only ask it for the DPoS state, the CR committee and the height — 0, a chain with nothing but
// genesis) and the parameters. The store of a real chain is never touched by SanityCheck and
// SpecialContextCheck, so none is opened.
type world struct {
	params *config.Configuration // == &config.DefaultParams
	chain  *blockchain.BlockChain
	regime string // "pre" = DPoS v2 not yet active, "active" = active, "activating" = becomes active at activeAt
	nStake int
	// activeAt is DPoSV2ActiveHeight when it lies inside the explored heights (0: it does not)
	activeAt uint32
	// event subscriptions that exist once the fixture is built
	subscribers int
}

var W *world

func setupWorld(regime string, nStake int) *world {
	lightnode.InitFunctions()
	config.DefaultParams = *config.GetDefaultParams()
	p := &config.DefaultParams
	// RegisterProducer consults BlockChain.GetHeight() (0 on this fixture) for the DPoS v2 era.
	p.DPoSV2StartHeight = 0
	p.CRConfiguration.DepositLockupBlocks = lockupBlocks
	p.DPoSConfiguration.DPoSV2DepositCoinMinLockTime = minDepositLock
	p.DPoSConfiguration.DPoSV2MinVotesLockTime = minVoteLock
	p.DPoSConfiguration.IllegalPenalty = common.Fixed64(penaltyELA)
	p.DPoSConfiguration.DPoSV2IllegalPenalty = common.Fixed64(penaltyELA)
	p.Sterilize()
	chain := &blockchain.BlockChain{}
	ckp := checkpoint.NewManager(p)
	chain.SetCRCommittee(crstate.NewCommittee(p, ckp)) // empty: no CR votes, no CR members
	w := &world{params: p, chain: chain, regime: regime, nStake: nStake, subscribers: events.VerifSubscriberCount()}
	if regime == "activating" {
		w.activeAt = baseHeight + activateOffset
	}
	return w
}

// verdict of one of the node's checks
type nodeVerdict struct {
	err      error
	panicked bool
}

func (v nodeVerdict) Accepted() bool { return v.err == nil && !v.panicked }

func (w *world) txParams(tx interfaces.Transaction, height uint32) *transaction.TransactionParameters {
	return &transaction.TransactionParameters{Transaction: tx, BlockHeight: height, TimeStamp: 1700000000 + height*2, Config: w.params, BlockChain: w.chain}
}

func (w *world) sanityCheck(tx interfaces.Transaction, height uint32) (v nodeVerdict) {
	defer func() {
		if r := recover(); r != nil {
			v.panicked = true
		}
	}()
	if e := tx.SanityCheck(w.txParams(tx, height)); e != nil {
		v.err = e
	}
	return
}

func (w *world) specialContextCheck(tx interfaces.Transaction, height uint32, refs map[*ctypes.Input]ctypes.Output) (v nodeVerdict) {
	defer func() {
		if r := recover(); r != nil {
			v.panicked = true
		}
	}()
	tx.SetParameters(w.txParams(tx, height))
	tx.SetReferences(refs)
	if e, _ := tx.SpecialContextCheck(); e != nil {
		v.err = e
	}
	return
}

// ---- identities ------------------------------------------------------------------------------

type ident struct {
	keyIdx  int
	pub     []byte
	code    []byte
	std     common.Uint168 // standard address
	deposit common.Uint168
	stake   common.Uint168
}

func mkIdent(i int) *ident {
	id := &ident{keyIdx: i, pub: keys.Pub(i)}
	id.code = keys.StandardCode(id.pub)
	id.std = common.Uint168(keys.ProgramHash(keys.PrefixStandard, id.code))
	id.deposit = common.Uint168(keys.ProgramHash(keys.PrefixDeposit, id.code))
	id.stake = common.Uint168(keys.ProgramHash(keys.PrefixDPoSV2, id.code))
	return id
}

var (
	ownerID = []*ident{mkIdent(0), mkIdent(1)}
	nodeID  = []*ident{mkIdent(2), mkIdent(3)}
	stakeID = []*ident{mkIdent(4), mkIdent(5)}
)

// ---- reference ledger -------------------------------------------------------------------------

type utxo struct {
	op    ctypes.OutPoint
	value int64
}

type prodM struct {
	registered bool
	v2         bool
	regH       uint32
	stakeUntil uint32
	cancelled  bool // cancel transaction accepted (v1)
	cancelH    uint32
	utxos      []utxo // unspent outputs on the deposit address
	penalties  int64
	// how the history could have upset the lock bookkeeping (part of the signature of a
	// negative lock, so that a different cause gets a different signature)
	recancelled    bool  // a second cancel transaction was accepted
	penAfterExpiry bool  // illegal evidence processed after StakeUntil had passed
	penAfterCancel bool  // illegal evidence processed after the cancel transaction (DPoS v1)
	retired        bool  // DPoS v1 producer still registered (not cancelled) when DPoSV2ActiveHeight was processed
	deposited      int64 // everything ever sent to the deposit address from outside
	withdrawn      int64 // everything that left the deposit address (inputs − change)
}

func (p *prodM) balance() int64 {
	var s int64
	for _, u := range p.utxos {
		s += u.value
	}
	return s
}

// lock is the deposit the rules require to stay put once the block at height h is processed:
// DPoS v1: 5000 ELA until DepositLockupBlocks after the cancellation; DPoS v2: 2000 ELA until the
// block after StakeUntil.
func (p *prodM) lock(h uint32) int64 {
	if !p.registered {
		return 0
	}
	if p.v2 {
		if h > p.stakeUntil {
			return 0
		}
		return lockV2
	}
	if p.cancelled && h >= p.cancelH+lockupBlocks {
		return 0
	}
	// at DPoSV2ActiveHeight every DPoS v1 producer is retired and its deposit released
	if W.activeAt != 0 && h >= W.activeAt {
		return 0
	}
	return lockV1
}

func (p *prodM) cause() string {
	switch {
	case p.recancelled:
		return "|after-second-cancel"
	case p.penAfterExpiry:
		return "|evidence-after-expiry"
	case p.penAfterCancel:
		return "|evidence-after-cancel"
	case p.retired:
		return "|retired-at-activation"
	}
	return ""
}

func (p *prodM) avail(h uint32) int64 { return p.balance() - p.penalties - p.lock(h) }

type stakeM struct {
	staked   int64
	returned int64
}

// ---- instance ---------------------------------------------------------------------------------

type inst struct {
	st   *state.State
	h    uint32 // height of the last processed block
	seq  uint32 // makes funding outpoints (and so transaction hashes) unique within a history
	prod [nProducers]*prodM
	stk  []*stakeM

	changed bool // last Apply produced a block
	trust   bool // replaying an already explored prefix: verdicts are not recomputed
	nv      *counters
}

type counters struct {
	Offers, Accepted, RejSanity, RejContext, Panics int64
	RetAtAvail, RetAboveRejected, RetBelow          int64 // accepted at exactly avail / avail+1 rejected / avail-1 accepted
	VoteAtFree, VoteAboveRejected                   int64
	RvAtFree, RvAboveRejected                       int64
	DupRejectedBySanity, DupReachedContext          int64
	Penalised, Expired, AutoCancelled, LockReleased int64
	Renewed                                         int64
	PairsAccepted                                   int64
	CRRetAtAvail, CRRetAboveRejected                int64
	Verdicts                                        map[string]int64
}

func newCounters() *counters { return &counters{Verdicts: map[string]int64{}} }

func (c *counters) merge(o *counters) {
	c.Offers += o.Offers
	c.Accepted += o.Accepted
	c.RejSanity += o.RejSanity
	c.RejContext += o.RejContext
	c.Panics += o.Panics
	c.RetAtAvail += o.RetAtAvail
	c.RetAboveRejected += o.RetAboveRejected
	c.RetBelow += o.RetBelow
	c.VoteAtFree += o.VoteAtFree
	c.VoteAboveRejected += o.VoteAboveRejected
	c.RvAtFree += o.RvAtFree
	c.RvAboveRejected += o.RvAboveRejected
	c.DupRejectedBySanity += o.DupRejectedBySanity
	c.DupReachedContext += o.DupReachedContext
	c.Penalised += o.Penalised
	c.Expired += o.Expired
	c.AutoCancelled += o.AutoCancelled
	c.LockReleased += o.LockReleased
	c.Renewed += o.Renewed
	c.PairsAccepted += o.PairsAccepted
	c.CRRetAtAvail += o.CRRetAtAvail
	c.CRRetAboveRejected += o.CRRetAboveRejected
	for k, v := range o.Verdicts {
		c.Verdicts[k] += v
	}
}

var NV = newCounters()

func newInst() *inst {
	// NewState subscribes to the events package and nothing ever unsubscribes: drop the
	// subscription of the previous instance so that it can be collected
	events.VerifTruncateSubscribers(W.subscribers)
	st := state.NewState(W.params, nil, nil, nil, func() bool { return false },
		nil, nil, nil, nil, nil, nil, nil)
	switch W.regime {
	case "active":
		st.DPoSV2ActiveHeight = baseHeight - 1000
	case "activating":
		// the arbitrators set DPoSV2ActiveHeight some blocks ahead once enough DPoS v2
		// producers are effective; here it is planted directly
		st.DPoSV2ActiveHeight = W.activeAt
	}
	W.chain.SetState(st)
	in := &inst{st: st, h: baseHeight, nv: NV}
	for i := range in.prod {
		in.prod[i] = &prodM{}
	}
	for i := 0; i < W.nStake; i++ {
		in.stk = append(in.stk, &stakeM{})
	}
	return in
}

func (in *inst) Close()          {}
func (in *inst) Changed() bool   { return in.changed }
func (in *inst) SetTrust(t bool) { in.trust = t }
func (in *inst) Blocks() int     { return int(in.h - baseHeight) }

// alphabet, simplest first
func (in *inst) Ops() []string {
	ops := []string{"tick", "wait"}
	for p := 0; p < nProducers; p++ {
		ops = append(ops, fmt.Sprintf("reg:%d", p))
	}
	for p := 0; p < nProducers; p++ {
		ops = append(ops, fmt.Sprintf("top:%d", p))
	}
	for a := 0; a < W.nStake; a++ {
		ops = append(ops, fmt.Sprintf("stk:%d", a))
	}
	for p := 0; p < nProducers; p++ {
		ops = append(ops, fmt.Sprintf("can:%d", p), fmt.Sprintf("pen:%d", p))
	}
	for p := 0; p < nProducers; p++ {
		for _, d := range []string{"0", "-1", "+1", "+1:dup"} {
			ops = append(ops, fmt.Sprintf("ret:%d:%s", p, d))
		}
	}
	for a := 0; a < W.nStake; a++ {
		for p := 0; p < nProducers; p++ {
			ops = append(ops, fmt.Sprintf("vote:%d:%d:0", a, p), fmt.Sprintf("vote:%d:%d:h", a, p), fmt.Sprintf("vote:%d:%d:+1", a, p))
		}
		ops = append(ops, fmt.Sprintf("renew:%d", a), fmt.Sprintf("rv:%d:0", a), fmt.Sprintf("rv:%d:+1", a))
	}
	// two transactions offered for the same block (each validated against the state before the
	// block, as BlockChain.checkTxsContext does)
	for p := 0; p < nProducers; p++ {
		ops = append(ops, fmt.Sprintf("pair:ret:%d", p))
	}
	for a := 0; a < W.nStake; a++ {
		ops = append(ops, fmt.Sprintf("pair:vote:%d", a), fmt.Sprintf("pair:rv:%d", a), fmt.Sprintf("pair:voterv:%d", a))
	}
	return ops
}

// ---- transaction builders ---------------------------------------------------------------------

type offer struct {
	tx   interfaces.Transaction
	refs map[*ctypes.Input]ctypes.Output
}

func (in *inst) fundingInput(owner common.Uint168, value int64) (*ctypes.Input, ctypes.Output) {
	in.seq++
	var b [8]byte
	binary.BigEndian.PutUint32(b[:4], in.seq)
	h := sha256.Sum256(append([]byte("c28-funding"), b[:]...))
	return &ctypes.Input{Previous: ctypes.OutPoint{TxID: common.Uint256(h), Index: 0}, Sequence: 0},
		ctypes.Output{AssetID: core.ELAAssetID, Value: common.Fixed64(value), ProgramHash: owner}
}

func prog(id *ident) *program.Program {
	// the signature of the transaction itself is outside SanityCheck/SpecialContextCheck
	return &program.Program{Code: id.code, Parameter: []byte{0x40}}
}

func mkTx(t ctypes.TxType, pv byte, pl interfaces.Payload, ins []*ctypes.Input, outs []*ctypes.Output, progs []*program.Program) interfaces.Transaction {
	return functions.CreateTransaction(ctypes.TxVersion09, t, pv, pl, []*ctypes.Attribute{}, ins, outs, 0, progs)
}

func out(addr common.Uint168, v int64) *ctypes.Output {
	return &ctypes.Output{AssetID: core.ELAAssetID, Value: common.Fixed64(v), ProgramHash: addr, Type: ctypes.OTNone, Payload: &outputpayload.DefaultOutput{}}
}

var sigCache = map[string][]byte{}

func signCached(keyIdx int, data []byte) []byte {
	k := strconv.Itoa(keyIdx) + string(data)
	if s, ok := sigCache[k]; ok {
		return s
	}
	s := keys.Sign(keyIdx, data, 0)
	sigCache[k] = s
	return s
}

func (in *inst) registerOffer(p int) *offer {
	id := ownerID[p]
	v2 := p == 1
	info := &payload.ProducerInfo{OwnerKey: id.pub, NodePublicKey: nodeID[p].pub, NickName: fmt.Sprintf("producer-%d", p),
		Url: "http://p", Location: 1, NetAddress: "127.0.0.1:1"}
	pv := payload.ProducerInfoVersion
	if v2 {
		pv = payload.ProducerInfoDposV2Version
		info.StakeUntil = in.h + 1 + stakeSpan
	}
	var buf bytes.Buffer
	if err := info.SerializeUnsigned(&buf, pv); err != nil {
		evid.Fatalf("serialize producer info: %v", err)
	}
	info.Signature = signCached(id.keyIdx, buf.Bytes())
	fin, fout := in.fundingInput(id.std, regDeposit+txFee)
	tx := mkTx(ctypes.RegisterProducer, pv, info, []*ctypes.Input{fin}, []*ctypes.Output{out(id.deposit, regDeposit)}, []*program.Program{prog(id)})
	return &offer{tx: tx, refs: map[*ctypes.Input]ctypes.Output{fin: fout}}
}

func (in *inst) cancelOffer(p int) *offer {
	id := ownerID[p]
	pl := &payload.ProcessProducer{OwnerKey: id.pub}
	var buf bytes.Buffer
	if err := pl.SerializeUnsigned(&buf, payload.ProcessProducerVersion); err != nil {
		evid.Fatalf("serialize process producer: %v", err)
	}
	pl.Signature = signCached(id.keyIdx, buf.Bytes())
	fin, fout := in.fundingInput(id.std, 2*txFee)
	tx := mkTx(ctypes.CancelProducer, payload.ProcessProducerVersion, pl, []*ctypes.Input{fin}, []*ctypes.Output{out(id.std, txFee)}, []*program.Program{prog(id)})
	return &offer{tx: tx, refs: map[*ctypes.Input]ctypes.Output{fin: fout}}
}

func (in *inst) topUpOffer(p int) *offer {
	// anybody may send coins to a registered producer's deposit address; the sender is stake
	// identity 0's standard address
	from := stakeID[0]
	fin, fout := in.fundingInput(from.std, topUpValue+txFee)
	tx := mkTx(ctypes.TransferAsset, 0, &payload.TransferAsset{}, []*ctypes.Input{fin}, []*ctypes.Output{out(ownerID[p].deposit, topUpValue)}, []*program.Program{prog(from)})
	return &offer{tx: tx, refs: map[*ctypes.Input]ctypes.Output{fin: fout}}
}

// penaltyTx is the special transaction arbiters issue for a double-signing producer (the
// repository's own tests build it the same way); it is an environment event and is not validated.
func (in *inst) penaltyTx(p int) interfaces.Transaction {
	in.seq++
	hdr := make([]byte, 8)
	binary.BigEndian.PutUint32(hdr, in.seq)
	pk := nodeID[p].pub
	return functions.CreateTransaction(ctypes.TxVersion09, ctypes.IllegalBlockEvidence, 0, &payload.DPOSIllegalBlocks{
		CoinType: payload.ELACoin, BlockHeight: in.h,
		Evidence:        payload.BlockEvidence{Header: hdr, Signers: [][]byte{pk}},
		CompareEvidence: payload.BlockEvidence{Header: append([]byte{1}, hdr...), Signers: [][]byte{pk}},
	}, []*ctypes.Attribute{}, []*ctypes.Input{}, []*ctypes.Output{}, 0, []*program.Program{})
}

// returnOffer spends the given deposit outputs of producer p, taking `amount` out of the deposit
// address (inputs − change) and listing the owner's program once or twice.
func (in *inst) returnOffer(p int, spend []utxo, amount int64, dup bool) *offer {
	id := ownerID[p]
	var total int64
	refs := map[*ctypes.Input]ctypes.Output{}
	var ins []*ctypes.Input
	for _, u := range spend {
		i := &ctypes.Input{Previous: u.op}
		ins = append(ins, i)
		refs[i] = ctypes.Output{AssetID: core.ELAAssetID, Value: common.Fixed64(u.value), ProgramHash: id.deposit}
		total += u.value
	}
	fee := txFee
	if amount < fee {
		fee = amount
	}
	outs := []*ctypes.Output{out(id.std, amount-fee)}
	if total-amount > 0 {
		outs = append(outs, out(id.deposit, total-amount))
	}
	progs := []*program.Program{prog(id)}
	if dup {
		progs = append(progs, prog(id))
	}
	tx := mkTx(ctypes.ReturnDepositCoin, 0, &payload.ReturnDepositCoin{}, ins, outs, progs)
	return &offer{tx: tx, refs: refs}
}

func (in *inst) stakeOffer(a int) *offer {
	id := stakeID[a]
	fin, fout := in.fundingInput(id.std, stakeValue+txFee)
	o := &ctypes.Output{AssetID: core.ELAAssetID, Value: common.Fixed64(stakeValue), ProgramHash: *W.params.StakePoolProgramHash,
		Type: ctypes.OTStake, Payload: &outputpayload.ExchangeVotesOutput{Version: 0, StakeAddress: id.stake}}
	tx := mkTx(ctypes.ExchangeVotes, 0, &payload.ExchangeVotes{}, []*ctypes.Input{fin}, []*ctypes.Output{o}, []*program.Program{prog(id)})
	return &offer{tx: tx, refs: map[*ctypes.Input]ctypes.Output{fin: fout}}
}

func (in *inst) voteOffer(a, p int, votes int64) *offer {
	id := stakeID[a]
	fin, fout := in.fundingInput(id.std, 2*txFee)
	pl := &payload.Voting{Contents: []payload.VotesContent{{VoteType: outputpayload.DposV2,
		VotesInfo: []payload.VotesWithLockTime{{Candidate: ownerID[p].pub, Votes: common.Fixed64(votes), LockTime: in.h + 1 + voteSpan}}}}}
	tx := mkTx(ctypes.Voting, payload.VoteVersion, pl, []*ctypes.Input{fin}, []*ctypes.Output{out(id.std, txFee)}, []*program.Program{prog(id)})
	return &offer{tx: tx, refs: map[*ctypes.Input]ctypes.Output{fin: fout}}
}

type liveVote struct {
	prodIdx int
	ref     common.Uint256
	info    payload.DetailedVoteInfo
}

// liveVotes lists the DPoS v2 votes of stake address a that are attached to producers, in a
// canonical order that does not depend on transaction hashes.
func (in *inst) liveVotes(a int) []liveVote {
	var out []liveVote
	for p := 0; p < nProducers; p++ {
		pr := in.st.GetProducer(ownerID[p].pub)
		if pr == nil {
			continue
		}
		for ref, d := range pr.GetAllDetailedDPoSV2Votes()[stakeID[a].stake] {
			out = append(out, liveVote{p, ref, d})
		}
	}
	sort.Slice(out, func(i, j int) bool {
		x, y := out[i], out[j]
		if x.info.Info[0].LockTime != y.info.Info[0].LockTime {
			return x.info.Info[0].LockTime < y.info.Info[0].LockTime
		}
		if x.prodIdx != y.prodIdx {
			return x.prodIdx < y.prodIdx
		}
		if x.info.Info[0].Votes != y.info.Info[0].Votes {
			return x.info.Info[0].Votes < y.info.Info[0].Votes
		}
		if x.info.BlockHeight != y.info.BlockHeight {
			return x.info.BlockHeight < y.info.BlockHeight
		}
		return x.ref.Compare(y.ref) < 0 // fully equal votes are interchangeable
	})
	return out
}

func (in *inst) renewOffer(a int, v liveVote) *offer {
	id := stakeID[a]
	fin, fout := in.fundingInput(id.std, 2*txFee)
	nv := v.info.Info[0]
	nv.LockTime = nv.LockTime + voteSpan
	pl := &payload.Voting{RenewalContents: []payload.RenewalVotesContent{{ReferKey: v.ref, VotesInfo: nv}}}
	tx := mkTx(ctypes.Voting, payload.RenewalVoteVersion, pl, []*ctypes.Input{fin}, []*ctypes.Output{out(id.std, txFee)}, []*program.Program{prog(id)})
	return &offer{tx: tx, refs: map[*ctypes.Input]ctypes.Output{fin: fout}}
}

func (in *inst) returnVotesOffer(a int, value int64) *offer {
	id := stakeID[a]
	fin, fout := in.fundingInput(id.std, 2*txFee)
	pl := &payload.ReturnVotes{ToAddr: id.std, Code: id.code, Value: common.Fixed64(value)}
	var buf bytes.Buffer
	if err := pl.SerializeUnsigned(&buf, payload.ReturnVotesVersionV0); err != nil {
		evid.Fatalf("serialize return votes: %v", err)
	}
	pl.Signature = signCached(id.keyIdx, buf.Bytes())
	tx := mkTx(ctypes.ReturnVotes, payload.ReturnVotesVersionV0, pl, []*ctypes.Input{fin}, []*ctypes.Output{out(id.std, txFee)}, []*program.Program{prog(id)})
	return &offer{tx: tx, refs: map[*ctypes.Input]ctypes.Output{fin: fout}}
}

// ---- verdicts ---------------------------------------------------------------------------------

// verdict runs the node's own checks in the node's order (sanity before context). While a
// history that has already been explored is replayed as a prefix (in.trust) the verdicts are not
// recomputed: every operation of a stored history produced a block, i.e. was accepted.
func (in *inst) verdict(o *offer, class string) (accepted bool, stage string) {
	if in.trust {
		return true, ""
	}
	in.nv.Offers++
	h := in.h + 1
	v := W.sanityCheck(o.tx, h)
	if v.panicked {
		in.nv.Panics++
		in.nv.Verdicts[class+"|panic"]++
		return false, "panic"
	}
	if !v.Accepted() {
		in.nv.RejSanity++
		in.nv.Verdicts[class+"|sanity-reject"]++
		return false, "sanity"
	}
	v = W.specialContextCheck(o.tx, h, o.refs)
	if v.panicked {
		in.nv.Panics++
		in.nv.Verdicts[class+"|panic"]++
		return false, "panic"
	}
	if !v.Accepted() {
		in.nv.RejContext++
		in.nv.Verdicts[class+"|context-reject"]++
		return false, "context"
	}
	in.nv.Accepted++
	in.nv.Verdicts[class+"|accept"]++
	return true, ""
}

func (in *inst) block(txs ...interfaces.Transaction) {
	in.h++
	in.st.ProcessBlock(&types.Block{Header: ctypes.Header{Height: in.h, Timestamp: 1700000000 + in.h*2}, Transactions: txs}, nil, 0)
	in.changed = true
	if W.activeAt != 0 && in.h == W.activeAt {
		for _, m := range in.prod {
			if m.registered && !m.v2 && !m.cancelled {
				m.retired = true
			}
		}
	}
}

// creditDeposits registers the outputs of tx that pay to a deposit address.
func (in *inst) creditDeposits(tx interfaces.Transaction, external bool) {
	for i, o := range tx.Outputs() {
		for p := 0; p < nProducers; p++ {
			if o.ProgramHash.IsEqual(ownerID[p].deposit) {
				in.prod[p].utxos = append(in.prod[p].utxos, utxo{op: ctypes.OutPoint{TxID: tx.Hash(), Index: uint16(i)}, value: int64(o.Value)})
				if external {
					in.prod[p].deposited += int64(o.Value)
				}
			}
		}
	}
}

// ---- Apply ------------------------------------------------------------------------------------

// fail describes a violated oracle clause. soft: the state stays explorable (the consequences
// of the broken bookkeeping are searched for as well).
type fail struct {
	mc.Fail
	soft bool
}

func failf(sig, format string, a ...interface{}) *fail {
	return &fail{Fail: mc.Fail{Signature: sig, What: fmt.Sprintf(format, a...)}}
}

func (in *inst) Apply(op string) *fail {
	in.changed = false
	f := strings.Split(op, ":")
	arg := func(i int) int { n, _ := strconv.Atoi(f[i]); return n }
	switch f[0] {
	case "tick":
		in.block()
	case "wait":
		for i := 0; i < waitBlocks; i++ {
			in.block()
			if fl := in.invariants("wait", -1); fl != nil && !fl.soft {
				return fl
			}
		}
	case "reg":
		p := arg(1)
		o := in.registerOffer(p)
		if ok, _ := in.verdict(o, "register"); ok {
			in.block(o.tx)
			m := in.prod[p]
			m.registered, m.v2, m.regH = true, p == 1, in.h
			if m.v2 {
				m.stakeUntil = o.tx.Payload().(*payload.ProducerInfo).StakeUntil
			}
			in.creditDeposits(o.tx, true)
		}
	case "top":
		p := arg(1)
		if !in.prod[p].registered {
			// outputs to a deposit address nobody registered are refused by
			// checkTransactionDepositOutputs (part of ContextCheck, not driven here)
			return nil
		}
		o := in.topUpOffer(p)
		if ok, _ := in.verdict(o, "topup"); ok {
			in.block(o.tx)
			in.creditDeposits(o.tx, true)
		}
	case "can":
		p := arg(1)
		o := in.cancelOffer(p)
		if ok, _ := in.verdict(o, "cancel"); ok {
			in.block(o.tx)
			// the lock-up period runs from the first cancellation; cancelling again (the node
			// accepts that for a producer whose deposit has been returned) does not re-lock
			if in.prod[p].retired {
				// retirement at DPoSV2ActiveHeight already cancelled the producer: a cancel
				// transaction accepted afterwards (Returned state) is a second cancellation
				in.prod[p].recancelled = true
			} else if !in.prod[p].cancelled {
				in.prod[p].cancelled, in.prod[p].cancelH = true, in.h
			} else {
				in.prod[p].recancelled = true
			}
		}
	case "pen":
		p := arg(1)
		pr := in.st.GetProducer(ownerID[p].pub)
		// Evidence exists only against producers that have been arbiters: registered and past
		// the pending stage.
		if pr == nil || pr.State() == state.Pending {
			return nil
		}
		before := int64(pr.Penalty())
		in.block(in.penaltyTx(p))
		if int64(pr.Penalty()) != before+penaltyELA {
			evid.Fatalf("harness: illegal evidence against producer %d (state %v) changed its penalty from %d to %d, expected +%d", p, pr.State(), before, pr.Penalty(), penaltyELA)
		}
		in.nv.Penalised++
		in.prod[p].penalties += penaltyELA
		if in.prod[p].v2 && in.h > in.prod[p].stakeUntil {
			in.prod[p].penAfterExpiry = true
		}
		if in.prod[p].cancelled {
			in.prod[p].penAfterCancel = true
		}
	case "ret":
		return in.applyReturn(arg(1), f[2], len(f) > 3 && f[3] == "dup")
	case "stk":
		a := arg(1)
		o := in.stakeOffer(a)
		if ok, _ := in.verdict(o, "stake"); ok {
			in.block(o.tx)
			in.stk[a].staked += stakeValue
		}
	case "vote":
		return in.applyVote(arg(1), arg(2), f[3])
	case "renew":
		a := arg(1)
		lv := in.liveVotes(a)
		if len(lv) == 0 {
			return nil
		}
		o := in.renewOffer(a, lv[0])
		if ok, _ := in.verdict(o, "renew"); ok {
			in.block(o.tx)
			in.nv.Renewed++
		}
	case "rv":
		return in.applyReturnVotes(arg(1), f[2])
	case "pair":
		return in.applyPair(f[1], arg(2))
	default:
		evid.Fatalf("unknown op %q", op)
	}
	if !in.changed {
		return nil
	}
	return in.invariants(f[0], -1)
}

func (in *inst) applyReturn(p int, delta string, dup bool) *fail {
	m := in.prod[p]
	if len(m.utxos) == 0 {
		return nil
	}
	avail := m.avail(in.h)
	var amount int64
	switch delta {
	case "0":
		amount = avail
	case "-1":
		amount = avail - 1
	case "+1":
		amount = avail + 1
		if avail < 0 {
			amount = 1
		}
	}
	if amount <= 0 || amount > m.balance() {
		return nil
	}
	o := in.returnOffer(p, m.utxos, amount, dup)
	class := "return" + delta
	if dup {
		class += "-dup"
	}
	ok, stage := in.verdict(o, class)
	if dup && !in.trust {
		if stage == "sanity" {
			in.nv.DupRejectedBySanity++
		} else {
			in.nv.DupReachedContext++
		}
	}
	if !ok {
		if delta == "+1" && !dup {
			in.nv.RetAboveRejected++
		}
		return nil
	}
	if !in.trust {
		switch delta {
		case "0":
			in.nv.RetAtAvail++
		case "-1":
			in.nv.RetBelow++
		}
	}
	pre := fmt.Sprintf("its deposit address holds %s, penalties are %s and the required lock is %s (available %s)", ela(m.balance()), ela(m.penalties), ela(m.lock(in.h)), ela(avail))
	implLock := int64(0)
	if pr := in.st.GetProducer(ownerID[p].pub); pr != nil {
		implLock = int64(pr.DepositAmount())
	}
	in.block(o.tx)
	m.utxos = nil
	m.withdrawn += amount
	in.creditDeposits(o.tx, false)
	if amount > avail {
		how := "programs=1"
		if dup {
			how = "programs=2-same"
		}
		sig := "C28|deposit-overdraw|verdict|ReturnDepositCoin|" + how + "|" + prodClass(p)
		if implLock < 0 {
			sig += "|state-lock-negative" + m.cause()
		}
		return failf(sig, "producer %d: a deposit return taking %s out of the deposit address was accepted by SanityCheck+SpecialContextCheck although %s", p, ela(amount), pre)
	}
	return in.invariants("ret", p)
}

func (in *inst) free(a int) (rights, used int64) {
	r, _, u := in.st.GetDposV2VoteRights(stakeID[a].stake)
	return int64(r), int64(u)
}

func (in *inst) applyVote(a, p int, delta string) *fail {
	rights, used := in.free(a)
	free := rights - used
	x := free
	switch delta {
	case "+1":
		x = free + 1
	case "h":
		x = free / 2
	}
	if x <= 0 {
		return nil
	}
	o := in.voteOffer(a, p, x)
	ok, _ := in.verdict(o, "vote"+delta)
	if !ok {
		if delta == "+1" {
			in.nv.VoteAboveRejected++
		}
		return nil
	}
	if delta == "0" && !in.trust {
		in.nv.VoteAtFree++
	}
	in.block(o.tx)
	if x > free {
		return failf("C28|votes-overdraw|verdict|Voting.DposV2",
			"stake address %d: a DPoS v2 vote of %s was accepted although the address has vote rights %s of which %s are in use (free %s)", a, ela(x), ela(rights), ela(used), ela(free))
	}
	return in.invariants("vote", -1)
}

func (in *inst) applyReturnVotes(a int, delta string) *fail {
	rights, used := in.free(a)
	free := rights - used
	x := free
	if delta == "+1" {
		x = free + 1
	}
	if x <= int64(W.params.CRConfiguration.RealWithdrawSingleFee) {
		return nil
	}
	o := in.returnVotesOffer(a, x)
	ok, _ := in.verdict(o, "returnvotes"+delta)
	if !ok {
		if delta == "+1" {
			in.nv.RvAboveRejected++
		}
		return nil
	}
	if delta == "0" && !in.trust {
		in.nv.RvAtFree++
	}
	in.block(o.tx)
	in.stk[a].returned += x
	if x > free {
		return failf("C28|votes-overdraw|verdict|ReturnVotes",
			"stake address %d: returning %s of vote rights was accepted although the address has vote rights %s of which %s are in use (free %s)", a, ela(x), ela(rights), ela(used), ela(free))
	}
	return in.invariants("rv", -1)
}

var pairName = map[string]string{"ret": "ReturnDepositCoin+ReturnDepositCoin", "vote": "Voting+Voting", "rv": "ReturnVotes+ReturnVotes", "voterv": "Voting+ReturnVotes"}

// applyPair offers two transactions for the same block. Each is checked against the state
// before the block — exactly what BlockChain.checkTxsContext does for the transactions of a
// received block — and, when both pass, both are applied by one ProcessBlock.
func (in *inst) applyPair(kind string, x int) *fail {
	var o1, o2 *offer
	var after func()
	retProd := -1
	switch kind {
	case "ret":
		// two returns spending disjoint outputs of the same deposit address, each within the
		// available amount
		m := in.prod[x]
		avail := m.avail(in.h)
		if len(m.utxos) < 2 || avail <= txFee {
			return nil
		}
		retProd = x
		u1, u2 := m.utxos[:1], m.utxos[1:]
		a1, a2 := min64(avail, sum(u1)), min64(avail, sum(u2))
		if a1 <= txFee || a2 <= txFee {
			return nil
		}
		o1, o2 = in.returnOffer(x, u1, a1, false), in.returnOffer(x, u2, a2, false)
		after = func() {
			m.utxos = nil
			m.withdrawn += a1 + a2
			in.creditDeposits(o1.tx, false)
			in.creditDeposits(o2.tx, false)
		}
	case "vote":
		rights, used := in.free(x)
		free := rights - used
		if free <= 0 {
			return nil
		}
		o1, o2 = in.voteOffer(x, 1, free), in.voteOffer(x, 1, free)
		after = func() {}
	case "rv":
		rights, used := in.free(x)
		free := rights - used
		if free <= int64(W.params.CRConfiguration.RealWithdrawSingleFee) {
			return nil
		}
		o1, o2 = in.returnVotesOffer(x, free), in.returnVotesOffer(x, free)
		after = func() { in.stk[x].returned += 2 * free }
	case "voterv":
		rights, used := in.free(x)
		free := rights - used
		if free <= int64(W.params.CRConfiguration.RealWithdrawSingleFee) {
			return nil
		}
		o1, o2 = in.voteOffer(x, 1, free), in.returnVotesOffer(x, free)
		after = func() { in.stk[x].returned += free }
	}
	ok1, _ := in.verdict(o1, "pair-"+kind+"-first")
	ok2, _ := in.verdict(o2, "pair-"+kind+"-second")
	if !ok1 || !ok2 {
		return nil
	}
	if !in.trust {
		in.nv.PairsAccepted++
	}
	in.block(o1.tx, o2.tx)
	after()
	fl := in.invariants("pair", retProd)
	if fl != nil && !fl.soft {
		// one signature per pair of transaction types: the cause is the missing same-block rule,
		// whichever balance shows it first
		fl.Signature = "C28|same-block|" + pairName[kind]
		fl.What = "two transactions, each valid against the state before the block (as BlockChain.checkTxsContext validates them), were applied in one block: " + fl.What
	}
	return fl
}

// ---- oracle -----------------------------------------------------------------------------------

func prodClass(p int) string {
	if p == 1 {
		return "dposv2"
	}
	return "dposv1"
}

// invariants are evaluated after every accepted block. retProd is the producer whose deposit
// address was spent from in this block (-1: none).
func (in *inst) invariants(after string, retProd int) *fail {
	var soft *fail
	for p := 0; p < nProducers; p++ {
		m := in.prod[p]
		pr := in.st.GetProducer(ownerID[p].pub)
		if pr == nil {
			if m.registered {
				evid.Fatalf("harness: producer %d registered in the ledger but unknown to the state", p)
			}
			continue
		}
		total, dep, pen := int64(pr.TotalAmount()), int64(pr.DepositAmount()), int64(pr.Penalty())
		if total < 0 {
			return failf("C28|negative|Producer.TotalAmount|after="+after+"|"+prodClass(p), "producer %d: total deposit %s is negative", p, ela(total))
		}
		if pen < 0 {
			return failf("C28|negative|Producer.Penalty|after="+after+"|"+prodClass(p), "producer %d: penalty %s is negative", p, ela(pen))
		}
		if dep < 0 && soft == nil {
			soft = failf("C28|negative|Producer.DepositAmount|"+prodClass(p)+m.cause(), "producer %d: the locked part of the deposit is %s, so the available amount is %s although only %s sit on the deposit address and penalties are %s", p, ela(dep), ela(int64(pr.AvailableAmount())), ela(m.balance()), ela(pen))
			soft.soft = true
		}
		// what left the deposit address never exceeds what was put in minus penalties minus the
		// required lock — checked for the producer whose coins left the address in this step
		if p == retProd {
			if m.balance() < m.penalties+m.lock(in.h) {
				return failf("C28|deposit-overdraw|ledger|after="+after+"|"+prodClass(p),
					"producer %d: deposited %s, withdrawn %s, so %s remain on the deposit address, less than penalties %s + required lock %s", p, ela(m.deposited), ela(m.withdrawn), ela(m.balance()), ela(m.penalties), ela(m.lock(in.h)))
			}
			if int64(pr.AvailableAmount()) < 0 {
				return failf("C28|negative|Producer.AvailableAmount|after="+after+"|"+prodClass(p), "producer %d: available amount %s is negative after a deposit return", p, ela(int64(pr.AvailableAmount())))
			}
		}
	}
	for a := 0; a < W.nStake; a++ {
		rights, used := int64(in.st.DposV2VoteRights[stakeID[a].stake]), int64(in.st.UsedDposV2Votes[stakeID[a].stake])
		var inForce int64
		for _, v := range in.liveVotes(a) {
			inForce += int64(v.info.Info[0].Votes)
		}
		m := in.stk[a]
		switch {
		case rights < 0:
			return failf("C28|negative|DposV2VoteRights|after="+after, "stake address %d: vote rights %s are negative", a, ela(rights))
		case used < 0:
			return failf("C28|negative|UsedDposV2Votes|after="+after, "stake address %d: used DPoS v2 votes %s are negative", a, ela(used))
		case used > rights:
			return failf("C28|votes-overdraw|used>rights|after="+after, "stake address %d: %s DPoS v2 votes in use with vote rights of only %s", a, ela(used), ela(rights))
		case inForce > rights:
			return failf("C28|votes-overdraw|in-force>rights|after="+after, "stake address %d: votes attached to producers sum to %s with vote rights of only %s (accounted as used: %s)", a, ela(inForce), ela(rights), ela(used))
		case inForce != used:
			return failf("C28|votes-overdraw|used!=attached|after="+after, "stake address %d: %s DPoS v2 votes are accounted as in use but the votes attached to producers sum to %s (vote rights %s)", a, ela(used), ela(inForce), ela(rights))
		case rights > m.staked-m.returned:
			return failf("C28|votes-overdraw|rights>staked|after="+after, "stake address %d: vote rights %s exceed coins staked %s − returned %s", a, ela(rights), ela(m.staked), ela(m.returned))
		}
	}
	return soft
}

// ---- digest -----------------------------------------------------------------------------------

// Digest is the canonical property-relevant state. Dropped: absolute height (every rule used
// here is relative; all activation heights are below baseHeight), transaction hashes / refer keys
// (only used as map keys), nicknames, node keys, the History log, vote BlockHeight (only bounds
// the maximal lock time, 720000 blocks).
func (in *inst) Digest() string {
	var sb strings.Builder
	if W.activeAt != 0 {
		d := int64(W.activeAt) - int64(in.h)
		if d < -1 {
			d = -1
		}
		fmt.Fprintf(&sb, "A%d|", d)
	}
	for p := 0; p < nProducers; p++ {
		m := in.prod[p]
		pr := in.st.GetProducer(ownerID[p].pub)
		if pr == nil {
			sb.WriteString("-|")
			continue
		}
		age := in.h - pr.RegisterHeight()
		if pr.State() != state.Pending || age > 6 {
			age = 9
		}
		cage := uint32(0)
		if pr.CancelHeight() != 0 {
			cage = in.h - pr.CancelHeight()
			if cage > lockupBlocks+1 {
				cage = lockupBlocks + 1
			}
		}
		su := int64(0)
		if pr.Info().StakeUntil != 0 {
			su = int64(pr.Info().StakeUntil) - int64(in.h)
			if su < -1 {
				su = -1
			}
		}
		fmt.Fprintf(&sb, "s%d i%d t%d d%d p%d a%d c%d u%d v%d m[%d %d %v %v %v %v %v]", pr.State(), pr.Identity(), pr.TotalAmount(), pr.DepositAmount(), pr.Penalty(), age, cage, su, pr.DposV2Votes(), m.penalties, m.lock(in.h), m.cancelled, m.recancelled, m.penAfterExpiry, m.penAfterCancel, m.retired)
		vals := make([]int64, 0, len(m.utxos))
		for _, u := range m.utxos {
			vals = append(vals, u.value)
		}
		// the first output is the one a pair of returns splits off; keep order of creation
		fmt.Fprintf(&sb, "x%v|", vals)
	}
	for a := 0; a < W.nStake; a++ {
		m := in.stk[a]
		fmt.Fprintf(&sb, "R%d U%d M%d[", in.st.DposV2VoteRights[stakeID[a].stake], in.st.UsedDposV2Votes[stakeID[a].stake], m.staked-m.returned)
		for _, v := range in.liveVotes(a) {
			fmt.Fprintf(&sb, "%d:%d:%d,", v.prodIdx, v.info.Info[0].Votes, int64(v.info.Info[0].LockTime)-int64(in.h))
		}
		sb.WriteString("]|")
	}
	return sb.String()
}

func ela(v int64) string {
	s := ""
	if v < 0 {
		s, v = "-", -v
	}
	if v%ELA == 0 {
		return fmt.Sprintf("%s%d ELA", s, v/ELA)
	}
	return fmt.Sprintf("%s%d.%08d ELA", s, v/ELA, v%ELA)
}

func sum(us []utxo) int64 {
	var s int64
	for _, u := range us {
		s += u.value
	}
	return s
}

func min64(a, b int64) int64 {
	if a < b {
		return a
	}
	return b
}
