// Node-tier clause of C07: "a block is ACCEPTED only if …". Mutated blocks (sealed header kept,
// transaction list changed) are delivered to a real in-process node (chainkit) in order and as
// orphans (child before parent; grandchild and child before the parent, both orders). Oracle:
// every block the node reports on its active chain, read back from its store, is bound to its
// header — stored ids hash to the header's merkle root under the reference implementation, the
// first transaction is the only coinbase, no id twice — and the well-formed variants do get
// connected (non-vacuity).
package main

import (
	"encoding/json"
	"fmt"
	"time"

	"github.com/elastos/Elastos.ELA/core/types"
	ctypes "github.com/elastos/Elastos.ELA/core/types/common"
	"github.com/elastos/Elastos.ELA/core/types/interfaces"

	"verif/chainkit"
	"verif/evid"
)

type nodeReq struct {
	Base  int `json:"base"`     // number of transfers in the valid block (2 or 3 → 3 or 4 transactions)
	Mut   int `json:"mutation"` // index into mutationNames
	Sched int `json:"schedule"` // index into scheduleNames
}

type nodeViol struct {
	Sig, What string
}

type nodeResp struct {
	Req       nodeReq    `json:"req"`
	Steps     []string   `json:"steps"`
	Viol      []nodeViol `json:"viol"`
	Connected bool       `json:"connected"` // the delivered candidate's hash is on the active chain
	Rule      string     `json:"rule"`      // oracle verdict on the delivered candidate ("" = well formed)
	EngineErr string     `json:"engine_err,omitempty"`
}

var mutationNames = []string{
	"none (well-formed block)",
	"drop last transaction",
	"drop middle transaction",
	"swap two transfers",
	"copy of a transfer appended",
	"last transaction repeated (merkle root unchanged when the count is odd)",
	"last two transactions repeated",
	"transfer replaced by a conflicting transfer",
	"second coinbase inserted after the first",
	"second coinbase appended",
	"coinbase moved to the end",
	"coinbase dropped",
	"all transfers dropped",
	"copy of a transfer inserted next to the original",
}

var scheduleNames = []string{
	"in order: parent, block",
	"orphan: block, parent",
	"orphans: grandchild, block, parent",
	"orphans: block, grandchild, parent",
	"in order with child: parent, block, child",
}

func mutate(mut int, txs []interfaces.Transaction, alt interfaces.Transaction, otherCb interfaces.Transaction) []interfaces.Transaction {
	n := len(txs)
	l := append([]interfaces.Transaction{}, txs...)
	switch mut {
	case 0:
	case 1:
		l = l[:n-1]
	case 2:
		l = append(l[:1:1], l[2:]...)
	case 3:
		l[1], l[2] = l[2], l[1]
	case 4:
		l = append(l, l[1])
	case 5:
		l = append(l, l[n-1])
	case 6:
		l = append(l, l[n-2], l[n-1])
	case 7:
		l[1] = alt
	case 8:
		l = append(l[:1:1], append([]interfaces.Transaction{otherCb}, l[1:]...)...)
	case 9:
		l = append(l, otherCb)
	case 10:
		l = append(l[1:n:n], l[0])
	case 11:
		l = l[1:]
	case 12:
		l = l[:1]
	case 13:
		l = append(l[:2:2], append([]interfaces.Transaction{l[1]}, l[2:]...)...)
	}
	return l
}

// runNodeCase executes one (base, mutation, schedule) on a fresh node.
func runNodeCase(q nodeReq) (resp nodeResp) {
	resp.Req = q
	n, err := chainkit.NewNode(chainkit.Config{CoinbaseMaturity: 1})
	if err != nil {
		resp.EngineErr = "new node: " + err.Error()
		return
	}
	defer n.Close()
	chainkit.Announce(fmt.Sprintf("C07 node case %+v", q))
	parent := n.Genesis()
	var prefix []*types.Block
	for i := 0; i < 2; i++ {
		b := n.BuildBlock(parent, nil, 0)
		if in, orphan, err := n.ProcessBlock(b); err != nil || !in || orphan {
			resp.EngineErr = fmt.Sprintf("prefix block %d not connected: %v", i+1, err)
			return
		}
		prefix = append(prefix, b)
		parent = b
	}
	A, M, C := chainkit.Key("foundation"), chainkit.Key("miner"), chainkit.Key("carol")
	cb1 := prefix[0].Transactions[0]
	op := func(tx interfaces.Transaction, i int) ctypes.OutPoint {
		return ctypes.OutPoint{TxID: tx.Hash(), Index: uint16(i)}
	}
	val := func(i int) chainkit.Out { return chainkit.Out{To: C, Value: cb1.Outputs()[i].Value - 1000} }
	transfers := []interfaces.Transaction{
		chainkit.SignedTransfer(A, []ctypes.OutPoint{op(cb1, 0)}, []chainkit.Out{val(0)}, 70),
		chainkit.SignedTransfer(M, []ctypes.OutPoint{op(cb1, 1)}, []chainkit.Out{val(1)}, 71),
		chainkit.SignedTransfer(A, []ctypes.OutPoint{op(cb1, 2)}, []chainkit.Out{val(2)}, 72),
	}
	alt := chainkit.SignedTransfer(A, []ctypes.OutPoint{op(cb1, 0)}, []chainkit.Out{{To: M, Value: cb1.Outputs()[0].Value - 1000}}, 73)

	b3 := n.BuildBlock(prefix[1], nil, 0)               // the parent, not delivered yet
	valid := n.BuildBlock(b3, transfers[:q.Base], 0)    // the well-formed block at height 4
	otherCb := n.BuildBlock(b3, nil, 1).Transactions[0] // a different coinbase for the same height
	child := n.BuildBlock(valid, nil, 0)                // refers to the candidate by its header hash
	cand := &types.Block{Header: valid.Header, Transactions: mutate(q.Mut, valid.Transactions, alt, otherCb)}
	resp.Rule = oracle([32]byte(cand.Header.MerkleRoot), cand.Transactions)

	deliver := func(name string, b *types.Block) {
		in, orphan, err := n.ProcessBlock(b)
		resp.Steps = append(resp.Steps, fmt.Sprintf("%s: inMain=%v orphan=%v err=%v", name, in, orphan, err != nil))
	}
	switch q.Sched {
	case 0:
		deliver("parent", b3)
		deliver("block", cand)
	case 1:
		deliver("block", cand)
		deliver("parent", b3)
	case 2:
		deliver("grandchild", child)
		deliver("block", cand)
		deliver("parent", b3)
	case 3:
		deliver("block", cand)
		deliver("grandchild", child)
		deliver("parent", b3)
	case 4:
		deliver("parent", b3)
		deliver("block", cand)
		deliver("child", child)
	}

	// oracle: every block on the active chain, as stored, is bound to its header
	chain := n.ActiveChain()
	candHash := cand.Hash()
	for h, hash := range chain {
		if h == 0 {
			continue // the genesis block is a parameter, not an accepted block
		}
		blk, err := n.Chain.GetBlockByHash(hash)
		if err != nil || blk == nil {
			resp.Viol = append(resp.Viol, nodeViol{"C07|node|active-chain-block-unreadable", fmt.Sprintf("block %s at height %d is on the active chain but cannot be read back: %v", chainkit.Short(hash), h, err)})
			continue
		}
		if hash == candHash {
			resp.Connected = true
		}
		if why := oracle([32]byte(blk.Header.MerkleRoot), blk.Transactions); why != "" {
			resp.Viol = append(resp.Viol, nodeViol{"C07|node|accepted|" + why,
				fmt.Sprintf("the active chain holds a block at height %d whose stored transactions break the rule (%s): delivered as \"%s\" after mutation \"%s\" of a %d-transaction block", h, why, scheduleNames[q.Sched], mutationNames[q.Mut], q.Base+1)})
		}
	}
	if resp.Rule == "" && !resp.Connected {
		resp.Viol = append(resp.Viol, nodeViol{"C07|node|well-formed-block-not-connected", fmt.Sprintf("a well-formed block is not on the active chain after schedule \"%s\" (%v)", scheduleNames[q.Sched], resp.Steps)})
	}
	if resp.Rule != "" && resp.Connected && len(resp.Viol) == 0 {
		// the hash is on the chain but the stored content is well formed: the node must have
		// connected something else than what was delivered — cannot happen; engine sanity
		resp.EngineErr = "candidate hash on the active chain with well-formed stored content"
	}
	return
}

func serveNode(req []byte) interface{} {
	var q nodeReq
	if err := json.Unmarshal(req, &q); err != nil {
		return nodeResp{EngineErr: "bad request: " + err.Error()}
	}
	return runNodeCase(q)
}

type nodeStats struct {
	cases, mutantsDelivered, wellFormedConnected, orphanSchedules int
	rules                                                         map[string]int
	samples                                                       []interface{}
}

// nodeTier runs the node clause over the worker pool and reports in request order.
func nodeTier(r *evid.Run, workers int) nodeStats {
	st := nodeStats{rules: map[string]int{}}
	var reqs []interface{}
	for _, base := range []int{2, 3} {
		for mut := range mutationNames {
			for sched := range scheduleNames {
				if r.Quick() && sched == 4 && mut > 7 {
					continue
				}
				reqs = append(reqs, nodeReq{Base: base, Mut: mut, Sched: sched})
			}
		}
	}
	pool, err := chainkit.StartPool(workers)
	if err != nil {
		evid.Fatalf("C07 node tier: pool: %v", err)
	}
	defer pool.Close()
	outs, deaths, err := pool.Map(reqs, time.Now().Add(chainkit.Budget(900)))
	if err != nil {
		evid.Fatalf("C07 node tier: %v", err)
	}
	for _, d := range deaths {
		if f := chainkit.DeathFail(d); f != nil {
			r.Violate("C07|node|"+f.Sig, f.What, map[string]interface{}{"node_case": json.RawMessage(d.Request)})
		} else {
			evid.Fatalf("C07 node tier: worker died on %s: %s", d.Request, d.ExitErr)
		}
	}
	for i, o := range outs {
		if o == nil {
			continue
		}
		var resp nodeResp
		if err := json.Unmarshal(o, &resp); err != nil {
			evid.Fatalf("C07 node tier: response %d: %v", i, err)
		}
		if resp.EngineErr != "" {
			evid.Fatalf("C07 node tier: case %+v: %s", resp.Req, resp.EngineErr)
		}
		st.cases++
		if resp.Rule != "" {
			st.mutantsDelivered++
			st.rules[resp.Rule]++
		} else if resp.Connected {
			st.wellFormedConnected++
		}
		if resp.Req.Sched >= 1 && resp.Req.Sched <= 3 {
			st.orphanSchedules++
		}
		for _, v := range resp.Viol {
			r.Violate(v.Sig, v.What, map[string]interface{}{"node_case": resp.Req, "mutation": mutationNames[resp.Req.Mut], "schedule": scheduleNames[resp.Req.Sched], "steps": resp.Steps})
		}
		if len(st.samples) < 3 && resp.Req.Base == 2 && resp.Req.Sched == 1 && (resp.Req.Mut == 0 || resp.Req.Mut == 3 || resp.Req.Mut == 5) {
			st.samples = append(st.samples, map[string]interface{}{"node_case": resp.Req, "mutation": mutationNames[resp.Req.Mut], "schedule": scheduleNames[resp.Req.Sched], "steps": resp.Steps, "rule_broken": resp.Rule, "on_active_chain": resp.Connected})
		}
	}
	return st
}
