package crkit

import (
	"bytes"
	"encoding/hex"
	"errors"
	"fmt"
	"sort"
	"strconv"
	"strings"

	"github.com/elastos/Elastos.ELA/blockchain"
	"github.com/elastos/Elastos.ELA/common"
	"github.com/elastos/Elastos.ELA/common/config"
	"github.com/elastos/Elastos.ELA/core/types"
	common2 "github.com/elastos/Elastos.ELA/core/types/common"
	"github.com/elastos/Elastos.ELA/core/types/outputpayload"
	"github.com/elastos/Elastos.ELA/core/types/payload"
	crstate "github.com/elastos/Elastos.ELA/cr/state"
)

// World interprets operation names as blocks for a Fixture. Everything a builder needs is read
// from the committee's public state or derived from labels, except the voters' current vote
// outputs (kept here; a World is only ever moved forward, rollbacks happen on differential
// copies fed with the already-built blocks).
//
// Operation grammar (one block per operation unless noted):
//
//	e | e2 | e3 ...            n blocks with a coinbase only
//	fund                       100000 ELA to the CR assets address
//	reg:<c> upd:<c> unreg:<c>  register / rename / unregister CR candidate c (c1..c4)
//	claim:<c>:<n>              council member c claims DPoS node key n (n1..n4)
//	claimnext:<c>:<n>          elected next member c claims node key n during the claim period
//	ret:<c>                    candidate c spends the deposit output of his registration
//	vote:<v>:<pat>             voter v replaces his CR candidate vote output (patterns below)
//	unvote:<v>                 voter v spends his vote output into a plain one
//	rej:<v>:<P>:<big|small>    voter v votes against proposal P during public review
//	imp:<v>:<c>:<big|small>    voter v impeaches council member c
//	prop:<P>:<c>               normal proposal P (3 budget stages) sponsored by council member c
//	propbig:<P>:<c>            the same with a budget above 10 % of the committee's funds
//	propneg:<P>:<c>:<i>        normal proposal whose stage at position i (0, 1, 2) is negative (total 10 ELA)
//	propz:<P>:<c>              normal proposal with a zero middle stage
//	propni:<P>:<c>             normal proposal without imprest (stages 1, 2, 3)
//	propoo:<P>:<c>             normal proposal whose budgets are listed out of stage order
//	elip:<P>:<c>               ELIP proposal (imprest + final)
//	sg:<P>:<c>                 secretary-general proposal (new SG key sg2)
//	close:<P>:<T>:<c>          proposal P closing proposal T
//	chown:<P>:<T>:<c>          proposal P handing proposal T to owner own2 / recipient of own2
//	rev:<c>:<P>:<a|r|s>        review by member c: approve / reject / abstain
//	rev2:<P>:<a|r|s>           both elected members review in one block
//	trk:<P>:<kind>[:<stage>]   tracking: common progress rejected terminated changeowner finalized
//	wd:<P>[:over|:under]       withdrawal request for everything currently withdrawable (+1 / -1)
//	approp[:over]              the appropriation transaction (amount = AppropriationAmount [+1])
//	realwd                     the real-withdraw transaction paying every pending request
//	a+b                        the transactions of a and b in one block
type World struct {
	*Fixture
	voteOut map[string]*common2.Input // voter label -> his current (vote) output
	nonce   uint64

	// Skip, when set, suppresses the node's verdict for an operation (used for replaying a
	// prefix that was validated before; the verdicts are deterministic).
	Skip func(op string) bool
}

var ErrNA = errors.New("not applicable")

// Voters are the labels of the voter keys; each starts with one plain 10M ELA output (a vote
// output must sit on an address that also appears among the transaction's inputs).
var Voters = []string{"v1", "v2", "vr", "vi"}

func NewWorld(p *config.Configuration) *World {
	w := &World{Fixture: NewFixture(p), voteOut: map[string]*common2.Input{}}
	for _, l := range Voters {
		in := In(common.Hash([]byte("verif-utxo-"+l)), 0)
		w.Outs[in.ReferKey()] = *plainOut(K(l).Addr, 10000000*ELA)
		w.voteOut[l] = in
	}
	return w
}

var votePatterns = map[string][]struct {
	c string
	v common.Fixed64
}{
	"a": {{"c1", 30}, {"c2", 20}, {"c3", 10}},
	"b": {{"c3", 30}, {"c1", 5}},
	"c": {{"c4", 40}, {"c2", 10}},
	"d": {{"c2", 25}},
}

// Big is an amount above the 10 % of circulation that cancels a proposal / impeaches a member.
const Big = 5000000 * ELA
const Small = 1000 * ELA

func amt(s string) (common.Fixed64, error) {
	switch s {
	case "big":
		return Big, nil
	case "small":
		return Small, nil
	}
	return 0, fmt.Errorf("bad amount %q", s)
}

// Owner of proposal label P at registration.
func OwnerOf(label string) *Key { return K("own-" + label) }

var knownOwners = []string{"own-A", "own-B", "own-C", "own-D", "own-E", "own2"}

func keyByPub(pub []byte) *Key {
	for _, l := range knownOwners {
		if k := K(l); bytes.Equal(k.Pub, pub) {
			return k
		}
	}
	return nil
}

// PHash is the hash of proposal label P as built by this world (sponsor-independent labels map
// to one sponsor each: the registry below is filled when a proposal is first built).
func (w *World) propTx(kind, label, sponsor string, target string) (Tx, error) {
	m := K(sponsor)
	own := OwnerOf(label)
	switch kind {
	case "prop":
		return ProposalNormal(label, payload.Normal, own, m, own.Addr, Budget3(10*ELA, 20*ELA, 30*ELA)), nil
	case "propni": // no imprest: stages 1, 2 (normal payments) and 3 (final)
		return ProposalNormal(label, payload.Normal, own, m, own.Addr, []payload.Budget{
			{Type: payload.NormalPayment, Stage: 1, Amount: 10 * ELA}, {Type: payload.NormalPayment, Stage: 2, Amount: 20 * ELA},
			{Type: payload.FinalPayment, Stage: 3, Amount: 30 * ELA}}), nil
	case "propoo": // the three usual stages, listed out of stage order in the payload
		return ProposalNormal(label, payload.Normal, own, m, own.Addr, []payload.Budget{
			{Type: payload.FinalPayment, Stage: 2, Amount: 30 * ELA}, {Type: payload.Imprest, Stage: 0, Amount: 10 * ELA},
			{Type: payload.NormalPayment, Stage: 1, Amount: 20 * ELA}}), nil
	case "propneg": // one stage (target: 0 imprest, 1 middle, 2 final) negative, total 10 ELA
		amounts := [][3]common.Fixed64{{-5 * ELA, 10 * ELA, 5 * ELA}, {100 * ELA, -95 * ELA, 5 * ELA}, {100 * ELA, 5 * ELA, -95 * ELA}}
		i, err := strconv.Atoi(target)
		if err != nil || i < 0 || i > 2 {
			return nil, fmt.Errorf("bad stage position %q", target)
		}
		return ProposalNormal(label, payload.Normal, own, m, own.Addr, Budget3(amounts[i][0], amounts[i][1], amounts[i][2])), nil
	case "propz": // a zero middle stage (allowed by the node)
		return ProposalNormal(label, payload.Normal, own, m, own.Addr, Budget3(10*ELA, 0, 30*ELA)), nil
	case "propbig": // asks for more than a tenth of what the committee may spend in this term
		a := (w.C.CRCCurrentStageAmount-w.C.CommitteeUsedAmount)/10 + ELA
		return ProposalNormal(label, payload.Normal, own, m, own.Addr, Budget3(a/4, a/4, a/2)), nil
	case "elip":
		return ProposalNormal(label, payload.ELIP, own, m, own.Addr, []payload.Budget{
			{Type: payload.Imprest, Stage: 0, Amount: 10 * ELA}, {Type: payload.FinalPayment, Stage: 1, Amount: 30 * ELA}}), nil
	case "sg":
		return ProposalSecretaryGeneral(label, own, m, K("sg2")), nil
	case "close":
		t := w.FindProposal(target)
		if t == nil {
			return nil, ErrNA
		}
		return ProposalClose(label, own, m, t.Proposal.Hash), nil
	case "chown":
		t := w.FindProposal(target)
		if t == nil {
			return nil, ErrNA
		}
		cur := keyByPub(t.ProposalOwner)
		if cur == nil {
			return nil, ErrNA
		}
		// the change-owner proposal is owned (and signed) by the target's current owner
		p := ProposalChangeOwner(label, cur, m, K("own2"), t.Proposal.Hash, K("own2").Addr)
		return p, nil
	}
	return nil, fmt.Errorf("bad proposal kind %q", kind)
}

// FindProposal returns the state of the proposal registered under draft label P, or nil.
func (w *World) FindProposal(label string) *crstate.ProposalState {
	return w.C.GetProposalByDraftHash(draftHash(label))
}

func (w *World) electedMembers() []string {
	var out []string
	for _, l := range []string{"c1", "c2", "c3", "c4"} {
		if m := w.C.GetMember(K(l).DID); m != nil && m.MemberState == crstate.MemberElected {
			out = append(out, l)
		}
	}
	return out
}

// build returns the transactions of one single (non-composite) operation.
func (w *World) build(op string) ([]Tx, error) {
	f := strings.Split(op, ":")
	arg := func(i int) string {
		if i < len(f) {
			return f[i]
		}
		return ""
	}
	n := uint64(w.Height+1)<<16 | w.nonce
	w.nonce++
	switch f[0] {
	case "fund":
		return []Tx{Fund(K("treasury"), *w.P.CRConfiguration.CRAssetsProgramHash, 100000*ELA, n)}, nil
	case "reg":
		return []Tx{RegisterCR(K(arg(1)), "nick-"+arg(1), 5000*ELA)}, nil
	case "upd":
		c := w.C.GetCandidate(K(arg(1)).CID)
		nick := "nick-" + arg(1) + "-x"
		if c != nil && c.Info.NickName == nick {
			nick = "nick-" + arg(1)
		}
		return []Tx{UpdateCR(K(arg(1)), nick)}, nil
	case "unreg":
		return []Tx{UnregisterCR(K(arg(1)))}, nil
	case "claim":
		return []Tx{ClaimNode(K(arg(1)), K("node-"+arg(2)), payload.CurrentCRClaimDPoSNodeVersion)}, nil
	case "claimnext":
		return []Tx{ClaimNode(K(arg(1)), K("node-"+arg(2)), payload.NextCRClaimDPoSNodeVersion)}, nil
	case "ret":
		// the candidate takes back the deposit of his (last) registration, paying a 0.01 ELA fee
		k := K(arg(1))
		var in *common2.Input
		var val common.Fixed64
		for _, b := range w.Blocks {
			for _, tx := range b.Transactions {
				if tx.TxType() != common2.RegisterCR {
					continue
				}
				if info, ok := tx.Payload().(*payload.CRInfo); ok && info.CID.IsEqual(k.CID) {
					in, val = In(tx.Hash(), 0), tx.Outputs()[0].Value
				}
			}
		}
		if in == nil || w.spent(in.ReferKey()) {
			return nil, ErrNA
		}
		tx := newTx(common2.ReturnCRDepositCoin, 0, &payload.ReturnDepositCoin{}, []*common2.Input{in},
			[]*common2.Output{plainOut(k.Addr, val-ELA/100)}, prog(k))
		return []Tx{tx}, nil
	case "vote":
		pat, ok := votePatterns[arg(2)]
		if !ok {
			return nil, fmt.Errorf("bad pattern %q", arg(2))
		}
		var cvs []CV
		var sum common.Fixed64
		for _, e := range pat {
			cvs = append(cvs, CV{K(e.c).CID.Bytes(), e.v * ELA})
			sum += e.v * ELA
		}
		return []Tx{VoteTx(K(arg(1)), w.voteOut[arg(1)], outputpayload.CRC, cvs, sum, n)}, nil
	case "unvote":
		if o, ok := w.Outs[w.voteOut[arg(1)].ReferKey()]; !ok || o.Type != common2.OTVote {
			return nil, ErrNA
		}
		return []Tx{VoteTx(K(arg(1)), w.voteOut[arg(1)], 0xff, nil, Small, n)}, nil
	case "rej":
		ps := w.FindProposal(arg(2))
		if ps == nil {
			return nil, ErrNA
		}
		a, err := amt(arg(3))
		if err != nil {
			return nil, err
		}
		return []Tx{VoteTx(K(arg(1)), w.voteOut[arg(1)], outputpayload.CRCProposal, []CV{{ps.Proposal.Hash.Bytes(), a}}, a, n)}, nil
	case "imp":
		a, err := amt(arg(3))
		if err != nil {
			return nil, err
		}
		return []Tx{VoteTx(K(arg(1)), w.voteOut[arg(1)], outputpayload.CRCImpeachment, []CV{{K(arg(2)).CID.Bytes(), a}}, a, n)}, nil
	case "prop", "elip", "sg", "propbig", "propni", "propoo", "propz":
		tx, err := w.propTx(f[0], arg(1), arg(2), "")
		if err != nil {
			return nil, err
		}
		return []Tx{tx}, nil
	case "propneg":
		tx, err := w.propTx(f[0], arg(1), arg(2), arg(3))
		if err != nil {
			return nil, err
		}
		return []Tx{tx}, nil
	case "close", "chown":
		tx, err := w.propTx(f[0], arg(1), arg(3), arg(2))
		if err != nil {
			return nil, err
		}
		return []Tx{tx}, nil
	case "rev", "rev2":
		var label, res string
		var members []string
		if f[0] == "rev" {
			members, label, res = []string{arg(1)}, arg(2), arg(3)
		} else {
			members, label, res = w.electedMembers(), arg(1), arg(2)
			if len(members) < 2 {
				return nil, ErrNA
			}
		}
		ps := w.FindProposal(label)
		if ps == nil {
			return nil, ErrNA
		}
		r, ok := map[string]payload.VoteResult{"a": payload.Approve, "r": payload.Reject, "s": payload.Abstain}[res]
		if !ok {
			return nil, fmt.Errorf("bad review result %q", res)
		}
		var txs []Tx
		for _, m := range members {
			txs = append(txs, Review(K(m), ps.Proposal.Hash, r))
		}
		return txs, nil
	case "trk":
		ps := w.FindProposal(arg(1))
		if ps == nil {
			return nil, ErrNA
		}
		own := keyByPub(ps.ProposalOwner)
		if own == nil {
			return nil, ErrNA
		}
		sgk := w.sgKey()
		if sgk == nil {
			return nil, ErrNA
		}
		typ, ok := map[string]payload.CRCProposalTrackingType{"common": payload.Common, "progress": payload.Progress,
			"rejected": payload.Rejected, "terminated": payload.Terminated, "changeowner": payload.ChangeOwner,
			"finalized": payload.Finalized}[arg(2)]
		if !ok {
			return nil, fmt.Errorf("bad tracking kind %q", arg(2))
		}
		var stage uint8
		switch typ {
		case payload.Progress, payload.Rejected:
			stage = 1
		case payload.Finalized:
			for _, b := range ps.Proposal.Budgets {
				if b.Type == payload.FinalPayment {
					stage = b.Stage
				}
			}
		}
		if arg(3) != "" {
			s, err := strconv.Atoi(arg(3))
			if err != nil {
				return nil, err
			}
			stage = uint8(s)
		}
		var newOwner *Key
		if typ == payload.ChangeOwner {
			newOwner = K("own2")
		}
		return []Tx{Tracking(typ, ps.Proposal.Hash, stage, own, newOwner, sgk, fmt.Sprintf("%s-%d", op, w.Height+1))}, nil
	case "wd":
		ps := w.FindProposal(arg(1))
		if ps == nil {
			return nil, ErrNA
		}
		own := keyByPub(ps.ProposalOwner)
		if own == nil {
			return nil, ErrNA
		}
		a := w.C.AvailableWithdrawalAmount(ps.Proposal.Hash)
		switch arg(2) {
		case "over":
			a++
		case "under":
			a--
		}
		// the fee is paid from a coin of the owner (1 ELA in, 0.99 ELA change)
		feeIn := In(common.Hash([]byte(fmt.Sprintf("verif-fee-%d", n))), 0)
		w.Outs[feeIn.ReferKey()] = *plainOut(own.Addr, ELA)
		tx := Withdraw(ps.Proposal.Hash, own, ps.Recipient, a, n)
		tx.SetInputs([]*common2.Input{feeIn})
		tx.SetOutputs([]*common2.Output{plainOut(own.Addr, ELA-ELA/100)})
		return []Tx{tx}, nil
	case "approp":
		return w.appropriation(arg(1) == "over")
	case "realwd":
		return w.realWithdraw()
	}
	return nil, fmt.Errorf("unknown operation %q", op)
}

func (w *World) sgKey() *Key {
	cur := w.C.GetProposalManager().SecretaryGeneralPublicKey
	for _, l := range []string{"sg", "sg2"} {
		if common.BytesToHexString(K(l).Pub) == cur {
			return K(l)
		}
	}
	return nil
}

// unspent outputs of an address among the outputs the committee tracks, in sorted key order.
func (w *World) tracked(m map[string]common.Fixed64) ([]*common2.Input, common.Fixed64) {
	var ks []string
	for k := range m {
		ks = append(ks, k)
	}
	sort.Strings(ks)
	var ins []*common2.Input
	var sum common.Fixed64
	for _, k := range ks {
		if w.spent(k) {
			continue
		}
		raw, err := hex.DecodeString(k)
		if err != nil {
			continue
		}
		op, err := common2.OutPointFromBytes(raw)
		if err != nil {
			continue
		}
		ins = append(ins, &common2.Input{Previous: *op})
		sum += m[k]
	}
	return ins, sum
}

// spent: an outpoint is spent if some processed transaction has it as input.
func (w *World) spent(referKey string) bool {
	for _, b := range w.Blocks {
		for _, tx := range b.Transactions {
			for _, in := range tx.Inputs() {
				if in.ReferKey() == referKey {
					return true
				}
			}
		}
	}
	return false
}

func (w *World) appropriation(over bool) ([]Tx, error) {
	ins, sum := w.tracked(w.C.GetState().CRCFoundationOutputs)
	a := w.C.AppropriationAmount
	if over {
		a++
	}
	if len(ins) == 0 || sum < a {
		return nil, ErrNA
	}
	return []Tx{Appropriation(ins, *w.P.CRConfiguration.CRExpensesProgramHash, *w.P.CRConfiguration.CRAssetsProgramHash, a, sum-a)}, nil
}

func (w *World) realWithdraw() ([]Tx, error) {
	info := w.C.GetRealWithdrawTransactions()
	if len(info) == 0 {
		return nil, ErrNA
	}
	var hs []common.Uint256
	for h := range info {
		hs = append(hs, h)
	}
	sort.Slice(hs, func(i, j int) bool { return hs[i].Compare(hs[j]) < 0 })
	fee := w.P.CRConfiguration.RealWithdrawSingleFee
	var outs []*common2.Output
	var need common.Fixed64
	for _, h := range hs {
		outs = append(outs, plainOut(info[h].Recipient, info[h].Amount-fee))
		need += info[h].Amount
	}
	ins, sum := w.tracked(w.C.GetState().CRCCommitteeOutputs)
	if sum < need {
		return nil, ErrNA
	}
	if sum > need {
		outs = append(outs, plainOut(*w.P.CRConfiguration.CRExpensesProgramHash, sum-need))
	}
	return []Tx{RealWithdraw(hs, ins, outs)}, nil
}

// Offer builds the block for op and asks the node for its verdict on every transaction in it
// (in block order, budgets of earlier proposals in the block counted as used). It returns the
// blocks to process (several for e<n>), or the first rejection.
func (w *World) Offer(op string) ([]*types.Block, error) {
	if len(op) >= 1 && op[0] == 'e' && (len(op) == 1 || (op[1] >= '0' && op[1] <= '9')) {
		n := 1
		if len(op) > 1 {
			var err error
			if n, err = strconv.Atoi(op[1:]); err != nil || n < 1 {
				return nil, fmt.Errorf("bad operation %q", op)
			}
		}
		return make([]*types.Block, n), nil // nil entries: built when processed
	}
	var txs []Tx
	w.nonce = 0
	for _, part := range strings.Split(op, "+") {
		t, err := w.build(part)
		if err != nil {
			return nil, err
		}
		txs = append(txs, t...)
	}
	if w.Skip == nil || !w.Skip(op) {
		var used common.Fixed64
		for _, tx := range txs {
			if err := w.Check(tx, used); err != nil {
				return nil, err
			}
			if p, ok := tx.Payload().(*payload.CRCProposal); ok {
				for _, b := range p.Budgets {
					used += b.Amount
				}
			}
		}
	}
	blk := w.MakeBlock(txs...)
	if w.Skip == nil || !w.Skip(op) {
		if err := CheckBlockRules(blk); err != nil {
			return nil, err
		}
	}
	return []*types.Block{blk}, nil
}

// CheckBlockRules applies the block-scoped transaction rules of BlockChain.CheckBlockSanity that
// do not need a chain: no duplicate transaction, no input spent twice inside the block, and the
// repository's CheckDuplicateTx (duplicate producer / CR / side-chain transactions).
func CheckBlockRules(b *types.Block) error {
	ids := map[common.Uint256]bool{}
	ins := map[string]bool{}
	for _, tx := range b.Transactions {
		if ids[tx.Hash()] {
			return errors.New("block contains duplicate transaction")
		}
		ids[tx.Hash()] = true
		for _, in := range tx.Inputs() {
			if ins[in.ReferKey()] {
				return errors.New("block contains duplicate UTXO")
			}
			ins[in.ReferKey()] = true
		}
	}
	return blockchain.CheckDuplicateTx(b)
}

// Apply processes the blocks returned by Offer.
func (w *World) Apply(blocks []*types.Block) {
	for _, b := range blocks {
		if b == nil {
			b = w.MakeBlock()
		}
		w.Process(b)
		w.noteVotes(b)
	}
}

// noteVotes tracks each voter's current output (index 0 of his last vote/unvote transaction).
func (w *World) noteVotes(b *types.Block) {
	for _, tx := range b.Transactions {
		if tx.TxType() != common2.TransferAsset || len(tx.Programs()) == 0 || len(tx.Outputs()) == 0 {
			continue
		}
		for _, l := range Voters {
			if bytes.Equal(tx.Programs()[0].Code, K(l).Code) && tx.Outputs()[0].ProgramHash.IsEqual(K(l).Addr) {
				w.voteOut[l] = In(tx.Hash(), 0)
			}
		}
	}
}

// VoteOutKey is the refer key of voter v's current output.
func (w *World) VoteOutKey(v string) string {
	if in := w.voteOut[v]; in != nil {
		return in.ReferKey()
	}
	return ""
}

// Kind strips the parameters from an operation name ("rev:c1:A:a" -> "rev", "trk:A:progress" ->
// "trk:progress"): the transaction kind used in violation signatures.
func Kind(op string) string {
	var ks []string
	for _, part := range strings.Split(op, "+") {
		f := strings.Split(part, ":")
		k := f[0]
		if k == "trk" && len(f) > 2 {
			k += ":" + f[2]
		}
		if len(k) > 1 && k[0] == 'e' && k[1] >= '0' && k[1] <= '9' {
			k = "e"
		}
		ks = append(ks, k)
	}
	return strings.Join(ks, "+")
}
