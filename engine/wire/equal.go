package wire

import (
	"fmt"
	"reflect"
	"time"

	"github.com/elastos/Elastos.ELA/core/types/interfaces"
)

// Equal is reflect-level structural equality with the normalisations the wire format cannot
// distinguish: nil ≡ empty slice, nil pointer ≡ nil pointer only, time compared by instant.
// Unexported fields named hash / txHash are memoised digests, not part of the value, and are
// skipped. Transactions (whose fields are all unexported) are compared through their accessors.
// It returns the path of the first difference.
func Equal(a, b interface{}) (bool, string) {
	d := eq(reflect.ValueOf(a), reflect.ValueOf(b), "", true)
	return d == "", d
}

// EqualUnsigned compares two transactions ignoring their programs.
func EqualUnsigned(a, b interfaces.Transaction) (bool, string) {
	d := txEq(a, b, "tx", false)
	return d == "", d
}

var tTx = reflect.TypeOf((*interfaces.Transaction)(nil)).Elem()

// diffAt: a difference at the root has an empty path, which must not read as "equal".
func diffAt(path string) string {
	if path == "" {
		return "(value)"
	}
	return path
}

func isCache(name string) bool { return name == "hash" || name == "txHash" }

func txEq(a, b interfaces.Transaction, path string, programs bool) string {
	if a == nil || b == nil {
		if a == nil && b == nil {
			return ""
		}
		return path + ": nil vs non-nil"
	}
	type pair struct {
		n    string
		x, y interface{}
	}
	ps := []pair{
		{"Version", a.Version(), b.Version()},
		{"TxType", a.TxType(), b.TxType()},
		{"PayloadVersion", a.PayloadVersion(), b.PayloadVersion()},
		{"Payload", a.Payload(), b.Payload()},
		{"Attributes", a.Attributes(), b.Attributes()},
		{"Inputs", a.Inputs(), b.Inputs()},
		{"Outputs", a.Outputs(), b.Outputs()},
		{"LockTime", a.LockTime(), b.LockTime()},
	}
	if programs {
		ps = append(ps, pair{"Programs", a.Programs(), b.Programs()})
	}
	for _, p := range ps {
		if d := eq(reflect.ValueOf(p.x), reflect.ValueOf(p.y), path+"."+p.n, true); d != "" {
			return d
		}
	}
	return ""
}

func eq(a, b reflect.Value, path string, top bool) string {
	if !a.IsValid() || !b.IsValid() {
		if a.IsValid() == b.IsValid() {
			return ""
		}
		// untyped nil vs typed nil pointer/slice
		x := a
		if !x.IsValid() {
			x = b
		}
		switch x.Kind() {
		case reflect.Ptr, reflect.Slice, reflect.Interface, reflect.Map:
			if x.IsNil() || (x.Kind() == reflect.Slice && x.Len() == 0) {
				return ""
			}
		}
		return path + ": nil vs value"
	}
	if a.Type() != b.Type() {
		return fmt.Sprintf("%s: type %s vs %s", path, a.Type(), b.Type())
	}
	if a.CanInterface() {
		if a.Type().Implements(tTx) && a.Kind() == reflect.Ptr {
			if a.IsNil() || b.IsNil() {
				if a.IsNil() == b.IsNil() {
					return ""
				}
				return path + ": nil vs non-nil"
			}
			return txEq(a.Interface().(interfaces.Transaction), b.Interface().(interfaces.Transaction), path, true)
		}
		if a.Type() == tTime {
			if !a.Interface().(time.Time).Equal(b.Interface().(time.Time)) {
				return path + ": time differs"
			}
			return ""
		}
	}
	switch a.Kind() {
	case reflect.Bool:
		if a.Bool() != b.Bool() {
			return diffAt(path)
		}
	case reflect.Int, reflect.Int8, reflect.Int16, reflect.Int32, reflect.Int64:
		if a.Int() != b.Int() {
			return diffAt(path)
		}
	case reflect.Uint, reflect.Uint8, reflect.Uint16, reflect.Uint32, reflect.Uint64, reflect.Uintptr:
		if a.Uint() != b.Uint() {
			return diffAt(path)
		}
	case reflect.Float32, reflect.Float64:
		if a.Float() != b.Float() {
			return diffAt(path)
		}
	case reflect.String:
		if a.String() != b.String() {
			return diffAt(path)
		}
	case reflect.Slice:
		if a.Len() != b.Len() { // nil ≡ empty
			return fmt.Sprintf("%s: len %d vs %d", path, a.Len(), b.Len())
		}
		for i := 0; i < a.Len(); i++ {
			if d := eq(a.Index(i), b.Index(i), fmt.Sprintf("%s[%d]", path, i), false); d != "" {
				return d
			}
		}
	case reflect.Array:
		for i := 0; i < a.Len(); i++ {
			if d := eq(a.Index(i), b.Index(i), fmt.Sprintf("%s[%d]", path, i), false); d != "" {
				return d
			}
		}
	case reflect.Ptr, reflect.Interface:
		if a.IsNil() || b.IsNil() {
			if a.IsNil() == b.IsNil() {
				return ""
			}
			return path + ": nil vs non-nil"
		}
		return eq(a.Elem(), b.Elem(), path, false)
	case reflect.Struct:
		t := a.Type()
		for i := 0; i < t.NumField(); i++ {
			sf := t.Field(i)
			if sf.PkgPath != "" && isCache(sf.Name) {
				continue
			}
			if d := eq(a.Field(i), b.Field(i), path+"."+sf.Name, false); d != "" {
				return d
			}
		}
	case reflect.Map:
		if a.Len() != b.Len() {
			return path + ": map len"
		}
		for _, k := range a.MapKeys() {
			bv := b.MapIndex(k)
			if !bv.IsValid() {
				return path + ": map key"
			}
			if d := eq(a.MapIndex(k), bv, path+"[k]", false); d != "" {
				return d
			}
		}
	case reflect.Func, reflect.Chan:
		// not part of a wire value
	}
	return ""
}
