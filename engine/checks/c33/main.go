// C33: side-chain withdrawals need the arbiter quorum and are single-use.
//
// (a) verdicts of WithdrawFromSideChain.SpecialContextCheck on a light node with a controlled
// arbiter set (n = 4, 12; 33 and 36 for the V2 signer indexes): V2 signer-index lists (every list of length <= 4 over
// {0,1,n-1,n,255}, for n = 12 appended to 8 distinct existing signers) x heights around the
// restriction height x eras x program-code variants x reference mixes; V0/V1 multi-signature
// codes (m, n byte, key-list variants incl. foreign / reordered / duplicate keys, one or two
// programs) x reference mixes.
// Oracle: accepted => only cross-chain UTXOs, the required number of (from the restriction
// height on: distinct) existing arbiters, code = aggregate / script of exactly those keys.
// (b) single use: fully valid signed withdrawals v0/v1/v2; the same side-chain hash offered again
// in a later block, in the same block, in the pool (after the chain, after the pool).
// One worker subprocess per (part, n, era): the fixture installs process globals.
package main

import (
	"encoding/json"
	"fmt"
	"os"
	"path/filepath"
	"sort"

	"verif/evid"
	"verif/hx"
	"verif/par"
)

func jobList(r *evid.Run) []string {
	var jobs []string
	for _, n := range []int{4, 12} {
		for _, e := range eras(n) {
			jobs = append(jobs, fmt.Sprintf("v2|%d|%s", n, e.Name))
		}
		jobs = append(jobs, fmt.Sprintf("ms|%d", n))
	}
	// arbiter sets beyond 32 members (mainnet has 36): V2 signer-index handling only
	for _, n := range []int{33, 36} {
		for _, e := range []string{"council", "dpos-nodes"} {
			jobs = append(jobs, fmt.Sprintf("v2|%d|%s", n, e))
		}
	}
	jobs = append(jobs, "single", "sigs")
	return jobs
}

func runJob(r *evid.Run, scr, job string) interface{} {
	var kind, eraName string
	var n int
	if job == "single" {
		return runSingle(scr)
	}
	if job == "sigs" {
		f := newFixtureB(scr)
		defer f.node.Close()
		return f.runSignatureSets()
	}
	if _, err := fmt.Sscanf(job, "ms|%d", &n); err == nil {
		f := newFixtureA(scr, n)
		defer f.node.Close()
		return f.runMS(r.Thorough())
	}
	parts := splitJob(job)
	if len(parts) == 3 && parts[0] == "v2" {
		kind = parts[0]
		fmt.Sscanf(parts[1], "%d", &n)
		eraName = parts[2]
		f := newFixtureA(scr, n)
		defer f.node.Close()
		return f.runV2(eraName, r.Thorough())
	}
	evid.Fatalf("unknown job %q (%s)", job, kind)
	return nil
}

func splitJob(s string) []string {
	var out []string
	cur := ""
	for _, c := range s {
		if c == '|' {
			out = append(out, cur)
			cur = ""
		} else {
			cur += string(c)
		}
	}
	return append(out, cur)
}

func main() {
	r := evid.Start("C33", "exploration")
	scr := evid.Scratch("c33")
	defer os.RemoveAll(scr)
	hx.QuietLogs(filepath.Join(scr, "log"))

	if job, ok := par.Worker(); ok {
		par.Announce(job)
		par.Emit(runJob(r, scr, job))
		os.RemoveAll(scr)
		return
	}

	if r.Replay != "" {
		replay(r, scr)
		return
	}

	jobs := jobList(r)
	results := par.Procs(jobs, scr, par.Opts{Timeout: 25 * 60e9, MemMB: 6144, Env: []string{"GOMAXPROCS=2"}})
	var evals, accepted, panics int64
	classes := &evid.Distinct{}
	panicSites := map[string]int{}
	samples := &evid.Samples{N: 10}
	var singleN, repRej, repAcc, sigN int
	var poolPool []string
	singleClasses := &evid.Distinct{}
	perJob := map[string]interface{}{}
	for i, w := range results {
		if w.Died || w.Out == nil {
			os.RemoveAll(scr)
			evid.Fatalf("worker %s died (timeout=%v, announced %q): %s", jobs[i], w.TimedOut, w.Announced, w.Stderr)
		}
		if jobs[i] == "sigs" {
			var xs []sigRes
			if err := json.Unmarshal(w.Out, &xs); err != nil {
				os.RemoveAll(scr)
				evid.Fatalf("sigs worker output: %v", err)
			}
			sigN = len(xs)
			judgeSignatureSets(r, xs, singleClasses)
			continue
		}
		if jobs[i] == "single" {
			var xs []singleRes
			if err := json.Unmarshal(w.Out, &xs); err != nil {
				os.RemoveAll(scr)
				evid.Fatalf("single worker output: %v", err)
			}
			singleN = len(xs)
			repRej, repAcc = judgeSingle(r, xs, singleClasses)
			for _, x := range xs {
				if x.Second == 2 && x.First == 1 && x.Layout == "" {
					samples.Add(x)
				}
				if x.Scenario == "pool-pool" && x.RepeatAccepted {
					poolPool = append(poolPool, fmt.Sprintf("v%d then v%d", x.First, x.Second))
				}
			}
			continue
		}
		var x v2Result
		if err := json.Unmarshal(w.Out, &x); err != nil {
			os.RemoveAll(scr)
			evid.Fatalf("worker output %s: %v", jobs[i], err)
		}
		evals += x.Evals
		accepted += x.Accepted
		panics += x.Panics
		classes.Merge(x.Classes)
		for k, v := range x.PanicSites {
			panicSites[k] += v
		}
		for _, v := range x.Violations {
			r.MergeViolation(v)
		}
		for _, s := range x.Samples {
			samples.Add(s)
		}
		perJob[jobs[i]] = map[string]int64{"evaluations": x.Evals, "accepted": x.Accepted, "panics": x.Panics}
	}
	os.RemoveAll(scr)
	var sites []string
	for k, v := range panicSites {
		sites = append(sites, fmt.Sprintf("%s x%d", k, v))
	}
	sort.Strings(sites)
	r.Assume = append(r.Assume,
		"required number, per height, from the parameters: 2/3 of the council from CRClaimDPOSNodeStartHeight up to but excluding DPOSNodeCrossChainHeight (V1: everywhere below it), 2/3+1 before and from DPOSNodeCrossChainHeight on; a named start height belongs to the era it starts; before the restriction height a repeated signer index is tolerated (legacy behaviour pinned by the repository's own test), an index that names no arbiter is not",
		"a panic of the checker (before the C03 repair: out-of-range signer index before the restriction height) counts as 'not accepted' here and is counted in checker_panics",
		"part (a) judges SpecialContextCheck verdicts (signatures are verified later by the common path); part (b) uses fully signed transactions through CheckTransactionSanity/CheckTransactionContext, CheckDuplicateTx and TxPool.AppendToTxPoolWithoutEvent",
		"ArbitratorsMock reports the current arbitrators as the cross-chain arbiters; the CRC arbitrators are set to the same keys")
	r.Finish(evid.Coverage{
		"evaluations":            evals + int64(singleN) + int64(sigN),
		"signature_set_verdicts": sigN,
		"distinct_nontrivial":    classes.Len() + singleClasses.Len(),
		"rule": "(a) SpecialContextCheck verdicts: V2 signer lists (all lists of length <=4 over {0,1,n-1,n,255}; n=12: appended to 8 distinct existing signers) x 4 eras (3 at {R-1,R,R+1}; the boundary era at -1/=/+1 around CRClaimDPOSNodeStartHeight and DPOSNodeCrossChainHeight) x 6 program variants x 6 reference mixes (quick: variants crossed one dimension at a time); V0/V1: 9 key-list variants x m in {1,req-1,req,req+1,n,n+1} x n byte in {len,len+1,len-1} x {single, valid-first, valid-last} x reference mixes x 4 eras x their heights; accepted => oracle clauses. " +
			"(a-sig) fully built V0/V1 withdrawals whose 3-of-4 program is signed by 12 arbiter multisets (one arbiter signing 2-4 times with distinct valid signatures, m-1 arbiters plus a second signature of one of them, too few, controls) through CheckTransactionSanity+Context: accepted => signatures of at least m DISTINCT arbiters; (b) 3x3 (first, repeat) payload versions x {later-block, same-block, pool-after-chain, pool-pool} with fully signed transactions, plus 8 output layouts (repeated hash among change and other withdraw outputs) per version pair; a repeat must be refused, controls (first, fresh hash) must be accepted. non-trivial = distinct (version, era, band, variant, verdict) classes",
		"exhaustive":                 true,
		"verdicts":                   evals,
		"verdicts_accepted":          accepted,
		"checker_panics":             panics,
		"checker_panic_sites":        sites,
		"per_job":                    perJob,
		"single_use_scenarios":       singleN,
		"single_use_repeat_refused":  repRej,
		"single_use_repeat_accepted": repAcc,
		"pool_pool_same_hash_both_admitted (observation, not judged)": poolPool,
		"single_use_classes": singleClasses.Map(),
		"samples":            samples.Out,
	})
}

func replay(r *evid.Run, scr string) {
	var a struct {
		Kind string          `json:"kind"`
		Case json.RawMessage `json:"case"`
	}
	sig := r.LoadReplay(&a)
	fmt.Printf("replaying %s\n", sig)
	switch a.Kind {
	case "v2":
		var c caseV2
		json.Unmarshal(a.Case, &c)
		f := newFixtureA(scr, c.N)
		for _, e := range eras(c.N) {
			if e.Name != c.Era {
				continue
			}
			v, prefixes, progs, ok := f.evalV2(c, f.node.Config(e.Tweak))
			fmt.Printf("case %+v: built=%v verdict=%s\n", c, ok, v.String())
			if ok && v.Accepted() {
				if clause, what := f.judgeV2(c, prefixes, progs); clause != "" {
					r.Violate(fmt.Sprintf("C33|quorum|v2|%s|%s", clause, band(c.H)), what, map[string]interface{}{"kind": "v2", "case": c})
				}
			}
		}
		f.node.Close()
	case "ms":
		var c caseMS
		json.Unmarshal(a.Case, &c)
		f := newFixtureA(scr, c.N)
		for _, e := range eras(c.N) {
			if e.Name != c.Era {
				continue
			}
			v, prefixes := f.evalMS(c, f.node.Config(e.Tweak))
			fmt.Printf("case %+v: verdict=%s\n", c, v.String())
			if v.Accepted() {
				if clause, what := f.judgeMS(c, prefixes); clause != "" {
					r.Violate(fmt.Sprintf("C33|quorum|v%d|%s|era=%s", c.Version, clause, c.Era), what, map[string]interface{}{"kind": "ms", "case": c})
				}
			}
		}
		f.node.Close()
	case "signature-set":
		f := newFixtureB(scr)
		xs := f.runSignatureSets()
		for _, x := range xs {
			fmt.Printf("%+v\n", x)
		}
		judgeSignatureSets(r, xs, &evid.Distinct{})
		f.node.Close()
	case "single-use":
		var c singleRes
		json.Unmarshal(a.Case, &c)
		xs := runSingle(scr)
		var sel []singleRes
		for _, x := range xs {
			if x.Scenario == c.Scenario && x.First == c.First && x.Second == c.Second && x.Layout == c.Layout {
				fmt.Printf("%+v\n", x)
				sel = append(sel, x)
			}
		}
		judgeSingle(r, sel, &evid.Distinct{})
	}
	os.RemoveAll(scr)
	r.Finish(evid.Coverage{})
}
