package main

import (
	"fmt"
	"math/big"

	"github.com/elastos/Elastos.ELA/common"
	"github.com/elastos/Elastos.ELA/core/contract/program"
	"github.com/elastos/Elastos.ELA/core/types"
	common2 "github.com/elastos/Elastos.ELA/core/types/common"
	"github.com/elastos/Elastos.ELA/core/types/functions"
	"github.com/elastos/Elastos.ELA/core/types/interfaces"
	"github.com/elastos/Elastos.ELA/core/types/payload"

	"verif/dposkit"
)

// Family B: the end of a round. clearingDPOSReward (hook dpos/state/clearing_verif_c27.go) is
// driven for smoothClearing true (normal change) and false (forced change), for every shape of
// family A with the configured 3 normal seats, every participant holding 3 votes, a menu of
// accumulated rewards and of transaction fees in the clearing block. Conservation across the
// round boundary: payouts to non-destroy addresses + change + reward carried into the next round
// must not exceed accumulated reward + DPoS reward of the clearing block.

type clearingCase struct {
	Kind        string `json:"kind"` // "clearing"
	Shape       caseT  `json:"shape"`
	Accumulated int64  `json:"accumulated"`
	Fee         int64  `json:"block_fees"`
	Smooth      bool   `json:"smooth_clearing"`
}

var clearingAccumulated = []int64{0, 1, 7, 100000001, 100000000000}
var clearingFees = []int64{0, 100000000}

func (w *world) evalClearing(sk *dposkit.Sink, c *clearingCase) (ok bool) {
	dposkit.InitFunctions()
	height := w.setup(&c.Shape)
	var txs []interfaces.Transaction
	if c.Fee > 0 {
		tx := functions.CreateTransaction(common2.TxVersion09, common2.TransferAsset, 0, &payload.TransferAsset{},
			[]*common2.Attribute{}, []*common2.Input{}, []*common2.Output{}, 0, []*program.Program{})
		tx.SetFee(common.Fixed64(c.Fee))
		txs = append(txs, tx)
	}
	block := &types.Block{Header: common2.Header{Height: height}, Transactions: txs}
	round, change, carried, blockReward, err := w.a.VerifClearingDPOSReward(block, common.Fixed64(c.Accumulated), c.Smooth)
	if err != nil {
		return false
	}
	if round == nil && change == 0 && carried == common.Fixed64(c.Accumulated) {
		panic("clearingDPOSReward did nothing: harness heights below PublicDPOSHeight?")
	}
	pool := new(big.Int).Add(big.NewInt(c.Accumulated), big.NewInt(int64(blockReward)))
	spent := new(big.Int).Add(big.NewInt(int64(change)), big.NewInt(int64(carried)))
	neg := false
	for k, v := range round {
		if v < 0 {
			neg = true
		}
		if !k.IsEqual(*w.params.DestroyELAProgramHash) {
			spent.Add(spent, big.NewInt(int64(v)))
		}
	}
	class := fmt.Sprintf("smooth=%v", c.Smooth)
	if (neg || change < 0 || carried < 0) && !sk.Seen("C27|clearing-negative-amount|"+class) {
		sk.Violate("C27|clearing-negative-amount|"+class, fmt.Sprintf("clearing stored a negative payout, change %d or carried reward %d (%s, accumulated %d, fees %d)", int64(change), int64(carried), &c.Shape, c.Accumulated, c.Fee), *c)
	}
	if spent.Cmp(pool) > 0 && !sk.Seen("C27|clearing-pays-more-than-the-pool|"+class) {
		sk.Violate("C27|clearing-pays-more-than-the-pool|"+class,
			fmt.Sprintf("round end: payouts to non-destroy addresses + change %d + reward carried forward %d = %s exceed accumulated %d + block reward %d (%s)",
				int64(change), int64(carried), spent, c.Accumulated, int64(blockReward), &c.Shape), *c)
	}
	return true
}

// clearingFamily enumerates family B on one world (sequential: 34 k cheap evaluations).
func clearingFamily(sk *dposkit.Sink, sh []caseT) (evals, succeeded int64) {
	w := newWorld()
	for _, base := range sh {
		if base.normal() != cfgNormal {
			continue
		}
		c := base
		c.Votes = make([]int64, slots(&base))
		for i := range c.Votes {
			c.Votes[i] = 3
		}
		for _, acc := range clearingAccumulated {
			for _, fee := range clearingFees {
				for _, smooth := range []bool{true, false} {
					cc := clearingCase{Kind: "clearing", Shape: c, Accumulated: acc, Fee: fee, Smooth: smooth}
					evals++
					if w.evalClearing(sk, &cc) {
						succeeded++
					}
				}
			}
		}
	}
	return
}
