package chainkit

// Persistent worker processes for node-tier checks.
//
// A node-tier execution needs a process of its own (repository globals), and a fresh process is
// slow for its first executions on this image (every first touch of heap memory is a slow page
// fault; steady state is 5-10 ms per fresh node, the first ten executions cost 100-600 ms each).
// par.Procs starts one process per job; Pool keeps N copies of the current binary alive and
// feeds them requests over a pipe pair (fd 3 requests, fd 4 responses, one JSON document per
// line), so warm-up is paid once per run.
//
//	in main():   if chainkit.Serve(func(req []byte) interface{} { ... }) { return }
//	parent:      p := chainkit.StartPool(n); defer p.Close()
//	             outs, deaths, err := p.Map(reqs, deadline) // outs[i] answers reqs[i]; nil = not run
//
// Requests are handed out one at a time to whichever worker is idle (dynamic balancing); results
// come back in request order, so nothing downstream depends on scheduling. A worker that dies is
// replaced and its request retried once on the fresh worker; a second death on the same request
// is reported as a Death (crash of the code under test vs. resource kill is told apart from the
// worker's output), never as a silent loss. Workers whose resident set grows past RecycleRSSMiB
// are replaced between requests.

import (
	"bufio"
	"bytes"
	"encoding/json"
	"fmt"
	"os"
	"os/exec"
	"sort"
	"strings"
	"sync"
	"syscall"
	"time"
)

const poolEnv = "CHAINKIT_POOL_WORKER"

// RequestTimeout bounds one request; a worker that does not answer in time is killed and Map
// returns an error (a hang is an engine error, never a verdict).
var RequestTimeout = 10 * time.Minute

// Serve turns this process into a pool worker if it was started by StartPool and returns true
// when the parent closed the request pipe. handler runs one request; its result is marshalled
// as the response. Returns false immediately in any other process.
func Serve(handler func(req []byte) interface{}) bool {
	if os.Getenv(poolEnv) == "" {
		return false
	}
	in := os.NewFile(3, "requests")
	out := os.NewFile(4, "responses")
	rd := bufio.NewReaderSize(in, 1<<20)
	wr := bufio.NewWriter(out)
	for {
		line, err := rd.ReadBytes('\n')
		if len(line) > 0 {
			resp := handler(bytes.TrimSpace(line))
			b, merr := json.Marshal(resp)
			if merr != nil {
				fmt.Fprintln(os.Stderr, "chainkit pool worker: marshal:", merr)
				os.Exit(2)
			}
			wr.Write(b)
			wr.WriteByte('\n')
			wr.Flush()
		}
		if err != nil {
			break
		}
	}
	Cleanup()
	return true
}

// tailBuffer keeps the last tailMax bytes written to it (worker stdout+stderr).
type tailBuffer struct {
	mu sync.Mutex
	b  []byte
}

const tailMax = 32 << 10

func (t *tailBuffer) Write(p []byte) (int, error) {
	t.mu.Lock()
	t.b = append(t.b, p...)
	if len(t.b) > 2*tailMax {
		t.b = append([]byte{}, t.b[len(t.b)-tailMax:]...)
	}
	t.mu.Unlock()
	return len(p), nil
}

func (t *tailBuffer) String() string {
	t.mu.Lock()
	defer t.mu.Unlock()
	b := t.b
	if len(b) > tailMax {
		b = b[len(b)-tailMax:]
	}
	return string(b)
}

type poolWorker struct {
	cmd    *exec.Cmd
	req    *os.File
	resp   *bufio.Reader
	respF  *os.File
	stderr *tailBuffer
	dead   bool
	served int
}

const announceMark = "##EXEC "

// Announce is called by a worker before it executes a history: if the process then dies, the
// parent finds the history in the tail of the worker's output (Death.Announced).
func Announce(s string) {
	if os.Getenv(poolEnv) == "" {
		return
	}
	fmt.Fprintln(os.Stderr, announceMark+s)
	// self-test knobs of the death handling (never set in a normal run)
	if k := os.Getenv("CHAINKIT_TEST_KILL"); k != "" && s == k {
		syscall.Kill(os.Getpid(), syscall.SIGKILL)
		time.Sleep(time.Second)
	}
	if k := os.Getenv("CHAINKIT_TEST_PANIC"); k != "" && s == k {
		go func() { panic("chainkit self-test: panic in a goroutine of the worker") }()
		time.Sleep(time.Second)
	}
}

// Death describes a request whose worker died twice in a row (once on the worker that happened
// to hold it, once on a fresh worker).
type Death struct {
	Index     int
	Request   string
	Announced string // last history announced by the second worker
	Tail      string // tail of the second worker's output, announcements removed
	ExitErr   string
}

// Crashed reports whether the worker's own output shows a Go panic / fatal error of the code
// under test (as opposed to the process being killed from outside, or running out of memory).
func (d Death) Crashed() bool {
	t := d.Tail
	if strings.Contains(t, "out of memory") || strings.Contains(t, "cannot allocate memory") {
		return false
	}
	return strings.Contains(t, "panic:") || strings.Contains(t, "fatal error:") || strings.Contains(t, "[signal SIG")
}

// RecycleRSSMiB: a worker whose resident set exceeds this after a request is replaced by a
// fresh process (0 = never).
var RecycleRSSMiB = 1536

// Pool is a set of live worker processes of the current binary.
type Pool struct {
	ws  []*poolWorker
	env []string
	// Restarts counts workers replaced after a death or for recycling.
	Restarts int
	mu       sync.Mutex
}

// StartPool launches n workers (same binary, same arguments). env is appended to the
// environment; GOMAXPROCS=1 is set unless env overrides it (one process per core; a single P
// avoids long stop-the-world stalls on an oversubscribed machine), and GODEBUG=madvdontneed=0
// (freed heap pages stay resident, so the 4 MiB goleveldb memtables every fresh node allocates
// are not page-faulted in again each time).
func StartPool(n int, env ...string) (*Pool, error) {
	p := &Pool{env: env}
	for i := 0; i < n; i++ {
		w, err := p.spawn()
		if err != nil {
			p.Close()
			return nil, err
		}
		p.ws = append(p.ws, w)
	}
	return p, nil
}

func (p *Pool) spawn() (*poolWorker, error) {
	self, err := os.Executable()
	if err != nil {
		return nil, err
	}
	reqR, reqW, err := os.Pipe()
	if err != nil {
		return nil, err
	}
	respR, respW, err := os.Pipe()
	if err != nil {
		return nil, err
	}
	w := &poolWorker{req: reqW, respF: respR, resp: bufio.NewReaderSize(respR, 1<<20), stderr: &tailBuffer{}}
	cmd := exec.Command(self, os.Args[1:]...)
	cmd.Env = append(os.Environ(), poolEnv+"=1", "GOMAXPROCS=1", "GODEBUG=madvdontneed=0")
	cmd.Env = append(cmd.Env, p.env...)
	cmd.ExtraFiles = []*os.File{reqR, respW}
	cmd.Stdout = w.stderr
	cmd.Stderr = w.stderr
	if err := cmd.Start(); err != nil {
		return nil, err
	}
	reqR.Close()
	respW.Close()
	w.cmd = cmd
	return w, nil
}

// retire ends a worker (politely first) and releases its pipes.
func retire(w *poolWorker, kill bool) string {
	if w.req != nil {
		w.req.Close()
	}
	exit := ""
	if w.cmd != nil {
		if kill && w.cmd.Process != nil {
			w.cmd.Process.Kill()
		}
		done := make(chan error, 1)
		go func() { done <- w.cmd.Wait() }()
		select {
		case err := <-done:
			if err != nil {
				exit = err.Error()
			}
		case <-time.After(10 * time.Second):
			w.cmd.Process.Kill()
			if err := <-done; err != nil {
				exit = err.Error()
			}
		}
	}
	if w.respF != nil {
		w.respF.Close()
	}
	w.dead = true
	return exit
}

func rssMiB(pid int) int {
	b, err := os.ReadFile(fmt.Sprintf("/proc/%d/statm", pid))
	if err != nil {
		return 0
	}
	var size, res int
	fmt.Sscanf(string(b), "%d %d", &size, &res)
	return res * os.Getpagesize() >> 20
}

// Budget returns def seconds unless VERIF_BUDGET_S overrides it (internal time cap of a check:
// reaching it ends the run with exhaustive:false, never with a verdict).
func Budget(def int) time.Duration {
	if s := os.Getenv("VERIF_BUDGET_S"); s != "" {
		var n int
		if _, err := fmt.Sscanf(s, "%d", &n); err == nil && n > 0 {
			return time.Duration(n) * time.Second
		}
	}
	return time.Duration(def) * time.Second
}

// Size is the number of workers.
func (p *Pool) Size() int { return len(p.ws) }

// exchange sends one request to w and reads the answer.
func exchange(w *poolWorker, b []byte) ([]byte, error) {
	if _, err := w.req.Write(append(b, '\n')); err != nil {
		return nil, err
	}
	w.respF.SetReadDeadline(time.Now().Add(RequestTimeout))
	line, err := w.resp.ReadBytes('\n')
	if err != nil {
		return nil, err
	}
	return bytes.TrimSpace(line), nil
}

func splitTail(t string) (announced, rest string) {
	var keep []string
	for _, l := range strings.Split(t, "\n") {
		if strings.HasPrefix(l, announceMark) {
			announced = strings.TrimPrefix(l, announceMark)
			continue
		}
		keep = append(keep, l)
	}
	rest = strings.Join(keep, "\n")
	if len(rest) > 6000 {
		rest = rest[:1500] + "\n...\n" + rest[len(rest)-4500:]
	}
	return
}

// Map runs every request on some worker and returns the raw JSON responses in request order.
// Requests not started before the deadline stay nil (zero deadline = none). A worker that dies
// (or does not answer within RequestTimeout) is replaced and its request is retried once on the
// fresh worker; a request that kills the fresh worker too is reported in deaths (its response
// stays nil) and the run goes on. err is set only if workers cannot be started any more.
func (p *Pool) Map(reqs []interface{}, deadline time.Time) (outs [][]byte, deaths []Death, err error) {
	outs = make([][]byte, len(reqs))
	var mu sync.Mutex
	next := 0
	var firstErr error
	var wg sync.WaitGroup
	for slot := range p.ws {
		wg.Add(1)
		go func(slot int) {
			defer wg.Done()
			for {
				mu.Lock()
				if firstErr != nil || next >= len(reqs) || (!deadline.IsZero() && time.Now().After(deadline)) {
					mu.Unlock()
					return
				}
				i := next
				next++
				mu.Unlock()
				b, merr := json.Marshal(reqs[i])
				if merr != nil {
					mu.Lock()
					firstErr = merr
					mu.Unlock()
					return
				}
				for attempt := 0; ; attempt++ {
					w := p.ws[slot]
					var line []byte
					var xerr error
					if w.dead {
						xerr = fmt.Errorf("worker not running")
					} else {
						line, xerr = exchange(w, b)
					}
					if xerr == nil {
						outs[i] = line
						w.served++
						if RecycleRSSMiB > 0 && w.cmd.Process != nil && rssMiB(w.cmd.Process.Pid) > RecycleRSSMiB {
							retire(w, false)
							nw, serr := p.spawn()
							mu.Lock()
							p.Restarts++
							if serr != nil && firstErr == nil {
								firstErr = serr
							}
							mu.Unlock()
							if serr != nil {
								return
							}
							p.ws[slot] = nw
						}
						break
					}
					exit := retire(w, true)
					announced, tail := splitTail(w.stderr.String())
					nw, serr := p.spawn()
					mu.Lock()
					p.Restarts++
					if attempt >= 1 {
						deaths = append(deaths, Death{Index: i, Request: string(b), Announced: announced, Tail: tail, ExitErr: xerr.Error() + " / " + exit})
					}
					if serr != nil && firstErr == nil {
						firstErr = serr
					}
					mu.Unlock()
					if serr != nil {
						return
					}
					p.ws[slot] = nw
					if attempt >= 1 {
						break
					}
				}
			}
		}(slot)
	}
	wg.Wait()
	sort.Slice(deaths, func(a, b int) bool { return deaths[a].Index < deaths[b].Index })
	return outs, deaths, firstErr
}

// Close ends the workers (they remove their scratch on the way out).
func (p *Pool) Close() {
	for _, w := range p.ws {
		if w != nil && !w.dead && w.req != nil {
			w.req.Close()
			w.req = nil
		}
	}
	for _, w := range p.ws {
		if w != nil && !w.dead {
			retire(w, false)
		}
	}
	p.ws = nil
}
