// C38: secret key material comes from the secure random source — non-interference oracle by
// exhaustive enumeration of environment answers.
//
// Every key-material-producing entry point of the closed list below is executed in its own
// worker subprocess under every combination of harness-owned environment answers:
//
//	crypto/rand.Reader  := constant-byte counting stream, c ∈ {0x11, 0x22, 0x33}
//	global math/rand    := rand.Seed(s), s ∈ {1, 2, 3}
//	wall clock          := two repetitions per (c, s) (the clock differs between them)
//
// and the secret it produced (or the public value that is an injective image of the secret:
// the r half of a signature for a nonce, the ephemeral public key for an ECIES key) is
// compared over every pair of runs of the same entry point:
//
//	(i)   equal c  ⇒ equal secret (whatever the math/rand seed and the clock were)
//	(ii)  different c ⇒ different secret
//	(iii) bytes drawn from crypto/rand.Reader ≥ secret bytes produced
//
// The property quantifies over programs; what is decided here is the behaviour of the listed
// entry points. The importers of math/rand in account/, crypto/, wallet/ are printed as
// information only.
package main

import (
	crand "crypto/rand"
	"crypto/sha256"
	"encoding/binary"
	"encoding/hex"
	"encoding/json"
	"fmt"
	"go/parser"
	"go/token"
	"math/big"
	mrand "math/rand"
	"os"
	"path/filepath"
	"sort"
	"strconv"
	"strings"
	"time"

	"github.com/elastos/Elastos.ELA/account"
	"github.com/elastos/Elastos.ELA/crypto"

	"verif/evid"
	"verif/hx"
	"verif/par"
)

// countingReader is the harness-owned secure source: constant bytes (so the runtime's
// MaybeReadByte cannot perturb results), counting what is drawn.
type countingReader struct {
	c byte
	n int64
}

func (r *countingReader) Read(p []byte) (int, error) {
	for i := range p {
		p[i] = r.c
	}
	r.n += int64(len(p))
	return len(p), nil
}

// counterReader is the second harness-owned secure source: a stream without repetition (block i
// is SHA-256 of the counter i), counting what is drawn. Any code that keeps reusing bytes it has
// already consumed yields repeated secrets under it.
type counterReader struct {
	ctr uint64
	buf []byte
	n   int64
}

func (r *counterReader) Read(p []byte) (int, error) {
	for i := range p {
		if len(r.buf) == 0 {
			var c [8]byte
			binary.BigEndian.PutUint64(c[:], r.ctr)
			h := sha256.Sum256(c[:])
			r.buf = h[:]
			r.ctr++
		}
		p[i] = r.buf[0]
		r.buf = r.buf[1:]
	}
	r.n += int64(len(p))
	return len(p), nil
}

type entry struct {
	Name        string
	SecretBytes int // bytes of secret material the entry point creates
	What        string
	Run         func(scratch string) ([]byte, error)
}

var fixedPriv = func() []byte {
	b := make([]byte, 32)
	for i := range b {
		b[i] = byte(0x40 + i)
	}
	return b
}()

var password = []byte("verif-c38-password")

// keystoreSecrets reads IV and master key back from the keystore file the client wrote, using
// only the repository's public helpers (the same steps NewClient(create=false) performs).
func keystoreSecrets(path string) ([]byte, error) {
	b, err := os.ReadFile(path)
	if err != nil {
		return nil, err
	}
	var fd account.FileData
	if err := json.Unmarshal(b, &fd); err != nil {
		return nil, err
	}
	iv, err := hex.DecodeString(fd.IV)
	if err != nil {
		return nil, err
	}
	emk, err := hex.DecodeString(fd.MasterKey)
	if err != nil {
		return nil, err
	}
	mk, err := crypto.AesDecrypt(emk, crypto.ToAesKey(password), iv)
	if err != nil {
		return nil, err
	}
	if len(iv) != 16 || len(mk) != 32 {
		return nil, fmt.Errorf("keystore: iv %d bytes, master key %d bytes", len(iv), len(mk))
	}
	return append(iv, mk...), nil
}

func entries() []entry {
	msg := []byte("message signed by the C38 harness")
	var digest [32]byte
	for i := range digest {
		digest[i] = byte(i * 7)
	}
	schnorrKeys := func(n int) []*big.Int {
		var ks []*big.Int
		for i := 0; i < n; i++ {
			k := new(big.Int).SetBytes(fixedPriv)
			ks = append(ks, k.Add(k, big.NewInt(int64(i*1000003))))
		}
		return ks
	}
	return []entry{
		{"account.NewClient(create)", 48, "keystore IV (16) + master key (32)", func(scr string) ([]byte, error) {
			p := filepath.Join(scr, "keystore.dat")
			if cl := account.NewClient(p, password, true); cl == nil {
				return nil, fmt.Errorf("NewClient returned nil")
			}
			return keystoreSecrets(p)
		}},
		{"account.Client.CreateAccount", 32, "private key of the new account", func(scr string) ([]byte, error) {
			p := filepath.Join(scr, "keystore.dat")
			cl := account.NewClient(p, password, true)
			if cl == nil {
				return nil, fmt.Errorf("NewClient returned nil")
			}
			acc, err := cl.CreateAccount()
			if err != nil {
				return nil, err
			}
			return pad32(acc.PrivateKey), nil
		}},
		{"account.Create", 32, "private key of the main account of a new keystore", func(scr string) ([]byte, error) {
			cl, err := account.Create(filepath.Join(scr, "keystore.dat"), password)
			if err != nil {
				return nil, err
			}
			return pad32(cl.GetMainAccount().PrivateKey), nil
		}},
		{"account.NewAccount", 32, "private key", func(string) ([]byte, error) {
			acc, err := account.NewAccount()
			if err != nil {
				return nil, err
			}
			return pad32(acc.PrivateKey), nil
		}},
		{"crypto.GenerateKeyPair", 32, "private key", func(string) ([]byte, error) {
			priv, _, err := crypto.GenerateKeyPair()
			return pad32(priv), err
		}},
		{"crypto.Sign", 32, "ECDSA nonce (observed through r)", func(string) ([]byte, error) {
			sig, err := crypto.Sign(fixedPriv, msg)
			if err != nil {
				return nil, err
			}
			if err := crypto.Verify(*crypto.NewPubKey(fixedPriv), msg, sig); err != nil {
				return nil, fmt.Errorf("signature does not verify: %v", err)
			}
			return sig[:32], nil
		}},
		{"crypto.SignDigest", 32, "ECDSA nonce (observed through r)", func(string) ([]byte, error) {
			sig, err := crypto.SignDigest(fixedPriv, digest[:])
			if err != nil {
				return nil, err
			}
			return sig[:32], nil
		}},
		{"crypto.AggregateSignatures(1 key)", 32, "Schnorr nonce (observed through r)", func(string) ([]byte, error) {
			sig, err := crypto.AggregateSignatures(schnorrKeys(1), digest)
			return sig[:32], err
		}},
		{"crypto.AggregateSignatures(3 keys)", 96, "3 Schnorr nonces (observed through the aggregated r)", func(string) ([]byte, error) {
			sig, err := crypto.AggregateSignatures(schnorrKeys(3), digest)
			return sig[:32], err
		}},
		{"crypto.Encrypt", 32, "ECIES ephemeral private key (observed through the ephemeral public key)", func(string) ([]byte, error) {
			ct, err := crypto.Encrypt(crypto.NewPubKey(fixedPriv), msg)
			if err != nil {
				return nil, err
			}
			if len(ct) < 65 {
				return nil, fmt.Errorf("ciphertext too short")
			}
			return ct[:65], nil
		}},
	}
}

// repeatOf: calls per process in the counter-stream family (keystore entry points write files).
func repeatOf(e entry, thorough bool) int {
	k := 256
	if strings.HasPrefix(e.Name, "account.NewClient") || strings.HasPrefix(e.Name, "account.Client") || e.Name == "account.Create" {
		k = 96
	}
	if thorough {
		k *= 4
	}
	return k
}

// judgeMulti: secrets produced by k calls in one process under a repetition-free secure stream
// must be pairwise distinct, and the secure bytes drawn must grow with the number of calls.
func judgeMulti(r *evid.Run, e entry, o multiOut) (distinct int) {
	first := map[string]int{}
	rep := -1
	for i, s := range o.Secrets {
		if j, ok := first[s]; ok {
			if rep < 0 {
				rep = i
				r.Violate("C38|repeated-secret|"+e.Name,
					fmt.Sprintf("%s: %s repeats within one process although the secure stream never repeats (reuse of already consumed random bytes)", e.Name, e.What),
					map[string]interface{}{"entry": e.Name, "kind": "multi", "calls": o.Calls, "first_call": j, "repeated_at_call": i, "secret": s})
			}
		} else {
			first[s] = i
		}
	}
	if need := int64(e.SecretBytes) * int64(len(o.Secrets)); o.Drawn < need {
		r.Violate("C38|secure-bytes-sublinear|"+e.Name,
			fmt.Sprintf("%s: %d calls create %d secret bytes each but fewer bytes were drawn from crypto/rand.Reader in total", e.Name, len(o.Secrets), e.SecretBytes),
			map[string]interface{}{"entry": e.Name, "kind": "multi", "calls": o.Calls, "drawn": o.Drawn, "needed": need})
	}
	return len(first)
}

func runMulti(idx, k int, scr string) multiOut {
	rs := par.Procs([]string{fmt.Sprintf("m|%d|%d", idx, k)}, scr, par.Opts{Timeout: 5 * time.Minute, Parallel: 1})
	var o multiOut
	if rs[0].Died || rs[0].Out == nil {
		evid.Fatalf("multi-call worker for entry %d died: %s", idx, rs[0].Stderr)
	}
	if err := json.Unmarshal(rs[0].Out, &o); err != nil {
		evid.Fatalf("worker output: %v", err)
	}
	if o.Err != "" {
		evid.Fatalf("entry point %s failed under the counter stream: %s", o.Entry, o.Err)
	}
	return o
}

func pad32(b []byte) []byte {
	if len(b) >= 32 {
		return b
	}
	out := make([]byte, 32)
	copy(out[32-len(b):], b)
	return out
}

type runOut struct {
	Entry  string `json:"entry"`
	C      int    `json:"secure_stream_byte"`
	S      int64  `json:"mathrand_seed"`
	Rep    int    `json:"repetition"`
	Secret string `json:"secret_hex"`
	Drawn  int64  `json:"secure_bytes_drawn"`
	Err    string `json:"err,omitempty"`
}

type multiOut struct {
	Entry   string   `json:"entry"`
	Calls   int      `json:"calls"`
	Secrets []string `json:"secrets_hex"`
	Drawn   int64    `json:"secure_bytes_drawn"`
	Err     string   `json:"err,omitempty"`
}

// multiWorker calls one entry point k times in this process under the counter stream.
func multiWorker(idx, k int) {
	scr := evid.Scratch("c38w")
	defer os.RemoveAll(scr)
	hx.QuietLogs(scr)
	e := entries()[idx]
	cr := &counterReader{}
	crand.Reader = cr
	mrand.Seed(1)
	null, _ := os.OpenFile(os.DevNull, os.O_WRONLY, 0)
	saved := os.Stdout
	os.Stdout = null
	out := multiOut{Entry: e.Name, Calls: k}
	for i := 0; i < k; i++ {
		d := filepath.Join(scr, fmt.Sprintf("call%d", i))
		os.MkdirAll(d, 0o755)
		secret, err := e.Run(d)
		os.RemoveAll(d)
		if err != nil {
			out.Err = fmt.Sprintf("call %d: %v", i, err)
			break
		}
		out.Secrets = append(out.Secrets, hex.EncodeToString(secret))
	}
	os.Stdout = saved
	out.Drawn = cr.n
	par.Emit(out)
}

func workerMain(job string) {
	// job = entryIndex|c|s|rep   or   m|entryIndex|k   or   f|entryIndex|fault
	f := strings.Split(job, "|")
	if f[0] == "f" {
		idx, _ := strconv.Atoi(f[1])
		faultWorker(idx, f[2])
		return
	}
	if f[0] == "m" {
		idx, _ := strconv.Atoi(f[1])
		k, _ := strconv.Atoi(f[2])
		multiWorker(idx, k)
		return
	}
	idx, _ := strconv.Atoi(f[0])
	c, _ := strconv.Atoi(f[1])
	s, _ := strconv.ParseInt(f[2], 10, 64)
	rep, _ := strconv.Atoi(f[3])
	scr := evid.Scratch("c38w")
	defer os.RemoveAll(scr)
	hx.QuietLogs(scr)
	e := entries()[idx]
	// environment answers
	cr := &countingReader{c: byte(c)}
	crand.Reader = cr
	mrand.Seed(s)
	// keep the repository's chatter (fmt.Println in account) out of the result
	null, _ := os.OpenFile(os.DevNull, os.O_WRONLY, 0)
	saved := os.Stdout
	os.Stdout = null
	out := runOut{Entry: e.Name, C: c, S: s, Rep: rep}
	secret, err := e.Run(scr)
	os.Stdout = saved
	out.Drawn = cr.n
	if err != nil {
		out.Err = err.Error()
	} else {
		out.Secret = hex.EncodeToString(secret)
	}
	par.Emit(out)
}

var cs = []int{0x11, 0x22, 0x33}
var ss = []int64{1, 2, 3}

var reps = 2

func runEntry(idx int, scr string) []runOut {
	var jobs []string
	for _, c := range cs {
		for _, s := range ss {
			for rep := 0; rep < reps; rep++ {
				jobs = append(jobs, fmt.Sprintf("%d|%d|%d|%d", idx, c, s, rep))
			}
		}
	}
	rs := par.Procs(jobs, scr, par.Opts{Timeout: 2 * time.Minute, Parallel: 6})
	var outs []runOut
	for _, r := range rs {
		var o runOut
		if r.Died || r.Out == nil {
			evid.Fatalf("worker for %s died: %s", r.Job, r.Stderr)
		}
		if err := json.Unmarshal(r.Out, &o); err != nil {
			evid.Fatalf("worker output: %v", err)
		}
		if o.Err != "" {
			evid.Fatalf("entry point %s failed under the harness environment: %s", o.Entry, o.Err)
		}
		outs = append(outs, o)
	}
	return outs
}

type stats struct {
	runs, pairs, pairsSameC, pairsDiffC int
}

// judge evaluates the three clauses over every pair of runs of one entry point.
func judge(r *evid.Run, e entry, outs []runOut, st *stats) {
	st.runs += len(outs)
	var variesIdentical, variesSeed, independent *[2]runOut
	for i := 0; i < len(outs); i++ {
		for j := i + 1; j < len(outs); j++ {
			a, b := outs[i], outs[j]
			st.pairs++
			if a.C == b.C {
				st.pairsSameC++
				if a.Secret != b.Secret {
					p := [2]runOut{a, b}
					if a.S == b.S {
						if variesIdentical == nil {
							variesIdentical = &p
						}
					} else if variesSeed == nil {
						variesSeed = &p
					}
				}
			} else {
				st.pairsDiffC++
				if a.Secret == b.Secret && independent == nil {
					p := [2]runOut{a, b}
					independent = &p
				}
			}
		}
	}
	art := func(p *[2]runOut) map[string]interface{} {
		return map[string]interface{}{"entry": e.Name, "runs": []map[string]interface{}{
			{"c": p[0].C, "s": p[0].S, "rep": p[0].Rep, "secret": p[0].Secret, "drawn": p[0].Drawn},
			{"c": p[1].C, "s": p[1].S, "rep": p[1].Rep, "secret": p[1].Secret, "drawn": p[1].Drawn}}}
	}
	if variesIdentical != nil {
		r.Violate("C38|varies-with-clock-or-hidden-state|"+e.Name,
			fmt.Sprintf("%s: %s differs between two runs with the same secure stream AND the same math/rand seed (only the clock / process state differs): the secret is not a function of the secure source", e.Name, e.What), art(variesIdentical))
	} else if variesSeed != nil {
		// only reported when identical environments agree, so the math/rand seed is the cause
		r.Violate("C38|varies-with-mathrand-seed|"+e.Name,
			fmt.Sprintf("%s: %s changes with the seed of the global math/rand generator while the secure stream is unchanged", e.Name, e.What), art(variesSeed))
	}
	if independent != nil {
		r.Violate("C38|independent-of-secure-source|"+e.Name,
			fmt.Sprintf("%s: %s is identical under two different secure streams", e.Name, e.What), art(independent))
	}
	for _, o := range outs {
		if o.Drawn < int64(e.SecretBytes) {
			r.Violate("C38|secure-bytes-short|"+e.Name,
				fmt.Sprintf("%s creates %d secret bytes (%s) but drew fewer bytes from crypto/rand.Reader", e.Name, e.SecretBytes, e.What),
				map[string]interface{}{"entry": e.Name, "runs": []map[string]interface{}{{"c": o.C, "s": o.S, "rep": o.Rep, "secret": o.Secret, "drawn": o.Drawn}}})
			break
		}
	}
}

// mathRandImporters lists non-test files importing math/rand under the given directories of
// the working tree (information only).
func mathRandImporters(dirs ...string) []string {
	var out []string
	for _, d := range dirs {
		root := filepath.Join(evid.RepoRoot(), d)
		filepath.Walk(root, func(p string, info os.FileInfo, err error) error {
			if err != nil || info.IsDir() || !strings.HasSuffix(p, ".go") || strings.HasSuffix(p, "_test.go") {
				return nil
			}
			f, err := parser.ParseFile(token.NewFileSet(), p, nil, parser.ImportsOnly)
			if err != nil {
				return nil
			}
			for _, im := range f.Imports {
				if im.Path.Value == `"math/rand"` || im.Path.Value == `"math/rand/v2"` {
					rel, _ := filepath.Rel(evid.RepoRoot(), p)
					out = append(out, rel)
				}
			}
			return nil
		})
	}
	sort.Strings(out)
	return out
}

func main() {
	if job, ok := par.Worker(); ok {
		workerMain(job)
		return
	}
	r := evid.Start("C38", "exploration")
	scr := evid.Scratch("c38")
	defer os.RemoveAll(scr)
	es := entries()
	if r.Thorough() {
		cs = []int{0x11, 0x22, 0x33, 0x44, 0x7f}
		ss = []int64{1, 2, 3, 4, 5}
		reps = 3
	}

	if r.Replay != "" {
		var a struct {
			Entry string `json:"entry"`
			Kind  string `json:"kind"`
			Calls int    `json:"calls"`
		}
		sig := r.LoadReplay(&a)
		fmt.Printf("replaying %s: all %d environments of %s\n", sig, len(cs)*len(ss)*reps, a.Entry)
		for i, e := range es {
			if e.Name == a.Entry && a.Kind == "fault" {
				outs := runFaults(i, faultSpecs(false), scr)
				for _, o := range outs {
					for _, run := range o.Runs {
						fmt.Printf("  fault=%-8s good=%#x -> %s delivered=%d source_failed=%v %s%s\n", o.Spec, run.Good, run.Outcome, run.Delivered, run.Failed, run.Secret, run.Detail)
					}
				}
				judgeFaults(r, e, outs, &faultStats{})
				continue
			}
			if e.Name == a.Entry && a.Kind == "multi" {
				o := runMulti(i, a.Calls, scr)
				d := judgeMulti(r, e, o)
				fmt.Printf("  %d calls under the counter stream: %d distinct secrets, %d secure bytes drawn\n", len(o.Secrets), d, o.Drawn)
				continue
			}
			if e.Name == a.Entry {
				outs := runEntry(i, scr)
				for _, o := range outs {
					fmt.Printf("  c=%#x seed=%d rep=%d drawn=%d secret=%s\n", o.C, o.S, o.Rep, o.Drawn, o.Secret)
				}
				judge(r, e, outs, &stats{})
			}
		}
		os.RemoveAll(scr)
		r.Finish(evid.Coverage{})
	}

	all := make([][]runOut, len(es))
	multi := make([]multiOut, len(es))
	faults := make([][]faultOut, len(es))
	specs := faultSpecs(r.Thorough())
	par.Go(3*len(es), func(j int) {
		i := j / 3
		if j%3 == 2 {
			d := filepath.Join(scr, fmt.Sprintf("f%d", i))
			os.MkdirAll(d, 0o755)
			faults[i] = runFaults(i, specs, d)
		} else if j%3 == 0 {
			d := filepath.Join(scr, fmt.Sprintf("e%d", i))
			os.MkdirAll(d, 0o755)
			all[i] = runEntry(i, d)
		} else {
			d := filepath.Join(scr, fmt.Sprintf("m%d", i))
			os.MkdirAll(d, 0o755)
			multi[i] = runMulti(i, repeatOf(es[i], r.Thorough()), d)
		}
	})
	st := &stats{}
	fst := &faultStats{}
	multiCalls, multiPairs := 0, 0
	var samples []interface{}
	summary := map[string]interface{}{}
	for i, e := range es {
		judge(r, e, all[i], st)
		distinct := map[string]bool{}
		minDrawn := int64(-1)
		for _, o := range all[i] {
			distinct[o.Secret] = true
			if minDrawn < 0 || o.Drawn < minDrawn {
				minDrawn = o.Drawn
			}
		}
		judgeFaults(r, e, faults[i], fst)
		dm := judgeMulti(r, e, multi[i])
		multiCalls += len(multi[i].Secrets)
		multiPairs += len(multi[i].Secrets) * (len(multi[i].Secrets) - 1) / 2
		summary[e.Name] = map[string]interface{}{"secret": e.What, "secret_bytes": e.SecretBytes, "runs": len(all[i]),
			"distinct_secrets": len(distinct), "expected_distinct_secrets": len(cs), "min_secure_bytes_drawn": minDrawn,
			"counter_stream_calls": len(multi[i].Secrets), "counter_stream_distinct_secrets": dm, "counter_stream_bytes_drawn": multi[i].Drawn}
		if len(all[i]) > 0 {
			samples = append(samples, all[i][0])
		}
	}
	imps := mathRandImporters("account", "crypto", "wallet")
	fmt.Printf("info: non-test files importing math/rand under account/, crypto/, wallet/: %v\n", imps)
	r.Assume = append(r.Assume,
		"the list of key-material-producing entry points is complete (account.NewClient create path, Client.CreateAccount, account.Create, account.NewAccount, crypto.GenerateKeyPair, crypto.Sign, crypto.SignDigest, crypto.AggregateSignatures, crypto.Encrypt); math/rand importers are printed for information",
		"nonces and ephemeral keys are observed through their public images (signature r, ephemeral public key)",
		"the clock is varied by running twice, not shifted")
	os.RemoveAll(scr)
	r.Finish(evid.Coverage{
		"evaluations":         st.runs + multiCalls + fst.runs,
		"distinct_nontrivial": st.pairs + multiPairs + fst.failedCleanly + fst.pairsCompared,
		"rule": fmt.Sprintf("%d entry points x secure-stream byte %v x math/rand seed %v x %d repetitions, one worker subprocess per run; every pair of runs of one entry point is compared (equal stream => equal secret; different stream => different secret) and secure bytes drawn >= secret bytes. Second family: every entry point called k times (256; keystore entry points 96; thorough x4) in ONE process with crypto/rand.Reader := repetition-free counter stream (SHA-256 of a block counter): the k secrets must be pairwise distinct and secure bytes drawn >= k x secret bytes. Third family: every entry point under faulty secure sources (always failing; healthy but at most 1/16/31 bytes per read; k good bytes then failing for good, k in the listed set) x good byte {0x11,0x22}: the entry point fails cleanly, or its secret was delivered by the stream (good bytes delivered >= secret bytes; directly observed secrets differ at every byte position between the two good-byte values, image-observed secrets differ). non-trivial = pairs of distinct runs/calls in which both produced their secret + faulty-source runs that failed cleanly + faulty-source success pairs compared", len(es), cs, ss, reps),
		"exhaustive":              true,
		"entry_points":            len(es),
		"runs":                    st.runs,
		"pairs_compared":          st.pairs,
		"pairs_same_stream":       st.pairsSameC,
		"pairs_different_stream":  st.pairsDiffC,
		"faulty_source_faults":          specs,
		"faulty_source_runs":            fst.runs,
		"faulty_source_failed_cleanly":  fst.failedCleanly,
		"faulty_source_succeeded":       fst.ok,
		"faulty_source_pairs_compared":  fst.pairsCompared,
		"counter_stream_calls":    multiCalls,
		"counter_stream_pairs":    multiPairs,
		"per_entry":               summary,
		"math_rand_importers":     imps,
		"samples":                 samples,
	})
}
