package wire

import (
	"bytes"
	"fmt"
	"io"
	"reflect"

	"github.com/elastos/Elastos.ELA/auxpow"
	"github.com/elastos/Elastos.ELA/common"
	pg "github.com/elastos/Elastos.ELA/core/contract/program"
	"github.com/elastos/Elastos.ELA/core/transaction"
	"github.com/elastos/Elastos.ELA/core/types"
	common2 "github.com/elastos/Elastos.ELA/core/types/common"
	"github.com/elastos/Elastos.ELA/core/types/functions"
	"github.com/elastos/Elastos.ELA/core/types/interfaces"
	"github.com/elastos/Elastos.ELA/core/types/outputpayload"
	"github.com/elastos/Elastos.ELA/core/types/payload"
)

func init() {
	// what main.go of the node does at start-up
	functions.GetTransactionByTxType = transaction.GetTransaction
	functions.GetTransactionByBytes = transaction.GetTransactionByBytes
	functions.CreateTransaction = transaction.CreateTransaction
	functions.GetTransactionParameters = transaction.GetTransactionparameters
}

// Seed is one valid encoding together with the real decoder that accepts it.
type Seed struct {
	Name  string
	Group string // tx | block | header | payload | p2pmsg | dposmsg
	Bytes []byte
	Value interface{}
	// Decode runs the repository's decoder on r with a fresh destination value.
	Decode func(r io.Reader) (interface{}, error)
	// DecodeBuf is set for decoders that only accept *bytes.Buffer (Block.DeserializeTxLoc).
	DecodeBuf func(b *bytes.Buffer) (interface{}, error)
	// Encode re-serialises a decoded value with the repository's encoder.
	Encode func(v interface{}) ([]byte, error)
	// Setup sets process-global switches the codec depends on (dpos msg payload version).
	Setup func()
	// TrackedTwin names the io.Reader decoder with the same layout (for DecodeBuf seeds).
	TrackedTwin *Seed
}

// Run decodes b with this seed's decoder.
func (s *Seed) Run(b []byte, t *Tracker) (interface{}, error) {
	if s.Setup != nil {
		s.Setup()
	}
	if s.DecodeBuf != nil {
		return s.DecodeBuf(bytes.NewBuffer(b))
	}
	if t != nil {
		return s.Decode(t)
	}
	return s.Decode(bytes.NewReader(b))
}

// ---------------------------------------------------------------------------------------------
// transactions

// TxTypes lists every transaction type the repository's factory knows, in numeric order.
func TxTypes() []common2.TxType {
	var out []common2.TxType
	for i := 0; i < 256; i++ {
		if _, err := transaction.GetTransaction(common2.TxType(i)); err == nil {
			out = append(out, common2.TxType(i))
		}
	}
	return out
}

// CRCProposalTypes is the closed menu of proposal types (each selects an encoder path) plus one
// unknown value that takes the default path.
var CRCProposalTypes = []payload.CRCProposalType{
	payload.Normal, payload.ELIP, payload.FLOWELIP, payload.INFOELIP,
	payload.MainChainUpgradeCode, payload.DIDUpgradeCode, payload.ETHUpgradeCode,
	payload.SecretaryGeneral, payload.ChangeProposalOwner, payload.CloseProposal,
	payload.RegisterSideChain, payload.ReserveCustomID, payload.ReceiveCustomID, payload.ChangeCustomIDFee,
	payload.CRCProposalType(0x0300),
}

// PayloadVariant is one payload value of a transaction type.
type PayloadVariant struct {
	Label   string
	Version byte
	Payload interfaces.Payload
}

var tPayloadCRCType = reflect.TypeOf(payload.CRCProposalType(0))

// NewPayload builds a payload of the type's Go struct populated by f.
func NewPayload(t common2.TxType, pv byte, f *Filler) (interfaces.Payload, error) {
	p, err := interfaces.GetPayload(t, pv)
	if err != nil {
		return nil, err
	}
	f.Fill(p)
	return p, nil
}

func payloadBytes(p interfaces.Payload, pv byte) ([]byte, error) {
	buf := new(bytes.Buffer)
	err := p.Serialize(buf, pv)
	return buf.Bytes(), err
}

// PayloadVersions returns the payload versions (0..maxPV) whose encoding of a fully populated
// payload differs from that of every lower version — the versions that select a distinct wire
// format. Version 0 is always included.
func PayloadVersions(t common2.TxType) []byte {
	const maxPV = 5
	var out []byte
	var seen [][]byte
	for pv := byte(0); pv <= maxPV; pv++ {
		p, err := NewPayload(t, pv, &Filler{N: 2, Bool: true})
		if err != nil {
			continue
		}
		b, err := payloadBytes(p, pv)
		if err != nil {
			continue
		}
		dup := false
		for _, s := range seen {
			if bytes.Equal(s, b) {
				dup = true
			}
		}
		if dup && pv != 0 {
			continue
		}
		seen = append(seen, b)
		out = append(out, pv)
	}
	return out
}

// PayloadVariants enumerates the payload values used as seeds for type t: one per distinct
// payload version, and for CRCProposal one per proposal type.
func PayloadVariants(t common2.TxType, mk func() *Filler) []PayloadVariant {
	var out []PayloadVariant
	for _, pv := range PayloadVersions(t) {
		if t == common2.CRCProposal {
			for _, pt := range CRCProposalTypes {
				f := mk()
				pt := pt
				prev := f.Override
				f.Override = func(path string, v reflect.Value) bool {
					if v.Type() == tPayloadCRCType && path == "CRCProposal.ProposalType" {
						v.SetUint(uint64(pt))
						return true
					}
					if prev != nil {
						return prev(path, v)
					}
					return false
				}
				p, err := NewPayload(t, pv, f)
				if err != nil {
					continue
				}
				out = append(out, PayloadVariant{Label: fmt.Sprintf("pv%d/pt%04x", pv, uint16(pt)), Version: pv, Payload: p})
			}
			continue
		}
		p, err := NewPayload(t, pv, mk())
		if err != nil {
			continue
		}
		out = append(out, PayloadVariant{Label: fmt.Sprintf("pv%d", pv), Version: pv, Payload: p})
	}
	return out
}

// OutputTypes is the closed menu of output payload types.
var OutputTypes = []common2.OutputType{
	common2.OTNone, common2.OTVote, common2.OTMapping, common2.OTCrossChain,
	common2.OTWithdrawFromSideChain, common2.OTReturnSideChainDepositCoin, common2.OTDposV2Vote, common2.OTStake,
}

// NewOutputPayload builds a populated output payload; variant selects the payload's own version
// byte where the encoding depends on it (vote outputs: 0, 1, 2).
func NewOutputPayload(ot common2.OutputType, variant int, f *Filler) common2.OutputPayload {
	switch ot {
	case common2.OTNone:
		return &outputpayload.DefaultOutput{}
	case common2.OTVote, common2.OTDposV2Vote:
		o := &outputpayload.VoteOutput{}
		f.Fill(o)
		o.Version = byte(variant % 3)
		if o.Version < outputpayload.VoteProducerAndCRVersion {
			// version 0 carries candidates only: the well-formed value has no vote amounts
			for i := range o.Contents {
				for j := range o.Contents[i].CandidateVotes {
					o.Contents[i].CandidateVotes[j].Votes = 0
				}
			}
		}
		return o
	case common2.OTMapping:
		o := &outputpayload.Mapping{}
		f.Fill(o)
		return o
	case common2.OTCrossChain:
		o := &outputpayload.CrossChainOutput{}
		f.Fill(o)
		return o
	case common2.OTWithdrawFromSideChain:
		o := &outputpayload.Withdraw{}
		f.Fill(o)
		return o
	case common2.OTReturnSideChainDepositCoin:
		o := &outputpayload.ReturnSideChainDeposit{}
		f.Fill(o)
		return o
	case common2.OTStake:
		o := &outputpayload.ExchangeVotesOutput{}
		f.Fill(o)
		return o
	}
	return nil
}

// AttrUsages is the closed menu of valid attribute usages.
var AttrUsages = []common2.AttributeUsage{common2.Nonce, common2.Script, common2.Memo, common2.Description, common2.DescriptionUrl, common2.Confirmations}

// TxShape describes the non-payload part of a transaction seed.
type TxShape struct {
	Version  common2.TransactionVersion
	Attrs    []common2.AttributeUsage
	Inputs   int
	Outputs  []common2.OutputType // one output per entry
	OutVar   int                  // variant passed to NewOutputPayload
	Programs int
	// EmptyProg: programs carry empty code/parameter
	EmptyProg bool
}

// NewTx assembles a transaction through the repository's CreateTransaction.
func NewTx(t common2.TxType, pv byte, p interfaces.Payload, sh TxShape, f *Filler) interfaces.Transaction {
	var attrs []*common2.Attribute
	for _, u := range sh.Attrs {
		a := &common2.Attribute{}
		f.Fill(a)
		a.Usage = u
		attrs = append(attrs, a)
	}
	var ins []*common2.Input
	for i := 0; i < sh.Inputs; i++ {
		in := &common2.Input{}
		f.Fill(in)
		ins = append(ins, in)
	}
	var outs []*common2.Output
	for i, ot := range sh.Outputs {
		o := &common2.Output{}
		f.Fill(o) // Payload (interface) stays nil here
		o.Type = ot
		o.Payload = NewOutputPayload(ot, sh.OutVar+i, f)
		if sh.Version < common2.TxVersion09 {
			// legacy encoding carries no output type/payload: the well-formed value has none
			o.Type = common2.OTNone
			o.Payload = nil
		}
		outs = append(outs, o)
	}
	var progs []*pg.Program
	for i := 0; i < sh.Programs; i++ {
		p := &pg.Program{}
		if !sh.EmptyProg {
			f.Fill(p)
		}
		progs = append(progs, p)
	}
	return transaction.CreateTransaction(sh.Version, t, pv, p, attrs, ins, outs, uint32(1+f.next()%100), progs)
}

// EncodeTx serialises with the repository's encoder.
func EncodeTx(tx interfaces.Transaction) ([]byte, error) {
	buf := new(bytes.Buffer)
	err := tx.Serialize(buf)
	return buf.Bytes(), err
}

// DecodeTx is the node's transaction decoding sequence.
func DecodeTx(r io.Reader) (interface{}, error) {
	tx, err := transaction.GetTransactionByBytes(r)
	if err != nil {
		return nil, err
	}
	if err := tx.Deserialize(r); err != nil {
		return nil, err
	}
	return tx, nil
}

func encodeTxAny(v interface{}) ([]byte, error) { return EncodeTx(v.(interfaces.Transaction)) }

func txSeed(name string, tx interfaces.Transaction) (*Seed, error) {
	b, err := EncodeTx(tx)
	if err != nil {
		return nil, err
	}
	return &Seed{Name: name, Group: "tx", Bytes: b, Value: tx, Decode: DecodeTx, Encode: encodeTxAny}, nil
}

// DefaultShape is the fully populated shape used for decoder seeds.
func DefaultShape(t common2.TxType) TxShape {
	if t < 0x09 {
		// legacy types exist in both encodings; seeds use the legacy one here and the v9 one in
		// the dedicated output seeds
		return TxShape{Version: common2.TxVersionDefault, Attrs: []common2.AttributeUsage{common2.Nonce}, Inputs: 1,
			Outputs: []common2.OutputType{common2.OTNone}, Programs: 1}
	}
	return TxShape{Version: common2.TxVersion09, Attrs: []common2.AttributeUsage{common2.Nonce}, Inputs: 1,
		Outputs: []common2.OutputType{common2.OTNone}, Programs: 1}
}

// TxSeeds: every transaction type × distinct payload version (× proposal type), fully populated,
// plus TransferAsset v9 seeds carrying every output payload type (vote outputs in their three
// versions).
func TxSeeds() ([]*Seed, []string) {
	var seeds []*Seed
	var skipped []string
	mk := func() *Filler { return &Filler{N: 2, Bool: true} }
	for _, t := range TxTypes() {
		for _, pvar := range PayloadVariants(t, mk) {
			name := fmt.Sprintf("tx/%s(%02x)/%s", t.Name(), byte(t), pvar.Label)
			tx := NewTx(t, pvar.Version, pvar.Payload, DefaultShape(t), mk())
			s, err := txSeed(name, tx)
			if err != nil {
				skipped = append(skipped, name+": "+err.Error())
				continue
			}
			seeds = append(seeds, s)
		}
	}
	for variant := 0; variant < 3; variant++ {
		f := mk()
		p, _ := NewPayload(common2.TransferAsset, 0, f)
		sh := TxShape{Version: common2.TxVersion09, Attrs: []common2.AttributeUsage{common2.Memo}, Inputs: 1, Programs: 1, OutVar: variant}
		if variant == 0 {
			sh.Outputs = OutputTypes
		} else {
			sh.Outputs = []common2.OutputType{common2.OTVote, common2.OTDposV2Vote}
			// both vote outputs get the same version byte
		}
		tx := NewTx(common2.TransferAsset, 0, p, sh, f)
		if variant != 0 {
			for _, o := range tx.Outputs() {
				o.Payload.(*outputpayload.VoteOutput).Version = byte(variant)
			}
		}
		name := fmt.Sprintf("tx/TransferAsset(02)/v9-outputs/%d", variant)
		s, err := txSeed(name, tx)
		if err != nil {
			skipped = append(skipped, name+": "+err.Error())
			continue
		}
		seeds = append(seeds, s)
	}
	return seeds, skipped
}

// ---------------------------------------------------------------------------------------------
// headers, blocks, confirms

// NewAuxPow builds a merged-mining proof with branches of the given lengths.
func NewAuxPow(f *Filler, auxBranch, parBranch int) auxpow.AuxPow {
	var ap auxpow.AuxPow
	ff := *f
	ff.N = 1
	ff.Fill(&ap)
	f.ctr = ff.ctr
	ap.AuxMerkleBranch = nil
	for i := 0; i < auxBranch; i++ {
		var h common.Uint256
		f.Fill(&h)
		ap.AuxMerkleBranch = append(ap.AuxMerkleBranch, h)
	}
	ap.ParCoinBaseMerkle = nil
	for i := 0; i < parBranch; i++ {
		var h common.Uint256
		f.Fill(&h)
		ap.ParCoinBaseMerkle = append(ap.ParCoinBaseMerkle, h)
	}
	return ap
}

// NewHeader builds a populated header.
func NewHeader(f *Filler, auxBranch, parBranch int) *common2.Header {
	h := &common2.Header{}
	ap := NewAuxPow(f, auxBranch, parBranch)
	f.Fill(h)
	h.AuxPow = ap
	return h
}

// NewConfirm builds a confirm with n votes.
func NewConfirm(f *Filler, n int) *payload.Confirm {
	c := &payload.Confirm{}
	ff := *f
	ff.N = n
	ff.Fill(c)
	f.ctr = ff.ctr
	return c
}

// SmallTxs returns n small transactions of assorted types for block bodies.
func SmallTxs(f *Filler, n int) []interfaces.Transaction {
	menu := []common2.TxType{common2.CoinBase, common2.TransferAsset, common2.RegisterProducer, common2.Voting, common2.IllegalBlockEvidence}
	var out []interfaces.Transaction
	for i := 0; i < n; i++ {
		t := menu[i%len(menu)]
		pv := byte(0)
		if t == common2.CoinBase {
			pv = payload.CoinBaseVersion
		}
		p, _ := NewPayload(t, pv, f)
		sh := TxShape{Version: common2.TxVersion09, Attrs: []common2.AttributeUsage{common2.Nonce}, Inputs: 1, Outputs: []common2.OutputType{common2.OTNone}, Programs: 1}
		if t == common2.CoinBase {
			sh.Version = common2.TxVersionDefault
			sh.Programs = 0
		}
		out = append(out, Canonical(NewTx(t, pv, p, sh, f)))
	}
	return out
}

// CanonicalPayload returns decode(encode(p)) at payload level.
func CanonicalPayload(t common2.TxType, pv byte, p interfaces.Payload) interfaces.Payload {
	b, err := payloadBytes(p, pv)
	if err != nil {
		return p
	}
	q, err := interfaces.GetPayload(t, pv)
	if err != nil || q.Deserialize(bytes.NewReader(b), pv) != nil {
		return p
	}
	return q
}

// Canonical returns decode(encode(tx)): the projection of a populated value onto what its
// payload version carries on the wire (used where a container is compared strictly).
func Canonical(tx interfaces.Transaction) interfaces.Transaction {
	b, err := EncodeTx(tx)
	if err != nil {
		return tx
	}
	v, err := DecodeTx(bytes.NewReader(b))
	if err != nil {
		return tx
	}
	return v.(interfaces.Transaction)
}

func encodeSer(v interface{}) ([]byte, error) {
	buf := new(bytes.Buffer)
	err := v.(common.Serializable).Serialize(buf)
	return buf.Bytes(), err
}

func serSeed(name, group string, v common.Serializable, fresh func() common.Serializable) (*Seed, error) {
	b, err := encodeSer(v)
	if err != nil {
		return nil, err
	}
	return &Seed{Name: name, Group: group, Bytes: b, Value: v, Encode: encodeSer,
		Decode: func(r io.Reader) (interface{}, error) {
			x := fresh()
			if err := x.Deserialize(r); err != nil {
				return nil, err
			}
			return x, nil
		}}, nil
}

// ChainSeeds: Header, AuxPow, Confirm, Block, DposBlock (with/without confirm), DPOSHeader,
// Block.DeserializeTxLoc, DetailedVoteInfo.
func ChainSeeds() ([]*Seed, []string) {
	var seeds []*Seed
	var skipped []string
	add := func(s *Seed, err error, name string) *Seed {
		if err != nil {
			skipped = append(skipped, name+": "+err.Error())
			return nil
		}
		seeds = append(seeds, s)
		return s
	}
	mk := func() *Filler { return &Filler{N: 2, Bool: true} }

	f := mk()
	hdr := NewHeader(f, 2, 2)
	s, err := serSeed("header", "header", hdr, func() common.Serializable { return &common2.Header{} })
	add(s, err, "header")

	f = mk()
	ap := NewAuxPow(f, 2, 1)
	s, err = serSeed("auxpow", "header", &ap, func() common.Serializable { return &auxpow.AuxPow{} })
	add(s, err, "auxpow")

	f = mk()
	cf := NewConfirm(f, 2)
	s, err = serSeed("payload.Confirm", "payload", cf, func() common.Serializable { return &payload.Confirm{} })
	add(s, err, "payload.Confirm")

	f = mk()
	blk := &types.Block{Header: *NewHeader(f, 1, 1), Transactions: SmallTxs(f, 3)}
	s, err = serSeed("block", "block", blk, func() common.Serializable { return &types.Block{} })
	bs := add(s, err, "block")
	if bs != nil {
		tl := &Seed{Name: "block/DeserializeTxLoc", Group: "block", Bytes: bs.Bytes, Value: blk, Encode: encodeSer, TrackedTwin: bs,
			DecodeBuf: func(b *bytes.Buffer) (interface{}, error) {
				x := &types.Block{}
				locs, err := x.DeserializeTxLoc(b)
				if err != nil {
					return nil, err
				}
				_ = locs
				return x, nil
			}}
		seeds = append(seeds, tl)
	}

	for _, have := range []bool{true, false} {
		f = mk()
		db := &types.DposBlock{Block: &types.Block{Header: *NewHeader(f, 1, 1), Transactions: SmallTxs(f, 2)}, HaveConfirm: have}
		if have {
			db.Confirm = NewConfirm(f, 2)
		}
		name := fmt.Sprintf("dposblock/confirm=%v", have)
		s, err = serSeed(name, "block", db, func() common.Serializable { return &types.DposBlock{} })
		add(s, err, name)
	}

	f = mk()
	dh := &types.DPOSHeader{Header: *NewHeader(f, 1, 1), HaveConfirm: true, Confirm: *NewConfirm(f, 2)}
	s, err = serSeed("dposheader", "header", dh, func() common.Serializable { return &types.DPOSHeader{} })
	add(s, err, "dposheader")

	f = mk()
	dv := &payload.DetailedVoteInfo{}
	f.Fill(dv)
	s, err = serSeed("payload.DetailedVoteInfo", "payload", dv, func() common.Serializable { return &payload.DetailedVoteInfo{} })
	add(s, err, "payload.DetailedVoteInfo")

	return seeds, skipped
}

// Validate decodes the seed with its own decoder and reports whether the whole encoding is
// consumed and re-encodes to the same bytes (a seed that is not a fixed point is not a seed).
func (s *Seed) Validate() error {
	if s.DecodeBuf != nil {
		_, err := s.Run(s.Bytes, nil)
		return err
	}
	t := NewTracker(s.Bytes)
	v, err := s.Run(s.Bytes, t)
	if err != nil {
		return fmt.Errorf("decode: %v", err)
	}
	if t.Remaining() != 0 {
		return fmt.Errorf("decode left %d bytes", t.Remaining())
	}
	b, err := s.Encode(v)
	if err != nil {
		return fmt.Errorf("re-encode: %v", err)
	}
	if !bytes.Equal(b, s.Bytes) {
		return fmt.Errorf("re-encode differs")
	}
	return nil
}
