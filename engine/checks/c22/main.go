// C22: CR committee state after a rollback equals the state built directly.
//
// Seam: crstate.Committee.ProcessBlock / RollbackTo driven directly, as
// test/unit/committeerollback_test.go drives them (no chain), with periods shrunk (crkit.Params).
// Every transaction that goes into a block has first been accepted by the node's own checks
// (HeightVersionCheck, CheckTransactionPayload, the vote-output rules of ContextCheck and the
// type's SpecialContextCheck) on the light node tier, so only blocks a node would connect are
// fed to the committee.
//
// Space: for each scenario (a fixed warm-up prefix that parks the chain in front of a boundary)
// every sequence of enabled operations of the scenario's alphabet up to the tier's depth — no
// state merging: a node of the search is a history, because rollback behaviour depends on the
// recorded undo closures, not only on the state.
//
// Oracle, evaluated for every explored history h (n blocks) and every rollback target k in the
// tier's window: on a second committee that processed h, RollbackTo(k) must succeed and leave
// exactly the state the first committee had after h[:k] (built directly, never rolled back);
// re-processing h[k:] must then give exactly the state after h. Extra clause (C23(b), CR half):
// a checkpoint taken after h[:k] (Checkpoint.Snapshot -> Serialize), loaded into a fresh
// committee (Deserialize -> OnInit, the path checkpoint.Manager.Restore takes) and fed h[k:] must
// give the state after h. "State" is the canonical rendering of the three key frames the
// committee checkpoint serialises (crkit.Canon).
package main

import (
	"bytes"
	"fmt"
	"os"
	"sort"
	"strings"
	"sync"
	"sync/atomic"

	"github.com/elastos/Elastos.ELA/core/types"
	crstate "github.com/elastos/Elastos.ELA/cr/state"

	"verif/crkit"
	"verif/evid"
	"verif/mc"
)

type scenario struct {
	name     string
	warm     []string
	alphabet []string
}

var scenarios = []*scenario{
	{
		// heights 1..5 done: three candidates registered (pending), CR assets funded.
		// free blocks cross candidate activation (6), the end of the first voting period and the
		// first election (8).
		name: "first-election",
		warm: []string{"reg:c1+reg:c2+reg:c3", "fund", "e3"},
		alphabet: []string{"e", "e2", "reg:c4", "upd:c1", "unreg:c3", "vote:v1:a", "vote:v1:b", "vote:v2:d",
			"unvote:v1", "approp"},
	},
	{
		// committee {c1,c2} elected at 8, appropriation done at 9, proposal A registered at 10:
		// free blocks cross the end of the council review (12) and of the public review (14).
		name: "proposal-review",
		warm: []string{"reg:c1+reg:c2+reg:c3", "fund", "e4", "vote:v1:a", "e", "approp", "prop:A:c1"},
		alphabet: []string{"e", "e2", "rev:c1:A:a", "rev:c2:A:a", "rev:c2:A:r", "rev:c1:A:s", "rev2:A:a",
			"prop:B:c2", "elip:C:c1", "sg:D:c2", "rej:vr:A:big", "rej:vr:A:small", "imp:vi:c2:small", "imp:vi:c2:big"},
	},
	{
		// proposal A voter-agreed at 14 (imprest withdrawable), B registered at 13:
		// free blocks: tracking, withdrawals, close / change-owner proposals, impeachment.
		name: "proposal-execution",
		warm: []string{"reg:c1+reg:c2+reg:c3", "fund", "e4", "vote:v1:a", "e", "approp", "prop:A:c1", "rev2:A:a", "e",
			"prop:B:c2", "e"},
		alphabet: []string{"e", "e2", "wd:A", "realwd", "trk:A:common", "trk:A:progress", "trk:A:rejected", "trk:A:terminated",
			"trk:A:changeowner", "trk:A:finalized", "close:E:A:c1", "chown:E:A:c2", "rev2:B:a", "rev2:E:a", "rev:c1:B:r",
			"imp:vi:c1:big", "rej:vr:B:big"},
	},
	{
		// the first committee's duty is about to end (second voting period 20..27, change at 28):
		// A voter-agreed with its imprest requested, B in council review.
		name: "re-election",
		warm: []string{"reg:c1+reg:c2+reg:c3", "fund", "e4", "vote:v1:a", "e", "approp", "prop:A:c1", "rev2:A:a", "e3",
			"wd:A", "e3", "prop:B:c2"},
		alphabet: []string{"e", "e2", "e5", "reg:c3", "reg:c4", "reg:c1", "upd:c3", "unreg:c3", "vote:v1:b", "vote:v2:c",
			"vote:v1:a", "unvote:v1", "rev2:B:a", "trk:A:progress", "wd:A", "imp:vi:c1:big", "realwd"},
	},
}

// counters (non-vacuity)
var (
	rollbackCmp   int64
	reapplyCmp    int64
	restoreCmp    int64
	rejectedOps   int64
	distinctState evid.Distinct
	kindsSeen     evid.Distinct
	eventsSeen    evid.Distinct
	passed        sync.Map // history key -> true: oracle already evaluated and clean
	failedEvals   sync.Map // history key -> *int32: oracle evaluations of a failing history
	replayLen     int      // --replay: evaluate the oracle only on the complete history
	lossyFields   evid.Distinct
	run           *evid.Run
	backWindow    int // how many blocks below the free region rollbacks reach (0 = to height 1)
)

type inst struct {
	sc   *scenario
	w    *crkit.World
	hist []string
	// D[i] = canonical state after i blocks, built directly on w (never rolled back).
	D [][]string
	// opOf[i] = operation that produced block i+1
	opOf []string
	warm int // number of warm-up blocks
	err  string
}

func histKey(sc *scenario, hist []string) string { return sc.name + "|" + strings.Join(hist, ",") }

func newInst(sc *scenario) *inst {
	in := &inst{sc: sc, w: crkit.NewWorld(crkit.Params())}
	in.D = append(in.D, crkit.Canon(in.w.C))
	in.w.Skip = func(string) bool { return true } // the warm-up was validated in main
	for _, op := range sc.warm {
		blocks, err := in.w.Offer(op)
		if err != nil {
			evid.Fatalf("C22 %s: warm-up op %q not buildable: %v", sc.name, op, err)
		}
		in.applyBlocks(op, blocks)
	}
	in.w.Skip = nil
	in.warm = len(in.D) - 1
	return in
}

func (in *inst) applyBlocks(op string, blocks []*types.Block) {
	for _, b := range blocks {
		in.w.Apply([]*types.Block{b})
		in.D = append(in.D, crkit.Canon(in.w.C))
		in.opOf = append(in.opOf, op)
	}
}

func (in *inst) Ops() []string {
	var ops []string
	for _, op := range in.sc.alphabet {
		if _, err := in.w.Offer(op); err == nil {
			ops = append(ops, op)
		} else {
			atomic.AddInt64(&rejectedOps, 1)
		}
	}
	return ops
}

func (in *inst) Close() { in.w.Close() }

func (in *inst) Digest() string { return histKey(in.sc, in.hist) }

func (in *inst) Apply(op string) *mc.Fail {
	key := histKey(in.sc, append(append([]string{}, in.hist...), op))
	_, done := passed.Load(key)
	if done {
		in.w.Skip = func(string) bool { return true }
	}
	blocks, err := in.w.Offer(op)
	in.w.Skip = nil
	if err != nil {
		evid.Fatalf("C22 %s: op %q offered after %v was rejected: %v", in.sc.name, op, in.hist, err)
	}
	before := len(in.D) - 1
	in.applyBlocks(op, blocks)
	in.hist = append(in.hist, op)
	if done {
		return nil
	}
	kindsSeen.Add(crkit.Kind(op))
	distinctState.Add(strings.Join(in.D[len(in.D)-1], "\n"))
	for i := before; i < len(in.D)-1; i++ {
		for _, e := range events(in.D[i], in.D[i+1]) {
			eventsSeen.Add(e)
		}
	}
	if replayLen > 0 && len(in.hist) != replayLen {
		return nil
	}
	// A failing history is reported by its first evaluation and by the two confirmation replays
	// mc.Explore makes right after it; later replays of it as a prefix of longer histories go
	// through (failing histories are expanded: on the unchanged tree known findings would
	// otherwise cut off most of the space).
	cnt, _ := failedEvals.LoadOrStore(key, new(int32))
	if atomic.LoadInt32(cnt.(*int32)) >= 3 {
		return nil
	}
	if f := in.oracle(); f != nil {
		atomic.AddInt32(cnt.(*int32), 1)
		return f
	}
	passed.Store(key, true)
	return nil
}

// events names the boundary crossings between two consecutive direct-build states (used for
// non-vacuity counters and for signatures).
func events(a, b []string) []string {
	get := func(l []string, p string) string {
		for _, s := range l {
			if strings.HasPrefix(s, p+"=") {
				return s[len(p)+1:]
			}
		}
		return ""
	}
	var ev []string
	chg := func(p, name string) {
		if get(a, p) != get(b, p) {
			ev = append(ev, name)
		}
	}
	chg("KeyFrame.LastCommitteeHeight", "committee-changed")
	chg("KeyFrame.LastVotingStartHeight", "voting-start-moved")
	chg("KeyFrame.InElectionPeriod", "election-period-toggled")
	chg("KeyFrame.NeedAppropriation", "need-appropriation-toggled")
	// proposal status transitions and candidate / member state transitions
	st := func(l []string, suffix string) map[string]string {
		m := map[string]string{}
		for _, s := range l {
			if i := strings.Index(s, "="); i > 0 && strings.HasSuffix(s[:i], suffix) {
				m[s[:i]] = s[i+1:]
			}
		}
		return m
	}
	for _, suffix := range []string{"].Status", "].State", "].MemberState"} {
		sa, sb := st(a, suffix), st(b, suffix)
		for k, v := range sb {
			if old, ok := sa[k]; ok && old != v {
				ev = append(ev, fmt.Sprintf("%s:%s->%s", crkit.FieldOf(k), old, v))
			}
		}
	}
	sort.Strings(ev)
	return ev
}

// describe the block of height h (1-based) for signatures: transaction kind plus the boundary
// events the direct build crossed in that block.
func (in *inst) blockClass(h int) string {
	k := crkit.Kind(in.opOf[h-1])
	ev := events(in.D[h-1], in.D[h])
	if len(ev) > 0 {
		k += "{" + strings.Join(ev, ",") + "}"
	}
	return k
}

func topField(f string) string {
	// "StateKeyFrame.DepositInfo[].Penalty" -> "StateKeyFrame.DepositInfo[].Penalty" is already
	// key-free; keep at most three components so that one defect maps to one signature.
	parts := strings.Split(f, ".")
	if len(parts) > 3 {
		parts = parts[:3]
	}
	return strings.Join(parts, ".")
}

func (in *inst) oracle() *mc.Fail {
	n := len(in.D) - 1
	lo := 1
	if backWindow > 0 && in.warm-backWindow > lo {
		lo = in.warm - backWindow
	}
	type finding struct {
		sig, what string
	}
	var found []finding
	seen := map[string]bool{}
	add := func(sig, what string) {
		if !seen[sig] {
			seen[sig] = true
			found = append(found, finding{sig, what})
		}
	}
	// descending k: the first rollback that shows a field difference is the shallowest one, so
	// the block named in the signature is the oldest block that has to be undone for it.
	fieldSeen := map[string]bool{}
	for k := n - 1; k >= lo; k-- {
		c2, ckp := in.w.NewCommittee()
		for _, b := range in.w.Blocks {
			in.w.ProcessOn(c2, b)
		}
		if d := crkit.Compare(in.D[n], crkit.Canon(c2)); d != nil {
			ckp.Close()
			return mc.Failf("C22|nondeterministic-build|field="+topField(d.Fields[0]),
				"two committees fed the same %d blocks differ: %v", n, d.Lines)
		}
		err := c2.RollbackTo(uint32(k))
		atomic.AddInt64(&rollbackCmp, 1)
		if err != nil {
			add("C22|rollback-error|undone="+in.blockClass(k+1), fmt.Sprintf("RollbackTo(%d) from %d failed: %v", k, n, err))
		}
		if d := crkit.Compare(in.D[k], crkit.Canon(c2)); d != nil {
			for _, f := range d.Fields {
				tf := topField(f)
				if fieldSeen["rb|"+tf] {
					continue
				}
				fieldSeen["rb|"+tf] = true
				add(fmt.Sprintf("C22|rollback-differs|field=%s|undone=%s", tf, in.blockClass(k+1)),
					fmt.Sprintf("after %d blocks, RollbackTo(%d) leaves a state different from the one built directly from the first %d blocks: %v", n, k, k, d.Lines))
			}
		}
		for _, b := range in.w.Blocks[k:] {
			in.w.ProcessOn(c2, b)
		}
		atomic.AddInt64(&reapplyCmp, 1)
		if d := crkit.Compare(in.D[n], crkit.Canon(c2)); d != nil {
			for _, f := range d.Fields {
				tf := topField(f)
				if fieldSeen["re|"+tf] {
					continue
				}
				fieldSeen["re|"+tf] = true
				add(fmt.Sprintf("C22|reapply-differs|field=%s|undone=%s", tf, in.blockClass(k+1)),
					fmt.Sprintf("after %d blocks, RollbackTo(%d) and re-processing blocks %d..%d gives a state different from the uninterrupted one: %v", n, k, k+1, n, d.Lines))
			}
		}
		ckp.Close()

		// C23(b), CR half: checkpoint after k blocks, restore, feed the rest.
		if f := in.restoreAt(k, n, fieldSeen, add); f != nil {
			return f
		}
	}
	if len(found) == 0 {
		return nil
	}
	sort.Slice(found, func(i, j int) bool { return found[i].sig < found[j].sig })
	hist := append([]string{}, in.hist...)
	for _, f := range found[1:] {
		run.Violate(f.sig, f.what, map[string]interface{}{"system": in.sc.name, "history": hist})
	}
	return &mc.Fail{Signature: found[0].sig, What: found[0].what}
}

func (in *inst) restoreAt(k, n int, fieldSeen map[string]bool, add func(sig, what string)) *mc.Fail {
	src, ckpS := in.w.NewCommittee()
	defer ckpS.Close()
	for _, b := range in.w.Blocks[:k] {
		in.w.ProcessOn(src, b)
	}
	cpS, ok := ckpS.GetCheckpoint("cp_cr", uint32(k))
	if !ok || cpS == nil {
		evid.Fatalf("C22: no registered CR checkpoint")
	}
	snap := cpS.Snapshot()
	if snap == nil {
		add("C22|checkpoint-snapshot-failed|after="+in.blockClass(k), fmt.Sprintf("Checkpoint.Snapshot() failed (serialise/deserialise error) after %d blocks", k))
		return nil
	}
	buf := new(bytes.Buffer)
	if err := snap.Serialize(buf); err != nil {
		add("C22|checkpoint-serialize-failed|after="+in.blockClass(k), fmt.Sprintf("Serialize after %d blocks: %v", k, err))
		return nil
	}
	dst, ckpD := in.w.NewCommittee()
	defer ckpD.Close()
	cpD, _ := ckpD.GetCheckpoint("cp_cr", 0)
	if err := cpD.Deserialize(bytes.NewReader(buf.Bytes())); err != nil {
		add("C22|checkpoint-deserialize-failed|after="+in.blockClass(k), fmt.Sprintf("Deserialize of the checkpoint taken after %d blocks: %v", k, err))
		return nil
	}
	cpD.OnInit()
	atomic.AddInt64(&restoreCmp, 1)
	// Fields the checkpoint does not carry are C23(a)'s subject (field-by-field round trip), not
	// this clause's: they are recorded in the evidence and left out of the comparison below.
	lossy := map[string]bool{}
	if d := crkit.Compare(in.D[k], crkit.Canon(dst)); d != nil {
		for _, f := range d.Fields {
			lossy[f] = true
			lossyFields.Add(f)
		}
	}
	for _, b := range in.w.Blocks[k:] {
		in.w.ProcessOn(dst, b)
	}
	keep := func(l []string) []string {
		if len(lossy) == 0 {
			return l
		}
		var o []string
		for _, s := range l {
			if !lossy[crkit.FieldOf(s)] {
				o = append(o, s)
			}
		}
		return o
	}
	if d := crkit.Compare(keep(in.D[n]), keep(crkit.Canon(dst))); d != nil {
		for _, f := range d.Fields {
			tf := topField(f)
			if fieldSeen["rs|"+tf] {
				continue
			}
			fieldSeen["rs|"+tf] = true
			add(fmt.Sprintf("C22|c23b-restore-then-continue-differs|field=%s|next=%s", tf, in.blockClass(k+1)),
				fmt.Sprintf("restored from the checkpoint after %d blocks and fed blocks %d..%d: state differs from the uninterrupted run: %v", k, k+1, n, d.Lines))
		}
	}
	return nil
}

var _ = crstate.Registered

func validateWarmups() {
	for _, sc := range scenarios {
		w := crkit.NewWorld(crkit.Params())
		for _, op := range sc.warm {
			blocks, err := w.Offer(op)
			if err != nil {
				evid.Fatalf("C22 %s: warm-up op %q rejected by the node's checks at height %d: %v", sc.name, op, w.Height+1, err)
			}
			w.Apply(blocks)
		}
		if os.Getenv("VERIF_TRACE") != "" {
			fmt.Printf("scenario %s: warm-up ends at height %d\n", sc.name, w.Height)
			for _, l := range crkit.Canon(w.C) {
				fmt.Println("   ", l)
			}
		}
		w.Close()
	}
}

func main() {
	r := evid.Start("C22", "model_checking")
	run = r
	scratch := crkit.Init()
	defer os.RemoveAll(scratch)
	validateWarmups()
	depth := r.Pick(4, 6)
	backWindow = r.Pick(4, 0)
	if d := os.Getenv("VERIF_C22_DEPTH"); d != "" { // development aid
		fmt.Sscan(d, &depth)
	}
	if only := os.Getenv("VERIF_C22_ONLY"); only != "" {
		var keep []*scenario
		for _, sc := range scenarios {
			if sc.name == only {
				keep = append(keep, sc)
			}
		}
		scenarios = keep
	}

	if r.Replay != "" {
		var a struct {
			System  string   `json:"system"`
			History []string `json:"history"`
		}
		r.LoadReplay(&a)
		replayLen = len(a.History)
		for _, sc := range scenarios {
			if sc.name == a.System {
				sc := sc
				sp := &mc.Spec{Name: sc.name, New: func() mc.Instance { return newInst(sc) }, MaxDepth: len(a.History)}
				mc.Replay(r, sp, a.History)
			}
		}
		os.RemoveAll(scratch)
		r.Finish(evid.Coverage{})
	}

	total := &mc.Result{Exhaustive: true}
	per := map[string]interface{}{}
	for _, sc := range scenarios {
		sc := sc
		sp := &mc.Spec{Name: sc.name, New: func() mc.Instance { return newInst(sc) }, MaxDepth: depth, ExpandFailed: true}
		res := mc.Explore(r, sp)
		total.States += res.States
		total.Transitions += res.Transitions
		total.Executions += res.Executions
		if res.DepthDone > total.DepthDone {
			total.DepthDone = res.DepthDone
		}
		total.Exhaustive = total.Exhaustive && res.Exhaustive
		if res.Capped != "" {
			total.Capped = sc.name + ": " + res.Capped
		}
		total.PerDepth = append(total.PerDepth, res.PerDepth...)
		if len(total.Samples) < 6 && len(res.Samples) > 0 {
			total.Samples = append(total.Samples, append([]string{"[" + sc.name + "]"}, res.Samples[0]...))
		}
		per[sc.name] = map[string]interface{}{"histories": res.States, "transitions": res.Transitions, "per_depth": res.PerDepth,
			"warmup": sc.warm, "alphabet": sc.alphabet}
		fmt.Printf("C22 %s: %d histories, %d transitions, depth %d\n", sc.name, res.States, res.Transitions, res.DepthDone)
	}
	cov := total.Coverage(fmt.Sprintf("for each of %d scenarios (fixed warm-up prefix + alphabet, see scenarios): every sequence of node-accepted operations up to depth %d (no state merging; a search node is a history); after every history h (n blocks) and for every k in [max(1,warm-%d) .. n-1] (0 = down to height 1): second committee fed h, RollbackTo(k) == direct build of h[:k]; re-process h[k:] == direct build of h; checkpoint after h[:k] restored into a fresh committee and fed h[k:] == direct build of h; comparison on the canonical rendering (sorted maps, nil==empty) of KeyFrame, StateKeyFrame and ProposalKeyFrame", len(scenarios), depth, backWindow))
	cov["scenarios"] = per
	cov["rollback_comparisons"] = atomic.LoadInt64(&rollbackCmp)
	cov["reapply_comparisons"] = atomic.LoadInt64(&reapplyCmp)
	cov["checkpoint_restore_comparisons"] = atomic.LoadInt64(&restoreCmp)
	cov["distinct_committee_states"] = distinctState.Len()
	cov["operations_rejected_by_node_checks"] = atomic.LoadInt64(&rejectedOps)
	cov["transaction_kinds_applied"] = kindsSeen.Map()
	cov["boundary_events_crossed"] = eventsSeen.Map()
	cov["fields_not_carried_by_checkpoint"] = lossyFields.Map()
	r.Assume = append(r.Assume,
		"regime: before DPoS v2 (vote outputs in TransferAsset), as in test/unit/committeerollback_test.go; CR claim-node, custom-ID, side-chain and upgrade proposals are outside the alphabet",
		"voting period 8 and duty period 20 blocks instead of 3-5: a candidate needs ActivateDuration=6 blocks (a constant) to become active inside the voting period",
		"UTXO-level validity (fees, input signatures, double spends) is not part of the seam; amounts are chosen so that a wallet could have produced the transactions",
	)
	os.RemoveAll(scratch)
	r.Finish(cov)
}
