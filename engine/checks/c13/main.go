package main

import (
	"bytes"
	"fmt"
	"os"
	"time"

	"github.com/elastos/Elastos.ELA/core/types"
	common2 "github.com/elastos/Elastos.ELA/core/types/common"

	"verif/evid"
	sk "verif/storekit"
)

func main() {
	base := evid.Scratch("c13probe")
	defer os.RemoveAll(base)
	sk.Setup(base + "/logs")
	t0 := time.Now()
	s, err := sk.Create(base+"/s0", nil)
	if err != nil {
		panic(err)
	}
	fmt.Println("create", time.Since(t0))
	g := s.Blocks[0]
	for i, t := range g.Transactions {
		fmt.Println("genesis tx", i, t.TxType().Name(), t.Hash(), len(t.Outputs()))
	}
	d0, _ := s.Dump()
	for _, r := range d0 {
		fmt.Println(r)
	}
	// roundtrip of a synthetic block
	f := sk.Transfer(1, []*common2.Input{sk.In(g.Transactions[0].Hash(), 0)}, []*common2.Output{sk.Out(sk.Addr(1), 5), sk.Out(sk.Addr(2), 0)})
	b := s.NewBlock(f)
	buf := new(bytes.Buffer)
	if err := b.Serialize(buf); err != nil {
		panic(err)
	}
	var b2 types.Block
	if err := b2.Deserialize(bytes.NewReader(buf.Bytes())); err != nil {
		panic(err)
	}
	fmt.Println("roundtrip hash equal:", b2.Hash() == b.Hash(), len(b2.Transactions))
	t1 := time.Now()
	if err := s.Connect(b, nil); err != nil {
		panic(err)
	}
	fmt.Println("connect", time.Since(t1))
	d1, _ := s.Dump()
	for _, l := range sk.Diff(sk.Canonical(d0, sk.CanonRules{}), sk.Canonical(d1, sk.CanonRules{})) {
		fmt.Println(l)
	}
	t1 = time.Now()
	if _, err := s.DisconnectTip(nil); err != nil {
		panic(err)
	}
	fmt.Println("disconnect", time.Since(t1))
	d2, _ := s.Dump()
	fmt.Println("diff after disconnect:")
	for _, l := range sk.Diff(sk.Canonical(d0, sk.CanonRules{}), sk.Canonical(d2, sk.CanonRules{})) {
		fmt.Println(l)
	}
	t1 = time.Now()
	if err := s.Reopen(); err != nil {
		panic(err)
	}
	fmt.Println("reopen", time.Since(t1))
	t1 = time.Now()
	s.Destroy()
	fmt.Println("destroy", time.Since(t1))
	for i := 0; i < 10; i++ {
		t1 = time.Now()
		s, err := sk.Create(fmt.Sprintf("%s/x%d", base, i), nil)
		if err != nil {
			panic(err)
		}
		c := time.Since(t1)
		t1 = time.Now()
		s.Close()
		cl := time.Since(t1)
		t1 = time.Now()
		s.Reopen()
		ro := time.Since(t1)
		t1 = time.Now()
		s.Close()
		cl2 := time.Since(t1)
		t1 = time.Now()
		os.RemoveAll(s.Dir)
		fmt.Println("create", c, "close", cl, "reopen", ro, "close", cl2, "rm", time.Since(t1))
	}
}
