// Package blockkit builds deterministic transactions and blocks for input-enumeration checks
// (C07, C08, C39) and carries the independent reference implementations they share: double
// SHA-256 and the bitcoin-style merkle root written against the standard library only.
//
// Nothing here draws from clocks or PRNGs: transaction contents are functions of an index, block
// timestamps are fixed, the parent nonce of the merged-mining proof is found by a plain loop.
package blockkit

import (
	"bytes"
	"crypto/sha256"
	"encoding/binary"
	"math"
	"math/big"
	"sync"

	"github.com/elastos/Elastos.ELA/auxpow"
	"github.com/elastos/Elastos.ELA/common"
	"github.com/elastos/Elastos.ELA/common/config"
	"github.com/elastos/Elastos.ELA/core"
	"github.com/elastos/Elastos.ELA/core/contract/program"
	"github.com/elastos/Elastos.ELA/core/transaction"
	"github.com/elastos/Elastos.ELA/core/types"
	ctypes "github.com/elastos/Elastos.ELA/core/types/common"
	"github.com/elastos/Elastos.ELA/core/types/functions"
	"github.com/elastos/Elastos.ELA/core/types/interfaces"
	"github.com/elastos/Elastos.ELA/core/types/outputpayload"
	"github.com/elastos/Elastos.ELA/core/types/payload"
)

var regOnce sync.Once

// Register installs the transaction constructors the repository expects in package functions
// (what common/config/settings and cmd/ela-cli do at start-up). Idempotent.
func Register() {
	regOnce.Do(func() {
		functions.GetTransactionByTxType = transaction.GetTransaction
		functions.GetTransactionByBytes = transaction.GetTransactionByBytes
		functions.CreateTransaction = transaction.CreateTransaction
		functions.GetTransactionParameters = transaction.GetTransactionparameters
	})
}

// ---- independent reference primitives (standard library only) ---------------------------

// DSha is SHA-256 applied twice.
func DSha(b []byte) [32]byte {
	h := sha256.Sum256(b)
	return sha256.Sum256(h[:])
}

// RefParent hashes the concatenation of two nodes.
func RefParent(l, r [32]byte) [32]byte {
	var b [64]byte
	copy(b[:32], l[:])
	copy(b[32:], r[:])
	return DSha(b[:])
}

// RefMerkleRoot is the textbook bitcoin merkle root: level by level, an odd last node is paired
// with itself; a single leaf is its own root. Panics on an empty list (callers never pass one).
func RefMerkleRoot(leaves [][32]byte) [32]byte {
	if len(leaves) == 0 {
		panic("RefMerkleRoot: empty")
	}
	lvl := append([][32]byte{}, leaves...)
	for len(lvl) > 1 {
		var nxt [][32]byte
		for i := 0; i < len(lvl); i += 2 {
			j := i + 1
			if j == len(lvl) {
				j = i
			}
			nxt = append(nxt, RefParent(lvl[i], lvl[j]))
		}
		lvl = nxt
	}
	return lvl[0]
}

// RefBranchRoot folds a merkle branch: bit k of index says whether the running hash is the
// right (1) or left (0) child at level k.
func RefBranchRoot(leaf [32]byte, branch [][32]byte, index uint64) [32]byte {
	h := leaf
	for k, s := range branch {
		if index>>uint(k)&1 == 1 {
			h = RefParent(s, h)
		} else {
			h = RefParent(h, s)
		}
	}
	return h
}

// ---- deterministic transactions --------------------------------------------------------------

// ProgramHashOf returns the i-th harness address (standard prefix 0x21, body derived from i).
func ProgramHashOf(i int) common.Uint168 {
	var ph common.Uint168
	d := sha256.Sum256([]byte{'p', 'h', byte(i), byte(i >> 8)})
	ph[0] = 0x21
	copy(ph[1:], d[:20])
	return ph
}

// PrevOutOf returns the outpoint the i-th harness transfer spends.
func PrevOutOf(i int) ctypes.OutPoint {
	d := sha256.Sum256([]byte{'i', 'n', byte(i), byte(i >> 8)})
	return ctypes.OutPoint{TxID: common.Uint256(d), Index: uint16(i % 3)}
}

// Transfer builds the i-th harness transfer: one input (PrevOutOf(i)), two outputs (to
// ProgramHashOf(i) and ProgramHashOf(1000+i)), one dummy program of valid shape. It passes the
// repository's transaction sanity check; it is not signed (block sanity does not verify
// signatures — that is the context check's job).
func Transfer(i int) interfaces.Transaction {
	Register()
	code := make([]byte, 35)
	code[0] = 33
	d := sha256.Sum256([]byte{'p', 'k', byte(i), byte(i >> 8)})
	code[1] = 2
	copy(code[2:34], d[:])
	code[34] = 0xac
	return functions.CreateTransaction(
		ctypes.TxVersion09, ctypes.TransferAsset, 0, &payload.TransferAsset{},
		[]*ctypes.Attribute{{Usage: ctypes.Nonce, Data: []byte{byte(i), byte(i >> 8), 7}}},
		[]*ctypes.Input{{Previous: PrevOutOf(i), Sequence: 0}},
		[]*ctypes.Output{
			{AssetID: core.ELAAssetID, Value: common.Fixed64(1000 + i), ProgramHash: ProgramHashOf(i), Type: ctypes.OTNone, Payload: &outputpayload.DefaultOutput{}},
			{AssetID: core.ELAAssetID, Value: common.Fixed64(5), ProgramHash: ProgramHashOf(1000 + i), Type: ctypes.OTNone, Payload: &outputpayload.DefaultOutput{}},
		},
		0,
		[]*program.Program{{Code: code, Parameter: make([]byte, 65)}},
	)
}

// Coinbase builds a coinbase for the given height paying foundation (≥30 %) and a miner; tag
// makes distinct coinbases.
func Coinbase(p *config.Configuration, height uint32, tag byte) interfaces.Transaction {
	Register()
	return functions.CreateTransaction(
		0, ctypes.CoinBase, payload.CoinBaseVersion, &payload.CoinBase{Content: []byte{'v', tag}},
		[]*ctypes.Attribute{{Usage: ctypes.Nonce, Data: []byte{0, 0, 0, 0, 0, 0, 0, tag}}},
		[]*ctypes.Input{{Previous: ctypes.OutPoint{TxID: common.EmptyHash, Index: math.MaxUint16}, Sequence: math.MaxUint32}},
		[]*ctypes.Output{
			{AssetID: core.ELAAssetID, Value: 35, ProgramHash: *p.FoundationProgramHash},
			{AssetID: core.ELAAssetID, Value: 65, ProgramHash: ProgramHashOf(2000 + int(tag))},
		},
		height,
		[]*program.Program{},
	)
}

// TxIDs returns the transaction hashes as plain arrays.
func TxIDs(txs []interfaces.Transaction) [][32]byte {
	out := make([][32]byte, len(txs))
	for i, t := range txs {
		out[i] = [32]byte(t.Hash())
	}
	return out
}

// ---- sane blocks -----------------------------------------------------------------------------

// Params returns mainnet defaults with the instant-block difficulty (PowLimitBits 0x207fffff),
// the regime the repository's own generator (benchmark/tools/generator/chain) uses.
func Params() *config.Configuration {
	p := config.GetDefaultParams()
	p.InstantBlock()
	return p
}

// FixedTimestamp is the timestamp of every harness block (2018-01-01; far in the past, so the
// "too far in the future" rule never depends on the wall clock).
const FixedTimestamp = 1514764800

// Header builds a header at the given height over the given merkle root; no proof attached.
func Header(p *config.Configuration, height uint32, root [32]byte) ctypes.Header {
	return ctypes.Header{
		Version:    0,
		Previous:   common.Uint256(DSha([]byte{'p', 'r', 'e', 'v', byte(height)})),
		MerkleRoot: common.Uint256(root),
		Timestamp:  FixedTimestamp + 2*height,
		Bits:       p.PowConfiguration.PowLimitBits,
		Nonce:      0,
		Height:     height,
	}
}

// targetOf decodes a compact target independently of the repository (positive values only).
func targetOf(bits uint32) *big.Int {
	m := big.NewInt(int64(bits & 0x007fffff))
	e := int(bits >> 24)
	if e >= 3 {
		return m.Lsh(m, uint(8*(e-3)))
	}
	return m.Rsh(m, uint(8*(3-e)))
}

// Seal attaches a merged-mining proof for the header's current hash: the repository's own
// auxpow.GenerateAuxPow with its clock-derived parent timestamp replaced by a constant, and the
// parent nonce solved by a plain loop against the header's target. Must be called again after
// any change to a hashed header field.
func Seal(h *ctypes.Header) {
	ap := auxpow.GenerateAuxPow(h.Hash())
	ap.ParBlockHeader.Timestamp = FixedTimestamp
	target := targetOf(h.Bits)
	for n := uint32(0); ; n++ {
		ap.ParBlockHeader.Nonce = n
		if parentHashNum(&ap.ParBlockHeader).Cmp(target) <= 0 {
			break
		}
		if n == math.MaxUint32 {
			panic("blockkit.Seal: no nonce")
		}
	}
	h.AuxPow = *ap
}

func parentHashNum(bh *auxpow.BtcHeader) *big.Int {
	var buf bytes.Buffer
	binary.Write(&buf, binary.LittleEndian, bh.Version)
	buf.Write(bh.Previous[:])
	buf.Write(bh.MerkleRoot[:])
	binary.Write(&buf, binary.LittleEndian, bh.Timestamp)
	binary.Write(&buf, binary.LittleEndian, bh.Bits)
	binary.Write(&buf, binary.LittleEndian, bh.Nonce)
	d := DSha(buf.Bytes())
	// the hash is interpreted little-endian
	for i, j := 0, 31; i < j; i, j = i+1, j-1 {
		d[i], d[j] = d[j], d[i]
	}
	return new(big.Int).SetBytes(d[:])
}

// Block assembles a block at height over txs with the reference merkle root and a valid proof.
func Block(p *config.Configuration, height uint32, txs []interfaces.Transaction) *types.Block {
	h := Header(p, height, RefMerkleRoot(TxIDs(txs)))
	Seal(&h)
	return &types.Block{Header: h, Transactions: append([]interfaces.Transaction{}, txs...)}
}
