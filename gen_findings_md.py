#!/usr/bin/env python3
"""Generates FINDINGS.md from known_findings.json + known_findings.d/*.json."""
import json, glob, os
here=os.path.dirname(os.path.abspath(__file__))
ents=[]
for f in [os.path.join(here,'known_findings.json')]+sorted(glob.glob(os.path.join(here,'known_findings.d','*.json'))):
    try: ents+=json.load(open(f))
    except Exception as e: print('bad',f,e)
def cl(s): return str(s).replace('|','\\|').replace('\n',' ')
known=[e for e in ents if e.get('status')=='known']; fixed=[e for e in ents if e.get('status')=='fixed']
out=["# Findings","",f"{len(known)} known (recorded, not repaired) and {len(fixed)} fixed signatures. A *known* signature prints `KNOWN-FINDING:` and does not fail a run; a *fixed* entry suppresses nothing.","",
"## Known (genuine, not repaired)","","| property | signature | what |","|---|---|---|"]
for e in sorted(known,key=lambda e:(e['property'],e['signature'])):
    out.append(f"| {e['property']} | `{cl(e['signature'])}` | {cl(e['what'])[:600]} |")
out+=["","## Fixed (repaired by a `fix:` commit in /repo)","","| property | commit(s) | signature | what failed |","|---|---|---|---|"]
for e in sorted(fixed,key=lambda e:(e['property'],e['signature'])):
    out.append(f"| {e['property']} | {e.get('commit','')} | `{cl(e['signature'])}` | {cl(e['what'])[:400]} |")
open(os.path.join(here,'FINDINGS.md'),'w').write('\n'.join(out)+'\n')
print(len(known),'known',len(fixed),'fixed')
