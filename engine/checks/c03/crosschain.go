package main

import (
	"encoding/hex"
	"fmt"

	"github.com/elastos/Elastos.ELA/common"
	"github.com/elastos/Elastos.ELA/common/config"
	"github.com/elastos/Elastos.ELA/core"
	pg "github.com/elastos/Elastos.ELA/core/contract/program"
	"github.com/elastos/Elastos.ELA/core/transaction"
	ctypes "github.com/elastos/Elastos.ELA/core/types/common"
	"github.com/elastos/Elastos.ELA/core/types/interfaces"
	"github.com/elastos/Elastos.ELA/core/types/outputpayload"
	"github.com/elastos/Elastos.ELA/core/types/payload"

	"verif/evid"
	"verif/keys"
)

// seam 7: payload-carried slice indexes of TransferCrossChainAsset (v0 OutputIndexes; v1 for
// completeness), in the order the node applies its checks to a decoded transaction:
// the type's own SanityCheck (HeightVersionCheck, outputs, programs, payload) -> SpecialContextCheck
// (with harness references) -> IsSmallTransfer (what the mempool calls on an accepted transaction).
// Each later step is only run if the earlier one accepted at that height, so a recovered panic is
// by construction on an input the node lets through to that function in that height regime:
// payload v0 is only admitted by HeightVersionCheck while height <= NewCrossChainStartHeight
// (mainnet 1 032 840: block validation of that era; RegNet parameters 730 000: a fresh private
// network is below it), v1 only above.

type xcCounters struct {
	evals, sanityRejected, ctxAccepted, ctxRejected, panics int64
}

func xcTx(ver byte, nOut int, idx []uint64, txVer ctypes.TransactionVersion) interfaces.Transaction {
	x := common.Uint168(keys.ProgramHash(keys.PrefixCrossChain, append(make([]byte, 32), keys.OpCrossChain)))
	std := common.Uint168(keys.ProgramHash(keys.PrefixStandard, keys.StandardCode(keys.Pub(9))))
	var outs []*ctypes.Output
	for i := 0; i < nOut; i++ {
		h := x
		if i == nOut-1 && nOut > 1 {
			h = std // change output
		}
		o := &ctypes.Output{AssetID: core.ELAAssetID, Value: 200000, ProgramHash: h, Type: ctypes.OTNone, Payload: &outputpayload.DefaultOutput{}}
		if ver == payload.TransferCrossChainVersionV1 && h == x {
			o.Type = ctypes.OTCrossChain
			o.Payload = &outputpayload.CrossChainOutput{Version: 0, TargetAddress: "EbxU18T3M9ufnrkRY7NLt6sKyckDW4VAsA", TargetAmount: 100000, TargetData: []byte{}}
		}
		outs = append(outs, o)
	}
	p := &payload.TransferCrossChainAsset{}
	for k, i := range idx {
		p.CrossChainAddresses = append(p.CrossChainAddresses, fmt.Sprintf("EbxU18T3M9ufnrkRY7NLt6sKyckDW4VAs%c", 'A'+k))
		p.OutputIndexes = append(p.OutputIndexes, i)
		p.CrossChainAmounts = append(p.CrossChainAmounts, 100000)
	}
	return transaction.CreateTransaction(txVer, ctypes.TransferCrossChainAsset, ver, p,
		[]*ctypes.Attribute{{Usage: ctypes.Nonce, Data: []byte{7}}},
		[]*ctypes.Input{{Previous: ctypes.OutPoint{TxID: u256(0x61), Index: 0}, Sequence: 0}},
		outs, 0, []*pg.Program{{Code: keys.StandardCode(keys.Pub(9)), Parameter: make([]byte, 65)}})
}

func indexAlphabet(l int) []uint64 {
	cand := []uint64{0, 1, uint64(l - 1), uint64(l), uint64(l + 1), 1<<31 - 1, 1 << 31, 1<<32 - 1, 1<<63 - 1, 1 << 63, 1<<64 - 1}
	seen := map[uint64]bool{}
	var out []uint64
	for _, v := range cand {
		if !seen[v] {
			seen[v] = true
			out = append(out, v)
		}
	}
	return out
}

func runCrossChain(r *evid.Run, f *fixture, ct *xcCounters, classes *evid.Distinct, samples *evid.Samples) {
	regnet := config.GetDefaultParams().RegNet()
	regimes := []struct {
		name   string
		cfg    *config.Configuration
		height uint32
	}{
		{"mainnet@1000000 (<= NewCrossChainStartHeight)", f.params, 1000000},
		{"mainnet@2300000", f.params, 2300000},
		{"regnet-parameters@1000", regnet, 1000},
		{"regnet-parameters@800000", regnet, 800000},
	}
	std := common.Uint168(keys.ProgramHash(keys.PrefixStandard, keys.StandardCode(keys.Pub(9))))
	for _, rg := range regimes {
		for _, ver := range []byte{payload.TransferCrossChainVersion, payload.TransferCrossChainVersionV1, 2} {
			for _, txVer := range []ctypes.TransactionVersion{ctypes.TxVersionDefault, ctypes.TxVersion09} {
				for nOut := 1; nOut <= 3; nOut++ {
					alpha := indexAlphabet(nOut)
					var lists [][]uint64
					lists = append(lists, []uint64{})
					for _, a := range alpha {
						lists = append(lists, []uint64{a})
						for _, b := range alpha {
							lists = append(lists, []uint64{a, b})
						}
					}
					for _, l := range lists {
						if ver != payload.TransferCrossChainVersion && len(l) > 1 {
							continue // the payload of v1+ carries no entries on the wire
						}
						desc := fmt.Sprintf("regime=%s payload_version=%d tx_version=%d outputs=%d output_indexes=%v", rg.name, ver, txVer, nOut, l)
						raw, err := encodeTx(xcTx(ver, nOut, l, txVer))
						if err != nil {
							classes.Add("crosschain:unserializable")
							continue
						}
						tx, err := decodeTxBytes(raw)
						if err != nil {
							classes.Add("crosschain:undecodable")
							continue
						}
						ct.evals++
						art := map[string]interface{}{"kind": "crosschain", "tx": hex.EncodeToString(raw), "desc": desc}
						params := &transaction.TransactionParameters{Transaction: tx, BlockHeight: rg.height, Config: rg.cfg, BlockChain: f.chain}
						var serr error
						o := guard(func() {
							if e := tx.SanityCheck(params); e != nil {
								serr = e
							}
						})
						if o.Panicked {
							ct.panics++
							art["panic"], art["step"] = o.Value, "SanityCheck"
							classes.Add("crosschain:panic:" + o.Site)
							r.Violate(sig(o), "TransferCrossChainAsset SanityCheck panics on a decodable transaction", art)
							continue
						}
						if serr != nil {
							ct.sanityRejected++
							classes.Add("crosschain:sanity-reject:" + tailErr(serr))
							continue
						}
						in := tx.Inputs()[0]
						tx.SetReferences(map[*ctypes.Input]ctypes.Output{in: {AssetID: core.ELAAssetID, Value: 1000000, ProgramHash: std}})
						var cerr error
						o = guard(func() {
							if e, _ := tx.SpecialContextCheck(); e != nil {
								cerr = e
							}
						})
						if o.Panicked {
							ct.panics++
							art["panic"], art["step"] = o.Value, "SpecialContextCheck after SanityCheck accepted"
							classes.Add("crosschain:panic:" + o.Site)
							r.Violate(sig(o), "TransferCrossChainAsset SpecialContextCheck panics on a transaction its SanityCheck accepts at that height", art)
							continue
						}
						if cerr != nil {
							ct.ctxRejected++
							classes.Add("crosschain:context-reject:" + tailErr(cerr))
							continue
						}
						ct.ctxAccepted++
						classes.Add(fmt.Sprintf("crosschain:accept:payload-v%d", ver))
						samples.Add(map[string]interface{}{"crosschain_accept": desc})
						o = guard(func() { tx.IsSmallTransfer(rg.cfg.SmallCrossTransferThreshold) })
						if o.Panicked {
							ct.panics++
							art["panic"], art["step"] = o.Value, "IsSmallTransfer after acceptance"
							classes.Add("crosschain:panic:" + o.Site)
							r.Violate(sig(o), "IsSmallTransfer (mempool) panics on an accepted TransferCrossChainAsset", art)
						}
					}
				}
			}
		}
	}
}

func tailErr(err error) string {
	m := err.Error()
	if len(m) > 52 {
		m = m[len(m)-52:]
	}
	return "..." + m
}
