package main

// One real ffldb database on a scratch directory, driven operation by operation together with
// the reference model; every oracle clause is evaluated through the public database interface.

import (
	"bytes"
	"errors"
	"fmt"
	"os"
	"strings"
	"time"

	"github.com/btcsuite/btcd/wire"

	"github.com/elastos/Elastos.ELA/common"
	"github.com/elastos/Elastos.ELA/database"
	"github.com/elastos/Elastos.ELA/database/ffldb"
)

const magic = wire.BitcoinNet(0x16161616)

type cacheCfg struct {
	Name     string
	MaxSize  uint64
	Interval time.Duration
}

var cacheCfgs = []cacheCfg{
	{"flush-every-commit", 0, -1},
	{"write-back", 1 << 40, 1 << 62},
	{"flush-when-cache-nonempty", 0, 1 << 62},
}

type failure struct{ sig, what string }

type inst struct {
	dir     string
	cfg     cacheCfg
	db      database.DB
	m       store // committed content
	nblocks int   // committed blocks
	mks     int   // bucket creations committed so far (bucket id counter)

	tx     database.Tx
	tm     *txModel
	cursor database.Cursor

	hist   []string
	fails  []failure
	quiet  bool // replaying a prefix that has been checked before: no oracle evaluation
	lite   bool // replaying a transaction body: only the (cheap) cursor position checks are evaluated
	probes bool
}

func newInst(dir string, cfg cacheCfg) *inst {
	os.RemoveAll(dir)
	db, err := database.Create("ffldb", dir, magic)
	if err != nil {
		panic(fmt.Sprintf("create: %v", err))
	}
	ffldb.VerifSetCache(db, cfg.MaxSize, cfg.Interval)
	return &inst{dir: dir, cfg: cfg, db: db, m: emptyStore(), probes: true}
}

func (in *inst) close() {
	if in.tx != nil {
		in.tx.Rollback()
		in.tx = nil
	}
	if in.db != nil {
		in.db.Close()
		in.db = nil
	}
	os.RemoveAll(in.dir)
}

func (in *inst) failf(sig, format string, a ...interface{}) {
	if in.quiet {
		return
	}
	in.fails = append(in.fails, failure{"C16|" + sig, fmt.Sprintf(format, a...)})
}

func code(err error) string {
	if err == nil {
		return "nil"
	}
	var de database.Error
	if errors.As(err, &de) {
		return de.ErrorCode.String()
	}
	return "other:" + err.Error()
}

func internal(name string) bool { return strings.HasPrefix(name, "ffldb-") }

func (in *inst) buckets(tx database.Tx) [3]database.Bucket {
	var bs [3]database.Bucket
	bs[bR] = tx.Metadata()
	if x := bs[bR].Bucket([]byte("x")); x != nil {
		bs[bX] = x
		if y := x.Bucket([]byte("y")); y != nil {
			bs[bY] = y
		}
	}
	return bs
}

type kv struct {
	k string
	v []byte
	b bool
}

func walk(c database.Cursor, forward bool) []kv {
	var out []kv
	var ok bool
	if forward {
		ok = c.First()
	} else {
		ok = c.Last()
	}
	for ; ok && len(out) < 64; ok = step(c, forward) {
		v := c.Value()
		out = append(out, kv{string(c.Key()), v, v == nil})
	}
	return out
}

func step(c database.Cursor, forward bool) bool {
	if forward {
		return c.Next()
	}
	return c.Prev()
}

func blockHash(i int) common.Uint256 {
	var h common.Uint256
	for j := range h {
		h[j] = byte(0x31 + i*11 + j)
	}
	return h
}

func blockData(i int) []byte {
	b := make([]byte, 30+i)
	for j := range b {
		b[j] = byte(j*7 + i*13 + 1)
	}
	return b
}

// fullRead compares everything readable in tx with w. phase names the situation for signatures.
func (in *inst) fullRead(tx database.Tx, w *store, writable bool, blocks int, phase string) {
	if in.quiet || in.lite {
		return
	}
	bs := in.buckets(tx)
	for b := 0; b < 3; b++ {
		if (bs[b] != nil) != w.exists[b] {
			in.failf("bucket-exists|"+phase, "bucket %s: Bucket() != nil is %v, model says %v (model %v)", bucketName[b], bs[b] != nil, w.exists[b], w)
			continue
		}
		if bs[b] == nil {
			continue
		}
		bk := bs[b]
		if bk.Writable() != writable {
			in.failf("writable|"+phase, "bucket.Writable() = %v in a transaction with writable=%v", bk.Writable(), writable)
		}
		for k := 0; k < 3; k++ {
			got := bk.Get([]byte(keyName[k]))
			want := w.val[b][k]
			if (want < 0 && got != nil) || (want >= 0 && (got == nil || !bytes.Equal(got, valBytes[want]))) {
				in.failf("get|"+phase, "bucket %s Get(%s) = %q (nil=%v), model %v", bucketName[b], keyName[k], got, got == nil, w)
			}
		}
		if got := bk.Get([]byte("zz")); got != nil {
			in.failf("get-absent|"+phase, "Get of a key that was never stored = %q", got)
		}
		var fe, fb []kv
		if err := bk.ForEach(func(k, v []byte) error { fe = append(fe, kv{string(k), append([]byte{}, v...), false}); return nil }); err != nil {
			in.failf("foreach-error|"+phase, "ForEach: %v", err)
		}
		if err := bk.ForEachBucket(func(k []byte) error { fb = append(fb, kv{string(k), nil, true}); return nil }); err != nil {
			in.failf("foreachbucket-error|"+phase, "ForEachBucket: %v", err)
		}
		want := listing(w, b)
		var wk, wb []elem
		for _, e := range want {
			if e.bucket {
				wb = append(wb, e)
			} else {
				wk = append(wk, e)
			}
		}
		if !sameNames(fe, wk) {
			in.failf("foreach|"+phase, "bucket %s ForEach = %v, model keys %v", bucketName[b], names(fe), wk)
		} else {
			for _, e := range fe {
				if !internal(e.k) && !bytes.Equal(e.v, valBytes[w.val[b][keyIndex(e.k)]]) {
					in.failf("foreach-value|"+phase, "bucket %s ForEach value of %s = %q, model %v", bucketName[b], e.k, e.v, w)
				}
			}
		}
		if !sameNames(fb, wb) {
			in.failf("foreachbucket|"+phase, "bucket %s ForEachBucket = %v, model buckets %v", bucketName[b], names(fb), wb)
		}
		// full cursor: forward sequence = ForEach sequence + ForEachBucket sequence (each ascending),
		// backward traversal is its mirror image
		fw := walk(bk.Cursor(), true)
		bw := walk(bk.Cursor(), false)
		var ck, cb []kv
		for _, e := range fw {
			if e.b {
				cb = append(cb, e)
			} else {
				ck = append(ck, e)
			}
		}
		if !sameKV(ck, fe) || !sameKV(cb, fb) {
			in.failf("cursor-vs-foreach|"+phase, "bucket %s full cursor = %v but ForEach %v + ForEachBucket %v", bucketName[b], names(fw), names(fe), names(fb))
		} else if sameNames(fe, wk) && sameNames(fb, wb) && !sameNames(fw, want) {
			// contents agree with the model but the interleaving is not keys-then-buckets: the
			// harness' order convention does not hold (not a property violation)
			panic(fmt.Sprintf("engine: listing order convention broken: cursor %v, model %v", names(fw), want))
		}
		if len(bw) != len(fw) {
			in.failf("cursor-backward|"+phase, "bucket %s backward traversal %v is not the mirror image of forward %v", bucketName[b], names(bw), names(fw))
		} else {
			for i := range bw {
				if bw[i].k != fw[len(fw)-1-i].k || !bytes.Equal(bw[i].v, fw[len(fw)-1-i].v) {
					in.failf("cursor-backward|"+phase, "bucket %s backward traversal %v is not the mirror image of forward %v", bucketName[b], names(bw), names(fw))
					break
				}
			}
		}
	}
	for i := 0; i <= blocks; i++ {
		h := blockHash(i)
		has, err := tx.HasBlock(h)
		if err != nil || has != (i < blocks) {
			in.failf("hasblock|"+phase, "HasBlock(block %d of %d) = %v, %v", i, blocks, has, err)
		}
		if i < blocks {
			if got, err := tx.FetchBlock(&h); err != nil || !bytes.Equal(got, blockData(i)) {
				in.failf("fetchblock|"+phase, "FetchBlock(block %d) differs from what was stored (err %v)", i, err)
			}
		}
	}
	if in.probes {
		in.errorProbes(tx, bs, w, writable, phase)
	}
}

// errorProbes: calls that must fail with the documented code and change nothing.
func (in *inst) errorProbes(tx database.Tx, bs [3]database.Bucket, w *store, writable bool, phase string) {
	r := bs[bR]
	if writable {
		if c := code(r.Put(nil, []byte("v"))); c != "ErrKeyRequired" {
			in.failf("error-code|Bucket.Put|empty-key", "Put with an empty key = %s, want ErrKeyRequired", c)
		}
		if _, err := r.CreateBucket(nil); code(err) != "ErrBucketNameRequired" {
			in.failf("error-code|Bucket.CreateBucket|empty-name", "CreateBucket with an empty name = %s, want ErrBucketNameRequired", code(err))
		}
		if w.exists[bX] {
			if _, err := r.CreateBucket([]byte("x")); code(err) != "ErrBucketExists" {
				in.failf("error-code|Bucket.CreateBucket|exists", "CreateBucket of an existing bucket = %s, want ErrBucketExists", code(err))
			}
			if b, err := r.CreateBucketIfNotExists([]byte("x")); err != nil || b == nil {
				in.failf("error-code|Bucket.CreateBucketIfNotExists|exists", "CreateBucketIfNotExists of an existing bucket = %v, %v", b, err)
			}
		} else if c := code(r.DeleteBucket([]byte("x"))); c != "ErrBucketNotFound" {
			in.failf("error-code|Bucket.DeleteBucket|missing", "DeleteBucket of a missing bucket = %s, want ErrBucketNotFound", c)
		}
		return
	}
	if c := code(r.Put([]byte("a"), []byte("v"))); c != "ErrTxNotWritable" {
		in.failf("error-code|Bucket.Put|read-only", "Put in a read-only transaction = %s, want ErrTxNotWritable", c)
	}
	if c := code(r.Delete([]byte("a"))); c != "ErrTxNotWritable" {
		in.failf("error-code|Bucket.Delete|read-only", "Delete in a read-only transaction = %s, want ErrTxNotWritable", c)
	}
	if _, err := r.CreateBucket([]byte("q")); code(err) != "ErrTxNotWritable" {
		in.failf("error-code|Bucket.CreateBucket|read-only", "CreateBucket in a read-only transaction = %s, want ErrTxNotWritable", code(err))
	}
	if c := code(r.DeleteBucket([]byte("x"))); c != "ErrTxNotWritable" {
		in.failf("error-code|Bucket.DeleteBucket|read-only", "DeleteBucket in a read-only transaction = %s, want ErrTxNotWritable", c)
	}
	if c := code(tx.StoreBlock(blockHash(77), []byte{1})); c != "ErrTxNotWritable" {
		in.failf("error-code|Tx.StoreBlock|read-only", "StoreBlock in a read-only transaction = %s, want ErrTxNotWritable", c)
	}
}

func names(l []kv) []string {
	var o []string
	for _, e := range l {
		if e.b {
			o = append(o, e.k+"/")
		} else {
			o = append(o, e.k)
		}
	}
	return o
}

func sameNames(got []kv, want []elem) bool {
	if len(got) != len(want) {
		return false
	}
	for i := range got {
		if got[i].k != want[i].name || got[i].b != want[i].bucket {
			return false
		}
	}
	return true
}

func sameKV(a, b []kv) bool {
	if len(a) != len(b) {
		return false
	}
	for i := range a {
		if a[i].k != b[i].k || !bytes.Equal(a[i].v, b[i].v) {
			return false
		}
	}
	return true
}

// ---- transaction control ----------------------------------------------------------------------

func (in *inst) begin(rw bool) {
	in.hist = append(in.hist, map[bool]string{true: "begin:rw", false: "begin:ro"}[rw])
	tx, err := in.db.Begin(rw)
	if err != nil {
		in.failf("begin-error", "Begin(%v): %v", rw, err)
		panic("begin failed: " + err.Error())
	}
	in.tx = tx
	in.tm = &txModel{writable: rw, w: in.m}
	in.cursor = nil
	in.fullRead(tx, &in.tm.w, rw, in.nblocks, phaseOf(rw, "begin"))
}

func phaseOf(rw bool, s string) string {
	if rw {
		return "rw-tx|" + s
	}
	return "ro-tx|" + s
}

// viewCheck opens a fresh managed read-only transaction and compares everything with the
// committed model.
func (in *inst) viewCheck(phase string) {
	if in.quiet {
		return
	}
	err := in.db.View(func(tx database.Tx) error {
		in.fullRead(tx, &in.m, false, in.nblocks, phase)
		return nil
	})
	if err != nil {
		in.failf("view-error|"+phase, "View: %v", err)
	}
}

// closedProbes: every handle of a finished transaction must refuse to work.
func (in *inst) closedProbes(tx database.Tx, root database.Bucket, cur database.Cursor, phase string) {
	if in.quiet || !in.probes {
		return
	}
	if got := root.Get([]byte("a")); got != nil {
		in.failf("closed-tx|Bucket.Get|"+phase, "Get on a bucket of a closed transaction = %q", got)
	}
	if c := code(root.Put([]byte("a"), []byte("v"))); c != "ErrTxClosed" {
		in.failf("closed-tx|Bucket.Put|"+phase, "Put on a bucket of a closed transaction = %s, want ErrTxClosed", c)
	}
	if c := code(root.ForEach(func(k, v []byte) error { return nil })); c != "ErrTxClosed" {
		in.failf("closed-tx|Bucket.ForEach|"+phase, "ForEach on a bucket of a closed transaction = %s, want ErrTxClosed", c)
	}
	if c := code(tx.Commit()); c != "ErrTxClosed" {
		in.failf("closed-tx|Tx.Commit|"+phase, "Commit of a closed transaction = %s, want ErrTxClosed", c)
	}
	if c := code(tx.Rollback()); c != "ErrTxClosed" {
		in.failf("closed-tx|Tx.Rollback|"+phase, "Rollback of a closed transaction = %s, want ErrTxClosed", c)
	}
	if cur != nil {
		if cur.First() || cur.Next() || cur.Key() != nil || cur.Value() != nil {
			in.failf("closed-tx|Cursor|"+phase, "cursor of a closed transaction still moves")
		}
		if c := code(cur.Delete()); c != "ErrTxClosed" {
			in.failf("closed-tx|Cursor.Delete|"+phase, "Cursor.Delete of a closed transaction = %s, want ErrTxClosed", c)
		}
	}
}

func (in *inst) end(op string) {
	in.hist = append(in.hist, op)
	tx, tm, cur := in.tx, in.tm, in.cursor
	root := tx.Metadata()
	in.tx, in.tm, in.cursor = nil, nil, nil
	switch op {
	case "commit":
		err := tx.Commit()
		if !tm.writable {
			if code(err) != "ErrTxNotWritable" {
				in.failf("error-code|Tx.Commit|read-only", "Commit of a read-only transaction = %s, want ErrTxNotWritable", code(err))
			}
		} else {
			if err != nil {
				in.failf("commit-error", "Commit: %v", err)
			}
			in.m = tm.w
			in.nblocks += tm.blocks
			for b := range tm.gen {
				in.mks += int(tm.gen[b])
			}
		}
		in.closedProbes(tx, root, cur, "commit")
		in.viewCheck("after-commit")
	case "rollback":
		if err := tx.Rollback(); err != nil {
			in.failf("rollback-error", "Rollback: %v", err)
		}
		in.closedProbes(tx, root, cur, "rollback")
		in.viewCheck("after-rollback")
	}
}

// abort silently ends the open transaction (search housekeeping, not an explored operation).
func (in *inst) abort() {
	if in.tx != nil {
		in.tx.Rollback()
		in.tx, in.tm, in.cursor = nil, nil, nil
	}
}

var errBoom = errors.New("boom")

// updErr runs body inside db.Update and makes the function return an error: the transaction
// must be rolled back and leave no trace.
func (in *inst) updErr(body []string) {
	in.hist = append(in.hist, "upderr:"+strings.Join(body, ","))
	hl := len(in.hist)
	q := in.quiet
	err := in.db.Update(func(tx database.Tx) error {
		in.tx, in.tm, in.cursor = tx, &txModel{writable: true, w: in.m}, nil
		in.quiet = true // the body itself is checked step by step elsewhere
		for _, op := range body {
			in.applyOp(op)
		}
		in.quiet = q
		in.tx, in.tm, in.cursor = nil, nil, nil
		return errBoom
	})
	in.quiet = q
	in.hist = in.hist[:hl]
	if err != errBoom {
		in.failf("update-error-passthrough", "Update(fn returning an error) returned %v", err)
	}
	in.viewCheck("after-failed-update")
}

func (in *inst) reopen() {
	in.hist = append(in.hist, "reopen")
	if err := in.db.Close(); err != nil {
		in.failf("close-error", "Close: %v", err)
	}
	db, err := database.Open("ffldb", in.dir, magic)
	if err != nil {
		in.failf("reopen-error", "Open after Close: %v", err)
		panic("reopen failed: " + err.Error())
	}
	ffldb.VerifSetCache(db, in.cfg.MaxSize, in.cfg.Interval)
	in.db = db
	in.viewCheck("after-reopen")
}

// ---- operations inside a transaction -------------------------------------------------------------

func (in *inst) applyOp(op string) {
	in.hist = append(in.hist, op)
	tm := in.tm
	bs := in.buckets(in.tx)
	switch {
	case strings.HasPrefix(op, "p:"):
		b, k, v := int(op[2]-'0'), int(op[3]-'0'), int(op[4]-'0')
		if err := bs[b].Put([]byte(keyName[k]), valBytes[v]); err != nil {
			in.failf("put-error", "Put(%s/%s): %v", bucketName[b], keyName[k], err)
		}
		tm.applyWrite(op)
	case strings.HasPrefix(op, "d:"):
		b, k := int(op[2]-'0'), int(op[3]-'0')
		if err := bs[b].Delete([]byte(keyName[k])); err != nil {
			in.failf("delete-error", "Delete(%s/%s): %v", bucketName[b], keyName[k], err)
		}
		tm.applyWrite(op)
	case strings.HasPrefix(op, "mk:"):
		b := int(op[3] - '0')
		nb, err := bs[b-1].CreateBucket([]byte(bucketName[b]))
		if err != nil || nb == nil {
			in.failf("createbucket-error", "CreateBucket(%s): %v", bucketName[b], err)
		}
		tm.applyWrite(op)
	case strings.HasPrefix(op, "rm:"):
		b := int(op[3] - '0')
		if err := bs[b-1].DeleteBucket([]byte(bucketName[b])); err != nil {
			in.failf("deletebucket-error", "DeleteBucket(%s): %v", bucketName[b], err)
		}
		if tm.cur && tm.curB >= b {
			in.cursor = nil
		}
		tm.applyWrite(op)
	case op == "sb":
		i := in.nblocks + tm.blocks
		if err := in.tx.StoreBlock(blockHash(i), blockData(i)); err != nil {
			in.failf("storeblock-error", "StoreBlock: %v", err)
		}
		tm.applyWrite(op)
	case strings.HasPrefix(op, "c:"):
		b := int(op[2] - '0')
		in.cursor = bs[b].Cursor()
		tm.cursorStep(op)
		if !in.quiet {
			if in.cursor.Key() != nil || in.cursor.Value() != nil || in.cursor.Next() || in.cursor.Prev() {
				in.failf("cursor-unpositioned", "a cursor that was never positioned returns a key or moves")
			}
		}
		return // nothing else changed
	case op[0] == 'c':
		in.cursorOp(op)
		return
	}
	in.fullRead(in.tx, &tm.w, tm.writable, in.nblocks+tm.blocks, phaseOf(tm.writable, "in-tx"))
}

func (in *inst) cursorOp(op string) {
	tm := in.tm
	c := in.cursor
	l := listing(&tm.w, tm.curB)
	prev, stale := tm.curOps, tm.curStale
	var ok bool
	switch {
	case op == "cF":
		ok = c.First()
	case op == "cL":
		ok = c.Last()
	case strings.HasPrefix(op, "cS:"):
		ok = c.Seek([]byte(keyName[int(op[3]-'0')]))
	case op == "cN":
		ok = c.Next()
	case op == "cP":
		ok = c.Prev()
	case op == "cD":
		at, _ := tm.cursorStep(op)
		if err := c.Delete(); err != nil {
			in.failf("cursor-delete-error", "Cursor.Delete at key %s: %v", at, err)
		}
		// Cursor.Delete removes exactly the element under the cursor
		in.fullRead(in.tx, &tm.w, tm.writable, in.nblocks+tm.blocks, phaseOf(tm.writable, "after-cursor-delete"))
		return
	}
	want, wantB := tm.cursorStep(op)
	if in.quiet {
		return
	}
	// moving a cursor that has deleted through Cursor.Delete must not change what the transaction
	// sees (the deleted key stays deleted, nothing else disappears)
	if strings.Contains(prev, "D") && (op == "cN" || op == "cP") {
		in.fullRead(in.tx, &tm.w, tm.writable, in.nblocks+tm.blocks, phaseOf(tm.writable, "after-moving-a-cursor-that-deleted"))
	}
	// Signature of a cursor failure. A walk starts with an absolute positioning (First and Seek
	// position for forward travel, Last for backward travel); it is "mixed" as soon as one move
	// goes against that direction. Three symptom classes are separated from the generic one:
	//   mixed-direction walk over a bucket with pending changes;
	//   Seek-started forward walk that should reach a nested bucket;
	//   one-directional walk of a cursor that existed while the transaction was modified.
	class := map[byte]string{'F': "first", 'L': "last", 'S': "seek", 'N': "next", 'P': "prev"}[op[1]]
	walk := tm.curOps // includes the operation just applied
	start, profile := "unpositioned", "at-start"
	if walk != "" {
		start = map[byte]string{'F': "first", 'L': "last", 'S': "seek"}[walk[0]]
		moves := walk[1:]
		if walk[0] == 'S' {
			moves = walk[2:]
		}
		natural, against := "N", "P"
		if walk[0] == 'L' {
			natural, against = "P", "N"
		}
		switch {
		case strings.Contains(moves, against):
			profile = "mixed-direction"
		case strings.Contains(moves, natural):
			profile = map[string]string{"N": "forward", "P": "backward"}[natural]
		}
		if strings.Contains(moves, "D") && profile != "mixed-direction" {
			profile += "+cursor-delete"
		}
	}
	kind := "committed-only"
	if tm.writable && in.pendingIn(tm.curB) > 0 {
		kind = "with-pending"
	}
	var sig string
	switch {
	case start == "seek" && profile != "mixed-direction" && wantB && !internal(want):
		sig = "cursor|seek-walk|nested-bucket-expected|" + kind
	case profile == "mixed-direction":
		// (one defect class whatever the starting operation: the iterator that is not current is
		// left on the wrong side; "committed-only" = committed data split between leveldb and the
		// write cache, the same merge one layer below)
		sig = "cursor|mixed-direction-walk|" + kind
	case stale && profile != "at-start" && profile != "mixed-direction":
		sig = fmt.Sprintf("cursor|%s-walk|%s|tx-modified-since-cursor-creation", start, profile)
	default:
		sig = fmt.Sprintf("cursor|%s|%s-walk|%s|%s", class, start, profile, kind)
	}
	gotK, gotV := c.Key(), c.Value()
	if want == "" {
		if ok || gotK != nil || gotV != nil {
			in.failf(sig, "cursor on %s %v, cursor history %q then %s: expected exhausted, got ok=%v key=%q", bucketName[tm.curB], names2(l), prev, op, ok, gotK)
		}
		return
	}
	if !ok || string(gotK) != want {
		in.failf(sig, "cursor on %s %v, cursor history %q then %s: expected %q, got ok=%v key=%q", bucketName[tm.curB], names2(l), prev, op, want, ok, gotK)
		return
	}
	if wantB {
		if gotV != nil {
			in.failf(sig+"|value", "cursor at nested bucket %s returns a value", want)
		}
	} else if !internal(want) && (gotV == nil || !bytes.Equal(gotV, valBytes[tm.w.val[tm.curB][keyIndex(want)]])) {
		in.failf(sig+"|value", "cursor at key %s returns value %q, model %v", want, gotV, tm.w)
	}
}

func lastMove(ops string) string {
	if ops == "" {
		return "unpositioned"
	}
	switch ops[len(ops)-1] {
	case 'N':
		return "next"
	case 'P':
		return "prev"
	case 'F':
		return "first"
	case 'L':
		return "last"
	case 'D':
		return "cursor-delete"
	}
	return "seek"
}

// pendingIn reports whether the open transaction has pending changes that concern the listing
// of bucket b: 0 none, 1 keys only, 2 nested buckets (created or deleted) too.
func (in *inst) pendingIn(b int) int {
	tm := in.tm
	if tm.bst[b] != 0 || (b < bY && tm.bst[b+1] != 0) {
		return 2
	}
	for k := range tm.st[b] {
		if tm.st[b][k] != 0 {
			return 1
		}
	}
	return 0
}

func names2(l []elem) []string {
	var o []string
	for _, e := range l {
		if e.bucket {
			o = append(o, e.name+"/")
		} else {
			o = append(o, e.name)
		}
	}
	return o
}
