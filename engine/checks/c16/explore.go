package main

// Two-level explicit-state search.
//
// Operations inside a transaction are cheap and a transaction can always be abandoned, so all
// operation sequences of a transaction are explored on ONE live database: a transaction state is
// reached by Begin + replaying its (shortest) body, checked, and abandoned again; states are
// merged on the model digest (visible content, pending status of every key/bucket, cursor state
// including the cursor's own operation history since its last absolute positioning).
// Operations that change the committed state (commit, close+reopen) cannot be undone: each one
// is executed on a fresh database directory that replays the committed prefix (state = shortest
// history, engine mc style); committed states are merged on (content, block count, bucket id
// counter, cached entries, reopened-flag) and re-expanded when reached with more depth left.
//
// Depth = number of operations of the whole history: begin, every operation inside the
// transaction, commit / rollback / update-returning-error, close+reopen.

import (
	"fmt"
	"hash/fnv"
	"path/filepath"
	"strings"

	"github.com/elastos/Elastos.ELA/database/ffldb"
)

type event struct {
	Reopen bool
	Body   []string // transaction body (committed)
}

type explorer struct {
	cfg     cacheCfg
	depth   int
	shard   int
	nshards int
	scratch string
	seq     int
	stop    func() bool
	capped  bool
	tainted bool        // the live database no longer matches the model (after a reported violation)
	onExec  func(*inst) // told which instance is about to execute operations
	init    []event     // committed before the exploration starts (not counted in the depth)
	// opFilter restricts the operations inside a transaction (cursor family); cursorCommits makes
	// every distinct cursor walk that deleted through the cursor a commit candidate of its own
	opFilter      func(op string) bool
	cursorCommits bool

	mergedTransitions int64 // transitions into already-seen transaction states, executed and checked

	memo map[string]int // committed-state digest -> largest remaining depth expanded

	// counters
	txStates     int64 // distinct transaction states evaluated on the implementation
	outerStates  int64 // distinct committed states expanded
	transitions  int64 // operations executed with oracle evaluation
	executions   int64 // fresh databases created
	commits      int64
	reopens      int64
	failedUpd    int64
	rollbacks    int64
	cursorChecks int64
	pruned       int64 // bodies not extended because a cursor step inside them had failed
	fails        map[string]*recorded
	order        []string
	samples      [][]string
}

type recorded struct {
	What  string
	Hist  []string
	Count int
}

func (e *explorer) record(in *inst) {
	for _, f := range in.fails {
		// a rolled-back or failed transaction that left a trace (or a reopen that lost something)
		// has changed the committed state of the live database behind the model's back: nothing
		// evaluated on it afterwards is meaningful, the shard stops (reported, exhaustive=false)
		if strings.Contains(f.sig, "|after-rollback") || strings.Contains(f.sig, "|after-failed-update") || strings.Contains(f.sig, "|after-reopen") || strings.Contains(f.sig, "|after-commit") {
			e.capped, e.tainted = true, true
		}
		if r, ok := e.fails[f.sig]; ok {
			r.Count++
			continue
		}
		e.fails[f.sig] = &recorded{What: f.what, Hist: append([]string{}, in.hist...), Count: 1}
		e.order = append(e.order, f.sig)
	}
	in.fails = in.fails[:0]
}

func hashMod(s string, n int) int {
	h := fnv.New32a()
	h.Write([]byte(s))
	return int(h.Sum32() % uint32(n))
}

// fresh creates a database and silently replays the committed prefix.
func (e *explorer) fresh(prefix []event) *inst {
	e.seq++
	e.executions++
	in := newInst(filepath.Join(e.scratch, fmt.Sprintf("d%d", e.seq)), e.cfg)
	in.quiet = true
	for _, ev := range append(append([]event{}, e.init...), prefix...) {
		if ev.Reopen {
			in.reopen()
			continue
		}
		in.begin(true)
		for _, op := range ev.Body {
			in.applyOp(op)
		}
		in.end("commit")
	}
	in.quiet = false
	return in
}

func (e *explorer) outerDigest(in *inst, prefix []event) string {
	ck, cr := ffldb.VerifCacheLen(in.db)
	reopened := len(prefix) > 0 && prefix[len(prefix)-1].Reopen
	return fmt.Sprintf("%v|%v|%d|%d|%d/%d|%v", in.m.exists, in.m.val, in.nblocks, in.mks, ck, cr, reopened)
}

type txNode struct {
	body []string
	tm   txModel
}

// modelStep advances a copy of the transaction model without touching the implementation.
func modelStep(tm txModel, op string) txModel {
	tm.step(op)
	return tm
}

// exploreState expands the committed state the live instance is in.
func (e *explorer) exploreState(in *inst, prefix []event, used int) {
	rem := e.depth - used
	if e.onExec != nil {
		e.onExec(in)
	}
	dg := e.outerDigest(in, prefix)
	if best, ok := e.memo[dg]; ok && best >= rem {
		return
	}
	e.memo[dg] = rem
	e.outerStates++
	top := len(prefix) == 0
	var commits [][]string
	if rem >= 1 {
		commits = e.inner(in, prefix, rem, true, top)
		if !e.tainted {
			e.inner(in, prefix, rem, false, top)
		}
	}
	if e.tainted {
		return
	}
	for _, body := range commits {
		if e.capped {
			return
		}
		if top && hashMod("commit|"+strings.Join(body, ","), e.nshards) != e.shard {
			continue
		}
		in2 := e.fresh(prefix)
		if e.onExec != nil {
			e.onExec(in2)
		}
		in2.hist = e.flat(prefix)
		in2.begin(true)
		in2.lite = true
		for _, op := range body {
			in2.applyOp(op)
		}
		in2.lite = false
		if len(in2.fails) > 0 { // a cursor went wrong inside the body: reported there, not committed
			in2.close()
			e.pruned++
			continue
		}
		in2.end("commit")
		e.commits++
		e.transitions++
		e.record(in2)
		np := append(append([]event{}, prefix...), event{Body: body})
		if !e.tainted {
			e.exploreState(in2, np, used+len(body)+2)
		}
		in2.close()
		if e.onExec != nil {
			e.onExec(in)
		}
	}
	if rem >= 1 && !(len(prefix) > 0 && prefix[len(prefix)-1].Reopen) && (!top || e.shard == 0) {
		in.hist = e.flat(prefix)
		in.reopen()
		e.reopens++
		e.transitions++
		e.record(in)
		np := append(append([]event{}, prefix...), event{Reopen: true})
		if !e.tainted {
			e.exploreState(in, np, used+1)
		}
	}
}

// flat renders the initial events and the committed prefix as a replayable operation list.
func (e *explorer) flat(prefix []event) []string {
	return append(flat(e.init), flat(prefix)...)
}

func flat(prefix []event) []string {
	var h []string
	for _, ev := range prefix {
		if ev.Reopen {
			h = append(h, "reopen")
			continue
		}
		h = append(h, "begin:rw")
		h = append(h, ev.Body...)
		h = append(h, "commit")
	}
	return h
}

// inner explores every operation sequence of one transaction (writable or read-only) started in
// the current committed state, up to rem-1 operations, and returns the bodies whose commit has to
// be executed (one per distinct pending overlay).
func (e *explorer) inner(in *inst, prefix []event, rem int, rw bool, top bool) [][]string {
	base := e.flat(prefix)
	root := txNode{tm: txModel{writable: rw, w: in.m}}
	seen := map[string]bool{root.tm.digest(): true}
	overlays := map[string]bool{}
	var commits [][]string
	// the empty transaction: begin (+ end)
	if !top || e.shard == 0 {
		in.hist = append([]string{}, base...)
		in.begin(rw)
		e.transitions++
		e.txStates++
		e.record(in)
		if rem >= 2 {
			in.end("rollback")
			e.rollbacks++
			e.transitions++
			e.record(in)
			if !rw {
				in.hist = append([]string{}, base...)
				in.quiet = true
				in.begin(rw)
				in.quiet = false
				in.end("commit") // must fail with ErrTxNotWritable and close the transaction
				e.transitions++
			}
		} else {
			in.abort()
		}
		e.record(in)
	}
	if rw && rem >= 2 {
		overlays[root.tm.overlayDigest()] = true
		commits = append(commits, nil)
	}
	frontier := []txNode{root}
	maxBlocks := 2 - in.nblocks
	for len(frontier) > 0 {
		var next []txNode
		for _, n := range frontier {
			if len(n.body)+1 > rem-1 {
				continue
			}
			for _, op := range n.tm.ops(maxBlocks) {
				if e.opFilter != nil && !e.opFilter(op) {
					continue
				}
				if e.stop != nil && e.transitions&0xff == 0 && e.stop() {
					e.capped = true
				}
				if e.capped {
					return commits
				}
				tm2 := modelStep(n.tm, op)
				dg := tm2.digest()
				if seen[dg] {
					// a transition into a transaction state that was already reached by a shorter
					// history: not expanded again, but a mutating operation is still executed on the
					// implementation and checked (a put followed by a delete must look like the
					// delete alone — the model says so, the implementation has to agree)
					if op[0] == 'c' || (top && hashMod(dg+"|"+strings.Join(n.body, ",")+"|"+op, e.nshards) != e.shard) {
						continue
					}
					in.hist = append([]string{}, base...)
					in.quiet = true
					in.begin(rw)
					in.quiet, in.lite = false, true
					for _, o := range n.body {
						in.applyOp(o)
					}
					in.lite = false
					if len(in.fails) > 0 {
						in.fails = in.fails[:0]
						in.abort()
						e.pruned++
						continue
					}
					in.applyOp(op)
					e.transitions++
					e.mergedTransitions++
					if in.tm.digest() != dg {
						panic(fmt.Sprintf("engine: model simulation and execution disagree after %v + %s:\n%s\n%s", n.body, op, in.tm.digest(), dg))
					}
					e.record(in)
					in.abort()
					e.record(in)
					if e.tainted {
						return commits
					}
					continue
				}
				seen[dg] = true
				body := append(append([]string{}, n.body...), op)
				nn := txNode{body: body, tm: tm2}
				next = append(next, nn)
				canEnd := len(body)+2 <= rem
				if rw && canEnd {
					od := tm2.overlayDigest()
					if e.cursorCommits && strings.Contains(tm2.curOps, "D") {
						od += "|" + fmt.Sprint(tm2.curB) + tm2.curOps
					}
					if !overlays[od] {
						overlays[od] = true
						commits = append(commits, body)
					}
				}
				if top && hashMod(dg, e.nshards) != e.shard {
					continue
				}
				// evaluate on the implementation: begin, silent replay of the body, checked last op
				// (the cursor position checks stay on during the replay: a body on which a cursor
				// already went wrong is reported by its own shorter history and not extended)
				in.hist = append([]string{}, base...)
				in.quiet = true
				in.begin(rw)
				in.quiet, in.lite = false, true
				for _, o := range n.body {
					in.applyOp(o)
				}
				in.lite = false
				if len(in.fails) > 0 {
					in.fails = in.fails[:0]
					in.abort()
					e.pruned++
					continue
				}
				in.applyOp(op)
				e.txStates++
				e.transitions++
				if op[0] == 'c' {
					e.cursorChecks++
				}
				if in.tm.digest() != dg {
					panic(fmt.Sprintf("engine: model simulation and execution disagree after %v + %s:\n%s\n%s", n.body, op, in.tm.digest(), dg))
				}
				if len(e.samples) < 4 && len(body) == rem-1 {
					e.samples = append(e.samples, append([]string{}, in.hist...))
				}
				e.record(in)
				if canEnd {
					in.end("rollback") // leaves no trace
					e.rollbacks++
					e.transitions++
					e.record(in)
					if rw && op[0] != 'c' && !e.tainted {
						in.updErr(body) // failed managed transaction leaves no trace
						e.failedUpd++
						e.transitions++
						e.record(in)
					}
				} else {
					in.abort()
				}
				if e.tainted {
					return commits
				}
			}
		}
		frontier = next
	}
	return commits
}
