// C02: decoding untrusted bytes never crashes or over-allocates.
//
// Bounded-exhaustive enumeration against the repository's real decoders: for every seed (each
// transaction type × payload version, Block, DposBlock, Header, AuxPow, Confirm, every p2p/msg and
// dpos/p2p/msg message — all produced by the repository's own serialisers) every truncation,
// every single-field substitution over the boundary alphabet (fields are discovered by a tracking
// reader from the decoder's own Read calls), every single-byte substitution of the field bytes and
// the first 64 bytes over an 8-value alphabet; in the thorough tier every byte × all 256 values and
// every pair of fields.
// Oracle: the decoder returns (value | error), never panics, and the bytes it allocates
// (cumulative heap-allocation counter = MemStats.TotalAlloc, delta over the call, single goroutine, worker subprocess under ulimit -v) stay
// below 64·len(input) + 24 MiB.
package main

import (
	"encoding/hex"
	"fmt"
	"os"
	"runtime"
	"runtime/debug"
	"runtime/metrics"
	"strconv"
	"strings"

	"verif/evid"
	"verif/par"
	"verif/wire"
)

const (
	// allocation bound: 64·len + allocConst. The constant covers the decoders that pre-size from a
	// *checked* count or length: ReadVarString's 16 MiB cap (one failed read of a maximal string),
	// ReadVarBytes up to MaxBlockContextSize (8 MB), inv 50 000 × 44 B, merkleblock 10 000 hashes.
	allocConst   = 24 << 20
	allocPerByte = 64
	// a decoder that keeps calling Read this many times in a row after the input is exhausted is
	// cut off (sentinel panic raised by the harness reader, recovered by the harness); what it
	// allocated until then is measured like any other case.
	eofReadCap  = 1 << 18
	workerMemMB = 2048
	chunk0      = 4000
	learnMin    = 1 << 16 // only counts at least this large are learned as allocation sizes
)

type eofLoop struct{}
type suppressed struct{ sig string }

// guardOwn is set while the twin of an untracked decoder is run as a pre-screen: only then do the
// entries learned for the untracked decoder's own defects apply.
var guardOwn bool

// outcome of one decode
type outcome struct {
	Class    string // ok | err | panic | eofloop | suppressed
	Reads    int
	Alloc    uint64
	PanicAt  string
	PanicMsg string
	SupSite  string
}

var eofCap = eofReadCap

// totalAlloc is the cumulative number of heap bytes allocated by this process — the counter
// behind runtime.MemStats.TotalAlloc, read through runtime/metrics (no stop-the-world). Large
// allocations are accounted at once; small ones when their span is refilled, which can move a
// few KiB between neighbouring cases and is irrelevant against a bound of MiB.
var allocSample = []metrics.Sample{{Name: "/gc/heap/allocs:bytes"}}

func totalAlloc() uint64 {
	metrics.Read(allocSample)
	return allocSample[0].Value.Uint64()
}

// capTracker wraps the tracker with the EOF-loop cut-off.
type capTracker struct {
	*wire.Tracker
	eofRun int
}

func (c *capTracker) Read(p []byte) (int, error) {
	n, err := c.Tracker.Read(p)
	if n == 0 && len(p) > 0 {
		c.eofRun++
		if c.eofRun >= eofCap {
			panic(eofLoop{})
		}
	} else {
		c.eofRun = 0
	}
	return n, err
}

func panicClass(msg string) string {
	switch {
	case strings.Contains(msg, "makeslice"):
		return "makeslice"
	case strings.Contains(msg, "index out of range"):
		return "index out of range"
	case strings.Contains(msg, "slice bounds out of range"):
		return "slice bounds out of range"
	case strings.Contains(msg, "nil pointer"):
		return "nil pointer dereference"
	case strings.Contains(msg, "divide by zero"):
		return "integer divide by zero"
	case strings.Contains(msg, "interface conversion"):
		return "interface conversion"
	}
	if len(msg) > 60 {
		msg = msg[:60]
	}
	return msg
}

// known maps a read site whose value is used, unchecked, as an allocation size or loop bound
// (established by a measured violation) to the smallest value from which the violation is certain
// and to the signature it was reported under. Allocation grows with the count, so any case that
// reads a value at least that large at that site is the same violation; it is stopped at that read
// (so that the worker survives) and counted under the same signature.
type knownEnt struct {
	Min uint64 `json:"min"`
	Sig string `json:"sig"`
	Own bool   `json:"own,omitempty"` // defect of an untracked decoder, named through its twin's site
}
type known map[string]knownEnt

func (k known) min() uint64 {
	m := ^uint64(0)
	for _, v := range k {
		if v.Min < m {
			m = v.Min
		}
	}
	return m
}

func (k known) learn(site string, v uint64, sig string, own bool) bool {
	if site == "" || v < learnMin {
		return false
	}
	if cur, ok := k[site]; !ok || v < cur.Min {
		k[site] = knownEnt{Min: v, Sig: sig, Own: own}
		return true
	}
	return false
}

// guardFrom: a measured violation with count n and allocation A gives the per-element size A/n;
// counts whose predicted allocation is at least twice the bound are stopped at the read from then
// on, counts between one and two times the bound are still executed and measured.
func guardFrom(d diagResult, inputLen int) uint64 {
	n := d.MinVal
	if n == 0 || d.Alloc == 0 || d.Alloc <= bound(inputLen) {
		return n // death or makeslice panic at this count: only equal or larger counts are stopped
	}
	iters := n
	if strings.Contains(d.Signature, "|eof-loop|") && iters > eofReadCap {
		iters = eofReadCap // the loop was cut off after this many rounds
	}
	per := float64(d.Alloc) / float64(iters)
	g := uint64(2*float64(bound(inputLen))/per) + 1
	if g > n {
		g = n
	}
	if g < learnMin {
		g = learnMin
	}
	return g
}

func (k known) clone() known {
	o := known{}
	for a, b := range k {
		o[a] = b
	}
	return o
}

// decode runs the seed's decoder on input and measures it. For decoders that cannot take the
// tracking reader (DecodeBuf) the io.Reader twin is run first under the guard.
func decode(s *wire.Seed, input []byte, t *wire.Tracker, kn known) (o outcome) {
	if s.DecodeBuf != nil && len(kn) > 0 {
		tt := wire.NewTracker(input)
		tt.NoTrace = true
		guardOwn = true
		po := decode(s.TrackedTwin, input, tt, kn)
		guardOwn = false
		if po.Class == "suppressed" {
			return po
		}
		kn = nil
	}
	ct := &capTracker{Tracker: t}
	if len(kn) > 0 && s.DecodeBuf == nil {
		lo := kn.min()
		own := s.TrackedTwin != nil
		_ = own
		t.Guard = func(rd *wire.Rd, val uint64) {
			if val < lo {
				return
			}
			site := t.SiteHere()
			if e, ok := kn[site]; ok && val >= e.Min && (!e.Own || guardOwn) {
				panic(suppressed{e.Sig})
			}
		}
	}
	a0 := totalAlloc()
	func() {
		defer func() {
			if e := recover(); e != nil {
				switch x := e.(type) {
				case eofLoop:
					o.Class = "eofloop"
				case suppressed:
					o.Class = "suppressed"
					o.SupSite = x.sig
				default:
					o.Class = "panic"
					o.PanicMsg = fmt.Sprint(e)
					o.PanicAt = evid.PanicSite(debug.Stack())
				}
			}
		}()
		var err error
		if s.DecodeBuf != nil {
			_, err = s.Run(input, nil)
		} else {
			if s.Setup != nil {
				s.Setup()
			}
			_, err = s.Decode(ct)
		}
		if err != nil {
			o.Class = "err"
		} else {
			o.Class = "ok"
		}
	}()
	a1 := totalAlloc()
	o.Alloc = a1 - a0
	o.Reads = t.Reads
	if o.Alloc > 16<<20 {
		runtime.GC() // give the address space back before the next large case
	}
	return o
}

func bound(n int) uint64 { return uint64(allocPerByte*n) + allocConst }

// ---------------------------------------------------------------------------------------------
// case enumeration (identical in parent and worker)

type caseGen struct {
	seed   []byte
	fields []wire.Field
	tier   string
}

// each calls f for every case of the seed, in a fixed order, starting at case index `from`; f
// returns false to stop. It returns the number of cases visited or skipped.
func (g *caseGen) each(from int, f func(idx int, kind, label string, input []byte) bool) int {
	idx := 0
	emit := func(kind, label string, mk func() []byte) bool {
		if idx >= from {
			if !f(idx, kind, label, mk()) {
				return false
			}
		}
		idx++
		return true
	}
	// 1. every truncation
	for l := 0; l < len(g.seed); l++ {
		l := l
		if !emit("trunc", strconv.Itoa(l), func() []byte { return append([]byte{}, g.seed[:l]...) }) {
			return idx
		}
	}
	// 2. every single-field substitution
	for fi, fd := range g.fields {
		for _, sb := range wire.FieldSubsts(g.seed, fd) {
			sb := sb
			if !emit("field", fmt.Sprintf("f%d@%d:%s", fi, fd.Off, sb.Label), func() []byte { return wire.Apply(g.seed, sb) }) {
				return idx
			}
		}
	}
	// 3. single-byte substitutions. quick: every byte of every discovered field and the first 64
	// bytes of the seed × the 8-value alphabet; thorough: every byte × all 256 values
	alpha := wire.ByteAlphabet8
	positions := wire.FieldBytePositions(len(g.seed), g.fields, 64)
	if g.tier == "thorough" {
		alpha = make([]byte, 256)
		for i := range alpha {
			alpha[i] = byte(i)
		}
		positions = positions[:0]
		for p := 0; p < len(g.seed); p++ {
			positions = append(positions, p)
		}
	}
	for _, p := range positions {
		for _, v := range alpha {
			if v == g.seed[p] {
				continue
			}
			p, v := p, v
			if !emit("byte", fmt.Sprintf("%d=%02x", p, v), func() []byte {
				b := append([]byte{}, g.seed...)
				b[p] = v
				return b
			}) {
				return idx
			}
		}
	}
	// 4. thorough: every pair of fields over the reduced menu
	if g.tier == "thorough" {
		for i := 0; i < len(g.fields); i++ {
			si := wire.PairSubsts(g.seed, g.fields[i])
			for j := i + 1; j < len(g.fields); j++ {
				if g.fields[j].Off < g.fields[i].Off+g.fields[i].N {
					continue
				}
				sj := wire.PairSubsts(g.seed, g.fields[j])
				for _, a := range si {
					for _, b := range sj {
						a, b := a, b
						if !emit("pair", fmt.Sprintf("f%d:%s,f%d:%s", i, a.Label, j, b.Label), func() []byte { return wire.Apply(g.seed, a, b) }) {
							return idx
						}
					}
				}
			}
		}
	}
	return idx
}

// baseline decodes the unmodified seed with site tracking.
func baseline(s *wire.Seed) (trace []wire.Rd, ok bool) {
	src := s
	if s.TrackedTwin != nil {
		src = s.TrackedTwin
	}
	t := wire.NewTracker(src.Bytes)
	t.Sites = true
	if src.Setup != nil {
		src.Setup()
	}
	_, err := src.Decode(t)
	return t.Trace, err == nil && t.Remaining() == 0
}

// ---------------------------------------------------------------------------------------------
// diagnosis: find the read after which the allocation (or the allocation panic) happened

type diagResult struct {
	Signature string `json:"signature"`
	What      string `json:"what"`
	Class     string `json:"class"`
	Alloc     uint64 `json:"alloc"`
	Site      string `json:"site,omitempty"`   // learnable count site
	MinVal    uint64 `json:"minval,omitempty"` // the value read there
}

func rdValue(input []byte, rd wire.Rd) uint64 {
	if rd.Got == rd.N && (rd.N == 2 || rd.N == 4 || rd.N == 8) && rd.Off+rd.N <= len(input) {
		return wire.LEValue(input[rd.Off : rd.Off+rd.N])
	}
	return 0
}

// soleLargeRead: when the untracked decoder misbehaves on its own, the culprit count is named by
// the twin's trace if exactly one site read a large value.
func soleLargeRead(s *wire.Seed, input []byte) (string, uint64) {
	t := wire.NewTracker(input)
	t.Sites = true
	func() {
		defer func() { recover() }()
		if s.Setup != nil {
			s.Setup()
		}
		s.Decode(&capTracker{Tracker: t})
	}()
	site, val, n := "", uint64(0), 0
	for i, rd := range t.Trace {
		// the data part of a var-bytes read (preceded by its own one-byte length at the same
		// site) is not a count
		if i > 0 && t.Trace[i-1].Site == rd.Site && t.Trace[i-1].N == 1 && t.Trace[i-1].Got == 1 &&
			int(input[t.Trace[i-1].Off]) == rd.N {
			continue
		}
		if v := rdValue(input, rd); v >= learnMin {
			if rd.Site != site {
				n++
			}
			site, val = rd.Site, v
		}
	}
	if n == 1 {
		return site, val
	}
	return "", 0
}

func diagnose(s *wire.Seed, input []byte, announce bool) diagResult {
	if s.DecodeBuf != nil {
		// untracked decoder (takes *bytes.Buffer): if its io.Reader twin misbehaves on the same
		// bytes the defect is shared and carries the twin's signature; otherwise it is the
		// untracked decoder's own.
		tw := diagnose(s.TrackedTwin, input, announce)
		if tw.Signature != "" {
			return tw
		}
		site, val := soleLargeRead(s.TrackedTwin, input)
		if announce {
			par.Announce(fmt.Sprintf("site:%s|self@%s#%d", s.Name, site, val))
		}
		t := wire.NewTracker(input)
		t.NoTrace = true
		o := decode(s, input, t, nil)
		bad := o.Class == "panic" || o.Alloc > bound(len(input))
		switch {
		case o.Class == "panic" && panicClass(o.PanicMsg) != "makeslice":
			return diagResult{Signature: "C02|panic|" + o.PanicAt + "|" + panicClass(o.PanicMsg), Class: "panic", Alloc: o.Alloc,
				What: fmt.Sprintf("%s panics: %s", s.Name, o.PanicMsg)}
		case bad:
			return diagResult{Signature: "C02|alloc|" + s.Name + "|self", Class: "alloc", Alloc: o.Alloc, Site: site, MinVal: val,
				What: fmt.Sprintf("%s allocates from an unchecked wire count (%d bytes allocated for %d input bytes %s) where the io.Reader decoder of the same layout does not; count read at %s", s.Name, o.Alloc, len(input), o.PanicMsg, site)}
		}
		return diagResult{}
	}
	t := wire.NewTracker(input)
	t.Sites = true
	var allocAt []uint64
	eofRun, maxEofRun := 0, 0
	t.OnRead = func(i int, rd *wire.Rd) {
		if rd.Got == 0 && rd.N > 0 {
			eofRun++
			if eofRun > maxEofRun {
				maxEofRun = eofRun
			}
			if eofRun > 4096 {
				// enough to name the loop; do not record a million trace entries
				t.NoTrace = true
				t.Sites = false
				return
			}
		} else {
			eofRun = 0
		}
		if announce {
			par.Announce(fmt.Sprintf("site:%s#%d", rd.Site, rdValue(input, *rd)))
		}
		allocAt = append(allocAt, totalAlloc())
	}
	o := decode(s, input, t, nil)
	end := totalAlloc()
	tr := t.Trace
	last := wire.Rd{Site: "none|field=?"}
	if len(tr) > 0 {
		last = tr[len(tr)-1]
	}
	over := o.Alloc > bound(len(input))
	switch {
	case o.Class == "panic" && panicClass(o.PanicMsg) != "makeslice":
		return diagResult{Signature: "C02|panic|" + o.PanicAt + "|" + panicClass(o.PanicMsg), Class: "panic", Alloc: o.Alloc,
			What: fmt.Sprintf("decoder panics at %s: %s", o.PanicAt, o.PanicMsg)}
	case o.Class == "panic":
		return diagResult{Signature: "C02|alloc|" + last.Site, Class: "alloc", Alloc: o.Alloc, Site: last.Site, MinVal: rdValue(input, last),
			What: fmt.Sprintf("slice sized from the unchecked wire value read at %s: %s", last.Site, o.PanicMsg)}
	case over && maxEofRun > 1000:
		// which read is the loop bound? the one whose replacement by 1 makes the violation go away
		// (one try per distinct site, latest occurrence first; the trial runs only need to see
		// whether the loop is still there, so they are cut off early)
		csite, cval := "", uint64(0)
		triedSites := map[string]bool{}
		saveCap := eofCap
		eofCap = 1 << 13
		for i := len(tr) - 1; i >= 0 && len(triedSites) < 12 && !announce; i-- {
			v := rdValue(input, tr[i])
			if v < learnMin || triedSites[tr[i].Site] {
				continue
			}
			triedSites[tr[i].Site] = true
			patched := append([]byte{}, input...)
			copy(patched[tr[i].Off:tr[i].Off+tr[i].N], make([]byte, tr[i].N))
			patched[tr[i].Off] = 1
			pt := wire.NewTracker(patched)
			pt.NoTrace = true
			po := decode(s, patched, pt, nil)
			if po.Class != "eofloop" && po.Class != "panic" && po.Alloc <= bound(len(patched)) {
				csite, cval = tr[i].Site, v
				break
			}
		}
		eofCap = saveCap
		return diagResult{Signature: "C02|alloc|eof-loop|" + last.Site, Class: "alloc", Alloc: o.Alloc, Site: csite, MinVal: cval,
			What: fmt.Sprintf("decoder keeps looping (and appending) after the input is exhausted: the read at %s fails with EOF and the error is ignored; %d bytes allocated for %d input bytes", last.Site, o.Alloc, len(input))}
	case over:
		// the read that completed just before the largest allocation jump
		best, bestJump := -1, uint64(0)
		for i := range allocAt {
			nxt := end
			if i+1 < len(allocAt) {
				nxt = allocAt[i+1]
			}
			if nxt > allocAt[i] && nxt-allocAt[i] > bestJump {
				best, bestJump = i, nxt-allocAt[i]
			}
		}
		if best < 0 || best >= len(tr) || bestJump < 1<<20 {
			return diagResult{Signature: "C02|alloc|gradual|" + last.Site, Class: "alloc", Alloc: o.Alloc,
				What: fmt.Sprintf("%d bytes allocated for %d input bytes without a single large allocation (last read %s)", o.Alloc, len(input), last.Site)}
		}
		c := tr[best]
		return diagResult{Signature: "C02|alloc|" + c.Site, Class: "alloc", Alloc: o.Alloc, Site: c.Site, MinVal: rdValue(input, c),
			What: fmt.Sprintf("%d bytes allocated for %d input bytes right after the wire value read at %s (unchecked count used as an allocation size)", o.Alloc, len(input), c.Site)}
	}
	return diagResult{}
}

func seedNamed(seeds []*wire.Seed, n string) *wire.Seed {
	for _, s := range seeds {
		if s.Name == n {
			return s
		}
	}
	return nil
}

func hexPrefix(b []byte, n int) string {
	if len(b) > n {
		b = b[:n]
	}
	return hex.EncodeToString(b)
}

func listSeeds(seeds []*wire.Seed, skipped []string) {
	tot := 0
	for i, s := range seeds {
		tr, ok := baseline(s)
		fs := wire.Fields(tr)
		verr := s.Validate()
		fmt.Printf("%3d %-55s len=%4d reads=%3d fields=%3d baseline_ok=%v valid=%v\n", i, s.Name, len(s.Bytes), len(tr), len(fs), ok, verr)
		if len(os.Args) > 2 && (os.Args[2] == "-v" || os.Args[2] == s.Name) {
			for _, f := range fs {
				fmt.Printf("      @%d w%d %s\n", f.Off, f.N, f.Site)
			}
		}
		g := &caseGen{seed: s.Bytes, fields: fs, tier: "quick"}
		tot += g.each(1<<60, func(int, string, string, []byte) bool { return true })
	}
	fmt.Println("skipped:", skipped)
	fmt.Println("total quick cases:", tot)
}

func replay(r *evid.Run, scr string, seeds []*wire.Seed) {
	var a artefact
	sig := r.LoadReplay(&a)
	fmt.Printf("replaying %s: seed %s, %s %s, %d input bytes\n", sig, a.Seed, a.Kind, a.Label, len(a.Input)/2)
	si := -1
	for i, s := range seeds {
		if s.Name == a.Seed {
			si = i
		}
	}
	if si < 0 {
		evid.Fatalf("replay: unknown seed %q", a.Seed)
	}
	input, err := hex.DecodeString(a.Input)
	if err != nil {
		evid.Fatalf("replay: bad hex")
	}
	d := diagInSubprocess(scr, si, seeds[si], input)
	os.RemoveAll(scr)
	if d.Signature != "" {
		fmt.Printf("  reproduced: %s — %s\n", d.Signature, d.What)
		r.Violate(d.Signature, d.What, a)
	} else {
		fmt.Println("  not reproduced: the decoder returned without panic within the allocation bound")
	}
	r.Finish(evid.Coverage{})
}
