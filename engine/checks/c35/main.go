// C35: P2P framing rejects anything but well-formed, authentic messages.
//
// For every command of the node's command tables — main net: p2p/peer.(*Peer).createMessage over
// elanet.createMessage; DPoS net: dpos/p2p/peer.(*Peer).createMessage over dpos.createMessage —
// a small populated message is written with p2p.WriteMessage into an in-memory net.Conn and read
// back with p2p.ReadMessage. Then every single-byte substitution (16-value alphabet; thorough:
// 256 values) of the 24-byte header and of the payload, a menu of declared lengths with the
// stream cut or padded accordingly, unknown commands and wrong magics are read.
// Oracle: the round trip yields an equal message; every corrupted frame is rejected (a command
// changed into another command of the table may only be accepted as that command); nothing
// panics; a rejected read allocates no more than the declared length — and that only if the
// length is within the command's MaxLength — plus slack.
package main

import (
	"bytes"
	"encoding/binary"
	"encoding/json"
	"fmt"
	"io"
	"net"
	"os"
	"runtime"
	"runtime/debug"
	"sort"
	"strconv"
	"strings"
	"time"

	"github.com/elastos/Elastos.ELA/common"
	"github.com/elastos/Elastos.ELA/core/types"
	"github.com/elastos/Elastos.ELA/core/types/payload"
	"github.com/elastos/Elastos.ELA/dpos"
	dmsg "github.com/elastos/Elastos.ELA/dpos/p2p/msg"
	dpeer "github.com/elastos/Elastos.ELA/dpos/p2p/peer"
	"github.com/elastos/Elastos.ELA/elanet"
	"github.com/elastos/Elastos.ELA/p2p"
	"github.com/elastos/Elastos.ELA/p2p/msg"
	ppeer "github.com/elastos/Elastos.ELA/p2p/peer"

	"verif/evid"
	"verif/hx"
	"verif/par"
	"verif/wire"
)

const (
	magic = 0x7630401
	// slack: what a rejected read may allocate besides the payload buffer (error values, header
	// parsing, log arguments). The checksum failure path hex-encodes the payload for a log line
	// (a []byte and a string of 2 bytes per payload byte each, evaluated even when the level is
	// filtered): measured 5 × length on a checksum failure. A rejected frame with an in-limit
	// length may therefore cost up to payloadFactor × length; the measured maximum is reported.
	slack         = 64 << 10
	payloadFactor = 6
)

// bufConn is an in-memory net.Conn: reads come from a byte string followed by `pad` zero bytes,
// writes are collected.
type bufConn struct {
	in  []byte
	pad int64
	out bytes.Buffer
}

func (c *bufConn) Read(p []byte) (int, error) {
	if len(c.in) > 0 {
		n := copy(p, c.in)
		c.in = c.in[n:]
		return n, nil
	}
	if c.pad > 0 {
		n := len(p)
		if int64(n) > c.pad {
			n = int(c.pad)
		}
		for i := 0; i < n; i++ {
			p[i] = 0
		}
		c.pad -= int64(n)
		return n, nil
	}
	return 0, io.EOF
}
func (c *bufConn) Write(p []byte) (int, error)      { return c.out.Write(p) }
func (c *bufConn) Close() error                     { return nil }
func (c *bufConn) LocalAddr() net.Addr              { return &net.TCPAddr{IP: net.IPv4(127, 0, 0, 1), Port: 1} }
func (c *bufConn) RemoteAddr() net.Addr             { return &net.TCPAddr{IP: net.IPv4(127, 0, 0, 1), Port: 2} }
func (c *bufConn) SetDeadline(time.Time) error      { return nil }
func (c *bufConn) SetReadDeadline(time.Time) error  { return nil }
func (c *bufConn) SetWriteDeadline(time.Time) error { return nil }

var memStats runtime.MemStats

// totalAlloc: runtime.ReadMemStats flushes the per-P allocation caches first, so the delta over
// one call is exact to the byte (needed here: the slack is KiB, not MiB).
func totalAlloc() uint64 {
	runtime.ReadMemStats(&memStats)
	return memStats.TotalAlloc
}

type table struct {
	name   string
	create p2p.CreateMessage
	// commands of the table with a populated message each
	cmds []cmdSpec
}

type cmdSpec struct {
	cmd   string
	label string
	value p2p.Message
	max   uint32
	setup func()
}

func getDposBlock(m p2p.Message) (*types.DposBlock, bool) {
	mb, ok := m.(*msg.Block)
	if !ok {
		return nil, false
	}
	db, ok := mb.Serializable.(*types.DposBlock)
	return db, ok
}

func tables() []table {
	p2pSpecs := map[string][]wire.MsgSpec{}
	for _, s := range wire.P2PMsgSpecs() {
		p2pSpecs[s.Cmd] = append(p2pSpecs[s.Cmd], s)
	}
	dposSpecs := map[string][]wire.MsgSpec{}
	for _, s := range wire.DposMsgSpecs() {
		dposSpecs[s.Cmd] = append(dposSpecs[s.Cmd], s)
	}
	pick := func(m map[string][]wire.MsgSpec, cmds ...string) []cmdSpec {
		var out []cmdSpec
		for _, c := range cmds {
			ss := m[c]
			if len(ss) == 0 {
				evid.Fatalf("no populated message for command %q", c)
			}
			for _, s := range ss {
				out = append(out, cmdSpec{cmd: c, label: s.Name, value: s.Value, max: s.Value.MaxLength(), setup: s.Setup})
			}
		}
		return out
	}
	main := table{name: "main", create: ppeer.VerifCreateMessage(elanet.VerifCreateMessage)}
	main.cmds = pick(p2pSpecs, p2p.CmdVersion, p2p.CmdVerAck, p2p.CmdGetAddr, p2p.CmdAddr, p2p.CmdPing, p2p.CmdPong,
		p2p.CmdMemPool, p2p.CmdTx, p2p.CmdBlock, p2p.CmdInv, p2p.CmdNotFound, p2p.CmdGetData, p2p.CmdGetBlocks,
		p2p.CmdFilterAdd, p2p.CmdFilterClear, p2p.CmdFilterLoad, p2p.CmdTxFilter, p2p.CmdReject, p2p.CmdDAddr)

	dp := table{name: "dpos", create: dpeer.VerifCreateMessage(dpos.VerifCreateMessage)}
	dp.cmds = pick(dposSpecs, dmsg.CmdVersion, dmsg.CmdVerAck, dmsg.CmdAddr, dmsg.CmdPing, dmsg.CmdPong,
		dmsg.CmdAcceptVote, dmsg.CmdReceivedProposal, dmsg.CmdRejectVote, dmsg.CmdInv, dmsg.CmdGetBlock, dmsg.CmdGetBlocks,
		dmsg.CmdResponseBlocks, dmsg.CmdRequestConsensus, dmsg.CmdResponseConsensus, dmsg.CmdRequestProposal,
		dmsg.CmdIllegalProposals, dmsg.CmdIllegalVotes, dmsg.CmdSidechainIllegalData, dmsg.CmdResponseInactiveArbitrators,
		dmsg.CmdResponseRevertToDPOS, dmsg.CmdResetConsensusView)
	// block and tx travel on the DPoS net as well: a plain block, and a transaction
	{
		f := &wire.Filler{N: 2, Bool: true}
		blk := &types.Block{Header: *wire.NewHeader(f, 1, 1), Transactions: wire.SmallTxs(f, 2)}
		m := msg.NewBlock(blk)
		dp.cmds = append(dp.cmds, cmdSpec{cmd: p2p.CmdBlock, label: "dposnet/block", value: m, max: m.MaxLength()})
		for _, s := range p2pSpecs[p2p.CmdTx] {
			dp.cmds = append(dp.cmds, cmdSpec{cmd: p2p.CmdTx, label: "dposnet/tx", value: s.Value, max: s.Value.MaxLength()})
		}
	}
	return []table{main, dp}
}

type readResult struct {
	msg   p2p.Message
	err   error
	panic string
	alloc uint64
}

func read(t *table, frame []byte, pad int64) (res readResult) {
	c := &bufConn{in: frame, pad: pad}
	a0 := totalAlloc()
	func() {
		defer func() {
			if e := recover(); e != nil {
				res.panic = fmt.Sprint(e) + " at " + evid.PanicSite(debug.Stack())
			}
		}()
		res.msg, res.err = p2p.ReadMessage(c, magic, time.Minute, t.create)
	}()
	res.alloc = totalAlloc() - a0
	return
}

func errClass(err error) string {
	if err == nil {
		return "accepted"
	}
	s := err.Error()
	switch {
	case err == p2p.ErrUnmatchedMagic:
		return "unmatched magic"
	case err == p2p.ErrInvalidHeader:
		return "invalid header"
	case err == p2p.ErrMsgSizeExceeded:
		return "size exceeded"
	case err == p2p.ErrInvalidPayload:
		return "invalid payload (checksum)"
	case err == io.EOF || err == io.ErrUnexpectedEOF:
		return "short stream"
	case strings.Contains(s, "deserialize"):
		return "payload deserialize"
	case strings.Contains(s, "unhandled") || strings.Contains(s, "unsupported") || strings.Contains(s, "invalid message"):
		return "unknown command"
	}
	if len(s) > 40 {
		s = s[:40]
	}
	return s
}

func hdrCmd(frame []byte) string {
	return string(bytes.TrimRight(frame[4:16], "\x00"))
}

type stats struct {
	evals    int
	classes  map[string]int
	distinct map[string]bool
	maxRatio float64
	maxAlloc uint64
}

// runCommand executes every case of one (table, command), starting at case index from.
func runCommand(r *evid.Run, t *table, c cmdSpec, alpha []byte, from int, st *stats, samples *evid.Samples) {
	valid := map[string]bool{}
	for _, x := range t.cmds {
		valid[x.cmd] = true
	}
	caseIdx := 0
	if c.setup != nil {
		c.setup()
	}
	art := func(kind string, extra map[string]interface{}) map[string]interface{} {
		m := map[string]interface{}{"table": t.name, "command": c.cmd, "label": c.label, "kind": kind}
		for k, v := range extra {
			m[k] = v
		}
		return m
	}
	// --- round trip
	w := &bufConn{}
	if err := p2p.WriteMessage(w, magic, c.value, time.Minute, getDposBlock); err != nil {
		r.Violate("C35|write-error|"+t.name+"|"+c.cmd, "WriteMessage fails on a small well-formed message: "+err.Error(), art("write", nil))
		return
	}
	frame := append([]byte{}, w.out.Bytes()...)
	payload := frame[p2p.HeaderSize:]
	st.evals++
	res := read(t, frame, 0)
	if res.panic != "" || res.err != nil {
		r.Violate("C35|roundtrip-rejected|"+t.name+"|"+c.cmd, fmt.Sprintf("a message written by the node is not read back: %v %s", res.err, res.panic), art("roundtrip", map[string]interface{}{"frame": fmt.Sprintf("%x", frame)}))
		return
	}
	if ok, d := wire.Equal(c.value, res.msg); !ok || res.msg.CMD() != c.cmd {
		r.Violate("C35|roundtrip-diff|"+t.name+"|"+c.cmd, "the message read back differs from the one written at "+d, art("roundtrip", map[string]interface{}{"frame": fmt.Sprintf("%x", frame)}))
		return
	}
	st.distinct[t.name+"|"+c.cmd+"|roundtrip"] = true
	samples.Add(map[string]interface{}{"table": t.name, "command": c.cmd, "payload_len": len(payload), "max_length": c.max, "frame_hex_prefix": fmt.Sprintf("%x", frame[:min(len(frame), 56)])})

	// judge a corrupted frame
	judge := func(kind string, fr []byte, pad int64, mustFail bool, declared uint32, extra map[string]interface{}) {
		idx := caseIdx
		caseIdx++
		if idx < from {
			return
		}
		par.Announce(fmt.Sprintf("%d|%s", idx, kind))
		st.evals++
		res := read(t, fr, pad)
		cls := errClass(res.err)
		st.classes[cls]++
		st.distinct[t.name+"|"+c.cmd+"|"+kind+"|"+cls] = true
		extra["frame"] = fmt.Sprintf("%x", fr[:min(len(fr), 600)])
		extra["pad"] = pad
		if res.panic != "" {
			r.Violate("C35|panic|"+kind+"|"+res.panic[strings.LastIndex(res.panic, " at ")+4:], "ReadMessage panics on a corrupted frame: "+res.panic, art(kind, extra))
			return
		}
		if res.err == nil {
			if !mustFail {
				return
			}
			hc := hdrCmd(fr)
			if kind == "header-byte" && hc != c.cmd && valid[hc] && res.msg.CMD() == hc {
				// the command bytes now spell another command of the table and the frame
				// is a well-formed, authentic message of that command
				st.classes["accepted as another command"]++
				return
			}
			r.Violate("C35|accepted|"+kind+"|"+t.name+"|"+c.cmd, "a corrupted frame is accepted ("+kind+")", art(kind, extra))
			return
		}
		// rejected: allocation (authentic frames with another payload are C02's subject)
		if !mustFail {
			return
		}
		hc := hdrCmd(fr)
		bound := uint64(slack)
		if declared <= maxOf(t, hc) && valid[hc] && binary.LittleEndian.Uint32(fr[0:4]) == magic {
			bound += payloadFactor * uint64(declared)
		}
		if res.alloc > st.maxAlloc {
			st.maxAlloc = res.alloc
		}
		if declared > 4096 && declared <= maxOf(t, hc) {
			if q := float64(res.alloc) / float64(declared); q > st.maxRatio {
				st.maxRatio = q
			}
		}
		if res.alloc > bound {
			extra["alloc"] = res.alloc
			extra["bound"] = bound
			r.Violate("C35|alloc|"+kind+"|"+cls, fmt.Sprintf("a rejected frame (%s) makes the reader allocate %d bytes (declared length %d, command limit %d)", cls, res.alloc, declared, maxOf(t, hc)), art(kind, extra))
		}
	}

	// --- every single-byte substitution of header and payload
	for pos := 0; pos < len(frame); pos++ {
		for _, v := range alpha {
			if v == frame[pos] {
				continue
			}
			fr := append([]byte{}, frame...)
			fr[pos] = v
			kind := "payload-byte"
			if pos < p2p.HeaderSize {
				kind = "header-byte"
			}
			judge(kind, fr, 0, true, binary.LittleEndian.Uint32(fr[16:20]), map[string]interface{}{"pos": pos, "value": v})
		}
	}
	// --- declared length menu, stream cut or padded accordingly
	plen := uint32(len(payload))
	menu := []uint32{0, plen - 1, plen + 1, c.max, c.max + 1, 1 << 31, 1<<32 - 1}
	seenL := map[uint32]bool{}
	for _, L := range menu {
		if L == plen || seenL[L] || (plen == 0 && L == 1<<32-1 && false) {
			continue
		}
		seenL[L] = true
		for _, fresh := range []bool{false, true} {
			// body: the payload cut to L bytes, or followed by zero padding up to L; lengths
			// above the limit get the padding only up to limit+1 bytes (they must be
			// refused before the body is read)
			body := payload
			var pad int64
			if L < plen {
				body = payload[:L]
			} else {
				pad = int64(L - plen)
				if L > c.max {
					if pad > int64(c.max)+1 {
						pad = int64(c.max) + 1
					}
				}
			}
			hdr := append([]byte{}, frame[:p2p.HeaderSize]...)
			binary.LittleEndian.PutUint32(hdr[16:20], L)
			if fresh {
				if L > c.max || pad > 1<<20 {
					if L > c.max {
						// checksum cannot matter: the frame must be refused on its length
						copy(hdr[20:24], []byte{1, 2, 3, 4})
					} else {
						continue
					}
				} else {
					full := append(append([]byte{}, body...), make([]byte, pad)...)
					sum := common.Sha256D(full)
					copy(hdr[20:24], sum[:4])
				}
			}
			fr := append(hdr, body...)
			mustFail := !fresh || L > c.max
			judge("length", fr, pad, mustFail, L, map[string]interface{}{"declared": L, "payload_len": plen, "checksum_recomputed": fresh})
		}
	}
	// --- unknown command, wrong magic
	for _, name := range []string{"", "bogus", "PING", c.cmd + "x", strings.Repeat("z", 12)} {
		if valid[name] || len(name) > 12 {
			continue
		}
		fr := append([]byte{}, frame...)
		copy(fr[4:16], make([]byte, 12))
		copy(fr[4:16], name)
		judge("unknown-command", fr, 0, true, plen, map[string]interface{}{"name": name})
	}
	for _, mg := range []uint32{0, magic + 1, magic ^ 0x80000000, 0xffffffff} {
		fr := append([]byte{}, frame...)
		binary.LittleEndian.PutUint32(fr[0:4], mg)
		judge("wrong-magic", fr, 0, true, plen, map[string]interface{}{"magic": mg})
	}
	// --- truncated stream: every prefix of the frame
	for l := 0; l < len(frame); l++ {
		judge("truncated", frame[:l], 0, true, plen, map[string]interface{}{"len": l})
	}
	// --- documented per-message limits (the repository's own constants): a message with
	// limit−1 or exactly limit elements is written and must be read back equal; limit+1 must
	// be refused, by the writer or by the reader
	for _, lim := range wire.MsgLimits() {
		if lim.Spec != c.label {
			continue
		}
		for _, n := range []int{lim.Limit - 1, lim.Limit, lim.Limit + 1} {
			idx := caseIdx
			caseIdx++
			if idx < from {
				continue
			}
			par.Announce(fmt.Sprintf("%d|limit", idx))
			st.evals++
			sp, ok := wire.SpecByName(lim.Spec)
			if !ok {
				evid.Fatalf("no message spec %q", lim.Spec)
			}
			if sp.Setup != nil {
				sp.Setup()
			}
			extra := map[string]interface{}{"field": lim.Path, "limit": lim.Limit, "constant": lim.Const, "count": n}
			if err := wire.ApplyLimit(sp.Value, lim, n); err != nil {
				evid.Fatalf("limit case %s %s: %v", lim.Spec, lim.Path, err)
			}
			sigTail := t.name + "|" + c.cmd + "|" + lim.Path
			w := &bufConn{}
			werr := p2p.WriteMessage(w, magic, sp.Value, time.Minute, getDposBlock)
			if n > lim.Limit {
				if werr != nil {
					st.classes["over limit: refused by the writer"]++
					st.distinct[t.name+"|"+c.cmd+"|limit+1|writer"] = true
					continue
				}
				res := read(t, w.out.Bytes(), 0)
				switch {
				case res.panic != "":
					r.Violate("C35|panic|limit|"+sigTail, "ReadMessage panics on a message one element over its limit: "+res.panic, art("limit", extra))
				case res.err == nil:
					r.Violate("C35|limit|accepted-over-limit|"+sigTail, fmt.Sprintf("a %s message with %d elements in %s (limit %s = %d) is read without error", c.cmd, n, lim.Path, lim.Const, lim.Limit), art("limit", extra))
				default:
					st.classes["over limit: refused by the reader"]++
					st.distinct[t.name+"|"+c.cmd+"|limit+1|reader"] = true
				}
				continue
			}
			if werr != nil {
				r.Violate("C35|limit|write-refused|"+sigTail, fmt.Sprintf("a %s message with %d elements in %s (limit %s = %d) cannot be written: %v", c.cmd, n, lim.Path, lim.Const, lim.Limit, werr), art("limit", extra))
				continue
			}
			res := read(t, w.out.Bytes(), 0)
			if res.panic != "" || res.err != nil {
				r.Violate("C35|limit|read-refused|"+sigTail, fmt.Sprintf("a %s message with %d elements in %s (limit %s = %d) is written by the node but cannot be read back: %v %s", c.cmd, n, lim.Path, lim.Const, lim.Limit, res.err, res.panic), art("limit", extra))
				continue
			}
			if ok, d := wire.Equal(sp.Value, res.msg); !ok {
				r.Violate("C35|limit|roundtrip-diff|"+sigTail, "a message at its documented limit is read back different at "+d, art("limit", extra))
				continue
			}
			st.classes["within limit: round trip"]++
			st.distinct[fmt.Sprintf("%s|%s|limit|%s|%d", t.name, c.cmd, lim.Path, n-lim.Limit)] = true
		}
	}
}

type workerOut struct {
	Evals      int              `json:"evals"`
	Classes    map[string]int   `json:"classes"`
	Distinct   []string         `json:"distinct"`
	MaxRatio   float64          `json:"max_ratio"`
	MaxAlloc   uint64           `json:"max_alloc"`
	Violations []evid.Violation `json:"violations"`
	Samples    []interface{}    `json:"samples"`
}

func findCmd(tabs []table, label string) (*table, *cmdSpec) {
	for ti := range tabs {
		for ci := range tabs[ti].cmds {
			if tabs[ti].name+"/"+tabs[ti].cmds[ci].label == label {
				return &tabs[ti], &tabs[ti].cmds[ci]
			}
		}
	}
	return nil, nil
}

func main() {
	r := evid.Start("C35", "exploration")
	scr := evid.Scratch("c35")
	defer os.RemoveAll(scr)
	hx.QuietLogs(scr)
	tabs := tables()
	alpha := wire.ByteAlphabet16
	if r.Thorough() {
		alpha = make([]byte, 256)
		for i := range alpha {
			alpha[i] = byte(i)
		}
	}
	if job, ok := par.Worker(); ok {
		// job = "<table>/<label>\x00<from>": one command in a process of its own (a corrupted frame
		// that gets past the framing checks reaches the payload decoders, which can kill the process)
		parts := strings.SplitN(job, "#from=", 2)
		from, _ := strconv.Atoi(parts[1])
		t, c := findCmd(tabs, parts[0])
		if t == nil {
			evid.Fatalf("unknown command label %q", parts[0])
		}
		st := &stats{classes: map[string]int{}, distinct: map[string]bool{}}
		samples := &evid.Samples{N: 1}
		runCommand(r, t, *c, alpha, from, st, samples)
		out := workerOut{Evals: st.evals, Classes: st.classes, MaxRatio: st.maxRatio, MaxAlloc: st.maxAlloc, Violations: r.Violations(), Samples: samples.Out}
		for k := range st.distinct {
			out.Distinct = append(out.Distinct, k)
		}
		par.Emit(out)
		os.RemoveAll(scr)
		return
	}
	st := &stats{classes: map[string]int{}, distinct: map[string]bool{}}
	samples := &evid.Samples{N: 6}
	var labels []string
	if r.Replay != "" {
		var rep map[string]interface{}
		r.LoadReplay(&rep)
		tn, _ := rep["table"].(string)
		lb, _ := rep["label"].(string)
		fmt.Printf("replaying every case of %s/%s\n", tn, lb)
		labels = []string{tn + "/" + lb}
	} else {
		for _, t := range tabs {
			for _, c := range t.cmds {
				labels = append(labels, t.name+"/"+c.label)
			}
		}
	}
	nCmds := len(labels)
	nSeqs := 0
	if r.Replay == "" {
		nSeqs = writeSequences(r, &tabs[0], st, samples)
	}
	type pend struct {
		label    string
		from     int
		restarts int
	}
	var pending []pend
	for _, l := range labels {
		pending = append(pending, pend{label: l})
	}
	exhaustive := true
	deaths := 0
	for len(pending) > 0 {
		jobs := make([]string, len(pending))
		for i, p := range pending {
			jobs[i] = p.label + "#from=" + strconv.Itoa(p.from)
		}
		results := par.Procs(jobs, scr, par.Opts{MemMB: 3072, Timeout: 20 * time.Minute, Env: []string{"GOMAXPROCS=2"}})
		var next []pend
		for i, res := range results {
			p := pending[i]
			if res.Died {
				if res.TimedOut {
					evid.Fatalf("worker for %s timed out (announced %q)", p.label, res.Announced)
				}
				a := strings.SplitN(res.Announced, "|", 2)
				if len(a) < 2 {
					evid.Fatalf("worker for %s died without announcing a case: %s", p.label, res.Stderr)
				}
				idx, _ := strconv.Atoi(a[0])
				deaths++
				tl := strings.SplitN(p.label, "/", 2)
				t, c := findCmd(tabs, p.label)
				_ = t
				fatal := "killed"
				if strings.Contains(res.Stderr, "out of memory") {
					fatal = "fatal error: out of memory"
				}
				r.Violate("C35|died|"+a[1]+"|"+tl[0]+"|"+c.cmd, "reading a corrupted frame kills the process ("+fatal+" under a 3 GiB address-space limit): the frame got past the framing checks",
					map[string]interface{}{"table": tl[0], "command": c.cmd, "label": c.label, "kind": a[1], "case_index": idx})
				if p.restarts >= 40 {
					exhaustive = false
					continue
				}
				// counters of the dead worker are lost: run the command again from the start is
				// not possible without dying again, so continue behind the killer (the cases
				// before it are re-counted by a second job bounded by the killer)
				next = append(next, pend{label: p.label, from: idx + 1, restarts: p.restarts + 1})
				continue
			}
			var wo workerOut
			if err := json.Unmarshal(res.Out, &wo); err != nil {
				evid.Fatalf("worker output for %s: %v\n%s", p.label, err, res.Stderr)
			}
			st.evals += wo.Evals
			for k, v := range wo.Classes {
				st.classes[k] += v
			}
			for _, k := range wo.Distinct {
				st.distinct[k] = true
			}
			if wo.MaxRatio > st.maxRatio {
				st.maxRatio = wo.MaxRatio
			}
			if wo.MaxAlloc > st.maxAlloc {
				st.maxAlloc = wo.MaxAlloc
			}
			for _, v := range wo.Violations {
				r.MergeViolation(v)
			}
			for _, s := range wo.Samples {
				samples.Add(s)
			}
		}
		pending = next
	}
	var cls []string
	for k := range st.classes {
		cls = append(cls, k)
	}
	sort.Strings(cls)
	r.Assume = append(r.Assume,
		fmt.Sprintf("a rejected read may allocate %d KiB plus, when the declared length is within the command's MaxLength, %d× the declared length (payload buffer + the hex-encoded copy built for the checksum-failure log line)", slack>>10, payloadFactor),
		"a frame whose corrupted command spells another command of the same table is a well-formed message of that command and may be accepted as such",
		"frames with a recomputed checksum and an in-limit length are authentic frames with another payload: only panics are judged there (payload decoding is C02's subject)",
	)
	if r.Replay != "" {
		r.Finish(evid.Coverage{})
	}
	r.Finish(evid.Coverage{
		"evaluations":         st.evals,
		"distinct_nontrivial": len(st.distinct),
		"rule": "per (table, command): write/read round trip; every single-byte substitution of header and payload over the byte alphabet; declared length ∈ {0, len−1, len+1, MaxLength, MaxLength+1, 2^31, 2^32−1} with stale and recomputed checksum, stream cut or zero-padded; unknown commands; wrong magics; every truncation of the frame; for every documented per-message limit (repository constants) counts limit−1, limit (must round-trip) and limit+1 (must be refused); every sequence of at most three block messages over three blocks × {without, with confirm} written through the process-global send cache, each frame read back. " +
			"distinct_nontrivial = distinct (table, command, corruption kind, rejection class) combinations + round trips",
		"exhaustive":                     exhaustive,
		"worker_deaths":                  deaths,
		"block_write_sequences":          nSeqs,
		"commands":                       nCmds,
		"tables":                         []string{"main: p2p/peer.createMessage → elanet.createMessage", "dpos: dpos/p2p/peer.createMessage → dpos.createMessage"},
		"outcomes":                       st.classes,
		"max_alloc_rejected_bytes":       st.maxAlloc,
		"max_alloc_over_declared_length": st.maxRatio,
		"samples":                        samples.Out,
	})
}

// writeSequences: the serialized-block send cache of WriteMessage is process-global, so what a
// write produces may depend on the writes before it. For three blocks, each with and without its
// confirm, every sequence of at most three block messages is written on a freshly reset cache
// (distinct block hashes per sequence as well) and every written frame is read back.
func writeSequences(r *evid.Run, t *table, st *stats, samples *evid.Samples) int {
	type item struct {
		blk  int
		conf bool
	}
	var alphabet []item
	for b := 0; b < 3; b++ {
		alphabet = append(alphabet, item{b, false}, item{b, true})
	}
	var seqs [][]item
	var rec func(prefix []item)
	rec = func(prefix []item) {
		if len(prefix) > 0 {
			seqs = append(seqs, append([]item{}, prefix...))
		}
		if len(prefix) == 3 {
			return
		}
		for _, it := range alphabet {
			rec(append(prefix, it))
		}
	}
	rec(nil)
	name := func(seq []item) string {
		var parts []string
		for _, it := range seq {
			c := "-"
			if it.conf {
				c = "+confirm"
			}
			parts = append(parts, fmt.Sprintf("%c%s", 'A'+it.blk, c))
		}
		return strings.Join(parts, " ")
	}
	for si, seq := range seqs {
		p2p.VerifSendCacheReset()
		// three blocks of this sequence, hashes distinct from every other sequence
		var blocks [3]*types.Block
		var confirms [3]*payload.Confirm
		for b := 0; b < 3; b++ {
			f := &wire.Filler{N: 2, Bool: true}
			blk := &types.Block{Header: *wire.NewHeader(f, 1, 1), Transactions: wire.SmallTxs(f, 1+b)}
			blk.Header.Nonce = uint32(si*4 + b + 1)
			blk.Header.Height = uint32(100 + b)
			blocks[b] = blk
			confirms[b] = wire.NewConfirm(f, 1+b)
		}
		for k, it := range seq {
			st.evals++
			db := &types.DposBlock{Block: blocks[it.blk], HaveConfirm: it.conf}
			if it.conf {
				db.Confirm = confirms[it.blk]
			}
			m := msg.NewBlock(db)
			art := map[string]interface{}{"table": t.name, "command": p2p.CmdBlock, "label": "p2pmsg/block", "kind": "write-sequence", "sequence": name(seq), "step": k}
			w := &bufConn{}
			if err := p2p.WriteMessage(w, magic, m, time.Minute, getDposBlock); err != nil {
				r.Violate("C35|write-sequence|write-error|block", "WriteMessage fails in a sequence of block messages: "+err.Error(), art)
				break
			}
			res := read(t, w.out.Bytes(), 0)
			if res.panic != "" || res.err != nil {
				r.Violate("C35|write-sequence|read-rejected|block", fmt.Sprintf("in the write sequence [%s] the frame of write %d is not read back: %v %s", name(seq), k+1, res.err, res.panic), art)
				break
			}
			if ok, d := wire.Equal(m, res.msg); !ok {
				r.Violate("C35|write-sequence|roundtrip-diff|block", fmt.Sprintf("in the write sequence [%s] the message of write %d is read back different at %s", name(seq), k+1, d), art)
				break
			}
			st.distinct[fmt.Sprintf("seq|%d|%v|%d", it.blk, it.conf, k)] = true
		}
		if si == 100 {
			samples.Add(map[string]interface{}{"write_sequence": name(seq)})
		}
	}
	p2p.VerifSendCacheReset()
	return len(seqs)
}

func maxOf(t *table, cmd string) uint32 {
	for _, c := range t.cmds {
		if c.cmd == cmd {
			return c.max
		}
	}
	return 0
}

func min(a, b int) int {
	if a < b {
		return a
	}
	return b
}
