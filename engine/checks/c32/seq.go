package main

// call sequences: the helper is handed the SAME Config.FrozenAddresses slice for every
// transaction the node validates. For each 2-entry list (both listing orders of the start
// heights) every sequence of up to 3 validations at heights below both starts / between them /
// above both is run on one shared slice; every verdict must equal the stateless reference and
// the slice must be unchanged after every call.

import (
	"fmt"

	"github.com/elastos/Elastos.ELA/common"
	"github.com/elastos/Elastos.ELA/common/config"
	"github.com/elastos/Elastos.ELA/core/transaction"
	common2 "github.com/elastos/Elastos.ELA/core/types/common"

	"verif/evid"
)

type seqEntry struct {
	Who   string
	Start uint32
}

func runSequences(r *evid.Run, hA, hB common.Uint168, classes *evid.Distinct) (evals int64) {
	lo, mid, hi := coordStart-1, coordStart+1, coordStart+3
	lists := [][]seqEntry{
		{{"A", coordStart}, {"B", coordStart + 2}},
		{{"B", coordStart + 2}, {"A", coordStart}},
		{{"A", coordStart + 2}, {"B", coordStart}},
		{{"B", coordStart}, {"A", coordStart + 2}},
		{{"A", coordStart}, {"A", coordStart + 2}},
		{{"A", coordStart + 2}, {"A", coordStart}},
	}
	heights := []uint32{lo, mid, hi}
	var seqs [][]uint32
	for _, a := range heights {
		seqs = append(seqs, []uint32{a})
		for _, b := range heights {
			seqs = append(seqs, []uint32{a, b})
			for _, c := range heights {
				seqs = append(seqs, []uint32{a, b, c})
			}
		}
	}
	probes := []caseA{
		{Type: int(common2.TransferAsset), NIn: 2, NOut: 2, PosIn: 1, PosOu: -1, Who: "A"},
		{Type: int(common2.TransferAsset), NIn: 2, NOut: 2, PosIn: -1, PosOu: 0, Who: "A"},
		{Type: int(common2.TransferAsset), NIn: 2, NOut: 2, PosIn: 0, PosOu: -1, Who: "B"},
		{Type: int(common2.TransferAsset), NIn: 2, NOut: 2, PosIn: -1, PosOu: 1, Who: "B"},
		{Type: int(common2.TransferAsset), NIn: 2, NOut: 2, PosIn: -1, PosOu: -1, Who: "A"},
	}
	mk := func(l []seqEntry) []config.FrozenAddress {
		var out []config.FrozenAddress
		for _, e := range l {
			h, addr := hA, coordAddress
			if e.Who == "B" {
				h, addr = hB, otherAddress
			}
			hh := h
			out = append(out, config.FrozenAddress{Address: addr, DisableStartHeight: e.Start, ProgramHash: &hh})
		}
		return out
	}
	same := func(a, b []config.FrozenAddress) bool {
		if len(a) != len(b) {
			return false
		}
		for i := range a {
			if a[i].Address != b[i].Address || a[i].DisableStartHeight != b[i].DisableStartHeight ||
				(a[i].ProgramHash == nil) != (b[i].ProgramHash == nil) ||
				(a[i].ProgramHash != nil && !a[i].ProgramHash.IsEqual(*b[i].ProgramHash)) {
				return false
			}
		}
		return true
	}
	for li, l := range lists {
		for _, seq := range seqs {
			shared := mk(l) // one slice for the whole sequence, as in the node
			pristine := mk(l)
			for step, h := range seq {
				for _, p := range probes {
					tx, refs := buildA(p, hA, hB)
					err := transaction.VerifCheckFrozenAddresses(tx, refs, h, shared)
					evals++
					want := false
					if p.PosIn >= 0 || p.PosOu >= 0 {
						for _, e := range l {
							if e.Who == p.Who && h >= e.Start {
								want = true
							}
						}
					}
					art := map[string]interface{}{"kind": "sequence", "list": l, "heights": seq, "step": step, "probe": p}
					classes.Add(fmt.Sprintf("seq|list=%d|step=%d|h-S=%d|%s|placed=%s|rejected=%v", li, step, int64(h)-int64(coordStart), where(p), p.Who, err != nil))
					if (err != nil) != want {
						kind := "accepted-forbidden"
						if !want {
							kind = "rejected-permitted"
						}
						r.Violate("C32|frozen|sequence|"+kind+"|"+where(p),
							fmt.Sprintf("after earlier validations on the same configuration (heights %v, step %d) the verdict for a transaction that %s address %s at height %d differs from the stateless rule (rejected=%v, want %v)", seq, step, where(p), p.Who, h, err != nil, want), art)
					}
					if !same(shared, pristine) {
						r.Violate("C32|frozen|sequence|configuration-modified",
							fmt.Sprintf("validating a transaction at height %d changed Config.FrozenAddresses (list %v, heights %v, step %d)", h, l, seq, step), art)
						shared = mk(l) // report once per state, keep going
					}
				}
			}
		}
	}
	return
}
