// C06 "no output is ever spent twice" — explicit-state search on the node tier (chainkit).
//
// System: a fresh regnet-style node (pure PoW era, CoinbaseMaturity 1) with a fixed prefix of 4
// coinbase-only blocks, three harness addresses (A = foundation, M = miner, C = carol) and a menu
// of 17 signed transfers that pairwise share outpoints of the matured coinbases of blocks 1 and 2
// (or of each other; 8-11 vary the input Sequence and the input order, 12 is a 300-output
// fan-out and 13-16 spend its outputs 7 and 263 twice each). Operations (per state, canonical order):
//
//	sub:i          TxPool.AppendToTxPool(menu[i])
//	mine:S         build the next block on the tip holding exactly S (no miner filtering) and
//	               deliver it; S is a list of menu indices, "-" (empty) or "pool" (whole pool)
//	fork:k:S       the same on the active-chain ancestor k blocks below the tip (side chain)
//	ext:S          the same on the most recently delivered block that is not on the active chain
//	hold:S         build on the tip but do not deliver; child:S builds on the held block and
//	               delivers it (an orphan); deliver hands the held block over
//
// Search: level-synchronous breadth-first search to depth d with a global (digest → state) memo
// kept by the parent process; every transition is executed by replaying the state's shortest
// history on a fresh node in a worker process and applying one more operation. Every replay
// must reproduce the digest recorded for the state (determinism self-check).
//
// Oracles after every operation (reference model = replay of the active chain in Go maps):
//
//	active-chain   every block on the active chain is a factory block; replaying genesis..tip, every
//	               input refers to an output created earlier on that chain and not yet spent
//	unspent-index  GetUnspent(tx) of every transaction the factory knows == replay
//	pool           no two pool transactions share an outpoint; no pool transaction spends an
//	               outpoint spent on the active chain (after the node's own event-driven cleanup)
//	rejection      a block extending the tip that spends twice / spends a spent or never-created
//	               outpoint of its own chain makes ProcessBlock return an error
package main

import (
	"encoding/json"
	"fmt"
	"os"
	"runtime"
	"runtime/debug"
	"sort"
	"strconv"
	"strings"
	"time"

	"github.com/elastos/Elastos.ELA/common"
	"github.com/elastos/Elastos.ELA/core/types"
	common2 "github.com/elastos/Elastos.ELA/core/types/common"
	"github.com/elastos/Elastos.ELA/core/types/interfaces"

	"verif/chainkit"
	"verif/evid"
	"verif/par"
)

const prefixLen = 4

// ---------------------------------------------------------------------------------------------
// alphabet

type alphabet struct {
	Name  string   `json:"family"`
	Subs  []int    `json:"subs"`
	Mine  []string `json:"mine"`
	ForkK []int    `json:"fork_k"`
	Fork  []string `json:"fork"`
	Ext   []string `json:"ext"`
	Hold  []string `json:"hold"`
	Child []string `json:"child"`
	Depth int      `json:"depth"`
}

// The declared space is the union, over the families of the tier, of all operation sequences of
// length <= Depth over the family's alphabet ("wide": pool offers x tip blocks x side chains;
// "reorg": the operations that build competing branches, deeper; "orphan": out-of-order delivery
// through hold / child / deliver; "inputs": transfers whose inputs name an outpoint under a
// different Sequence, twice in one transaction, or after an unspent input of the same
// transaction, and blocks in which two transfers spend different outputs of one previous
// transaction (0+7), followed by re-spends; "fanout": a 300-output transfer and two competing
// spends each of its outputs 7 and 263).
func familiesFor(tier string) (fams []alphabet, budgetS int) {
	if tier == "thorough" {
		return []alphabet{
			{Name: "wide", Subs: []int{0, 1, 2, 3, 4, 5, 6, 7},
				Mine:  []string{"-", "pool", "1", "3", "5", "6", "7", "0+1", "0+5", "2+7", "3+4", "5+6"},
				ForkK: []int{1, 2}, Fork: []string{"-", "1", "4"}, Ext: []string{"-", "0", "1"},
				Hold: []string{"-", "0"}, Child: []string{"-", "5"}, Depth: 4},
			{Name: "reorg", Subs: []int{0, 1, 5},
				Mine:  []string{"-", "pool", "1", "0+1"},
				ForkK: []int{1}, Fork: []string{"-", "1"}, Ext: []string{"-", "1"}, Depth: 7},
			{Name: "inputs", Subs: []int{0, 3, 8, 9, 10, 11},
				Mine:  []string{"-", "pool", "0", "1", "3", "8", "9", "10", "11", "0+8", "1+8", "1+10", "3+11", "8+10", "0+7", "7+0", "12", "13", "14", "15", "16", "13+14"},
				ForkK: []int{1}, Fork: []string{"-", "8"}, Ext: []string{"-"}, Depth: 4},
		}, 1700
	}
	return []alphabet{
		{Name: "wide", Subs: []int{0, 1, 2, 5},
			Mine:  []string{"-", "pool", "1", "0+1", "0+5"},
			ForkK: []int{1}, Fork: []string{"-", "1"}, Ext: []string{"-", "1"}, Depth: 4},
		{Name: "reorg", Subs: []int{0, 1},
			Mine:  []string{"-", "pool", "0+1"},
			ForkK: []int{1}, Fork: []string{"-", "1"}, Ext: []string{"-", "1"}, Depth: 5},
		{Name: "orphan", Subs: []int{0, 3},
			Mine: []string{"-", "pool", "3+4"},
			Hold: []string{"-", "0"}, Child: []string{"-", "5"}, Depth: 4},
		{Name: "inputs", Subs: []int{8, 10, 11},
			Mine: []string{"1", "3", "8", "9", "10", "11", "0+8", "1+10", "0+7", "7+0"}, Depth: 3},
		{Name: "fanout", Mine: []string{"12", "13", "14", "15", "16"}, Depth: 3},
	}, 85
}

// ---------------------------------------------------------------------------------------------
// world = one execution

type world struct {
	al     *alphabet
	n      *chainkit.Node
	menu   []interfaces.Transaction
	prefix []*types.Block

	built    []*types.Block // blocks built on this path, in order
	lastSide *types.Block
	held     *types.Block
	childOK  bool // child of the held block already delivered
	reorged  bool // some operation so far disconnected blocks

	c counters
}

type counters struct {
	BadTipOffered, BadTipRejected             int // tip-extending blocks spending twice/spent/unborn
	BadSideOffered                            int
	GoodBlocksAccepted                        int
	BlocksWithTxsAccepted                     int
	Reorgs, FailedReorgs                      int
	PoolConflictOffered, PoolConflictRejected int
	PoolAccepted                              int
	Orphans                                   int
}

func (c *counters) add(o counters) {
	c.BadTipOffered += o.BadTipOffered
	c.BadTipRejected += o.BadTipRejected
	c.BadSideOffered += o.BadSideOffered
	c.GoodBlocksAccepted += o.GoodBlocksAccepted
	c.BlocksWithTxsAccepted += o.BlocksWithTxsAccepted
	c.Reorgs += o.Reorgs
	c.FailedReorgs += o.FailedReorgs
	c.PoolConflictOffered += o.PoolConflictOffered
	c.PoolConflictRejected += o.PoolConflictRejected
	c.PoolAccepted += o.PoolAccepted
	c.Orphans += o.Orphans
}

type fail struct {
	Sig  string `json:"sig"`
	What string `json:"what"`
}

func failf(sig, f string, a ...interface{}) *fail { return &fail{Sig: sig, What: fmt.Sprintf(f, a...)} }

var (
	menuOnce []interfaces.Transaction
)

func op(tx interfaces.Transaction, i int) common2.OutPoint {
	return common2.OutPoint{TxID: tx.Hash(), Index: uint16(i)}
}

func newWorld(al *alphabet) *world {
	n, err := chainkit.NewNode(chainkit.Config{CoinbaseMaturity: 1})
	if err != nil {
		evid.Fatalf("C06: new node: %v", err)
	}
	w := &world{al: al, n: n}
	parent := n.Genesis()
	for i := 0; i < prefixLen; i++ {
		b := n.BuildBlock(parent, nil, 0)
		in, orphan, err := n.ProcessBlock(b)
		if err != nil || !in || orphan {
			evid.Fatalf("C06: prefix block %d not connected: in=%v orphan=%v err=%v", i+1, in, orphan, err)
		}
		w.prefix = append(w.prefix, b)
		parent = b
	}
	if menuOnce == nil {
		A, M, C := chainkit.Key("foundation"), chainkit.Key("miner"), chainkit.Key("carol")
		cb1, cb2 := w.prefix[0].Transactions[0], w.prefix[1].Transactions[0]
		v := func(tx interfaces.Transaction, i int) common.Fixed64 { return tx.Outputs()[i].Value }
		const fee = 1000
		t0 := chainkit.SignedTransfer(A, []common2.OutPoint{op(cb1, 0)}, []chainkit.Out{{To: C, Value: v(cb1, 0) - fee}}, 0)
		menuOnce = []interfaces.Transaction{
			t0,
			chainkit.SignedTransfer(A, []common2.OutPoint{op(cb1, 0)}, []chainkit.Out{{To: M, Value: v(cb1, 0) - fee}}, 1),
			chainkit.SignedTransfer(A, []common2.OutPoint{op(cb1, 0), op(cb1, 2)}, []chainkit.Out{{To: C, Value: v(cb1, 0) + v(cb1, 2) - fee}}, 2),
			chainkit.SignedTransfer(M, []common2.OutPoint{op(cb2, 1)}, []chainkit.Out{{To: A, Value: v(cb2, 1) - fee}}, 3),
			chainkit.SignedTransfer(M, []common2.OutPoint{op(cb2, 1)}, []chainkit.Out{{To: C, Value: v(cb2, 1) - fee}}, 4),
			chainkit.SignedTransfer(C, []common2.OutPoint{op(t0, 0)}, []chainkit.Out{{To: A, Value: v(t0, 0) - fee}}, 5),
			chainkit.SignedTransfer(C, []common2.OutPoint{op(t0, 0)}, []chainkit.Out{{To: M, Value: v(t0, 0) - fee}}, 6),
			chainkit.SignedTransfer(A, []common2.OutPoint{op(cb1, 2)}, []chainkit.Out{{To: M, Value: v(cb1, 2) - fee}}, 7),
			// 8: the outpoint of t0/t1 again, under a different input Sequence
			chainkit.SignedTransferInputs(A, []common2.Input{{Previous: op(cb1, 0), Sequence: 1}}, []chainkit.Out{{To: C, Value: v(cb1, 0) - fee}}, 8),
			// 9: one transaction naming the same outpoint twice under different Sequences
			chainkit.SignedTransferInputs(A, []common2.Input{{Previous: op(cb1, 0), Sequence: 0}, {Previous: op(cb1, 0), Sequence: 1}}, []chainkit.Out{{To: C, Value: 2*v(cb1, 0) - fee}}, 9),
			// 10: two inputs, the one t0/t1/t8 also spend LAST (t2 has it first); coinbase 1 keeps
			// its output 1 unspent, so its unspent-index entry survives either way
			chainkit.SignedTransfer(A, []common2.OutPoint{op(cb1, 2), op(cb1, 0)}, []chainkit.Out{{To: C, Value: v(cb1, 0) + v(cb1, 2) - fee}}, 10),
			// 11: the same shape over the miner's coins: unspent coinbase-1 output first, then the
			// outpoint t3/t4 spend
			chainkit.SignedTransfer(M, []common2.OutPoint{op(cb1, 1), op(cb2, 1)}, []chainkit.Out{{To: C, Value: v(cb1, 1) + v(cb2, 1) - fee}}, 11),
		}
		// 12: a fan-out of coinbase-2 output 0 into 300 outputs (indexes above 255 exercise the
		// 16-bit encoding of the unspent index); 13/15 both spend its output 7, 14/16 both spend
		// its output 263 (= 7 modulo 256)
		each := (v(cb2, 0) - fee) / 300
		fan := make([]chainkit.Out, 300)
		for i := range fan {
			fan[i] = chainkit.Out{To: C, Value: each}
		}
		t12 := chainkit.SignedTransfer(A, []common2.OutPoint{op(cb2, 0)}, fan, 12)
		menuOnce = append(menuOnce, t12,
			chainkit.SignedTransfer(C, []common2.OutPoint{op(t12, 7)}, []chainkit.Out{{To: A, Value: each - fee}}, 13),
			chainkit.SignedTransfer(C, []common2.OutPoint{op(t12, 263)}, []chainkit.Out{{To: A, Value: each - fee}}, 14),
			chainkit.SignedTransfer(C, []common2.OutPoint{op(t12, 7)}, []chainkit.Out{{To: M, Value: each - fee}}, 15),
			chainkit.SignedTransfer(C, []common2.OutPoint{op(t12, 263)}, []chainkit.Out{{To: M, Value: each - fee}}, 16),
		)
	}
	w.menu = menuOnce
	return w
}

func (w *world) close() { w.n.Close() }

// block lookup over factory blocks
func blockOf(h common.Uint256) *types.Block { return chainkit.KnownBlock(h) }

func (w *world) activeBlocks() ([]*types.Block, *fail) {
	var out []*types.Block
	for i, h := range w.n.ActiveChain() {
		b := blockOf(h)
		if b == nil {
			return nil, failf("C06|active-chain|unknown-block", "active chain holds block %s at height %d that the harness never built", chainkit.Short(h), i)
		}
		out = append(out, b)
	}
	return out, nil
}

// view is the reference UTXO model of one chain.
type view struct {
	created map[common2.OutPoint]bool
	spent   map[common2.OutPoint]common.Uint256 // outpoint -> spending tx
}

func newView() *view {
	return &view{created: map[common2.OutPoint]bool{}, spent: map[common2.OutPoint]common.Uint256{}}
}

// applyBlock replays b on v; bad describes the first rule b breaks on this chain ("" = none).
// Outputs created earlier in the same block count as created (the repository refuses them; the
// property does not require either answer).
func (v *view) applyBlock(b *types.Block) (bad string) {
	for ti, tx := range b.Transactions {
		if ti > 0 || b.Height > 0 {
			if !tx.IsCoinBaseTx() {
				for _, in := range tx.Inputs() {
					p := in.Previous
					if _, dup := v.spent[p]; dup {
						if bad == "" {
							bad = "spent-twice"
						}
						continue
					}
					if !v.created[p] {
						if bad == "" {
							bad = "never-created"
						}
					}
					v.spent[p] = tx.Hash()
				}
			}
		}
		for i := range tx.Outputs() {
			v.created[common2.OutPoint{TxID: tx.Hash(), Index: uint16(i)}] = true
		}
	}
	return bad
}

// ancestry returns genesis..b following factory parent links.
func ancestry(b *types.Block) []*types.Block {
	var rev []*types.Block
	for x := b; x != nil; {
		rev = append(rev, x)
		if x.Height == 0 {
			break
		}
		x = blockOf(x.Header.Previous)
	}
	for i, j := 0, len(rev)-1; i < j; i, j = i+1, j-1 {
		rev[i], rev[j] = rev[j], rev[i]
	}
	return rev
}

// classify tells which rule b breaks on its own chain ("" = none).
func classify(b *types.Block) string {
	v := newView()
	chain := ancestry(b)
	for _, x := range chain[:len(chain)-1] {
		v.applyBlock(x)
	}
	// in-block: a transaction spending an output created earlier in the same block is not
	// classified (see applyBlock); same-block double spends are.
	return v.applyBlock(b)
}

func (w *world) contentTxs(s string) []interfaces.Transaction {
	switch s {
	case "-":
		return nil
	case "pool":
		var out []interfaces.Transaction
		for _, h := range w.n.PoolHashes() {
			tx := chainkit.KnownTx(h)
			if tx == nil {
				evid.Fatalf("C06: pool holds a transaction the harness never built")
			}
			out = append(out, tx)
		}
		return out
	}
	var out []interfaces.Transaction
	for _, p := range strings.Split(s, "+") {
		i, err := strconv.Atoi(p)
		if err != nil || i < 0 || i >= len(w.menu) {
			evid.Fatalf("C06: bad content %q", s)
		}
		out = append(out, w.menu[i])
	}
	return out
}

func (w *world) tipBlock() *types.Block { return blockOf(w.n.Tip()) }

func (w *world) ops() []string {
	var ops []string
	inPool := map[common.Uint256]bool{}
	for _, h := range w.n.PoolHashes() {
		inPool[h] = true
	}
	for _, i := range w.al.Subs {
		if !inPool[w.menu[i].Hash()] {
			ops = append(ops, fmt.Sprintf("sub:%d", i))
		}
	}
	for _, s := range w.al.Mine {
		if s == "pool" && len(inPool) == 0 {
			continue
		}
		ops = append(ops, "mine:"+s)
	}
	h := w.n.Height()
	for _, k := range w.al.ForkK {
		if int(h)-k >= prefixLen-1 { // fork parents stay where both coinbases are mature
			for _, s := range w.al.Fork {
				ops = append(ops, fmt.Sprintf("fork:%d:%s", k, s))
			}
		}
	}
	if w.lastSide != nil {
		for _, s := range w.al.Ext {
			ops = append(ops, "ext:"+s)
		}
	}
	if w.held == nil {
		for _, s := range w.al.Hold {
			ops = append(ops, "hold:"+s)
		}
	} else {
		if !w.childOK {
			for _, s := range w.al.Child {
				ops = append(ops, "child:"+s)
			}
		}
		ops = append(ops, "deliver")
	}
	return ops
}

// inputsConflict reports whether tx shares an outpoint with a pool transaction or spends an
// outpoint spent on the active chain.
func (w *world) conflicts(tx interfaces.Transaction) bool {
	used := map[common2.OutPoint]bool{}
	for _, p := range w.n.PoolTxs() {
		for _, in := range p.Inputs() {
			used[in.Previous] = true
		}
	}
	blocks, f := w.activeBlocks()
	if f == nil {
		v := newView()
		for _, b := range blocks {
			v.applyBlock(b)
		}
		for p := range v.spent {
			used[p] = true
		}
	}
	for _, in := range tx.Inputs() {
		if used[in.Previous] {
			return true
		}
	}
	return false
}

func (w *world) deliver(kind string, b *types.Block, expectOrphan bool) *fail {
	tipBefore := w.n.Tip()
	extendsTip := b.Header.Previous == tipBefore
	bad := classify(b)
	disc0 := w.n.Disconnected
	inMain, orphan, err := w.n.ProcessBlock(b)
	if w.n.Disconnected > disc0 {
		w.reorged = true
		if err != nil {
			w.c.FailedReorgs++
		} else {
			w.c.Reorgs++
		}
	}
	if orphan && err == nil {
		w.c.Orphans++
	}
	if bad != "" {
		if extendsTip {
			w.c.BadTipOffered++
			if err != nil {
				w.c.BadTipRejected++
			} else {
				return failf("C06|rejection|tip-block-"+bad+"-accepted|via="+kind,
					"block %s at height %d extending the tip breaks rule %q on its own chain but ProcessBlock returned inMain=%v orphan=%v err=nil",
					chainkit.Short(b.Hash()), b.Height, bad, inMain, orphan)
			}
		} else {
			w.c.BadSideOffered++
		}
	} else if err == nil && inMain {
		w.c.GoodBlocksAccepted++
		if len(b.Transactions) > 1 {
			w.c.BlocksWithTxsAccepted++
		}
	}
	// bookkeeping: lastSide = the block most recently detached from the active chain by a
	// reorganisation, else the most recently delivered block the node knows that is off the
	// active chain; cleared when it is (back) on the active chain.
	onChain := func(x *types.Block) bool {
		h, e := w.n.BlockHashAt(x.Height)
		return e == nil && h == x.Hash()
	}
	if old := blockOf(tipBefore); old != nil && !onChain(old) {
		w.lastSide = old
	} else if err == nil && !orphan && !onChain(b) {
		w.lastSide = b
	}
	if w.lastSide != nil && onChain(w.lastSide) {
		w.lastSide = nil
	}
	return nil
}

func (w *world) apply(o string) *fail {
	parts := strings.SplitN(o, ":", 3)
	kind := parts[0]
	var f *fail
	switch kind {
	case "sub":
		i, _ := strconv.Atoi(parts[1])
		tx := w.menu[i]
		conf := w.conflicts(tx)
		err := w.n.Submit(tx)
		if conf {
			w.c.PoolConflictOffered++
			if err != nil {
				w.c.PoolConflictRejected++
			}
		}
		if err == nil {
			w.c.PoolAccepted++
		}
	case "mine":
		b := w.n.BuildBlock(w.tipBlock(), w.contentTxs(parts[1]), 0)
		w.built = append(w.built, b)
		f = w.deliver(kind, b, false)
	case "fork":
		k, _ := strconv.Atoi(parts[1])
		ph, err := w.n.BlockHashAt(w.n.Height() - uint32(k))
		if err != nil {
			evid.Fatalf("C06: fork parent: %v", err)
		}
		// forkID 1+k keeps siblings of the active block distinct from blocks mined on the tip
		b := w.n.BuildBlock(blockOf(ph), w.contentTxs(parts[2]), uint32(1+k))
		w.built = append(w.built, b)
		f = w.deliver(kind, b, false)
	case "ext":
		b := w.n.BuildBlock(w.lastSide, w.contentTxs(parts[1]), 1)
		w.built = append(w.built, b)
		f = w.deliver(kind, b, false)
	case "hold":
		b := w.n.BuildBlock(w.tipBlock(), w.contentTxs(parts[1]), 4)
		w.built = append(w.built, b)
		w.held = b
	case "child":
		b := w.n.BuildBlock(w.held, w.contentTxs(parts[1]), 4)
		w.built = append(w.built, b)
		w.childOK = true
		f = w.deliver(kind, b, true)
	case "deliver":
		b := w.held
		w.held = nil
		w.childOK = false
		f = w.deliver(kind, b, false)
	default:
		evid.Fatalf("C06: unknown op %q", o)
	}
	if f != nil {
		return f
	}
	return w.check(kind)
}

func fmtIdx(u []uint16) string { return fmt.Sprint(u) }

// check evaluates the state oracles.
func (w *world) check(via string) *fail {
	blocks, f := w.activeBlocks()
	if f != nil {
		return f
	}
	after := "connect"
	if w.reorged {
		after = "reorg"
	}
	v := newView()
	for _, b := range blocks {
		// replay with first-violation reporting
		for ti, tx := range b.Transactions {
			if (ti > 0 || b.Height > 0) && !tx.IsCoinBaseTx() {
				for _, in := range tx.Inputs() {
					p := in.Previous
					if by, dup := v.spent[p]; dup {
						rel := "cross-block"
						for _, t2 := range b.Transactions {
							if t2.Hash() == by {
								rel = "same-block"
							}
						}
						return failf("C06|active-chain|outpoint-spent-twice|"+rel+"|via="+via,
							"active chain spends %s:%d twice: by %s and by %s (block %s, height %d)",
							chainkit.Short(p.TxID), p.Index, chainkit.Short(by), chainkit.Short(tx.Hash()), chainkit.Short(b.Hash()), b.Height)
					}
					if !v.created[p] {
						return failf("C06|active-chain|spend-of-never-created-output|via="+via,
							"active chain block %s (height %d): %s spends %s:%d which was never created on this chain",
							chainkit.Short(b.Hash()), b.Height, chainkit.Short(tx.Hash()), chainkit.Short(p.TxID), p.Index)
					}
					v.spent[p] = tx.Hash()
				}
			}
			for i := range tx.Outputs() {
				v.created[common2.OutPoint{TxID: tx.Hash(), Index: uint16(i)}] = true
			}
		}
	}
	// unspent index vs replay, for every transaction the factory knows
	for _, id := range chainkit.KnownTxs() {
		tx := chainkit.KnownTx(id)
		var want []uint16
		for i := range tx.Outputs() {
			p := common2.OutPoint{TxID: id, Index: uint16(i)}
			if v.created[p] {
				if _, s := v.spent[p]; !s {
					want = append(want, uint16(i))
				}
			}
		}
		got, _ := w.n.Unspent(id)
		if fmtIdx(got) != fmtIdx(want) {
			cls := "extra-entry"
			if len(got) < len(want) {
				cls = "missing-entry"
			}
			kind := "transfer"
			if tx.IsCoinBaseTx() {
				kind = "coinbase"
			}
			return failf("C06|unspent-index|"+cls+"|tx="+kind+"|after="+after,
				"GetUnspent(%s) = %v, replay of the active chain (height %d) says %v", chainkit.Short(id), got, len(blocks)-1, want)
		}
	}
	// pool
	used := map[common2.OutPoint]common.Uint256{}
	for _, tx := range w.n.PoolTxs() {
		for _, in := range tx.Inputs() {
			if by, ok := used[in.Previous]; ok {
				return failf("C06|pool|two-txs-share-outpoint|via="+via,
					"pool holds %s and %s, both spending %s:%d", chainkit.Short(by), chainkit.Short(tx.Hash()), chainkit.Short(in.Previous.TxID), in.Previous.Index)
			}
			used[in.Previous] = tx.Hash()
			if by, ok := v.spent[in.Previous]; ok {
				return failf("C06|pool|spends-outpoint-spent-on-chain|via="+via+"|after="+after,
					"pool holds %s spending %s:%d which the active chain already spent (by %s)", chainkit.Short(tx.Hash()), chainkit.Short(in.Previous.TxID), in.Previous.Index, chainkit.Short(by))
			}
		}
	}
	return nil
}

// digest = chainkit digest (active chain, unspent index, pool) + what the node knows of the
// blocks built on this path (main / side / orphan) + harness selectors (lastSide, held, child).
// Dropped: blocks the node rejected outright (they left no entry in the block index or orphan
// pool), the UTXO reference cache and per-address index (transparent to this property).
func (w *world) digest() string {
	var sb strings.Builder
	sb.WriteString(w.n.Digest())
	var known []string
	seen := map[common.Uint256]bool{}
	for _, b := range w.built {
		h := b.Hash()
		if seen[h] {
			continue
		}
		seen[h] = true
		st := ""
		if w.n.Chain.IsKnownOrphan(&h) {
			st = "o"
		} else if w.n.Chain.BlockExists(&h) {
			st = "k"
		}
		if st != "" {
			known = append(known, chainkit.Short(h)+st)
		}
	}
	sort.Strings(known)
	sb.WriteString("|" + strings.Join(known, ","))
	if w.lastSide != nil {
		sb.WriteString("|S" + chainkit.Short(w.lastSide.Hash()))
	}
	if w.held != nil {
		sb.WriteString("|H" + chainkit.Short(w.held.Hash()))
		if w.childOK {
			sb.WriteString("c")
		}
	}
	if w.reorged {
		sb.WriteString("|R")
	}
	return sb.String()
}

// ---------------------------------------------------------------------------------------------
// execution of one history

type execResult struct {
	Digest string
	Fail   *fail
	FailAt int // index of the failing op
	C      counters
	Ops    []string // enabled in the final state (nil if failed)
}

func run(al *alphabet, hist []string, wantOps bool) (res execResult) {
	chainkit.Announce(strings.Join(hist, " "))
	w := newWorld(al)
	defer w.close()
	defer func() {
		if e := recover(); e != nil {
			st := debug.Stack()
			res.Fail = &fail{Sig: "C06|panic|" + evid.PanicSite(st), What: fmt.Sprintf("panic: %v", e)}
			res.FailAt = len(hist) - 1
		}
	}()
	if len(hist) == 0 {
		if f := w.check("root"); f != nil {
			res.Fail, res.FailAt = f, -1
			return
		}
	}
	for i, o := range hist {
		if i == len(hist)-1 {
			w.c = counters{} // counters describe the last transition only
		}
		if f := w.apply(o); f != nil {
			res.Fail, res.FailAt = f, i
			res.C = w.c
			return
		}
	}
	res.C = w.c
	res.Digest = w.digest()
	if wantOps {
		res.Ops = w.ops()
	}
	return
}

// ---------------------------------------------------------------------------------------------
// worker protocol

type state struct {
	Hist   []string `json:"h"`
	Digest string   `json:"d"`
}

// request = expand one frontier state
type request struct {
	Al     alphabet `json:"al"`
	Hist   []string `json:"h"`
	Digest string   `json:"d"`
}

type transOut struct {
	Op     string   `json:"o"`
	Digest string   `json:"d,omitempty"`
	Fail   *fail    `json:"x,omitempty"`
	C      counters `json:"c"`
}

type workerOut struct {
	Trans []transOut `json:"t"`
	Execs int        `json:"e"`
	Err   string     `json:"err,omitempty"`
	Ms    int        `json:"ms"`
}

func serve(raw []byte) interface{} {
	var rq request
	var out workerOut
	if err := json.Unmarshal(raw, &rq); err != nil {
		out.Err = "bad request: " + err.Error()
		return out
	}
	t0 := time.Now()
	defer func() { out.Ms = int(time.Since(t0).Milliseconds()) }()
	base := run(&rq.Al, rq.Hist, true)
	out.Execs++
	if base.Fail != nil || base.Digest != rq.Digest {
		// The same history gave a different outcome on a fresh node than when the state was
		// first reached. The harness is deterministic (histories are replayed hundreds of
		// thousands of times on the unchanged tree without a single divergence), so this is
		// behaviour of the code under test that depends on something other than its inputs:
		// reported as a violation with the history, not as an engine error.
		what := fmt.Sprintf("replaying %v on a fresh node gave digest %s (failure: %v) but %s when the state was first reached", rq.Hist, base.Digest, base.Fail, rq.Digest)
		out.Trans = append(out.Trans, transOut{Op: "", Fail: &fail{Sig: "C06|determinism|same-history-different-state", What: what}})
		return out
	}
	for _, o := range base.Ops {
		h := append(append([]string{}, rq.Hist...), o)
		r := run(&rq.Al, h, false)
		out.Execs++
		t := transOut{Op: o, Digest: r.Digest, C: r.C}
		if r.Fail != nil {
			if r.FailAt != len(h)-1 {
				t.Fail = &fail{Sig: r.Fail.Sig + "|unstable", What: fmt.Sprintf("history %v failed at op %d, inside a prefix that was clean before: %s", h, r.FailAt, r.Fail.What)}
				out.Trans = append(out.Trans, t)
				continue
			}
			stable := true
			for k := 0; k < 2; k++ { // confirm twice on fresh nodes
				r2 := run(&rq.Al, h, false)
				out.Execs++
				if r2.Fail == nil || r2.Fail.Sig != r.Fail.Sig {
					stable = false
				}
			}
			t.Fail = r.Fail
			if !stable {
				t.Fail = &fail{Sig: r.Fail.Sig + "|unstable", What: "does not reproduce on every fresh node: " + r.Fail.What}
			}
		}
		out.Trans = append(out.Trans, t)
	}
	return out
}

// ---------------------------------------------------------------------------------------------
// parent

type famResult struct {
	Family      string         `json:"family"`
	Alphabet    alphabet       `json:"alphabet"`
	States      int64          `json:"states"`
	Transitions int64          `json:"transitions"`
	Execs       int64          `json:"executions"`
	DepthDone   int            `json:"max_depth_completed"`
	PerDepth    []int          `json:"states_per_depth"`
	Exhaustive  bool           `json:"exhaustive"`
	Cap         string         `json:"cap,omitempty"`
	OpKinds     map[string]int `json:"transitions_by_op_kind"`
	Noops       map[string]int `json:"transitions_without_state_change_by_op_kind"`
	WallS       float64        `json:"wall_s"`
	samples     [][]string
}

type explorer struct {
	al       alphabet
	fr       famResult
	seen     map[string]bool
	frontier []state
	depth    int
	start    time.Time
	finished bool
}

func newExplorer(r *evid.Run, al alphabet) *explorer {
	e := &explorer{al: al, start: time.Now(), seen: map[string]bool{}}
	e.fr = famResult{Family: al.Name, Alphabet: al, Exhaustive: true, OpKinds: map[string]int{}, Noops: map[string]int{}}
	root := run(&al, nil, false)
	root2 := run(&al, nil, false)
	e.fr.Execs = 2
	if root.Fail != nil {
		r.Violate(root.Fail.Sig, root.Fail.What, map[string]interface{}{"history": []string{}})
		e.fr.Exhaustive = false
		e.fr.Cap = "root state violates an oracle"
		e.finished = true
		return e
	}
	if root.Digest != root2.Digest {
		evid.Fatalf("C06: two fresh nodes disagree on the root digest")
	}
	e.seen[root.Digest] = true
	e.frontier = []state{{Hist: []string{}, Digest: root.Digest}}
	e.fr.States = 1
	e.fr.PerDepth = []int{1}
	return e
}

// level expands the current frontier by one operation.
func (e *explorer) level(r *evid.Run, pool *chainkit.Pool, deadline time.Time, total *counters) {
	if e.finished {
		return
	}
	al, fr := e.al, &e.fr
	if e.depth >= al.Depth || len(e.frontier) == 0 {
		e.finished = true
		return
	}
	t0 := time.Now()
	if time.Now().After(deadline) {
		fr.Exhaustive = false
		fr.Cap = fmt.Sprintf("time budget reached before depth %d", e.depth+1)
		e.finished = true
		return
	}
	frontier := e.frontier
	reqs := make([]interface{}, len(frontier))
	for i, st := range frontier {
		reqs[i] = request{Al: al, Hist: st.Hist, Digest: st.Digest}
	}
	outs, deaths, err := pool.Map(reqs, deadline)
	if err != nil {
		evid.Fatalf("C06: %v", err)
	}
	died := map[int]bool{}
	for _, d := range deaths {
		died[d.Index] = true
		hist := frontier[d.Index].Hist
		if d.Announced != "" {
			hist = strings.Fields(d.Announced)
		}
		if f := chainkit.DeathFail(d); f != nil {
			r.Violate("C06|"+f.Sig, f.What, map[string]interface{}{"family": al.Name, "history": hist})
		} else {
			fr.Exhaustive = false
			fr.Cap = fmt.Sprintf("worker killed twice (resource limit) while expanding %v: %s", hist, d.ExitErr)
		}
	}
	var next []state
	cut := false
	byFrom := map[int][]transOut{}
	for i, raw := range outs {
		if raw == nil {
			if !died[i] {
				cut = true
			}
			continue
		}
		var wo workerOut
		if err := json.Unmarshal(raw, &wo); err != nil {
			evid.Fatalf("C06: worker output: %v", err)
		}
		if wo.Err != "" {
			evid.Fatalf("C06: %s", wo.Err)
		}
		fr.Execs += int64(wo.Execs)
		byFrom[i] = wo.Trans
	}
	// merge in frontier order: deterministic state numbering and shortest-history choice
	for i := range frontier {
		for _, t := range byFrom[i] {
			fr.Transitions++
			total.add(t.C)
			kind := strings.SplitN(t.Op, ":", 2)[0]
			fr.OpKinds[kind]++
			h := append(append([]string{}, frontier[i].Hist...), t.Op)
			if t.Fail != nil {
				r.Violate(t.Fail.Sig, t.Fail.What, map[string]interface{}{"family": al.Name, "history": h})
				continue
			}
			if t.Digest == frontier[i].Digest {
				fr.Noops[kind]++
			}
			if !e.seen[t.Digest] {
				e.seen[t.Digest] = true
				fr.States++
				next = append(next, state{Hist: h, Digest: t.Digest})
			}
		}
	}
	fr.PerDepth = append(fr.PerDepth, len(next))
	e.frontier = next
	fr.WallS += float64(int(time.Since(t0).Seconds()*10)) / 10
	if cut {
		fr.Exhaustive = false
		fr.Cap = fmt.Sprintf("time budget reached while expanding depth %d", e.depth+1)
		e.finished = true
		return
	}
	e.depth++
	fr.DepthDone = e.depth
	fmt.Printf("%s depth %d: %d new states, %d transitions, %d executions, +%.0fs\n", al.Name, fr.DepthDone, len(next), fr.Transitions, fr.Execs, time.Since(t0).Seconds())
	if e.depth >= al.Depth || len(next) == 0 {
		e.finished = true
	}
}

func (e *explorer) result() famResult {
	for i := 0; i < len(e.frontier) && len(e.fr.samples) < 3; i += 1 + len(e.frontier)/3 {
		e.fr.samples = append(e.fr.samples, e.frontier[i].Hist)
	}
	return e.fr
}

func main() {
	if chainkit.Serve(serve) {
		return
	}
	if len(os.Args) > 2 && os.Args[1] == "--leak" {
		n, _ := strconv.Atoi(os.Args[2])
		fams, _ := familiesFor("quick")
		for i := 0; i < n; i++ {
			run(&fams[1], []string{"fork:1:-", "ext:-", "fork:1:1", "ext:-"}, false)
			if i%200 == 199 {
				var ms runtime.MemStats
				runtime.ReadMemStats(&ms)
				fds, _ := os.ReadDir("/proc/self/fd")
				fmt.Printf("%d nodes: heapAlloc %d MB heapSys %d MB goroutines %d fds %d\n", i+1, ms.HeapAlloc>>20, ms.HeapSys>>20, runtime.NumGoroutine(), len(fds))
			}
		}
		chainkit.Cleanup()
		return
	}
	if len(os.Args) > 1 && os.Args[1] == "--cost" {
		r, err := chainkit.Cost(40)
		fmt.Printf("%+v err=%v\n", r, err)
		chainkit.Cleanup()
		return
	}
	r := evid.Start("C06", "model_checking")
	fams, budget := familiesFor(r.Tier)
	if s := os.Getenv("C06_DEPTH"); s != "" {
		d, _ := strconv.Atoi(s)
		for i := range fams {
			fams[i].Depth = d
		}
	}
	if r.Replay != "" {
		var a struct {
			History []string `json:"history"`
		}
		r.LoadReplay(&a)
		al := fams[0]
		res := run(&al, a.History, false)
		res2 := run(&al, a.History, false)
		chainkit.Cleanup()
		if (res.Fail == nil) != (res2.Fail == nil) || res.Digest != res2.Digest {
			evid.Fatalf("replay is not deterministic")
		}
		if res.Fail != nil {
			fmt.Printf("replay: %v -> FAIL at op %d %s: %s\n", a.History, res.FailAt, res.Fail.Sig, res.Fail.What)
			r.Violate(res.Fail.Sig, res.Fail.What, map[string]interface{}{"history": a.History})
		} else {
			fmt.Printf("replay: %v -> ok, digest %s\n", a.History, res.Digest)
		}
		r.Finish(evid.Coverage{})
	}

	// miner/validator agreement on the coinbase in the DPoS-v2 + POW-reverted reward regime
	// (the factory uses the real AssignCoinbaseTxRewards; every other regime is exercised by the
	// blocks the searches deliver)
	if regime, err := chainkit.CoinbaseSelfCheck(); err != nil {
		r.Violate("C06|factory-coinbase-refused|regime="+regime, err.Error(), map[string]interface{}{"history": []string{}, "regime": regime})
	}
	pool, err := chainkit.StartPool(par.Workers())
	if err != nil {
		evid.Fatalf("C06: pool: %v", err)
	}
	deadline := time.Now().Add(chainkit.Budget(budget))
	var total counters
	var results []famResult
	var states, transitions, execs int64
	exhaustive := true
	capNote := []string{}
	depthDone := 1 << 30
	samples := []interface{}{}
	// iterative deepening across families: every family completes depth d before any goes to
	// d+1, so a time cap only ever cuts the deepest levels
	var exps []*explorer
	maxDepth := 0
	for _, al := range fams {
		exps = append(exps, newExplorer(r, al))
		if al.Depth > maxDepth {
			maxDepth = al.Depth
		}
	}
	for d := 0; d < maxDepth; d++ {
		for _, e := range exps {
			if e.depth == d {
				e.level(r, pool, deadline, &total)
			}
		}
	}
	for _, e := range exps {
		fr := e.result()
		results = append(results, fr)
		states += fr.States
		transitions += fr.Transitions
		execs += fr.Execs
		if !fr.Exhaustive {
			exhaustive = false
			capNote = append(capNote, fr.Family+": "+fr.Cap)
		}
		if fr.DepthDone < depthDone {
			depthDone = fr.DepthDone
		}
		for _, h := range fr.samples {
			samples = append(samples, append([]string{fr.Family + ":"}, h...))
		}
	}
	if len(samples) == 0 {
		samples = append(samples, []string{})
	}
	pool.Close()
	chainkit.Cleanup()

	// non-vacuity: engine-level expectations about the harness, not verdicts
	if exhaustive && r.NumViolations() == 0 {
		if total.BadTipOffered == 0 || total.Reorgs == 0 || total.PoolConflictOffered == 0 {
			evid.Fatalf("C06: vacuous run: bad tip blocks offered %d, reorgs %d, pool conflicts offered %d", total.BadTipOffered, total.Reorgs, total.PoolConflictOffered)
		}
	}
	cov := evid.Coverage{
		"states":                        states,
		"transitions":                   transitions,
		"traces_validated_against_impl": execs,
		"max_depth_completed":           depthDone,
		"exhaustive":                    exhaustive,
		"cap":                           strings.Join(capNote, "; "),
		"families":                      results,
		"non_vacuity": map[string]int{
			"double_spending_tip_blocks_offered":  total.BadTipOffered,
			"double_spending_tip_blocks_rejected": total.BadTipRejected,
			"double_spending_side_blocks_offered": total.BadSideOffered,
			"valid_blocks_connected":              total.GoodBlocksAccepted,
			"valid_blocks_with_transfers":         total.BlocksWithTxsAccepted,
			"reorganisations_executed":            total.Reorgs,
			"reorganisations_failed":              total.FailedReorgs,
			"pool_conflicts_offered":              total.PoolConflictOffered,
			"pool_conflicts_rejected":             total.PoolConflictRejected,
			"pool_submissions_accepted":           total.PoolAccepted,
			"orphans_accepted":                    total.Orphans,
		},
		"rule":    "for every family (alphabet + depth, see families): breadth-first search over all operation sequences up to the depth on a fresh chainkit node (pure PoW era, CoinbaseMaturity 1, 4-block prefix, 17-transfer menu sharing outpoints of coinbases 1 and 2 and of each other, some under different input Sequences / input orders); one fresh-node replay per transition in worker processes, global digest memo; state digest = active chain hashes + unspent index of all factory transactions + pool hashes + node-known side/orphan blocks of the path + harness selectors (lastSide, held); oracles after every operation: active-chain replay in maps (no outpoint spent twice, every spend refers to an earlier-created output), GetUnspent == replay for every known transaction, pool conflict-free and disjoint from chain-spent outpoints after the node's event-driven cleanup, tip blocks that double-spend on their own chain rejected; states counted per family (a state reached in two families is counted twice)",
		"samples": samples,
	}
	r.Assume = append(r.Assume,
		"pool cleanup is wired to chain events exactly as elanet/netsync.SyncManager.handleBlockchainEvents does (chainkit)",
		"a transaction spending an output created earlier in the same block is not classified (the node refuses it; the property does not say)",
		"blocks come only from the harness factory (single miner identity, constant difficulty)")
	r.Finish(cov)
}
