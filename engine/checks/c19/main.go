// C19: treaps behave as ordered maps; immutable treaps are persistent.
//
// Real code: database/internal/treap (Mutable, Immutable, Iterator) through the verif-tagged
// re-export database/treap_verif_c19.go. Reference: a 4-slot array standing for a sorted map.
//
//   - mutable:   BFS (engine mc) over all put/delete sequences on 4 keys x 2 values up to the
//     depth bound; after every step Len/Size/Has/Get/ForEach/iterators (First/Last/
//     Next/Prev/Seek, range-limited iterators, zig-zag walks) are compared with the
//     model, and iterators created BEFORE the update are notified with ForceReseek
//     (API contract) and continued / repositioned.
//   - immutable: DFS over the same sequences retaining EVERY version; after every step every
//     retained version is re-read completely and compared with the model recorded at
//     its creation, with iterators created before the later updates.
//
// Treap priorities come from the process-global math/rand source: every job runs in its own
// worker process, seeds the source with a seed from a fixed menu and tracks the stream position,
// so every reported history replays with identical priorities.
package main

import (
	"encoding/json"
	"fmt"
	"os"
	"runtime/debug"
	"sort"
	"strconv"
	"strings"
	"sync/atomic"
	"time"

	"verif/evid"
	"verif/mc"
	"verif/par"
)

type workerOut struct {
	Job         string
	States      int64
	Transitions int64
	Executions  int64
	Reads       int64
	DepthDone   int
	Exhaustive  bool
	Cap         string
	Samples     [][]string
	Violations  []evid.Violation
}

type artefact struct {
	System  string   `json:"system"`
	Seed    int64    `json:"seed"`
	History []string `json:"history"`
	Pos     []int64  `json:"pos,omitempty"`
}

func mutSpec(depth int) *mc.Spec {
	return &mc.Spec{Name: "mutable", New: newMut, MaxDepth: depth, Serial: true}
}

// Watchdog: a damaged treap can contain a cycle, and then a read never returns. The worker counts
// its steps; if the count stands still for 30 s the current history is reported as a hang.
var (
	progress   int64
	curSystem  string
	curHistory func() ([]string, []int64)
)

func watchdog(job string, seed int64) {
	last := int64(-1)
	for {
		time.Sleep(30 * time.Second)
		cur := atomic.LoadInt64(&progress)
		if cur != last {
			last = cur
			continue
		}
		h, pos := curHistory()
		out := workerOut{Job: job, Exhaustive: false, Cap: "worker hung in an operation of the code under test"}
		out.Violations = append(out.Violations, evid.Violation{Signature: "C19|" + curSystem + "|hang", Count: 1,
			What:     fmt.Sprintf("an operation or read after history %v did not return within 30 s (the tree has probably been linked into a cycle)", h),
			Artefact: artefact{System: curSystem, Seed: seed, History: append([]string{}, h...), Pos: append([]int64{}, pos...)}})
		par.Emit(out)
		os.Exit(0)
	}
}

func runWorker(r *evid.Run, job string) {
	// The immutable DFS allocates one 1 KiB iterator per node and keeps almost nothing alive: with
	// the default GC pacing a collection is in progress most of the time (write barriers on every
	// iterator copy). Measured: 1000 is 2-3x faster than 100, larger values lose to cache misses.
	if os.Getenv("GOGC") == "" {
		if strings.HasPrefix(job, "imm:") {
			debug.SetGCPercent(1000)
		} else {
			debug.SetGCPercent(200)
		}
	}
	measureOverhead()
	f := strings.Split(job, ":")
	seed, _ := strconv.ParseInt(f[1], 10, 64)
	depth, _ := strconv.Atoi(f[2])
	out := workerOut{Job: job, Exhaustive: true}
	curSystem = map[string]string{"mut": "mutable", "imm": "immutable"}[f[0]]
	curHistory = func() ([]string, []int64) { return nil, nil }
	go watchdog(job, seed)
	switch f[0] {
	case "mut":
		initStream(seed, 4096)
		curHistory = func() ([]string, []int64) { return lastMutHist, nil }
		soft := map[string]*evid.Violation{}
		var softOrder []string
		softFail = func(sig, what string, hist []string) {
			if v, ok := soft[sig]; ok {
				v.Count++
				return
			}
			soft[sig] = &evid.Violation{Signature: sig, What: what, Count: 1, Artefact: artefact{System: "mutable", Seed: seed, History: append([]string{}, hist...)}}
			softOrder = append(softOrder, sig)
		}
		res := mc.Explore(r, mutSpec(depth))
		for _, sig := range softOrder {
			out.Violations = append(out.Violations, *soft[sig])
		}
		out.States, out.Transitions, out.Executions = res.States, res.Transitions, res.Executions
		out.DepthDone, out.Exhaustive, out.Cap, out.Samples = res.DepthDone, res.Exhaustive, res.Capped, res.Samples
		for _, v := range r.Violations() {
			a := v.Artefact.(map[string]interface{})
			v.Artefact = artefact{System: "mutable", Seed: seed, History: a["history"].([]string)}
			out.Violations = append(out.Violations, v)
		}
	case "imm":
		prefix := strings.Split(f[3], ",")
		run := newImmRun(seed, depth)
		run.stop = r.Expired
		curHistory = func() ([]string, []int64) { return run.ops, run.opPos }
		diverged := false
		for _, op := range prefix {
			// every shard checks its own prefix too (cheap; duplicates collapse by signature)
			fl := run.step(op)
			for _, x := range fl.list {
				if _, dup := run.fails[x[0]]; !dup {
					run.fails[x[0]] = &immFail{Clause: x[0], What: x[1], Ops: append([]string{}, run.ops...), Pos: append([]int64{}, run.opPos...)}
				}
				if x[0] == "priority-stream" || strings.HasPrefix(x[0], "new-version|contents|") || strings.HasPrefix(x[0], "old-version|") {
					diverged = true
				}
			}
			if diverged {
				break
			}
		}
		if !diverged {
			run.dfs()
		}
		out.States, out.Transitions, out.Executions, out.Reads = run.distinct, run.nodes, run.nodes, run.reads
		out.DepthDone, out.Samples = depth, run.samples
		if run.capped {
			out.Exhaustive, out.Cap = false, "time budget reached"
		}
		if run.broken {
			out.Exhaustive, out.Cap = false, "a retained version was damaged: shard stopped after reporting it"
		}
		var cl []string
		for c := range run.fails {
			cl = append(cl, c)
		}
		sort.Strings(cl)
		for _, c := range cl {
			fl := run.fails[c]
			// confirm twice by exact replay (stream fast-forwarded to the recorded positions)
			for i := 0; i < 2; i++ {
				if got := replayPath(seed, fl.Ops, fl.Pos); got[c] == "" {
					evid.Fatalf("immutable: failing path does not reproduce: %v: %q", fl.Ops, c)
				}
			}
			out.Violations = append(out.Violations, evid.Violation{Signature: "C19|immutable|" + c, What: fl.What, Count: 1,
				Artefact: artefact{System: "immutable", Seed: seed, History: fl.Ops, Pos: fl.Pos}})
		}
	default:
		evid.Fatalf("bad job %q", job)
	}
	par.Emit(out)
}

func main() {
	r := evid.Start("C19", "model_checking")
	if job, ok := par.Worker(); ok {
		runWorker(r, job)
		return
	}
	measureOverhead()
	if r.Replay != "" {
		var a artefact
		r.LoadReplay(&a)
		switch a.System {
		case "mutable":
			initStream(a.Seed, 4096)
			// soft classes of the LAST step only (earlier steps belong to shorter histories)
			last := map[string]string{}
			softFail = func(sig, what string, hist []string) {
				if len(hist) == len(a.History) {
					last[sig] = what
				}
			}
			mc.Replay(r, mutSpec(len(a.History)), a.History)
			for sig, what := range last {
				fmt.Printf("replay: %v -> FAIL %s: %s\n", a.History, sig, what)
				r.Violate(sig, what, a)
			}
		case "immutable":
			got := replayPath(a.Seed, a.History, a.Pos)
			for c, w := range got {
				fmt.Printf("replay: %v -> FAIL C19|immutable|%s: %s\n", a.History, c, w)
				r.Violate("C19|immutable|"+c, w, a)
			}
			if len(got) == 0 {
				fmt.Printf("replay: %v -> ok\n", a.History)
			}
		default:
			evid.Fatalf("unknown system %q", a.System)
		}
		r.Finish(evid.Coverage{})
	}

	// Bounds.
	// quick:    mutable BFS depth 6 with priority seeds {1,2}; immutable (every one of the 12^d
	//           sequences executed, nothing merged) depth 6 with seed 1 and depth 5 with seeds 2,3.
	// thorough: mutable depth 9 with seeds {1,2,3,4}; immutable depth 8 with seed 1 and depth 7
	//           with seeds 2,3,4.
	depth := r.Pick(6, 9)
	seeds := []int64{1, 2}
	immSeeds := []int64{1, 2, 3}
	immDepths := map[int64]int{1: 6, 2: 5, 3: 5}
	if r.Thorough() {
		seeds = []int64{1, 2, 3, 4}
		immSeeds = seeds
		immDepths = map[int64]int{1: 8, 2: 7, 3: 7, 4: 7}
	}
	immDepth := immDepths[1]
	var jobs []string
	for _, s := range seeds {
		jobs = append(jobs, fmt.Sprintf("mut:%d:%d", s, depth))
	}
	for _, s := range immSeeds {
		for _, a := range allOps {
			if immDepths[s] <= 6 { // small trees: one shard per leading operation
				jobs = append(jobs, fmt.Sprintf("imm:%d:%d:%s", s, immDepths[s], a))
				continue
			}
			for _, b := range allOps {
				jobs = append(jobs, fmt.Sprintf("imm:%d:%d:%s,%s", s, immDepths[s], a, b))
			}
		}
	}
	scratch := evid.Scratch("c19")
	defer os.RemoveAll(scratch)
	t0 := time.Now()
	results := par.Procs(jobs, scratch, par.Opts{Timeout: 3 * time.Hour, MemMB: 4096, Env: []string{"GOMAXPROCS=1"}})
	os.RemoveAll(scratch)

	var all []evid.Violation
	var mutS, mutT, mutX, immS, immT, immReads int64
	exhaustive := true
	capNote := ""
	var samples []interface{}
	for _, res := range results {
		if res.Died || res.Out == nil {
			evid.Fatalf("worker %s died (announced %q): %s", res.Job, res.Announced, res.Stderr)
		}
		var o workerOut
		if err := json.Unmarshal(res.Out, &o); err != nil {
			evid.Fatalf("worker %s: %v", res.Job, err)
		}
		for _, v := range o.Violations {
			all = append(all, v)
		}
		if !o.Exhaustive {
			exhaustive = false
			capNote = o.Job + ": " + o.Cap
		}
		if strings.HasPrefix(o.Job, "mut:") {
			mutS += o.States
			mutT += o.Transitions
			mutX += o.Executions
			if len(o.Samples) > 0 && len(samples) < 3 {
				samples = append(samples, map[string]interface{}{"system": "mutable", "job": o.Job, "history": o.Samples[0]})
			}
		} else {
			immS += o.States
			immT += o.Transitions
			immReads += o.Reads
			if len(o.Samples) > 0 && len(samples) < 6 && (strings.HasSuffix(o.Job, "p00,d3") || strings.HasSuffix(o.Job, ":d3")) {
				samples = append(samples, map[string]interface{}{"system": "immutable", "job": o.Job, "history": o.Samples[0]})
			}
		}
	}
	_ = t0
	// one artefact per signature: the shortest history (ties: first in job order); counts add up
	best := map[string]int{}
	hlen := func(v evid.Violation) int {
		b, _ := json.Marshal(v.Artefact)
		var a artefact
		json.Unmarshal(b, &a)
		return len(a.History)
	}
	for i, v := range all {
		if j, ok := best[v.Signature]; !ok || hlen(v) < hlen(all[j]) {
			best[v.Signature] = i
		}
	}
	for i, v := range all {
		if best[v.Signature] == i {
			r.MergeViolation(v)
		}
	}
	for i, v := range all {
		if best[v.Signature] != i {
			r.MergeViolation(v)
		}
	}
	cov := evid.Coverage{
		"states":                        mutS + immS,
		"transitions":                   mutT + immT,
		"traces_validated_against_impl": mutX + immT,
		"mutable_states":                mutS,
		"mutable_transitions":           mutT,
		"immutable_version_stacks":      immS,
		"immutable_operations":          immT,
		"immutable_old_version_rereads": immReads,
		"max_depth_completed":           map[string]int{"mutable": depth, "immutable": immDepth},
		"priority_seeds":                map[string][]int64{"mutable": seeds, "immutable": immSeeds},
		"immutable_depth_per_seed":      fmt.Sprint(immDepths),
		"exhaustive":                    exhaustive,
		"cap":                           capNote,
		"samples":                       samples,
		"rule": "alphabet {put(k,v), delete(k)} over keys {\"\" (the empty key),dd,f,hhh} x values {nil(=empty),xyz}; " +
			"mutable: BFS with dedup on (contents, priority-stream index of every present key, stream position, long-lived iterator position, Len, Size), all 12 successors of every state up to the depth bound; " +
			"immutable: DFS over ALL 12^d sequences, every version retained on the stack and re-read after every later operation (immutable_version_stacks = distinct sequences of version contents, counted exactly through canonical paths); " +
			"each run repeated for every seed of the priority menu in its own process; oracle after every step: Len, Size (linear in a measured per-node constant), Has/Get on 9 probe keys, ForEach order and early stop, unrestricted and 4 range-limited iterators (new-iterator Next/Prev, full forward/backward passes, Seek on every probe then Next/Prev, zig-zag), iterators created before the update (mutable: ForceReseek then continue/reposition; immutable: untouched)",
	}
	r.Assume = append(r.Assume,
		"Seek below the start key of a range-limited iterator is not specified by the package and is not exercised",
		"Key()/Value() of a mutable-treap iterator between an update and its next movement are not specified and not read",
		"priorities: seeds from a fixed menu; equal priorities (probability ~2^-60 per pair) are not forced")
	r.Finish(cov)
}
