#!/bin/bash
# seedbatch.sh <seed> ... — confirms and saves each seed (sequentially), appends to /tmp/seedbatch.log
cd /verif
for s in "$@"; do
  SAVE=1 ./seedcheck.sh /tmp/seed-out/$s ${s%-*} 2>&1 | grep '^{' >> /tmp/seedbatch.log
done
