package main

import (
	"fmt"
	"os"
	"reflect"
	"runtime/debug"
	"sort"
	"strings"
	"unsafe"

	"verif/dposkit"
	"verif/par"
)

// Part (a): field-by-field round trip of every checkpoint type.
//
// For a target type T the walker builds, purely by reflection (unexported fields are written
// through unsafe pointers, so no accessor is needed in the repository):
//   - the all-populated instance P: every scalar leaf gets a non-zero sample, every map and
//     slice one element, every interface site the concrete type of the current variant;
//   - for EVERY line of the canonical rendering of P (i.e. every leaf field and every container
//     length) the singleton instance in which only that leaf is non-zero (containers on the way
//     to it hold one element whose other fields are zero; struct pointers are allocated).
// Each instance goes through Serialize -> bytes -> Deserialize into a fresh value; a leaf is
// preserved by an instance if its canonical line is present unchanged afterwards.
//
// Verdict (conservative): a leaf is reported only if NO instance in which it was non-zero
// preserves it (singleton and all-populated, over all interface variants in which it exists),
// and at least one such instance went through Serialize/Deserialize without error.

type target struct {
	name      string
	typ       reflect.Type
	roundTrip func(ptr reflect.Value) (out reflect.Value, err error)
	// generic leaf paths that are not part of the persisted state, with the reason
	notState map[string]string
	// concrete types for interface-typed fields, by variant
	variants []map[reflect.Type]reflect.Type
	// fixed (valid) values for discriminating fields: generic path -> value
	fixed map[string]interface{}
	// interface-typed fields that every instance must carry (the encoder dereferences them)
	always map[string]bool
}

type popCtx struct {
	t       *target
	variant map[reflect.Type]reflect.Type
	sel     string // "" = populate everything; else the only leaf path to populate
	count   int    // number of elements of the container selected by sel = <path>.len
	counted bool   // count is meaningful (container-length instance); otherwise one element
	nested  bool   // counted container of containers: every outer element gets two distinct inner elements
	// interface-typed sites are given a (zero-valued) concrete value even off the selected path:
	// set for the elements of a counted container, which must be encodable
	forceIface bool
}

func (c *popCtx) on(path string) bool { // is the selected leaf at or beneath path?
	if c.sel == "" {
		return true
	}
	return c.sel == path || strings.HasPrefix(c.sel, path+".") || strings.HasPrefix(c.sel, path+"[") || strings.HasPrefix(c.sel, path+"{")
}

func writable(v reflect.Value) reflect.Value {
	if v.CanSet() {
		return v
	}
	return reflect.NewAt(v.Type(), unsafe.Pointer(v.UnsafeAddr())).Elem()
}

var backPointerTypes = map[string]bool{
	"state.Arbiters": true, "state.Committee": true, "mempool.TxPool": true, "state.State": true,
}

// sampleScalar sets a non-zero sample into a scalar leaf.
func sampleScalar(v reflect.Value) bool {
	switch v.Kind() {
	case reflect.Bool:
		v.SetBool(true)
	case reflect.Int, reflect.Int8, reflect.Int16, reflect.Int32, reflect.Int64:
		v.SetInt(7)
	case reflect.Uint, reflect.Uint8, reflect.Uint16, reflect.Uint32, reflect.Uint64:
		v.SetUint(7)
	case reflect.Float32, reflect.Float64:
		v.SetFloat(1.5)
	case reflect.String:
		v.SetString("s")
	case reflect.Slice:
		if v.Type().Elem().Kind() != reflect.Uint8 {
			return false
		}
		v.Set(reflect.MakeSlice(v.Type(), 3, 3))
		for i := 0; i < 3; i++ {
			v.Index(i).SetUint(uint64(i + 1))
		}
	case reflect.Array:
		if v.Type().Elem().Kind() != reflect.Uint8 {
			return false
		}
		for i := 0; i < v.Len(); i++ {
			v.Index(i).SetUint(uint64(i%250 + 1))
		}
	default:
		return false
	}
	return true
}

func isScalar(t reflect.Type) bool {
	switch t.Kind() {
	case reflect.Bool, reflect.Int, reflect.Int8, reflect.Int16, reflect.Int32, reflect.Int64,
		reflect.Uint, reflect.Uint8, reflect.Uint16, reflect.Uint32, reflect.Uint64, reflect.Float32, reflect.Float64, reflect.String:
		return true
	case reflect.Slice, reflect.Array:
		return t.Elem().Kind() == reflect.Uint8
	}
	return false
}

// fill populates v (addressable) at canonical path `path` / generic path gpath.
func (c *popCtx) fill(v reflect.Value, path, gpath string, depth int) {
	if depth > 14 {
		return
	}
	v = writable(v)
	if fx, ok := c.t.fixed[gpath]; ok {
		// discriminating field with a fixed valid value (part of every instance)
		v.Set(reflect.ValueOf(fx).Convert(v.Type()))
		return
	}
	t := v.Type()
	if isScalar(t) {
		if c.sel == "" || c.sel == path {
			sampleScalar(v)
		}
		return
	}
	switch t.Kind() {
	case reflect.Ptr:
		et := t.Elem()
		if et.Kind() == reflect.Struct && backPointerTypes[et.String()] {
			return
		}
		if et.Kind() == reflect.Struct || c.on(path) {
			nv := reflect.New(et)
			c.fill(nv.Elem(), path, gpath, depth+1)
			v.Set(nv)
		}
	case reflect.Interface:
		ct, ok := c.variant[t]
		if !ok || (!c.on(path) && !c.t.always[gpath] && !c.forceIface) {
			return
		}
		nv := reflect.New(ct)
		c.fill(nv.Elem(), path, gpath, depth+1)
		if reflect.PtrTo(ct).Implements(t) {
			v.Set(nv)
		} else {
			v.Set(nv.Elem())
		}
	case reflect.Struct:
		if strings.HasPrefix(t.PkgPath(), "sync") {
			return
		}
		for i := 0; i < t.NumField(); i++ {
			f := t.Field(i)
			c.fill(v.Field(i), path+"."+f.Name, gpath+"."+f.Name, depth+1)
		}
	case reflect.Map:
		v.Set(reflect.MakeMap(t))
		if !c.on(path) {
			return
		}
		if c.sel == path+".len" {
			// container-length instance: count elements with distinct keys and zero values
			for i := 0; i < c.elems(); i++ {
				k := reflect.New(t.Key()).Elem()
				(&popCtx{t: c.t, variant: c.variant}).fill(k, "", "", depth+1)
				varyKey(k, i)
				e := reflect.New(t.Elem()).Elem()
				(&popCtx{t: c.t, variant: c.variant, sel: "\x00none", forceIface: true}).fill(e, path+"[]", gpath+"[*]", depth+1)
				if c.nested {
					c.fillInner(e, i, depth)
				}
				v.SetMapIndex(k, e)
			}
			return
		}
		k := reflect.New(t.Key()).Elem()
		kc := &popCtx{t: c.t, variant: c.variant}
		kc.fill(k, "", "", depth+1) // keys are always fully sampled
		ep := path + "[" + dposkit.InlineKey(k) + "]"
		e := reflect.New(t.Elem()).Elem()
		c.fill(e, ep, gpath+"[*]", depth+1)
		v.SetMapIndex(k, e)
	case reflect.Slice:
		if !c.on(path) {
			return
		}
		if c.sel == path+".len" {
			sl := reflect.MakeSlice(t, 0, c.elems())
			for i := 0; i < c.elems(); i++ {
				e := reflect.New(t.Elem()).Elem()
				(&popCtx{t: c.t, variant: c.variant, sel: "\x00none", forceIface: true}).fill(e, path+"[]", gpath+"[*]", depth+1)
				sl = reflect.Append(sl, e)
			}
			v.Set(sl)
			return
		}
		e := reflect.New(t.Elem()).Elem()
		c.fill(e, path+"[0]", gpath+"[*]", depth+1)
		v.Set(reflect.Append(reflect.MakeSlice(t, 0, 1), e))
	}
}

// fillInner gives the inner container e (a map or slice that is the element of a counted
// container) two elements that differ from each other and from those of the other outer
// elements (outer index i).
func (c *popCtx) fillInner(e reflect.Value, i, depth int) {
	t := e.Type()
	mk := func(j int) reflect.Value {
		// inner elements are fully populated and then made distinct per (outer, inner) index,
		// so that records swapped or shared between outer entries show up in the contents
		x := reflect.New(t.Elem()).Elem()
		(&popCtx{t: c.t, variant: c.variant, forceIface: true}).fill(x, "", "", depth+2)
		if !isScalar(x.Type()) {
			varyKey(x, 1+2*i+j)
		}
		return x
	}
	switch t.Kind() {
	case reflect.Map:
		e.Set(reflect.MakeMap(t))
		for j := 0; j < 2; j++ {
			k := reflect.New(t.Key()).Elem()
			(&popCtx{t: c.t, variant: c.variant}).fill(k, "", "", depth+2)
			varyKey(k, 1+2*i+j)
			x := mk(j)
			if isScalar(x.Type()) {
				sampleScalar(x)
				varyKey(x, 1+2*i+j)
			}
			e.SetMapIndex(k, x)
		}
	case reflect.Slice:
		sl := reflect.MakeSlice(t, 0, 2)
		for j := 0; j < 2; j++ {
			x := mk(j)
			if isScalar(x.Type()) {
				sampleScalar(x)
				varyKey(x, 1+2*i+j)
			}
			sl = reflect.Append(sl, x)
		}
		e.Set(sl)
	}
}

func (c *popCtx) elems() int {
	if !c.counted {
		return 1
	}
	return c.count
}

// varyKey makes the i-th key of a container distinct from the others (i = 0 keeps the sample).
func varyKey(k reflect.Value, i int) bool {
	if i == 0 {
		return true
	}
	k = writable(k)
	switch k.Kind() {
	case reflect.String:
		k.SetString(fmt.Sprintf("s%d", i))
	case reflect.Int, reflect.Int8, reflect.Int16, reflect.Int32, reflect.Int64:
		k.SetInt(k.Int() + int64(i))
	case reflect.Uint, reflect.Uint8, reflect.Uint16, reflect.Uint32, reflect.Uint64:
		k.SetUint(k.Uint() + uint64(i))
	case reflect.Array:
		if k.Type().Elem().Kind() != reflect.Uint8 || k.Len() < 4 {
			return false
		}
		for b := 0; b < 4; b++ {
			k.Index(b).SetUint(uint64(byte(i >> (8 * uint(b)))))
		}
		k.Index(k.Len() - 1).SetUint(0xee)
	case reflect.Struct:
		for f := 0; f < k.NumField(); f++ {
			if varyKey(k.Field(f), i) {
				return true
			}
		}
		return false
	default:
		return false
	}
	return true
}

// buildNested builds the instance in which only the container at path holds two elements, each
// of them an inner container with two elements of its own (all distinct).
func (t *target) buildNested(variant map[reflect.Type]reflect.Type, path string) reflect.Value {
	p := reflect.New(t.typ)
	(&popCtx{t: t, variant: variant, sel: path + ".len", count: 2, counted: true, nested: true}).fill(p.Elem(), "", "", 0)
	return p
}

// buildCount builds the instance in which only the container at path holds n elements.
func (t *target) buildCount(variant map[reflect.Type]reflect.Type, path string, n int) reflect.Value {
	p := reflect.New(t.typ)
	(&popCtx{t: t, variant: variant, sel: path + ".len", count: n, counted: true}).fill(p.Elem(), "", "", 0)
	return p
}

func (t *target) build(variant map[reflect.Type]reflect.Type, sel string) reflect.Value {
	p := reflect.New(t.typ)
	(&popCtx{t: t, variant: variant, sel: sel}).fill(p.Elem(), "", "", 0)
	return p
}

var walkCanon = &dposkit.CanonOpts{}

var debugLeaves = os.Getenv("C23_LEAVES") != ""

func linesOf(v reflect.Value) []string { return dposkit.Canon(v.Interface(), walkCanon) }

type leafStat struct {
	set, usable, preserved int
	example                string
}

// sizeFailure is one container-length instance that did not come back intact.
type sizeFailure struct {
	container string // generic path
	n         int
	why       string
}

type walkResult struct {
	sizeInstances             int
	sizeFailures              []sizeFailure
	instances, usable, leaves int
	lossy                     []string          // generic leaf paths never preserved
	why                       map[string]string // example text per lossy leaf
	unusable                  map[string]string // leaves whose every instance failed to round-trip (error text)
}

func safeRoundTrip(t *target, p reflect.Value) (out reflect.Value, err error) {
	defer func() {
		if e := recover(); e != nil {
			err = fmt.Errorf("panic: %v at %s", e, firstFrame(debug.Stack()))
		}
	}()
	return t.roundTrip(p)
}

func firstFrame(st []byte) string {
	for _, l := range strings.Split(string(st), "\n") {
		if strings.Contains(l, "Elastos.ELA/") && !strings.HasPrefix(l, "\t") {
			if i := strings.LastIndex(l, "("); i > 0 {
				l = l[:i]
			}
			return strings.TrimPrefix(l, "github.com/elastos/Elastos.ELA/")
		}
	}
	return "?"
}

func pathOfLine(l string) string {
	if i := dposkit.SepIndex(l); i >= 0 {
		return l[:i]
	}
	return l
}

// walk runs the whole procedure for one target.
func (t *target) walk() walkResult {
	res := walkResult{why: map[string]string{}, unusable: map[string]string{}}
	stats := map[string]*leafStat{} // by generic leaf path
	errs := map[string]string{}
	get := func(g string) *leafStat {
		if s, ok := stats[g]; ok {
			return s
		}
		s := &leafStat{}
		stats[g] = s
		return s
	}
	variants := t.variants
	if len(variants) == 0 {
		variants = []map[reflect.Type]reflect.Type{{}}
	}
	for _, variant := range variants {
		full := t.build(variant, "")
		fullLines := linesOf(full)
		// instances: the all-populated one plus one singleton per line
		type inst struct {
			v     reflect.Value
			leafs []string // lines that are non-zero on purpose in this instance
		}
		insts := []inst{{full, fullLines}}
		for _, l := range fullLines {
			if strings.HasSuffix(pathOfLine(l), ".(type)") {
				continue
			}
			sv := t.build(variant, pathOfLine(l))
			insts = append(insts, inst{sv, []string{l}})
		}
		for _, in := range insts {
			res.instances++
			before := linesOf(in.v)
			have := map[string]bool{}
			for _, l := range before {
				have[l] = true
			}
			out, err := safeRoundTrip(t, in.v)
			var after map[string]bool
			if err == nil {
				res.usable++
				after = map[string]bool{}
				for _, l := range linesOf(out) {
					after[l] = true
				}
			}
			for _, l := range in.leafs {
				if !have[l] {
					continue // the instance does not actually carry this leaf (fixed / unsettable)
				}
				p := pathOfLine(l)
				if strings.HasSuffix(p, ".(type)") {
					continue
				}
				if isZeroLine(l) {
					continue
				}
				g := dposkit.Generic(p)
				if notPersisted(t, g) {
					continue
				}
				s := get(g)
				s.set++
				if err != nil {
					if _, ok := errs[g]; !ok {
						errs[g] = err.Error()
					}
					continue
				}
				s.usable++
				if after[l] {
					s.preserved++
				} else if s.example == "" {
					s.example = l
				}
			}
		}
	}
	// container-length menu: every map / slice field (every ".len" line of the all-populated
	// instance) holding n elements with distinct keys, everything else empty
	type sizeJob struct {
		variant map[reflect.Type]reflect.Type
		path    string
		n       int
	}
	var sjobs []sizeJob
	seenContainer := map[string]bool{}
	for _, variant := range variants {
		for _, l := range linesOf(t.build(variant, "")) {
			p := pathOfLine(l)
			if !strings.HasSuffix(p, ".len") {
				continue
			}
			p = strings.TrimSuffix(p, ".len")
			g := dposkit.Generic(p)
			key := g
			if len(variants) > 1 && containsInterfaceElem(t, variant, p) {
				key = fmt.Sprintf("%s|%v", g, variantName(variant))
			}
			if seenContainer[key] {
				continue
			}
			seenContainer[key] = true
			for _, n := range containerSizes {
				sjobs = append(sjobs, sizeJob{variant, p, n})
			}
			if t.nestedContainer(variant, p) {
				sjobs = append(sjobs, sizeJob{variant, p, -2}) // 2 outer x 2 inner elements
			}
		}
	}
	fails := make([]*sizeFailure, len(sjobs))
	par.Go(len(sjobs), func(i int) {
		j := sjobs[i]
		var in reflect.Value
		if j.n == -2 {
			in = t.buildNested(j.variant, j.path)
		} else {
			in = t.buildCount(j.variant, j.path, j.n)
		}
		g := dposkit.Generic(j.path)
		before := linesOf(in)
		if got := lenLine(before, j.path); j.n >= 0 && got != j.n {
			// keys of this container cannot be made distinct by the walker (engine limit)
			if j.n > 1 {
				return
			}
		}
		out, err := safeRoundTrip(t, in)
		if err != nil {
			fails[i] = &sizeFailure{g, j.n, "Serialize/Deserialize failed: " + err.Error()}
			return
		}
		after := linesOf(out)
		// zero-valued lines are dropped on both sides: the skeleton allocates struct pointers that
		// an encoder may legitimately bring back as nil (wallet link items: zero outpoint <-> nil)
		if d := dposkit.DiffLines(persisted(t, nonZero(before)), persisted(t, nonZero(after)), 3); len(d) > 0 {
			fails[i] = &sizeFailure{g, j.n, "content differs after the round trip: " + strings.Join(d, " | ")}
		}
	})
	res.sizeInstances = len(sjobs)
	for _, f := range fails {
		if f != nil {
			res.sizeFailures = append(res.sizeFailures, *f)
		}
	}
	var gs []string
	for g := range stats {
		gs = append(gs, g)
	}
	sort.Strings(gs)
	for _, g := range gs {
		s := stats[g]
		if debugLeaves {
			fmt.Printf("    %s leaf %s: set %d usable %d preserved %d\n", t.name, g, s.set, s.usable, s.preserved)
		}
		res.leaves++
		if s.usable == 0 {
			res.unusable[g] = errs[g]
			continue
		}
		if s.preserved == 0 {
			res.lossy = append(res.lossy, g)
			res.why[g] = fmt.Sprintf("set in %d instance(s) that serialize and deserialize without error, never present afterwards (e.g. before: %s)", s.usable, s.example)
		}
	}
	return res
}

// notPersistedEverywhere: leaves that no checkpoint persists on purpose, matched as a suffix of
// the generic path.
var notPersistedEverywhere = map[string]string{
	".Info.Signature": "signature of the registration payload (CRInfo): checked when the transaction is accepted, never read from the state afterwards; the frames use SerializeUnsigned on purpose",
}

func notPersisted(t *target, g string) bool {
	if _, ok := t.notState[g]; ok {
		return true
	}
	for sfx := range notPersistedEverywhere {
		if strings.HasSuffix(g, sfx) {
			return true
		}
	}
	return false
}

// fieldGroup is the persisted field a leaf belongs to: the path up to the first container.
func fieldGroup(g string) string {
	g = strings.TrimSuffix(g, ".len")
	if i := strings.Index(g, "["); i >= 0 {
		g = g[:i]
	}
	return g
}

// containerSizes is the length menu of the container family (set by main per tier).
var containerSizes = []int{0, 1, 2, 10001}

// nestedContainer: is the element of the container at path itself a map or a slice (not bytes)?
// Decided on the all-populated instance: a ".len" line directly below an element.
func (t *target) nestedContainer(variant map[reflect.Type]reflect.Type, path string) bool {
	for _, l := range linesOf(t.build(variant, "")) {
		p := pathOfLine(l)
		if strings.HasPrefix(p, path+"[") && strings.HasSuffix(p, "].len") && strings.Count(p[len(path):], "[") == 1 {
			return true
		}
	}
	return false
}

func lenLine(lines []string, path string) int {
	want := path + ".len = "
	for _, l := range lines {
		if strings.HasPrefix(l, want) {
			n := 0
			fmt.Sscan(l[len(want):], &n)
			return n
		}
	}
	return 0
}

func variantName(v map[reflect.Type]reflect.Type) string {
	var ns []string
	for _, t := range v {
		ns = append(ns, t.String())
	}
	sort.Strings(ns)
	return strings.Join(ns, ",")
}

// containsInterfaceElem: does the container at path hold interface-typed elements (so that the
// variant matters)? Decided from the all-populated instance: a ".(type)" line right below it.
func containsInterfaceElem(t *target, variant map[reflect.Type]reflect.Type, path string) bool {
	for _, l := range linesOf(t.build(variant, path+".len")) {
		if strings.HasPrefix(l, path+"[") && strings.Contains(pathOfLine(l), ".(type)") {
			return true
		}
	}
	return false
}

// persisted drops the lines of fields that are not persisted on purpose (notState lists).
func persisted(t *target, lines []string) []string {
	var out []string
	for _, l := range lines {
		if !notPersisted(t, dposkit.Generic(pathOfLine(l))) {
			out = append(out, l)
		}
	}
	return out
}

func nonZero(lines []string) []string {
	var out []string
	for _, l := range lines {
		if !isZeroLine(l) {
			out = append(out, l)
		}
	}
	return out
}

// isZeroLine: a canonical line that denotes an empty / zero value (not a populated leaf).
func isZeroLine(l string) bool {
	i := dposkit.SepIndex(l)
	if i < 0 {
		return true
	}
	v := l[i+3:]
	switch v {
	case "0", "false", `""`, "0x", "nil":
		return true
	}
	if strings.HasPrefix(v, "0x") && strings.Trim(v[2:], "0") == "" {
		return true
	}
	return false
}
