// C32: frozen addresses can neither spend nor receive.
//
// (a) the real frozen-address helper used by DefaultChecker.ContextCheck (hook
// transaction.VerifCheckFrozenAddresses) over every transaction shape with 1..3 inputs and 1..3
// outputs, the frozen address at every input position / output position / both / none, heights
// around the start height, every frozen list of 0..2 entries over a small entry menu (incl. an
// unresolved entry with nil program hash), every constructible transaction type.
// (b) settings.Settings.SetupConfig for every ActiveNet spelling x config-file overrides of the
// frozen list (worker subprocess per spelling).
// (c) complete ContextCheck on a light node for signed, otherwise fully valid transactions.
package main

import (
	"encoding/json"
	"fmt"
	"math"
	"os"
	"path/filepath"
	"strings"
	"sync/atomic"

	"github.com/elastos/Elastos.ELA/common"
	"github.com/elastos/Elastos.ELA/common/config"
	"github.com/elastos/Elastos.ELA/common/config/settings"
	"github.com/elastos/Elastos.ELA/core/transaction"
	common2 "github.com/elastos/Elastos.ELA/core/types/common"
	"github.com/elastos/Elastos.ELA/core/types/interfaces"
	"github.com/elastos/Elastos.ELA/core/types/outputpayload"

	"verif/evid"
	"verif/hx"
	"verif/lightnode"
	"verif/par"
)

// The coordinated mainnet frozen list of the emergency release, pinned.
const (
	coordAddress        = "EfduuvdDcAgif8njgXNJUfsBumQf9yYP72"
	coordStart   uint32 = 2256110
	otherAddress        = "EJMzC16Eorq9CuFCGtyMrq4Jmgw9jYCHQR"
)

func mustHash(addr string) common.Uint168 {
	h, err := common.Uint168FromAddress(addr)
	if err != nil {
		evid.Fatalf("address %s: %v", addr, err)
	}
	return *h
}

// ---------------------------------------------------------------------------------------------
// part (a)

// entry menu: A = coordinated address at S, A1 = same address starting one block later,
// B = another address at S+1, NIL = an entry whose address never resolved (ProgramHash nil).
type entry struct {
	Name  string
	Who   string // "A", "B", "" (unresolved)
	Start uint32
}

var entries = []entry{
	{"A@S", "A", coordStart},
	{"A@S+1", "A", coordStart + 1},
	{"B@S+1", "B", coordStart + 1},
	{"NIL@0", "", 0},
}

func allLists() [][]int {
	out := [][]int{{}}
	for i := range entries {
		out = append(out, []int{i})
	}
	for i := range entries {
		for j := range entries {
			out = append(out, []int{i, j})
		}
	}
	return out
}

func listName(l []int) string {
	var s []string
	for _, i := range l {
		s = append(s, entries[i].Name)
	}
	return "[" + strings.Join(s, ",") + "]"
}

func mkList(l []int, hA, hB common.Uint168) []config.FrozenAddress {
	var out []config.FrozenAddress
	for _, i := range l {
		e := entries[i]
		switch e.Who {
		case "A":
			h := hA
			out = append(out, config.FrozenAddress{Address: coordAddress, DisableStartHeight: e.Start, ProgramHash: &h})
		case "B":
			h := hB
			out = append(out, config.FrozenAddress{Address: otherAddress, DisableStartHeight: e.Start, ProgramHash: &h})
		default:
			out = append(out, config.FrozenAddress{Address: "not-an-address", DisableStartHeight: e.Start})
		}
	}
	return out
}

type caseA struct {
	Type  int    `json:"type"`
	NIn   int    `json:"inputs"`
	NOut  int    `json:"outputs"`
	PosIn int    `json:"frozen_input_pos"`  // -1 none
	PosOu int    `json:"frozen_output_pos"` // -1 none
	Who   string `json:"placed_address"`    // A | B
	H     uint32 `json:"h"`
	List  []int  `json:"list"`
	// OutType is the output Type of the output at PosOu (0 = OTNone, 1 OTVote, 2 OTMapping,
	// 3 OTCrossChain, 4 OTWithdrawFromSideChain, 5 OTReturnSideChainDepositCoin, 6 OTDposV2Vote,
	// 7 OTStake, beyond: unknown values)
	OutType int `json:"frozen_output_type"`
}

func typedPayload(t common2.OutputType) common2.OutputPayload {
	switch t {
	case common2.OTVote, common2.OTDposV2Vote:
		return new(outputpayload.VoteOutput)
	case common2.OTMapping:
		return new(outputpayload.Mapping)
	case common2.OTCrossChain:
		return new(outputpayload.CrossChainOutput)
	case common2.OTWithdrawFromSideChain:
		return new(outputpayload.Withdraw)
	case common2.OTReturnSideChainDepositCoin:
		return new(outputpayload.ReturnSideChainDeposit)
	case common2.OTStake:
		return new(outputpayload.ExchangeVotesOutput)
	}
	return new(outputpayload.DefaultOutput)
}

func neutral(i int) common.Uint168 {
	var h common.Uint168
	h[0] = 0x21
	h[1] = 0xEE
	h[2] = byte(i)
	return h
}

func buildA(c caseA, hA, hB common.Uint168) (interfaces.Transaction, map[*common2.Input]common2.Output) {
	placed := hA
	if c.Who == "B" {
		placed = hB
	}
	refs := map[*common2.Input]common2.Output{}
	var ins []*common2.Input
	for i := 0; i < c.NIn; i++ {
		in := &common2.Input{Previous: common2.OutPoint{Index: uint16(i)}}
		in.Previous.TxID[0] = byte(i + 1)
		ins = append(ins, in)
		ph := neutral(i)
		if i == c.PosIn {
			ph = placed
		}
		refs[in] = common2.Output{Value: 100, ProgramHash: ph}
	}
	var outs []*common2.Output
	for i := 0; i < c.NOut; i++ {
		ph := neutral(16 + i)
		if i == c.PosOu {
			ph = placed
		}
		o := &common2.Output{Value: 10, ProgramHash: ph}
		if i == c.PosOu && c.OutType != 0 {
			o.Type = common2.OutputType(c.OutType)
			// the payload object the wire decoder would attach for this type (the frozen-address
			// rule itself never looks at it)
			o.Payload = typedPayload(o.Type)
		}
		outs = append(outs, o)
	}
	p, _ := interfaces.GetPayload(common2.TxType(c.Type), 0)
	tx := transaction.CreateTransaction(common2.TxVersion09, common2.TxType(c.Type), 0, p, nil, ins, outs, 0, nil)
	return tx, refs
}

// refFrozen: must the transaction be refused? From each frozen address's start height on, no
// transaction that spends an output owned by it or pays to it is accepted. Unresolved entries
// name no address.
func refFrozen(c caseA) bool {
	if c.PosIn < 0 && c.PosOu < 0 {
		return false
	}
	for _, i := range c.List {
		e := entries[i]
		if e.Who == c.Who && c.H >= e.Start {
			return true
		}
	}
	return false
}

func evalA(c caseA, hA, hB common.Uint168) (rejected bool, errs string) {
	tx, refs := buildA(c, hA, hB)
	err := transaction.VerifCheckFrozenAddresses(tx, refs, c.H, mkList(c.List, hA, hB))
	if err != nil {
		return true, err.Error()
	}
	return false, ""
}

func where(c caseA) string {
	switch {
	case c.PosIn >= 0 && c.PosOu >= 0:
		return "spends+pays"
	case c.PosIn >= 0:
		return "spends"
	case c.PosOu >= 0:
		return "pays"
	}
	return "unrelated"
}

func typeClass(t int) string {
	if t == int(common2.CoinBase) {
		return "coinbase"
	}
	return "non-coinbase"
}

func judgeA(r *evid.Run, c caseA, rejected bool, errs string) {
	want := refFrozen(c)
	if rejected == want {
		return
	}
	if c.Type == int(common2.CoinBase) {
		// the statement is about non-coinbase transactions only (and a coinbase never takes
		// this path in the node): nothing is required of the helper here.
		return
	}
	art := map[string]interface{}{"kind": "helper", "case": c, "list": listName(c.List)}
	if want {
		r.Violate("C32|frozen|accepted-forbidden|"+where(c), "a transaction that "+where(c)+" a frozen address at or after its start height passes the frozen-address check", art)
	} else {
		r.Violate("C32|frozen|rejected-permitted|"+where(c), "the frozen-address check refuses a transaction no frozen entry concerns at that height: "+errs, art)
	}
}

// ---------------------------------------------------------------------------------------------
// part (b)

var netNames = []string{"<absent>", "", "mainnet", "MainNet", "main", "MAIN", "testnet", "test", "regnet", "regtest", "reg", "private-net"}

type fa struct {
	Address            string
	DisableStartHeight uint32
}

var listOverrides = []struct {
	Name string
	Set  bool
	Val  []fa
}{
	{"absent", false, nil},
	{"empty", true, []fa{}},
	{"other@1", true, []fa{{otherAddress, 1}}},
	{"coord@max", true, []fa{{coordAddress, math.MaxUint32}}},
	{"coord@0", true, []fa{{coordAddress, 0}}},
	{"constant", true, []fa{{coordAddress, coordStart}}},
	{"other+coord", true, []fa{{otherAddress, 1}, {coordAddress, coordStart}}},
	{"garbage", true, []fa{{"not-an-address", 5}}},
	{"other@0", true, []fa{{otherAddress, 0}}},
	{"other@0+coord@1", true, []fa{{otherAddress, 0}, {coordAddress, 1}}},
}

type caseB struct {
	Net     string `json:"net"`
	List    string `json:"list_override"`
	Instant bool   `json:"instant_block"`
}

type entryOut struct {
	Address  string `json:"address"`
	Start    uint32 `json:"start"`
	HashHex  string `json:"program_hash"`
	Resolved bool   `json:"resolved"`
	// for entries with a valid address: does the real helper, handed the resulting list, refuse
	// a spend from / a payment to that address at heights 0, 1, start-1, start and the
	// coordinated height S?
	Valid    bool            `json:"valid_address"`
	Enforced map[string]bool `json:"enforced_at"`
}

type resB struct {
	Case    caseB      `json:"case"`
	List    []entryOut `json:"list"`
	SameObj bool       `json:"parameters_is_result"`
	Magic   uint32     `json:"magic"`
	// effect on the real helper with the resulting list
	SpendAtS   bool `json:"spend_from_coord_rejected_at_S"`
	PayAtS     bool `json:"pay_to_coord_rejected_at_S"`
	SpendAtMax bool `json:"spend_from_coord_rejected_at_max"`
	SpendPreS  bool `json:"spend_from_coord_rejected_before_S"`
	PayPreS    bool `json:"pay_to_coord_rejected_before_S"`
	Unrelated  bool `json:"unrelated_rejected"`
}

func isMainnetName(n string) bool {
	switch strings.ToLower(n) {
	case "<absent>", "", "mainnet", "main":
		return true
	}
	return false
}

func runB(scr string, c caseB) resB {
	dir, err := os.MkdirTemp(scr, "cfg")
	if err != nil {
		evid.Fatalf("tmp: %v", err)
	}
	defer os.RemoveAll(dir)
	conf := map[string]interface{}{}
	if c.Net != "<absent>" {
		conf["ActiveNet"] = c.Net
	}
	found := false
	for _, o := range listOverrides {
		if o.Name == c.List {
			found = true
			if o.Set {
				conf["FrozenAddresses"] = o.Val
			}
		}
	}
	if !found {
		evid.Fatalf("unknown list override %q", c.List)
	}
	if c.Instant {
		conf["PowConfiguration"] = map[string]interface{}{"InstantBlock": true}
	}
	b, _ := json.Marshal(map[string]interface{}{"Configuration": conf})
	path := filepath.Join(dir, "config.json")
	if err := os.WriteFile(path, b, 0o600); err != nil {
		evid.Fatalf("write config: %v", err)
	}
	config.DefaultParams = *config.GetDefaultParams()
	config.DefaultParams.Conf = path
	config.Parameters = nil
	got := settings.NewSettings().SetupConfig(false, "", "")
	res := resB{Case: c, Magic: got.Magic, SameObj: config.Parameters == got}
	for _, e := range got.FrozenAddresses {
		o := entryOut{Address: e.Address, Start: e.DisableStartHeight}
		if e.ProgramHash != nil {
			o.Resolved = true
			o.HashHex = common.BytesToHexString(e.ProgramHash.Bytes())
		}
		if ph, err := common.Uint168FromAddress(e.Address); err == nil {
			o.Valid = true
			o.Enforced = map[string]bool{}
			hs := map[uint32]bool{0: true, 1: true, e.DisableStartHeight: true, coordStart: true}
			if e.DisableStartHeight > 0 {
				hs[e.DisableStartHeight-1] = true
			}
			for h := range hs {
				var in common2.Input
				in.Previous.TxID[0] = 0x77
				spend := transaction.CreateTransaction(common2.TxVersion09, common2.TransferAsset, 0, nil, nil, []*common2.Input{&in}, []*common2.Output{{Value: 1, ProgramHash: neutral(1)}}, 0, nil)
				refs := map[*common2.Input]common2.Output{&in: {Value: 10, ProgramHash: *ph}}
				pay := transaction.CreateTransaction(common2.TxVersion09, common2.TransferAsset, 0, nil, nil, []*common2.Input{&in}, []*common2.Output{{Value: 1, ProgramHash: *ph}}, 0, nil)
				refs2 := map[*common2.Input]common2.Output{&in: {Value: 10, ProgramHash: neutral(2)}}
				s1 := transaction.VerifCheckFrozenAddresses(spend, refs, h, got.FrozenAddresses) != nil
				s2 := transaction.VerifCheckFrozenAddresses(pay, refs2, h, got.FrozenAddresses) != nil
				o.Enforced[fmt.Sprintf("%d", h)] = s1 && s2
				o.Enforced[fmt.Sprintf("%d-any", h)] = s1 || s2
			}
		}
		res.List = append(res.List, o)
	}
	hA, hB := mustHash(coordAddress), mustHash(otherAddress)
	probe := func(posIn, posOut int, h uint32) bool {
		tx, refs := buildA(caseA{Type: int(common2.TransferAsset), NIn: 2, NOut: 2, PosIn: posIn, PosOu: posOut, Who: "A"}, hA, hB)
		return transaction.VerifCheckFrozenAddresses(tx, refs, h, got.FrozenAddresses) != nil
	}
	res.SpendAtS = probe(1, -1, coordStart)
	res.PayAtS = probe(-1, 0, coordStart)
	res.SpendAtMax = probe(0, -1, math.MaxUint32-1)
	res.SpendPreS = probe(1, -1, coordStart-1)
	res.PayPreS = probe(-1, 0, coordStart-1)
	res.Unrelated = probe(-1, -1, coordStart) || probe(-1, -1, 0) || probe(-1, -1, math.MaxUint32-1)
	return res
}

func judgeB(r *evid.Run, x resB) string {
	art := map[string]interface{}{"kind": "config", "case": x.Case, "result": x}
	var names []string
	for _, e := range x.List {
		names = append(names, fmt.Sprintf("%s@%d/%v", e.Address, e.Start, e.Resolved))
	}
	if !x.SameObj {
		r.Violate("C32|config|global-parameters-differ", "config.Parameters is not the configuration SetupConfig returned", art)
	}
	// whatever list a network ends up with (mainnet: the coordinated one; other networks: the
	// local one): every entry with a valid address must come out of Sterilize with its program
	// hash resolved and be enforced exactly from its start height on
	for _, e := range x.List {
		if !e.Valid {
			continue
		}
		if !e.Resolved {
			r.Violate("C32|config|entry-unresolved-after-sterilize", fmt.Sprintf("frozen entry %s (start height %d) has no program hash after SetupConfig/Sterilize, so the check skips it", e.Address, e.Start), art)
			continue
		}
		// the earliest start among the entries naming this address decides
		start := e.Start
		for _, o := range x.List {
			if o.Valid && o.Address == e.Address && o.Start < start {
				start = o.Start
			}
		}
		for hs, enforced := range e.Enforced {
			if strings.HasSuffix(hs, "-any") {
				continue
			}
			var h uint32
			fmt.Sscanf(hs, "%d", &h)
			if h >= start && !enforced {
				r.Violate("C32|config|entry-not-enforced-from-start", fmt.Sprintf("frozen entry %s (start height %d): a spend from / payment to it at height %d passes the real check with the configured list", e.Address, e.Start, h), art)
			}
			if h < start && e.Enforced[hs+"-any"] {
				r.Violate("C32|config|entry-enforced-before-start", fmt.Sprintf("frozen entry %s (start height %d) is already enforced at height %d", e.Address, e.Start, h), art)
			}
		}
	}
	if !isMainnetName(x.Case.Net) {
		// other networks keep their own (or an empty) list
		return "other-net|" + strings.Join(names, ",")
	}
	hA := mustHash(coordAddress)
	ok := len(x.List) == 1 && x.List[0].Address == coordAddress && x.List[0].Start == coordStart
	if !ok {
		r.Violate("C32|config|mainnet-list-differs", "the mainnet frozen list after SetupConfig is "+strings.Join(names, ",")+", not the coordinated one", art)
	} else if !x.List[0].Resolved || x.List[0].HashHex != common.BytesToHexString(hA.Bytes()) {
		r.Violate("C32|config|mainnet-entry-unresolved", "the coordinated entry carries no (or a wrong) program hash after SetupConfig, so the check skips it", art)
	}
	if !x.SpendAtS || !x.PayAtS || !x.SpendAtMax {
		r.Violate("C32|config|mainnet-freeze-ineffective", "with the configured list the real check lets a transaction spend from / pay to the coordinated frozen address at or after its start height", art)
	}
	if x.SpendPreS || x.PayPreS || x.Unrelated {
		r.Violate("C32|config|mainnet-freeze-too-early-or-wide", "with the configured list the real check refuses transactions before the coordinated start height or unrelated ones", art)
	}
	return "mainnet|" + strings.Join(names, ",")
}

func casesB() []caseB {
	var out []caseB
	for _, n := range netNames {
		for _, o := range listOverrides {
			out = append(out, caseB{Net: n, List: o.Name})
		}
		for _, o := range []string{"absent", "empty", "other@1"} {
			out = append(out, caseB{Net: n, List: o, Instant: true})
		}
	}
	return out
}

func main() {
	r := evid.Start("C32", "exploration")
	scr := evid.Scratch("c32")
	defer os.RemoveAll(scr)
	hx.QuietLogs(filepath.Join(scr, "log"))
	lightnode.InitFunctions()

	if job, ok := par.Worker(); ok {
		if job == "ctx" {
			par.Announce("ctx")
			par.Emit(runCtx(scr))
			os.RemoveAll(scr)
			return
		}
		var cs []caseB
		if err := json.Unmarshal([]byte(job), &cs); err != nil {
			evid.Fatalf("job: %v", err)
		}
		var out []resB
		for _, c := range cs {
			b, _ := json.Marshal(c)
			par.Announce(string(b))
			out = append(out, runB(scr, c))
		}
		par.Emit(out)
		os.RemoveAll(scr)
		return
	}

	hA, hB := mustHash(coordAddress), mustHash(otherAddress)

	if r.Replay != "" {
		var a struct {
			Kind string          `json:"kind"`
			Case json.RawMessage `json:"case"`
		}
		sig := r.LoadReplay(&a)
		fmt.Printf("replaying %s\n", sig)
		switch a.Kind {
		case "helper":
			var c caseA
			json.Unmarshal(a.Case, &c)
			rej, errs := evalA(c, hA, hB)
			fmt.Printf("case %+v list %s: rejected=%v (%s) must-reject=%v\n", c, listName(c.List), rej, errs, refFrozen(c))
			judgeA(r, c, rej, errs)
		case "sequence":
			runSequences(r, hA, hB, &evid.Distinct{})
		case "config":
			var c caseB
			json.Unmarshal(a.Case, &c)
			x := runB(scr, c)
			fmt.Printf("case %+v: %+v\n", c, x)
			judgeB(r, x)
		case "context":
			xs := runCtx(scr)
			for _, x := range xs {
				fmt.Printf("%+v\n", x)
			}
			judgeCtx(r, xs, &evid.Distinct{})
		}
		os.RemoveAll(scr)
		r.Finish(evid.Coverage{})
	}

	// coordinated constants
	ml := config.MainNetFrozenAddresses()
	if len(ml) != 1 || ml[0].Address != coordAddress || ml[0].DisableStartHeight != coordStart {
		r.Violate("C32|config|coordinated-list-changed", "config.MainNetFrozenAddresses() differs from the coordinated list", map[string]interface{}{"kind": "constants"})
	}

	// ---- (a)
	var types []int
	for b := 0; b < 256; b++ {
		if _, err := transaction.GetTransaction(common2.TxType(b)); err == nil {
			types = append(types, b)
		}
	}
	lists := allLists()
	heights := []uint32{0, coordStart - 1, coordStart, coordStart + 1, coordStart + 2, math.MaxUint32}
	var evalsA, nRej, nAcc, coinbaseRej int64
	classes := &evid.Distinct{}
	samples := &evid.Samples{N: 8}
	par.Go(len(types), func(ti int) {
		t := types[ti]
		for nin := 1; nin <= 3; nin++ {
			for nout := 1; nout <= 3; nout++ {
				for pi := -1; pi < nin; pi++ {
					for po := -1; po < nout; po++ {
						for _, who := range []string{"A", "B"} {
							if pi < 0 && po < 0 && who == "B" {
								continue
							}
							for _, h := range heights {
								for _, l := range lists {
									c := caseA{Type: t, NIn: nin, NOut: nout, PosIn: pi, PosOu: po, Who: who, H: h, List: l}
									rej, errs := evalA(c, hA, hB)
									atomic.AddInt64(&evalsA, 1)
									if rej {
										atomic.AddInt64(&nRej, 1)
										if t == int(common2.CoinBase) {
											atomic.AddInt64(&coinbaseRej, 1)
										}
									} else {
										atomic.AddInt64(&nAcc, 1)
									}
									judgeA(r, c, rej, errs)
									if t == int(common2.TransferAsset) {
										classes.Add(fmt.Sprintf("%s|placed=%s|h-S=%d|%s|rejected=%v", where(c), who, int64(h)-int64(coordStart), listName(l), rej))
										if rej && nin == 2 && nout == 2 {
											samples.Add(map[string]interface{}{"case": c, "list": listName(l), "err": errs})
										}
									}
								}
							}
						}
					}
				}
			}
		}
	})

	// ---- (a-typed) every output Type value on the output that pays the frozen address
	var typedEvals int64
	outTypes := []int{1, 2, 3, 4, 5, 6, 7, 8, 128, 255}
	par.Go(len(types), func(ti int) {
		t := types[ti]
		for nin := 1; nin <= 2; nin++ {
			for nout := 1; nout <= 3; nout++ {
				for po := 0; po < nout; po++ {
					for pi := -1; pi < 1; pi++ {
						for _, ot := range outTypes {
							for _, h := range []uint32{coordStart - 1, coordStart, coordStart + 1, math.MaxUint32} {
								for _, l := range [][]int{{0}, {2, 0}, {3, 0}} {
									c := caseA{Type: t, NIn: nin, NOut: nout, PosIn: pi, PosOu: po, Who: "A", H: h, List: l, OutType: ot}
									rej, errs := evalA(c, hA, hB)
									atomic.AddInt64(&typedEvals, 1)
									judgeA(r, c, rej, errs)
									if t == int(common2.TransferAsset) && pi < 0 {
										classes.Add(fmt.Sprintf("typed-output|type=%d|h-S=%d|rejected=%v", ot, int64(h)-int64(coordStart), rej))
									}
								}
							}
						}
					}
				}
			}
		}
	})

	// ---- (a-seq) call sequences on one shared list
	seqClasses := &evid.Distinct{}
	seqEvals := runSequences(r, hA, hB, seqClasses)

	// ---- (b) + (c)
	cb := casesB()
	var jobs []string
	for i := 0; i < len(cb); {
		j := i
		for j < len(cb) && cb[j].Net == cb[i].Net {
			j++
		}
		b, _ := json.Marshal(cb[i:j])
		jobs = append(jobs, string(b))
		i = j
	}
	jobs = append(jobs, "ctx")
	results := par.Procs(jobs, scr, par.Opts{Timeout: 120e9, MemMB: 4096, Env: []string{"GOMAXPROCS=2"}})
	cfgClasses := &evid.Distinct{}
	ctxClasses := &evid.Distinct{}
	var nCfg, mainnetCfg, ctxN, ctxAcc int
	for i, w := range results {
		if w.Died || w.Out == nil {
			os.RemoveAll(scr)
			evid.Fatalf("worker %s died (timeout=%v): %s", jobs[i], w.TimedOut, w.Stderr)
		}
		if jobs[i] == "ctx" {
			var cx []ctxRes
			if err := json.Unmarshal(w.Out, &cx); err != nil {
				os.RemoveAll(scr)
				evid.Fatalf("ctx worker output: %v", err)
			}
			ctxN = len(cx)
			ctxAcc = judgeCtx(r, cx, ctxClasses)
			continue
		}
		var xs []resB
		if err := json.Unmarshal(w.Out, &xs); err != nil {
			os.RemoveAll(scr)
			evid.Fatalf("config worker output: %v", err)
		}
		for _, x := range xs {
			cfgClasses.Add(judgeB(r, x))
			nCfg++
			if isMainnetName(x.Case.Net) {
				mainnetCfg++
			}
			if nCfg%37 == 0 {
				samples.Add(map[string]interface{}{"config": x.Case, "list": x.List})
			}
		}
	}
	if nCfg != len(cb) {
		os.RemoveAll(scr)
		evid.Fatalf("config results %d != cases %d", nCfg, len(cb))
	}
	os.RemoveAll(scr)

	r.Assume = append(r.Assume,
		"the coordinated mainnet list is [EfduuvdDcAgif8njgXNJUfsBumQf9yYP72 from height 2256110]; the mainnet name set is {absent, \"\", mainnet, main} case-insensitively",
		"an entry whose address did not resolve (nil program hash) names no address; a coinbase is outside the statement (\"non-coinbase\") and never takes the ContextCheck path: the helper's verdict on a coinbase is recorded, not judged",
		"SetupConfig is driven with withScrew=false")
	r.Finish(evid.Coverage{
		"evaluations":           evalsA + typedEvals + seqEvals + int64(nCfg) + int64(ctxN),
		"distinct_nontrivial":   classes.Len() + seqClasses.Len() + cfgClasses.Len() + ctxClasses.Len(),
		"sequence_verdicts":     seqEvals,
		"typed_output_verdicts": typedEvals,
		"rule": "(a) every constructible transaction type x 1..3 inputs x 1..3 outputs x frozen address (A or B) at every input position / output position / both / none x heights {0,S-1,S,S+1,S+2,MaxUint32} x every frozen list of 0..2 entries over {A@S, A@S+1, B@S+1, unresolved@0}: real helper verdict == (some resolved entry of that address has started and the transaction spends from or pays to it); " +
			"(a-typed) the output that pays the frozen address carrying every output Type value (OTVote .. OTStake, and unknown values 8/128/255) at every output position, with and without a frozen input, heights S-1,S,S+1,MaxUint32; (a-seq) 6 two-entry lists (both listing orders of the start heights) x every sequence of up to 3 validations at heights {below both, between, above both} on ONE shared slice x 5 probe transactions: every verdict == stateless reference and the slice is unchanged after every call; " +
			"(b) SetupConfig on a config file for 12 ActiveNet spellings x 8 FrozenAddresses overrides (+ InstantBlock branch): mainnet names -> exactly the coordinated entry, program hash resolved, and the real helper refuses spends/payments at S and later but not before; " +
			"(c) complete ContextCheck on a light node: signed, otherwise valid TransferAsset spending from / paying to a frozen harness-owned address and paying to the coordinated address, heights S-1,S,S+1. " +
			"non-trivial = distinct (placement, address, height offset, list, verdict) classes for TransferAsset + distinct resulting configurations + distinct context classes",
		"exhaustive":              true,
		"helper_verdicts":         evalsA,
		"helper_rejected":         nRej,
		"helper_accepted":         nAcc,
		"helper_coinbase_refused": coinbaseRej,
		"tx_types":                len(types),
		"frozen_lists":            len(lists),
		"configurations":          nCfg,
		"config_mainnet":          mainnetCfg,
		"config_classes":          cfgClasses.Map(),
		"context_verdicts":        ctxN,
		"context_accepted":        ctxAcc,
		"context_classes":         ctxClasses.Map(),
		"samples":                 samples.Out,
	})
}
