// Package wire is the shared machinery of the wire-format checks (C02, C04, C35): seeds built by
// the repository's own constructors/serialisers, a tracking reader that discovers the fields of
// an encoding from the Read calls of the real decoder, and exhaustive mutation enumerators.
package wire

import (
	"io"
	"os"
	"path/filepath"
	"regexp"
	"runtime"
	"strings"
	"sync"
)

// Rd is one Read call observed by the tracking reader.
type Rd struct {
	Off  int    // offset of the first byte handed out
	N    int    // bytes asked for (len(p))
	Got  int    // bytes delivered
	Site string // "pkg.(*T).Func|field" of the repository frame that asked (only when Sites is on)
}

// Tracker is an io.Reader over a byte string that records every Read call.
type Tracker struct {
	Data  []byte
	Off   int
	Trace []Rd
	// Sites: resolve the calling repository frame of every read (slow; used for the seed's
	// baseline trace and for diagnosing a violation, never in the enumeration loop).
	Sites bool
	// NoTrace: count only.
	NoTrace bool
	// OnRead, if set, is called after every read with the index of the read (diagnosis mode).
	OnRead func(i int, rd *Rd)
	// Guard, if set, is called after every fully served 2/4/8-byte read with its little-endian
	// value (before the value is returned to the decoder); it may panic to stop the decode.
	Guard func(rd *Rd, val uint64)
	Reads int
}

// LEValue is the little-endian value of a 1/2/4/8-byte read.
func LEValue(p []byte) uint64 {
	var v uint64
	for i := len(p) - 1; i >= 0; i-- {
		v = v<<8 | uint64(p[i])
	}
	return v
}

// SiteHere names the repository frame that is reading right now (valid inside Read hooks).
func (t *Tracker) SiteHere() string { return callerSite() }

func NewTracker(b []byte) *Tracker { return &Tracker{Data: b} }

func (t *Tracker) Read(p []byte) (int, error) {
	n := copy(p, t.Data[t.Off:])
	rd := Rd{Off: t.Off, N: len(p), Got: n}
	t.Off += n
	t.Reads++
	if t.Sites {
		rd.Site = callerSite()
	}
	if !t.NoTrace {
		t.Trace = append(t.Trace, rd)
	}
	if t.Guard != nil && n == len(p) && (n == 2 || n == 4 || n == 8) {
		t.Guard(&rd, LEValue(p))
	}
	if t.OnRead != nil {
		t.OnRead(t.Reads-1, &rd)
	}
	if n == 0 && len(p) > 0 {
		return 0, io.EOF
	}
	return n, nil
}

// Remaining is the number of bytes never handed out.
func (t *Tracker) Remaining() int { return len(t.Data) - t.Off }

// ---------------------------------------------------------------------------------------------
// naming the code site of a read

const repoPrefix = "github.com/elastos/Elastos.ELA/"

// helper frames that are skipped when naming the site of a read: the primitive readers of
// package common and the fixed-size value types.
func isHelperFrame(fn string) bool {
	if !strings.HasPrefix(fn, repoPrefix) {
		return true // io, encoding/binary, bytes, verif/...
	}
	f := strings.TrimPrefix(fn, repoPrefix)
	if strings.HasPrefix(f, "common.") {
		s := strings.TrimPrefix(f, "common.")
		switch {
		case strings.HasPrefix(s, "Read"), strings.HasPrefix(s, "(*Uint256)."), strings.HasPrefix(s, "(*Uint168)."),
			strings.HasPrefix(s, "(*Fixed64)."), strings.HasPrefix(s, "BinaryFreeList."), strings.HasPrefix(s, "(*Uint160)."):
			return true
		}
	}
	return false
}

var (
	srcMu    sync.Mutex
	srcCache = map[string][]string{}
	siteMemo = map[uintptr]string{}
	reAssign = regexp.MustCompile(`^(?:\}\s*else\s+)?(?:if\s+|var\s+|return\s+)?(?:err\s*:?=\s*)?&?([A-Za-z_][A-Za-z0-9_\.\[\]]*)`)
)

func srcLine(file string, line int) string {
	srcMu.Lock()
	defer srcMu.Unlock()
	ls, ok := srcCache[file]
	if !ok {
		b, err := os.ReadFile(file)
		if err == nil {
			ls = strings.Split(string(b), "\n")
		}
		srcCache[file] = ls
	}
	if line-1 < len(ls) && line >= 1 {
		return strings.TrimSpace(ls[line-1])
	}
	return ""
}

// fieldName derives a stable, readable name for the value a source line reads:
// `signCount, err := common.ReadUint64(r)` → signCount; `if i.Sponsor, err = …` → i.Sponsor;
// `err = p.BlockHash.Deserialize(r)` → p.BlockHash; `common.ReadElements(r, &a, &b)` → the call.
func fieldName(src string) string {
	s := src
	if k := strings.Index(s, "//"); k >= 0 {
		s = strings.TrimSpace(s[:k])
	}
	m := reAssign.FindStringSubmatch(s)
	name := ""
	if m != nil {
		name = m[1]
	}
	switch name {
	case "", "err", "_", "common", "io", "binary":
		// no assigned variable: use the callee expression up to the opening parenthesis
		t := s
		for _, p := range []string{"if ", "return ", "err = ", "err := ", "_, err = ", "_, err := ", "if err = ", "if err := ", "if _, err = ", "if _, err := "} {
			t = strings.TrimPrefix(t, p)
		}
		for _, p := range []string{"err = ", "err := ", "_, err = ", "_, err := "} {
			t = strings.TrimPrefix(t, p)
		}
		if k := strings.Index(t, "("); k > 0 {
			rest := t[k+1:]
			t = t[:k]
			// io.ReadFull(r, x[:]) / ReadElement(r, &x): name the destination
			if strings.HasSuffix(t, "ReadFull") || strings.HasSuffix(t, "ReadElement") || strings.HasSuffix(t, "Read") {
				if c := strings.Index(rest, ","); c >= 0 {
					d := strings.TrimSpace(rest[c+1:])
					d = strings.TrimLeft(d, "&")
					if e := strings.IndexAny(d, ")[, "); e > 0 {
						d = d[:e]
					}
					if d != "" {
						return d
					}
				}
			}
		}
		t = strings.TrimSuffix(t, ".Deserialize")
		t = strings.TrimSuffix(t, ".DeserializeUnsigned")
		if t == "" {
			return "?"
		}
		return t
	}
	name = strings.TrimSuffix(name, ".Deserialize")
	return name
}

// callerSite walks the stack above Tracker.Read and names the first repository frame that is
// not a primitive reader.
func callerSite() string {
	var pcs [48]uintptr
	n := runtime.Callers(2, pcs[:])
	// memo on the pc of the deciding frame is not possible before finding it; memo on the
	// whole lookup keyed by the first 6 pcs is overkill — frames are resolved every time, this
	// path is only used for baselines and diagnosis.
	frames := runtime.CallersFrames(pcs[:n])
	for {
		fr, more := frames.Next()
		if fr.Function != "" && !isHelperFrame(fr.Function) {
			srcMu.Lock()
			if s, ok := siteMemo[fr.PC]; ok {
				srcMu.Unlock()
				return s
			}
			srcMu.Unlock()
			fn := strings.TrimPrefix(fr.Function, repoPrefix)
			// drop the directory part of the package path: core/types/payload.(*Confirm).X → payload.(*Confirm).X
			if k := strings.LastIndex(fn, "/"); k >= 0 {
				fn = fn[k+1:]
			}
			s := fn + "|field=" + fieldName(srcLine(fr.File, fr.Line))
			srcMu.Lock()
			siteMemo[fr.PC] = s
			srcMu.Unlock()
			return s
		}
		if !more {
			break
		}
	}
	return "unknown|field=?"
}

// RepoFile maps a path under the repository root (for messages).
func RepoFile(root, rel string) string { return filepath.Join(root, rel) }
