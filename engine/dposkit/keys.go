// Package dposkit holds what the DPoS-side checks (C21, C23, C25, C26, C27) share: fixed
// harness keys, builders for DPoS-relevant transactions/blocks, and a canonical (map-order
// insensitive) rendering of the arbiter state.
package dposkit

import (
	"crypto/sha256"
	"fmt"

	"github.com/elastos/Elastos.ELA/common"
	"github.com/elastos/Elastos.ELA/core/contract"
	"github.com/elastos/Elastos.ELA/crypto"
)

// Key is one fixed harness key pair. Private keys are sha256("verif-dposkit/<label>/<i>"),
// so every run and every worker process sees the same keys.
type Key struct {
	Label string
	Priv  []byte
	Pub   *crypto.PublicKey
	PK    []byte // compressed public key (33 bytes)

	code    []byte
	program common.Uint168
	deposit common.Uint168
	stake   common.Uint168
}

// NewKey derives key i of a labelled family.
func NewKey(label string, i int) *Key {
	h := sha256.Sum256([]byte(fmt.Sprintf("verif-dposkit/%s/%d", label, i)))
	priv := h[:]
	pub := crypto.NewPubKey(priv)
	pk, err := pub.EncodePoint(true)
	if err != nil {
		panic(err)
	}
	k := &Key{Label: fmt.Sprintf("%s%d", label, i), Priv: priv, Pub: pub, PK: pk}
	// derived values are computed once (each costs a public-key decompression in the repository)
	c, err := contract.CreateStandardRedeemScript(pub)
	if err != nil {
		panic(err)
	}
	k.code = c
	ct, err := contract.CreateStandardContract(pub)
	if err != nil {
		panic(err)
	}
	k.program = *ct.ToProgramHash()
	dc, err := contract.CreateDepositContractByPubKey(pub)
	if err != nil {
		panic(err)
	}
	k.deposit = *dc.ToProgramHash()
	sc, err := contract.CreateStakeContractByCode(c)
	if err != nil {
		panic(err)
	}
	k.stake = *sc.ToProgramHash()
	return k
}

// Keys derives keys 0..n-1 of a family.
func Keys(label string, n int) []*Key {
	out := make([]*Key, n)
	for i := range out {
		out[i] = NewKey(label, i)
	}
	return out
}

// Hex is the lower-case hex of the compressed public key.
func (k *Key) Hex() string { return common.BytesToHexString(k.PK) }

// Sign signs data with the repository's crypto.Sign.
func (k *Key) Sign(data []byte) []byte {
	s, err := crypto.Sign(k.Priv, data)
	if err != nil {
		panic(err)
	}
	return s
}

// Code is the standard redeem script of the key.
func (k *Key) Code() []byte { return append([]byte{}, k.code...) }

// ProgramHash is the standard (single-signature) program hash of the key.
func (k *Key) ProgramHash() common.Uint168 { return k.program }

// DepositHash is the deposit-address program hash of the key.
func (k *Key) DepositHash() common.Uint168 { return k.deposit }

// StakeHash is the stake-address program hash of the key (DPoS v2 voter identity).
func (k *Key) StakeHash() common.Uint168 { return k.stake }
