package crkit

import (
	"encoding/hex"
	"fmt"
	"reflect"
	"regexp"
	"sort"
	"strconv"
	"strings"

	crstate "github.com/elastos/Elastos.ELA/cr/state"
)

// Canon renders the three key frames that make up the committee checkpoint (KeyFrame,
// StateKeyFrame, ProposalKeyFrame — exactly the fields Checkpoint.Serialize writes) as sorted
// "path=value" lines. Maps are walked in sorted key order, nil and empty maps/slices are the
// same, pointers are followed, unexported fields (hash memos) are skipped. Two committees are in
// the same state iff their Canon lines are equal.
func Canon(c *crstate.Committee) []string {
	var out []string
	walk(&out, "KeyFrame", reflect.ValueOf(c.KeyFrame))
	walk(&out, "StateKeyFrame", reflect.ValueOf(c.GetState().StateKeyFrame))
	walk(&out, "ProposalKeyFrame", reflect.ValueOf(c.GetProposalManager().ProposalKeyFrame))
	return out
}

// CanonFrames renders explicit frames (used for deserialised checkpoints).
func CanonFrames(kf crstate.KeyFrame, sf crstate.StateKeyFrame, pf crstate.ProposalKeyFrame) []string {
	var out []string
	walk(&out, "KeyFrame", reflect.ValueOf(kf))
	walk(&out, "StateKeyFrame", reflect.ValueOf(sf))
	walk(&out, "ProposalKeyFrame", reflect.ValueOf(pf))
	return out
}

func keyString(v reflect.Value) string {
	switch v.Kind() {
	case reflect.String:
		return v.String()
	case reflect.Array:
		n := v.Len()
		b := make([]byte, n)
		if v.CanAddr() {
			reflect.Copy(reflect.ValueOf(b), v)
		} else {
			for i := range b {
				b[i] = byte(v.Index(i).Uint())
			}
		}
		return hex.EncodeToString(b)
	case reflect.Uint, reflect.Uint8, reflect.Uint16, reflect.Uint32, reflect.Uint64:
		s := strconv.FormatUint(v.Uint(), 10)
		return "00000000000000000000"[len(s):] + s
	case reflect.Int, reflect.Int8, reflect.Int16, reflect.Int32, reflect.Int64:
		return fmt.Sprintf("%020d", v.Int())
	}
	return fmt.Sprintf("%v", v.Interface())
}

func walk(out *[]string, path string, v reflect.Value) {
	switch v.Kind() {
	case reflect.Ptr, reflect.Interface:
		if v.IsNil() {
			*out = append(*out, path+"=nil")
			return
		}
		walk(out, path, v.Elem())
	case reflect.Struct:
		t := v.Type()
		for i := 0; i < v.NumField(); i++ {
			f := t.Field(i)
			if f.PkgPath != "" { // unexported
				continue
			}
			walk(out, path+"."+f.Name, v.Field(i))
		}
	case reflect.Map:
		type kv struct {
			k string
			v reflect.Value
		}
		l := make([]kv, 0, v.Len())
		it := v.MapRange()
		for it.Next() {
			l = append(l, kv{keyString(it.Key()), it.Value()})
		}
		sort.Slice(l, func(i, j int) bool { return l[i].k < l[j].k })
		*out = append(*out, path+".len="+strconv.Itoa(len(l)))
		for _, e := range l {
			walk(out, path+"["+e.k+"]", e.v)
		}
	case reflect.Slice:
		if v.Type().Elem().Kind() == reflect.Uint8 {
			*out = append(*out, path+"="+hex.EncodeToString(v.Bytes()))
			return
		}
		*out = append(*out, path+".len="+strconv.Itoa(v.Len()))
		for i := 0; i < v.Len(); i++ {
			walk(out, path+"["+strconv.Itoa(i)+"]", v.Index(i))
		}
	case reflect.Array:
		if v.Type().Elem().Kind() == reflect.Uint8 {
			*out = append(*out, path+"="+keyString(v))
			return
		}
		for i := 0; i < v.Len(); i++ {
			walk(out, path+"["+strconv.Itoa(i)+"]", v.Index(i))
		}
	case reflect.Bool:
		*out = append(*out, path+"="+strconv.FormatBool(v.Bool()))
	case reflect.String:
		*out = append(*out, path+"="+strconv.Quote(v.String()))
	case reflect.Int, reflect.Int8, reflect.Int16, reflect.Int32, reflect.Int64:
		*out = append(*out, path+"="+strconv.FormatInt(v.Int(), 10))
	case reflect.Uint, reflect.Uint8, reflect.Uint16, reflect.Uint32, reflect.Uint64:
		*out = append(*out, path+"="+strconv.FormatUint(v.Uint(), 10))
	case reflect.Float32, reflect.Float64:
		*out = append(*out, path+"="+strconv.FormatFloat(v.Float(), 'g', -1, 64))
	default:
		*out = append(*out, path+"=?"+v.Kind().String())
	}
}

var keyRe = regexp.MustCompile(`\[[^\]]*\]`)

// FieldOf strips map keys / indices and the value from a Canon line:
// "StateKeyFrame.DepositInfo[ab12].Penalty=5" -> "StateKeyFrame.DepositInfo[].Penalty".
func FieldOf(line string) string {
	if i := strings.Index(line, "="); i >= 0 {
		line = line[:i]
	}
	line = strings.TrimSuffix(line, ".len")
	return keyRe.ReplaceAllString(line, "[]")
}

// Diff describes how two Canon renderings differ.
type Diff struct {
	Fields []string // distinct FieldOf() of differing lines, sorted
	Lines  []string // a few example lines ("-want" / "+got")
}

// Compare returns nil when want and got are equal.
func Compare(want, got []string) *Diff {
	if len(want) == len(got) { // fast path: the walk is deterministic, equal states give equal slices
		same := true
		for i := range want {
			if want[i] != got[i] {
				same = false
				break
			}
		}
		if same {
			return nil
		}
	}
	ws := map[string]bool{}
	for _, l := range want {
		ws[l] = true
	}
	gs := map[string]bool{}
	for _, l := range got {
		gs[l] = true
	}
	fields := map[string]bool{}
	var lines []string
	for _, l := range want {
		if !gs[l] {
			fields[FieldOf(l)] = true
			lines = append(lines, "-"+l)
		}
	}
	for _, l := range got {
		if !ws[l] {
			fields[FieldOf(l)] = true
			lines = append(lines, "+"+l)
		}
	}
	if len(fields) == 0 {
		return nil
	}
	d := &Diff{}
	for f := range fields {
		d.Fields = append(d.Fields, f)
	}
	sort.Strings(d.Fields)
	sort.Strings(lines)
	if len(lines) > 12 {
		lines = lines[:12]
	}
	d.Lines = lines
	return d
}
