#!/bin/bash
# Build every check binary once from files on disk (offline). Warm the go build cache.
set -u
HERE="$(cd "$(dirname "$0")" && pwd)"
cd "$HERE"
export GOFLAGS=-mod=mod GOPROXY=off GOSUMDB=off GOTOOLCHAIN=local
mkdir -p bin evidence
cp -f /repo/go.sum engine/go.sum 2>/dev/null || true
rc=0
(cd engine && go build -tags verif ./... ) || rc=1
for d in engine/checks/*/; do
  id=$(basename "$d")
  if [ -x "$d/build.sh" ]; then
    VERIF_BIN="$HERE/bin/$id" VERIF_ID="$id" VERIF_REPO=/repo VERIF_ROOT="$HERE" VERIF_MODFLAGS="" "$d/build.sh" || rc=1
  else
    (cd engine && go build -tags verif -o "$HERE/bin/$id" "./checks/$id") || rc=1
  fi
done
exit $rc
