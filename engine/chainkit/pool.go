package chainkit

// Persistent worker processes for node-tier checks.
//
// A node-tier execution needs a process of its own (repository globals), and a fresh process is
// slow for its first executions on this image (every first touch of heap memory is a slow page
// fault; steady state is 5-10 ms per fresh node, the first ten executions cost 100-600 ms each).
// par.Procs starts one process per job; Pool keeps N copies of the current binary alive and
// feeds them requests over a pipe pair (fd 3 requests, fd 4 responses, one JSON document per
// line), so warm-up is paid once per run.
//
//	in main():   if chainkit.Serve(func(req []byte) interface{} { ... }) { return }
//	parent:      p := chainkit.StartPool(n); defer p.Close()
//	             outs, err := p.Map(reqs, deadline)   // outs[i] answers reqs[i]; nil = not run (deadline)
//
// Requests are handed out one at a time to whichever worker is idle (dynamic balancing); results
// come back in request order, so nothing downstream depends on scheduling. A worker that dies
// makes Map return an error naming the request it was executing.

import (
	"bufio"
	"bytes"
	"encoding/json"
	"fmt"
	"os"
	"os/exec"
	"sync"
	"time"
)

const poolEnv = "CHAINKIT_POOL_WORKER"

// RequestTimeout bounds one request; a worker that does not answer in time is killed and Map
// returns an error (a hang is an engine error, never a verdict).
var RequestTimeout = 10 * time.Minute

// Serve turns this process into a pool worker if it was started by StartPool and returns true
// when the parent closed the request pipe. handler runs one request; its result is marshalled
// as the response. Returns false immediately in any other process.
func Serve(handler func(req []byte) interface{}) bool {
	if os.Getenv(poolEnv) == "" {
		return false
	}
	in := os.NewFile(3, "requests")
	out := os.NewFile(4, "responses")
	rd := bufio.NewReaderSize(in, 1<<20)
	wr := bufio.NewWriter(out)
	for {
		line, err := rd.ReadBytes('\n')
		if len(line) > 0 {
			resp := handler(bytes.TrimSpace(line))
			b, merr := json.Marshal(resp)
			if merr != nil {
				fmt.Fprintln(os.Stderr, "chainkit pool worker: marshal:", merr)
				os.Exit(2)
			}
			wr.Write(b)
			wr.WriteByte('\n')
			wr.Flush()
		}
		if err != nil {
			break
		}
	}
	Cleanup()
	return true
}

type poolWorker struct {
	cmd    *exec.Cmd
	req    *os.File
	resp   *bufio.Reader
	respF  *os.File
	stderr bytes.Buffer
	dead   bool
}

// Pool is a set of live worker processes of the current binary.
type Pool struct {
	ws []*poolWorker
}

// StartPool launches n workers (same binary, same arguments). env is appended to the
// environment; GOMAXPROCS=1 is set unless env overrides it (one process per core; a single P
// avoids long stop-the-world stalls on an oversubscribed machine), and GODEBUG=madvdontneed=0
// (freed heap pages stay resident, so the 4 MiB goleveldb memtables every fresh node allocates
// are not page-faulted in again each time).
func StartPool(n int, env ...string) (*Pool, error) {
	self, err := os.Executable()
	if err != nil {
		return nil, err
	}
	p := &Pool{}
	for i := 0; i < n; i++ {
		reqR, reqW, err := os.Pipe()
		if err != nil {
			p.Close()
			return nil, err
		}
		respR, respW, err := os.Pipe()
		if err != nil {
			p.Close()
			return nil, err
		}
		w := &poolWorker{req: reqW, respF: respR, resp: bufio.NewReaderSize(respR, 1<<20)}
		cmd := exec.Command(self, os.Args[1:]...)
		cmd.Env = append(os.Environ(), poolEnv+"=1", "GOMAXPROCS=1", "GODEBUG=madvdontneed=0")
		cmd.Env = append(cmd.Env, env...)
		cmd.ExtraFiles = []*os.File{reqR, respW}
		cmd.Stdout = &w.stderr
		cmd.Stderr = &w.stderr
		if err := cmd.Start(); err != nil {
			p.Close()
			return nil, err
		}
		reqR.Close()
		respW.Close()
		w.cmd = cmd
		p.ws = append(p.ws, w)
	}
	return p, nil
}

// Budget returns def seconds unless VERIF_BUDGET_S overrides it (internal time cap of a check:
// reaching it ends the run with exhaustive:false, never with a verdict).
func Budget(def int) time.Duration {
	if s := os.Getenv("VERIF_BUDGET_S"); s != "" {
		var n int
		if _, err := fmt.Sscanf(s, "%d", &n); err == nil && n > 0 {
			return time.Duration(n) * time.Second
		}
	}
	return time.Duration(def) * time.Second
}

// Size is the number of workers.
func (p *Pool) Size() int { return len(p.ws) }

// Map runs every request on some worker and returns the raw JSON responses in request order.
// Requests not started before the deadline stay nil (zero deadline = none).
func (p *Pool) Map(reqs []interface{}, deadline time.Time) ([][]byte, error) {
	outs := make([][]byte, len(reqs))
	var mu sync.Mutex
	next := 0
	var firstErr error
	var wg sync.WaitGroup
	for _, w := range p.ws {
		if w.dead {
			continue
		}
		wg.Add(1)
		go func(w *poolWorker) {
			defer wg.Done()
			for {
				mu.Lock()
				if firstErr != nil || next >= len(reqs) || (!deadline.IsZero() && time.Now().After(deadline)) {
					mu.Unlock()
					return
				}
				i := next
				next++
				mu.Unlock()
				b, err := json.Marshal(reqs[i])
				if err == nil {
					_, err = w.req.Write(append(b, '\n'))
				}
				var line []byte
				if err == nil {
					w.respF.SetReadDeadline(time.Now().Add(RequestTimeout))
					line, err = w.resp.ReadBytes('\n')
					if err != nil && w.cmd.Process != nil {
						w.cmd.Process.Kill()
					}
				}
				if err != nil {
					w.dead = true
					w.cmd.Wait()
					s := w.stderr.String()
					if len(s) > 4000 {
						s = s[:2000] + "\n...\n" + s[len(s)-2000:]
					}
					mu.Lock()
					if firstErr == nil {
						firstErr = fmt.Errorf("pool worker died while executing request %d (%s): %v\n%s", i, string(b), err, s)
					}
					mu.Unlock()
					return
				}
				outs[i] = bytes.TrimSpace(line)
			}
		}(w)
	}
	wg.Wait()
	return outs, firstErr
}

// Close ends the workers (they remove their scratch on the way out).
func (p *Pool) Close() {
	for _, w := range p.ws {
		if w.req != nil {
			w.req.Close()
		}
	}
	for _, w := range p.ws {
		if w.cmd != nil && !w.dead {
			done := make(chan struct{})
			go func() { w.cmd.Wait(); close(done) }()
			select {
			case <-done:
			case <-time.After(10 * time.Second):
				w.cmd.Process.Kill()
				<-done
			}
		}
		if w.respF != nil {
			w.respF.Close()
		}
	}
	p.ws = nil
}
