package main

// Height gates: every *Height parameter of the configuration (found by reflection) at -1 / = /
// +1, for every type, with transactions that have NO inputs or one input and small output
// lists. The verdict is the one of the path the node takes after the common checks:
// CheckTransactionInput, CheckTransactionOutput, then SpecialContextCheck — whose "end" result
// skips the fee check — and only otherwise CheckTransactionFee. Oracle on that final verdict:
// accepted => sum(outputs) <= sum(inputs). (State-dependent special checks mostly refuse on the
// bare light node; the stateful ActivateProducer paths are driven in apconfirm.go.)

import (
	"bytes"
	"fmt"
	"math"
	"math/big"
	"reflect"
	"sort"
	"strings"

	"github.com/elastos/Elastos.ELA/common"
	"github.com/elastos/Elastos.ELA/core"
	common2 "github.com/elastos/Elastos.ELA/core/types/common"
	"github.com/elastos/Elastos.ELA/core/types/payload"
	"github.com/elastos/Elastos.ELA/crypto"

	"verif/evid"
	"verif/lightnode"
)

// noCostTypes: the types whose SpecialContextCheck returns (nil, true) on success without any
// amount comparison (found by scanning core/transaction for "return nil, true"): for them the
// input-less form is only kept from minting by the sanity-level input/output checks.
// (CRCAppropriation compares amounts itself; coinbase is outside the statement.)
var noCostTypes = map[common2.TxType]bool{
	common2.IllegalProposalEvidence: true, common2.IllegalVoteEvidence: true, common2.IllegalBlockEvidence: true,
	common2.IllegalSidechainEvidence: true, common2.InactiveArbitrators: true, common2.NextTurnDPOSInfo: true,
	common2.NFTDestroyFromSideChain: true, common2.RecordSponsor: true, common2.RevertToDPOS: true,
	common2.RevertToPOW: true, common2.UpdateVersion: true, common2.ProposalResult: true, common2.SideChainPow: true,
}

type gate struct {
	Name string
	H    uint32
}

func configGates(cfg interface{}) []gate {
	var out []gate
	var walk func(v reflect.Value, prefix string)
	walk = func(v reflect.Value, prefix string) {
		if v.Kind() == reflect.Ptr {
			if v.IsNil() {
				return
			}
			v = v.Elem()
		}
		if v.Kind() != reflect.Struct {
			return
		}
		for i := 0; i < v.NumField(); i++ {
			f := v.Type().Field(i)
			if f.PkgPath != "" {
				continue
			}
			fv := v.Field(i)
			switch fv.Kind() {
			case reflect.Uint32:
				if strings.Contains(f.Name, "Height") {
					h := uint32(fv.Uint())
					if h > 1 && h < math.MaxUint32-1 {
						out = append(out, gate{prefix + f.Name, h})
					}
				}
			case reflect.Struct:
				walk(fv, prefix+f.Name+".")
			}
		}
	}
	walk(reflect.ValueOf(cfg), "")
	sort.Slice(out, func(i, j int) bool {
		if out[i].H != out[j].H {
			return out[i].H < out[j].H
		}
		return out[i].Name < out[j].Name
	})
	return out
}

func (f *fixture) runGates(res *workerOut, addViol func(sig, what string, c caseA)) {
	gates := configGates(f.node.Params)
	hs := map[uint32]string{}
	for _, g := range gates {
		for _, d := range []int64{-1, 0, 1} {
			h := uint32(int64(g.H) + d)
			if _, ok := hs[h]; !ok {
				hs[h] = fmt.Sprintf("%s%+d", g.Name, d)
			}
		}
	}
	var heights []uint32
	for h := range hs {
		heights = append(heights, h)
	}
	sort.Slice(heights, func(i, j int) bool { return heights[i] < heights[j] })
	res.Gates = len(gates)
	res.GateHeights = len(heights)
	inShapes := [][]int64{{}, {1000}}
	// small output lists, among them a negative amount at EVERY position of lists of 1..3
	// outputs (value-conserving with the 1000 input and not)
	outLists := [][]int64{{}, {900}, {1000}, {5000}, {1, 1 << 62}, {900, 100}, {1000, 0},
		{-1}, {1090, -90}, {-90, 1090}, {1000, -80}, {-80, 1000}, {0, -1},
		{500, -90, 590}, {-90, 500, 590}, {500, 590, -90}, {1000, -1, 1},
		// a zero output followed by positive ones (shapes of the "no cost" types)
		{0}, {0, 500000000}, {0, 0, 1}, {0, 500000000, 7},
		// int64 sums that wrap: to 0, to a small value, to a negative value
		{1 << 62, 1 << 62, 1 << 62, 1 << 62}, {math.MaxInt64, math.MaxInt64, 2}, {math.MaxInt64, math.MaxInt64, 1, 1},
		{math.MaxInt64, math.MaxInt64, 2, 900}, {1 << 62, 1 << 62}, {math.MaxInt64, 1}}
	classes := map[string]int{}
	// SideChainPow's acceptable state: the on-duty cross-chain arbiter is a harness key that
	// signs the payload
	duty := lightnode.FixedKey("c01-onduty-arbiter", 0)
	if err := f.node.SetArbiters([][]byte{duty.Compressed}); err != nil {
		evid.Fatalf("arbiters: %v", err)
	}
	scp := &payload.SideChainPow{BlockHeight: 7}
	scp.SideBlockHash[0], scp.SideGenesisHash[0] = 0x51, 0x52
	{
		buf := new(bytes.Buffer)
		scp.Serialize(buf, payload.SideChainPowVersion)
		sig, err := crypto.Sign(duty.Priv, buf.Bytes()[0:68])
		if err != nil {
			evid.Fatalf("sign: %v", err)
		}
		scp.Signature = sig
	}
	for _, t := range allTypes() {
		for _, h := range heights {
			for _, inVals := range inShapes {
				refs := map[*common2.Input]common2.Output{}
				ins := []*common2.Input{}
				for i, v := range inVals {
					in := &common2.Input{Previous: common2.OutPoint{Index: uint16(i)}}
					in.Previous.TxID[0] = 0xE1
					var ph common.Uint168
					ph[0] = 0x21
					refs[in] = common2.Output{AssetID: core.ELAAssetID, Value: common.Fixed64(v), ProgramHash: ph}
					ins = append(ins, in)
				}
				for _, outVals := range outLists {
					tx := f.mkTx(t.T, f.outputs(t.T, outVals), ins, h)
					tx.SetReferences(refs)
					if t.T == common2.SideChainPow {
						tx.SetPayload(scp)
					}
					if t.T == common2.CRCAppropriation {
						// the state in which this type is acceptable: an appropriation is due,
						// of the amount the first output carries, spent from the CR assets address
						committee := f.node.Chain.GetCRCommittee()
						committee.NeedAppropriation = true
						if len(outVals) > 0 {
							committee.AppropriationAmount = common.Fixed64(outVals[0])
						}
						crRefs := map[*common2.Input]common2.Output{}
						for in, o := range refs {
							o.ProgramHash = *f.node.Params.CRConfiguration.CRAssetsProgramHash
							crRefs[in] = o
						}
						tx.SetReferences(crRefs)
					}
					inOK, outOK, feeOK, end, specOK := false, false, false, false, false
					pan := ""
					func() {
						defer func() {
							if r := recover(); r != nil {
								pan = fmt.Sprint(r)
							}
						}()
						inOK = tx.CheckTransactionInput() == nil
						outOK = tx.CheckTransactionOutput() == nil
						if !inOK || !outOK {
							return
						}
						e, en := tx.SpecialContextCheck()
						specOK, end = e == nil, en
						if specOK && !end {
							feeOK = tx.CheckTransactionFee(refs) == nil
						}
					}()
					res.GateEvals++
					if noCostTypes[t.T] && len(inVals) == 0 && pan == "" && inOK && outOK {
						om := mkSet(outVals)
						if om.HasNeg || om.Sum.Sign() > 0 {
							addViol("C01|value-created|no-cost-type-admits-outputs|"+t.Name,
								fmt.Sprintf("%s at height %d (%s) without inputs and with outputs %v passes CheckTransactionInput and CheckTransactionOutput; this type's SpecialContextCheck ends validation without comparing amounts, so nothing else would refuse it", t.Name, h, hs[h], outVals),
								caseA{Type: int(t.T), Name: t.Name, H: h, Outputs: outVals, Inputs: inVals, Shape: "gate"})
						}
					}
					if pan != "" {
						res.GatePanics++
						continue
					}
					acc := inOK && outOK && specOK && (end || feeOK)
					if inOK && outOK {
						classes[fmt.Sprintf("gate|%s|in=%d|out=%d|special-ok=%v|end=%v|accepted=%v", t.Name, len(inVals), len(outVals), specOK, end, acc)]++
					}
					if !acc {
						continue
					}
					res.GateAccepted++
					om, im := mkSet(outVals), mkSet(inVals)
					if om.HasNeg {
						addViol("C01|negative-output-accepted|"+t.Name,
							fmt.Sprintf("%s at height %d (%s) with %d input(s) worth %s and outputs %v — a negative amount — passes CheckTransactionInput, CheckTransactionOutput and SpecialContextCheck (end=%v)%s", t.Name, h, hs[h], len(inVals), im.Sum, outVals, end,
								map[bool]string{true: " — the fee check is never reached", false: " and the fee check"}[end]),
							caseA{Type: int(t.T), Name: t.Name, H: h, Outputs: outVals, Inputs: inVals, Shape: "gate"})
					} else if om.Sum.Cmp(im.Sum) > 0 {
						clause := "value-created|fee-check-skipped"
						if !end {
							clause = "value-created|plain"
							if !om.Sum.IsInt64() {
								clause = "value-created|output-sum-wraps"
							}
						}
						addViol("C01|"+clause+"|"+t.Name,
							fmt.Sprintf("%s at height %d (%s) with %d input(s) worth %s and outputs %v passes CheckTransactionInput, CheckTransactionOutput and SpecialContextCheck (end=%v)%s", t.Name, h, hs[h], len(inVals), im.Sum, outVals, end,
								map[bool]string{true: " — the fee check is never reached", false: " and the fee check"}[end]),
							caseA{Type: int(t.T), Name: t.Name, H: h, Outputs: outVals, Inputs: inVals, Shape: "gate"})
					}
					_ = big.NewInt
				}
			}
		}
	}
	for k, v := range classes {
		res.Classes[k] += v
	}
}
