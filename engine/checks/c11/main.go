// C11: issuance follows the schedule.
//
// (a) Configuration.GetBlockReward(h) for mainnet, testnet and regnet parameters: thorough = ALL
// 2^32 heights (4096 shards), quick = every halving boundary +-2, dense windows around
// NewELAIssuanceHeight and HalvingRewardHeight, both ends of the height range. Oracle: reward
// >= 0, reward(h) <= reward(h-1) for every h > NewELAIssuanceHeight.
// (b) the coinbase rule after DPoS v2: the coinbase part of checkTxsContext (hook
// BlockChain.VerifCheckCoinbaseContext = GetBlockDPOSReward + checkCoinbaseTransactionContext) on
// a light node, for fee totals x heights x consensus modes x every single deviation of the
// 3-output coinbase, against an exact big.Rat reference: accepted <=> three outputs
// (ceil(0.3 T), T - ceil(0.3 T) - ceil(0.35 T), ceil(0.35 T)) with T = subsidy + exact fee sum,
// the first at the fixed CR address and the third at the fixed DPoS reward address.
package main

import (
	"encoding/json"
	"fmt"
	"math"
	"math/big"
	"os"
	"path/filepath"
	"sort"
	"strings"
	"sync"
	"sync/atomic"

	"github.com/elastos/Elastos.ELA/common"
	"github.com/elastos/Elastos.ELA/common/config"
	"github.com/elastos/Elastos.ELA/core/contract/program"
	"github.com/elastos/Elastos.ELA/core/transaction"
	"github.com/elastos/Elastos.ELA/core/types"
	common2 "github.com/elastos/Elastos.ELA/core/types/common"
	"github.com/elastos/Elastos.ELA/core/types/interfaces"
	"github.com/elastos/Elastos.ELA/core/types/payload"
	"github.com/elastos/Elastos.ELA/dpos/state"

	"verif/evid"
	"verif/hx"
	"verif/lightnode"
	"verif/par"
)

// ---------------------------------------------------------------------------------------------
// (a) subsidy schedule

type netCfg struct {
	Name string
	C    *config.Configuration
}

func nets() []netCfg {
	return []netCfg{
		{"mainnet", config.GetDefaultParams()},
		{"testnet", config.GetDefaultParams().TestNet()},
		{"regnet", config.GetDefaultParams().RegNet()},
	}
}

type schedStats struct {
	evals, decreases, zero int64
	distinct               sync.Map
}

// sweep checks heights [lo, hi] (inclusive, lo >= 1 handled by caller) of one net.
func sweep(r *evid.Run, n netCfg, lo, hi uint64, st *schedStats) {
	start := n.C.NewELAIssuanceHeight
	var prev common.Fixed64
	havePrev := false
	if lo > 0 {
		prev = n.C.GetBlockReward(uint32(lo - 1))
		havePrev = true
	}
	var evals, dec, zero int64
	last := common.Fixed64(-1)
	for h := lo; h <= hi; h++ {
		v := n.C.GetBlockReward(uint32(h))
		evals++
		if v < 0 {
			r.Violate("C11|subsidy|negative|"+n.Name, fmt.Sprintf("GetBlockReward(%d) = %d is negative", h, int64(v)),
				map[string]interface{}{"kind": "subsidy", "net": n.Name, "h": h})
		}
		if havePrev && uint64(start) < h && v > prev {
			r.Violate("C11|subsidy|increases|"+n.Name, fmt.Sprintf("GetBlockReward(%d) = %d exceeds GetBlockReward(%d) = %d after the new issuance height %d", h, int64(v), h-1, int64(prev), start),
				map[string]interface{}{"kind": "subsidy", "net": n.Name, "h": h})
		}
		if havePrev && v < prev {
			dec++
		}
		if v == 0 {
			zero++
		}
		if v != last {
			st.distinct.Store(fmt.Sprintf("%s|%d", n.Name, int64(v)), true)
			last = v
		}
		prev, havePrev = v, true
	}
	atomic.AddInt64(&st.evals, evals)
	atomic.AddInt64(&st.decreases, dec)
	atomic.AddInt64(&st.zero, zero)
}

type window struct{ lo, hi uint64 }

func quickWindows(c *config.Configuration) []window {
	const top = uint64(math.MaxUint32)
	var ws []window
	add := func(center uint64, rad uint64) {
		lo := uint64(0)
		if center > rad {
			lo = center - rad
		}
		hi := center + rad
		if hi > top {
			hi = top
		}
		ws = append(ws, window{lo, hi})
	}
	add(0, 20000)
	add(top, 20000)
	add(uint64(c.NewELAIssuanceHeight), 20000)
	add(uint64(c.HalvingRewardHeight), 20000)
	add(uint64(c.PublicDPOSHeight), 3)
	// the last 300000 heights, and every height where a sum or difference of the schedule
	// parameters with the height crosses 0 or 2^32 (uint32 wrap-around of a rewritten formula)
	add(top-150000, 150000)
	ps := []uint64{uint64(c.HalvingRewardHeight), uint64(c.HalvingRewardInterval), uint64(c.NewELAIssuanceHeight)}
	for _, a := range ps {
		add(top+1-a, 2)
		add(a, 2)
		for _, b := range ps {
			add(a+b, 2)
			if a > b {
				add(a-b, 2)
				add(top+1-(a-b), 2)
			}
			if a+b <= top {
				add(top+1-(a+b), 2)
			}
		}
	}
	if c.HalvingRewardInterval > 0 {
		for b := uint64(c.HalvingRewardHeight); b <= top; b += uint64(c.HalvingRewardInterval) {
			add(b, 2)
		}
	}
	// merge
	sort.Slice(ws, func(i, j int) bool { return ws[i].lo < ws[j].lo })
	var out []window
	for _, w := range ws {
		if len(out) > 0 && w.lo <= out[len(out)-1].hi+1 {
			if w.hi > out[len(out)-1].hi {
				out[len(out)-1].hi = w.hi
			}
			continue
		}
		out = append(out, w)
	}
	return out
}

// ---------------------------------------------------------------------------------------------
// (b) coinbase split

type cbCase struct {
	H       uint32   `json:"h"`
	Mode    string   `json:"mode"` // dpos | pow
	Fees    []int64  `json:"fees"`
	Dev     string   `json:"deviation"`
	Amounts []int64  `json:"amounts"`
	Addrs   []string `json:"addresses"` // cr | dpos | miner | other | destroy
}

type cbRes struct {
	Case     cbCase `json:"case"`
	Accepted bool   `json:"accepted"`
	Err      string `json:"err"`
	Panic    string `json:"panic"`
	Want     bool   `json:"want"`
	Why      string `json:"why"`
	Subsidy  int64  `json:"subsidy"`
}

func ceilFrac(t *big.Int, num, den int64) *big.Int {
	r := new(big.Rat).SetFrac(new(big.Int).Mul(t, big.NewInt(num)), big.NewInt(den))
	q := new(big.Int).Quo(r.Num(), r.Denom()) // floor for non-negative
	if new(big.Int).Mul(q, r.Denom()).Cmp(r.Num()) != 0 {
		q.Add(q, big.NewInt(1))
	}
	return q
}

// refShares: exact shares of total t.
func refShares(t *big.Int) (cr, miner, dpos *big.Int) {
	cr = ceilFrac(t, 3, 10)
	dpos = ceilFrac(t, 35, 100)
	miner = new(big.Int).Sub(new(big.Int).Sub(t, cr), dpos)
	return
}

func refVerdict(c cbCase, subsidy int64) (bool, string) {
	t := big.NewInt(subsidy)
	for _, f := range c.Fees {
		t.Add(t, big.NewInt(f))
	}
	cr, miner, dpos := refShares(t)
	if len(c.Amounts) != 3 {
		return false, "output-count: not exactly three outputs"
	}
	if big.NewInt(c.Amounts[0]).Cmp(cr) != 0 {
		return false, "cr-share: CR share differs from ceil(0.3 T)"
	}
	if big.NewInt(c.Amounts[2]).Cmp(dpos) != 0 {
		return false, "dpos-share: DPoS share differs from ceil(0.35 T)"
	}
	if big.NewInt(c.Amounts[1]).Cmp(miner) != 0 {
		return false, "total: miner share differs from T - CR - DPoS (total is not subsidy + fees)"
	}
	wantCR, wantDPoS := "cr", "dpos"
	if c.Mode == "pow" {
		wantCR, wantDPoS = "destroy", "destroy"
	}
	if c.Addrs[0] != wantCR {
		return false, "cr-address: CR share not at the fixed address"
	}
	if c.Addrs[2] != wantDPoS {
		return false, "dpos-address: DPoS share not at the fixed address"
	}
	return true, ""
}

type cbFixture struct {
	node  *lightnode.Node
	addrs map[string]common.Uint168
}

func newCbFixture(scr string) *cbFixture {
	n, err := lightnode.New(filepath.Join(scr, "node"), lightnode.Options{})
	if err != nil {
		evid.Fatalf("light node: %v", err)
	}
	p := n.Params
	return &cbFixture{node: n, addrs: map[string]common.Uint168{
		"cr":      *p.CRConfiguration.CRAssetsProgramHash,
		"dpos":    *p.DPoSConfiguration.DPoSV2RewardAccumulateProgramHash,
		"destroy": *p.DestroyELAProgramHash,
		"miner":   lightnode.FixedKey("c11-miner", 0).StandardHash(),
		"other":   lightnode.FixedKey("c11-other", 0).StandardHash(),
		"found":   *p.FoundationProgramHash,
	}}
}

func (f *cbFixture) setMode(mode string) {
	if mode == "pow" {
		f.node.Chain.GetState().ConsensusAlgorithm = state.POW
	} else {
		f.node.Chain.GetState().ConsensusAlgorithm = state.DPOS
	}
}

// block: the coinbase plus one fee-carrying stub transaction per fee.
func (f *cbFixture) block(h uint32, cb interfaces.Transaction, fees []int64) *types.Block {
	txs := []interfaces.Transaction{cb}
	for i, fee := range fees {
		attr := common2.NewAttribute(common2.Nonce, []byte{byte(i)})
		tx := transaction.CreateTransaction(common2.TxVersion09, common2.TransferAsset, 0, &payload.TransferAsset{},
			[]*common2.Attribute{&attr}, nil, nil, 0, nil)
		tx.SetFee(common.Fixed64(fee))
		txs = append(txs, tx)
	}
	return &types.Block{Header: common2.Header{Height: h}, Transactions: txs}
}

func (f *cbFixture) eval(c cbCase) (res cbRes) {
	res.Case = c
	n := f.node
	f.setMode(c.Mode)
	defer f.setMode("dpos")
	var outs []*common2.Output
	for i, a := range c.Amounts {
		outs = append(outs, lightnode.Output(f.addrs[c.Addrs[i]], common.Fixed64(a)))
	}
	cb := transaction.CreateTransaction(common2.TxVersion09, common2.CoinBase, payload.CoinBaseVersion,
		&payload.CoinBase{Content: []byte("c11")}, []*common2.Attribute{},
		[]*common2.Input{{Previous: common2.OutPoint{TxID: common.EmptyHash, Index: 0xffff}, Sequence: 0xffffffff}},
		outs, c.H, []*program.Program{})
	total := common.Fixed64(0)
	for _, fee := range c.Fees {
		total += common.Fixed64(fee)
	}
	blk := f.block(c.H, cb, c.Fees)
	res.Subsidy = int64(n.Params.GetBlockReward(c.H))
	func() {
		defer func() {
			if r := recover(); r != nil {
				res.Panic = fmt.Sprint(r)
			}
		}()
		if err := n.Chain.VerifCheckCoinbaseContext(blk, total); err != nil {
			res.Err = err.Error()
		} else {
			res.Accepted = true
		}
	}()
	res.Want, res.Why = refVerdict(c, res.Subsidy)
	return
}

type deviation struct {
	Name  string
	Apply func(am []int64, ad []string) ([]int64, []string)
}

func deviations() []deviation {
	cp := func(am []int64, ad []string) ([]int64, []string) {
		return append([]int64{}, am...), append([]string{}, ad...)
	}
	var ds []deviation
	ds = append(ds, deviation{"canonical", cp})
	for i := 0; i < 3; i++ {
		i := i
		for _, d := range []int64{1, -1} {
			d := d
			ds = append(ds, deviation{fmt.Sprintf("amount%d%+d", i, d), func(am []int64, ad []string) ([]int64, []string) {
				a, b := cp(am, ad)
				a[i] += d
				return a, b
			}})
		}
	}
	for _, pr := range [][2]int{{0, 1}, {0, 2}, {1, 2}} {
		pr := pr
		ds = append(ds, deviation{fmt.Sprintf("swap-amounts-%d-%d", pr[0], pr[1]), func(am []int64, ad []string) ([]int64, []string) {
			a, b := cp(am, ad)
			a[pr[0]], a[pr[1]] = a[pr[1]], a[pr[0]]
			return a, b
		}})
		ds = append(ds, deviation{fmt.Sprintf("shift-1-from-%d-to-%d", pr[0], pr[1]), func(am []int64, ad []string) ([]int64, []string) {
			a, b := cp(am, ad)
			a[pr[0]]--
			a[pr[1]]++
			return a, b
		}})
		ds = append(ds, deviation{fmt.Sprintf("shift-1-from-%d-to-%d", pr[1], pr[0]), func(am []int64, ad []string) ([]int64, []string) {
			a, b := cp(am, ad)
			a[pr[1]]--
			a[pr[0]]++
			return a, b
		}})
	}
	for i := 0; i < 3; i++ {
		i := i
		for _, to := range []string{"other", "found", "destroy", "cr", "dpos"} {
			to := to
			ds = append(ds, deviation{fmt.Sprintf("address%d->%s", i, to), func(am []int64, ad []string) ([]int64, []string) {
				a, b := cp(am, ad)
				b[i] = to
				return a, b
			}})
		}
	}
	ds = append(ds, deviation{"drop-last", func(am []int64, ad []string) ([]int64, []string) {
		a, b := cp(am, ad)
		return a[:2], b[:2]
	}})
	ds = append(ds, deviation{"drop-last-miner-takes-it", func(am []int64, ad []string) ([]int64, []string) {
		a, b := cp(am, ad)
		a[1] += a[2]
		return a[:2], b[:2]
	}})
	ds = append(ds, deviation{"drop-middle", func(am []int64, ad []string) ([]int64, []string) {
		a, b := cp(am, ad)
		return []int64{a[0], a[2]}, []string{b[0], b[2]}
	}})
	ds = append(ds, deviation{"extra-zero-output", func(am []int64, ad []string) ([]int64, []string) {
		a, b := cp(am, ad)
		return append(a, 0), append(b, "other")
	}})
	ds = append(ds, deviation{"extra-output-1-sela", func(am []int64, ad []string) ([]int64, []string) {
		a, b := cp(am, ad)
		return append(a, 1), append(b, "other")
	}})
	ds = append(ds, deviation{"split-miner-into-two", func(am []int64, ad []string) ([]int64, []string) {
		a, b := cp(am, ad)
		if a[1] < 2 {
			return append(a, 0), append(b, "other")
		}
		return []int64{a[0], a[1] - 1, a[2], 1}, []string{b[0], b[1], b[2], "other"}
	}})
	ds = append(ds, deviation{"floor-instead-of-ceil", func(am []int64, ad []string) ([]int64, []string) {
		// the split a truncating implementation would produce (differs only when a share is
		// fractional)
		a, b := cp(am, ad)
		t := a[0] + a[1] + a[2]
		a[0] = t * 3 / 10
		a[2] = t * 35 / 100
		a[1] = t - a[0] - a[2]
		return a, b
	}})
	return ds
}

func cbMenu(r *evid.Run) ([]uint32, [][]int64) {
	heights := []uint32{2000002, 2000003, 2102399, 2102400, 2102401, 3000000, 3153600, 4000000000}
	fees := [][]int64{{}, {0}, {1}, {2}, {3}, {7}, {9}, {10}, {11}, {13}, {19}, {20}, {99}, {100}, {101}, {100000001}, {100000003}, {12345677}, {12345679},
		{1, 1}, {100, 1}, {100000000, 1}, {50, 51, 7}}
	if r.Thorough() {
		for f := int64(0); f < 400; f++ {
			fees = append(fees, []int64{f})
		}
	}
	return heights, fees
}

func cbCases(r *evid.Run, subsidyOf func(h uint32) int64) []cbCase {
	heights, fees := cbMenu(r)
	var out []cbCase
	for _, h := range heights {
		for _, mode := range []string{"dpos", "pow"} {
			for _, fs := range fees {
				t := big.NewInt(subsidyOf(h))
				for _, f := range fs {
					t.Add(t, big.NewInt(f))
				}
				cr, miner, dpos := refShares(t)
				am := []int64{cr.Int64(), miner.Int64(), dpos.Int64()}
				ad := []string{"cr", "miner", "dpos"}
				if mode == "pow" {
					ad = []string{"destroy", "miner", "destroy"}
				}
				for _, d := range deviations() {
					a, b := d.Apply(am, ad)
					out = append(out, cbCase{H: h, Mode: mode, Fees: fs, Dev: d.Name, Amounts: a, Addrs: b})
				}
			}
		}
	}
	return out
}

func judgeCb(r *evid.Run, x cbRes) {
	if x.Panic != "" {
		// an index panic on a coinbase with fewer than two outputs cannot happen here (every
		// vector has at least two); anything else is reported as not accepted
		x.Accepted = false
	}
	if x.Accepted == x.Want {
		return
	}
	art := map[string]interface{}{"kind": "coinbase", "case": x.Case}
	devClass := x.Why
	if i := strings.Index(devClass, ":"); i > 0 {
		devClass = devClass[:i]
	}
	if x.Accepted {
		r.Violate("C11|coinbase|accepted-wrong|"+devClass+"|"+x.Case.Mode,
			fmt.Sprintf("coinbase %v at %v accepted although: %s (subsidy %d, fees %v)", x.Case.Amounts, x.Case.Addrs, x.Why, x.Subsidy, x.Case.Fees), art)
	} else {
		r.Violate("C11|coinbase|rejected-correct|"+x.Case.Mode,
			fmt.Sprintf("the exact split %v at %v (subsidy %d, fees %v) is rejected: %s%s", x.Case.Amounts, x.Case.Addrs, x.Subsidy, x.Case.Fees, x.Err, x.Panic), art)
	}
}

type cbOut struct {
	Results []cbRes        `json:"results"`
	Built   []builtRes     `json:"built"`
	Classes map[string]int `json:"classes"`
	N       int            `json:"n"`
	Acc     int            `json:"accepted"`
}

func runCb(r *evid.Run, scr string) cbOut {
	f := newCbFixture(scr)
	defer f.node.Close()
	cases := cbCases(r, func(h uint32) int64 { return int64(f.node.Params.GetBlockReward(h)) })
	out := cbOut{Classes: map[string]int{}}
	for _, c := range cases {
		x := f.eval(c)
		out.N++
		if x.Accepted {
			out.Acc++
		}
		out.Classes[fmt.Sprintf("%s|%s|accepted=%v|%s", c.Mode, c.Dev, x.Accepted, x.Err)]++
		if x.Accepted != x.Want || x.Panic != "" || (c.Dev == "canonical" && len(out.Results) < 400 && len(c.Fees) == 1 && c.H == 2102400) {
			out.Results = append(out.Results, x)
		}
	}
	hs, fs := cbMenu(r)
	out.Built = f.runConstructed(hs, fs)
	return out
}

func judgeBuilt(r *evid.Run, bs []builtRes, classes map[string]int) (n, acc int) {
	for _, b := range bs {
		n++
		art := map[string]interface{}{"kind": "constructed", "case": b}
		classes[fmt.Sprintf("constructed|%s|equals-reference=%v|accepted=%v", b.Mode, b.Differs == "", b.Accepted)]++
		if b.Accepted {
			acc++
		}
		if b.Differs != "" {
			clause := b.Differs
			if i := strings.Index(clause, ":"); i > 0 {
				clause = clause[:i]
			}
			r.Violate("C11|coinbase|constructed-differs|"+clause+"|"+b.Mode,
				fmt.Sprintf("the coinbase AssignCoinbaseTxRewards builds at height %d (%s mode, fees %v) is %v at %v: %s", b.H, b.Mode, b.Fees, b.Amounts, b.Addrs, b.Differs), art)
		}
		if !b.Accepted {
			r.Violate("C11|coinbase|constructed-rejected|"+b.Mode,
				fmt.Sprintf("the coinbase the node builds at height %d (%s mode, fees %v): %v at %v is refused by the coinbase rule: %s", b.H, b.Mode, b.Fees, b.Amounts, b.Addrs, b.Err), art)
		}
	}
	return
}

func main() {
	r := evid.Start("C11", "exploration")
	scr := evid.Scratch("c11")
	defer os.RemoveAll(scr)
	hx.QuietLogs(filepath.Join(scr, "log"))

	if _, ok := par.Worker(); ok {
		par.Announce("coinbase")
		par.Emit(runCb(r, scr))
		os.RemoveAll(scr)
		return
	}

	if r.Replay != "" {
		var a struct {
			Kind string          `json:"kind"`
			Net  string          `json:"net"`
			H    uint64          `json:"h"`
			Case json.RawMessage `json:"case"`
		}
		sig := r.LoadReplay(&a)
		fmt.Printf("replaying %s\n", sig)
		switch a.Kind {
		case "subsidy":
			for _, n := range nets() {
				if n.Name == a.Net {
					lo := uint64(0)
					if a.H > 2 {
						lo = a.H - 2
					}
					for h := lo; h <= a.H+1 && h <= math.MaxUint32; h++ {
						fmt.Printf("  %s GetBlockReward(%d) = %d\n", n.Name, h, int64(n.C.GetBlockReward(uint32(h))))
					}
					sweep(r, n, lo, a.H, &schedStats{})
				}
			}
		case "constructed":
			f := newCbFixture(scr)
			hs, fs := cbMenu(r)
			bs := f.runConstructed(hs, fs)
			judgeBuilt(r, bs, map[string]int{})
			f.node.Close()
		case "coinbase":
			var c cbCase
			json.Unmarshal(a.Case, &c)
			f := newCbFixture(scr)
			x := f.eval(c)
			fmt.Printf("%+v\n", x)
			judgeCb(r, x)
			f.node.Close()
		}
		os.RemoveAll(scr)
		r.Finish(evid.Coverage{})
	}

	// ---- (b) in a worker (process globals), concurrently with (a)
	var cbResult []par.Result
	var wg sync.WaitGroup
	wg.Add(1)
	go func() {
		defer wg.Done()
		cbResult = par.Procs([]string{"coinbase"}, scr, par.Opts{Timeout: 30 * 60e9, MemMB: 6144})
	}()

	// ---- (a)
	st := &schedStats{}
	all := r.Thorough()
	windows := map[string]interface{}{}
	for _, n := range nets() {
		n := n
		if n.C.HalvingRewardInterval == 0 {
			r.Violate("C11|subsidy|zero-halving-interval|"+n.Name, "HalvingRewardInterval is 0: GetBlockReward divides by it from HalvingRewardHeight on", map[string]interface{}{"kind": "constants", "net": n.Name})
			continue
		}
		if all {
			par.Go(4096, func(i int) {
				lo := uint64(i) << 20
				sweep(r, n, lo, lo+(1<<20)-1, st)
			})
		} else {
			ws := quickWindows(n.C)
			windows[n.Name] = len(ws)
			par.Go(len(ws), func(i int) { sweep(r, n, ws[i].lo, ws[i].hi, st) })
		}
	}
	nDistinct := 0
	var ladder []string
	st.distinct.Range(func(k, _ interface{}) bool {
		nDistinct++
		ladder = append(ladder, k.(string))
		return true
	})
	sort.Strings(ladder)

	wg.Wait()
	w := cbResult[0]
	if w.Died || w.Out == nil {
		os.RemoveAll(scr)
		evid.Fatalf("coinbase worker died (timeout=%v): %s", w.TimedOut, w.Stderr)
	}
	var cb cbOut
	if err := json.Unmarshal(w.Out, &cb); err != nil {
		os.RemoveAll(scr)
		evid.Fatalf("coinbase worker output: %v", err)
	}
	os.RemoveAll(scr)
	var samples []interface{}
	for _, x := range cb.Results {
		judgeCb(r, x)
		if len(samples) < 6 && x.Case.Dev == "canonical" {
			samples = append(samples, x)
		}
	}
	nBuilt, builtAcc := judgeBuilt(r, cb.Built, cb.Classes)
	if cb.Acc == 0 {
		evid.Fatalf("C11 coinbase fixture: no coinbase was accepted at all")
	}
	if len(ladder) > 80 {
		ladder = ladder[:80]
	}
	r.Assume = append(r.Assume,
		"the rounding of the shares is the one the consensus rule defines (ceil of 30% and of 35%, the miner takes the rest); it is recomputed exactly in big.Rat, which agrees with the rule's float64 evaluation for every total below 2^50 sela",
		"the miner share may go to any address; in POW consensus mode the CR and DPoS shares go to the destroy address",
		"ArbitratorsMock reports DPoS v2 active from height 2000000; the coinbase rule is driven through GetBlockDPOSReward + checkCoinbaseTransactionContext exactly as checkTxsContext combines them, with fee-carrying stub transactions; block-level acceptance through ProcessBlock is not driven here")
	r.Finish(evid.Coverage{
		"evaluations":         st.evals + int64(cb.N) + int64(nBuilt),
		"distinct_nontrivial": nDistinct + len(cb.Classes),
		"rule": "(a) GetBlockReward over " + map[bool]string{true: "all 2^32 heights", false: "every halving boundary +-2, +-20000 around NewELAIssuanceHeight and HalvingRewardHeight, the first 20000 and the last 300000 heights, every height where a sum/difference of height and schedule parameters crosses 0 or 2^32 (+-2)"}[all] +
			" for mainnet, testnet, regnet: >= 0 and non-increasing after NewELAIssuanceHeight; (b) 8 heights x {dpos,pow} x fee lists x 40 coinbase vectors (canonical + every single deviation): verdict of the real coinbase rule == exact big.Rat reference; and for every (height, mode, fee list) the coinbase built by the real pow.Service.CreateCoinbaseTx + AssignCoinbaseTxRewards equals the reference split/addresses and is accepted by the rule. non-trivial = distinct subsidy values + distinct (mode, deviation, verdict, error) classes",
		"exhaustive":              true,
		"all_2^32_heights":        all,
		"subsidy_evaluations":     st.evals,
		"subsidy_decreases_seen":  st.decreases,
		"subsidy_zero_heights":    st.zero,
		"subsidy_distinct_values": nDistinct,
		"subsidy_values":          ladder,
		"quick_windows_per_net":   windows,
		"coinbase_verdicts":       cb.N,
		"constructed_coinbases":   nBuilt,
		"constructed_accepted":    builtAcc,
		"coinbase_accepted":       cb.Acc,
		"coinbase_classes":        cb.Classes,
		"samples":                 samples,
	})
}
