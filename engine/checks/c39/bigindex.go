// Output indexes beyond one byte: a watched output at index k (or an outpoint added with
// AddOutPoint / filteradd) followed by the transaction that spends (tx, k), for
// k in {0, 1, 255, 256, 257, 511, 512, 65535}.
package main

import (
	"fmt"

	"github.com/elastos/Elastos.ELA/common"
	"github.com/elastos/Elastos.ELA/core"
	"github.com/elastos/Elastos.ELA/core/contract/program"
	ctypes "github.com/elastos/Elastos.ELA/core/types/common"
	"github.com/elastos/Elastos.ELA/core/types/functions"
	"github.com/elastos/Elastos.ELA/core/types/interfaces"
	"github.com/elastos/Elastos.ELA/core/types/outputpayload"
	"github.com/elastos/Elastos.ELA/core/types/payload"

	"verif/blockkit"
)

func wideParent(outputs int) interfaces.Transaction {
	blockkit.Register()
	outs := make([]*ctypes.Output, outputs)
	for i := range outs {
		outs[i] = &ctypes.Output{AssetID: core.ELAAssetID, Value: common.Fixed64(10 + i), ProgramHash: blockkit.ProgramHashOf(10000 + i), Type: ctypes.OTNone, Payload: &outputpayload.DefaultOutput{}}
	}
	return functions.CreateTransaction(ctypes.TxVersion09, ctypes.TransferAsset, 0, &payload.TransferAsset{},
		[]*ctypes.Attribute{{Usage: ctypes.Nonce, Data: []byte{'w', 'i', 'd', 'e'}}},
		[]*ctypes.Input{{Previous: blockkit.PrevOutOf(4242), Sequence: 0}}, outs, 0,
		[]*program.Program{{Code: make([]byte, 35), Parameter: make([]byte, 65)}})
}

func spenderOf(parent interfaces.Transaction, k uint16) interfaces.Transaction {
	sp := blockkit.Transfer(3000 + int(k)%700)
	sp.SetInputs([]*ctypes.Input{{Previous: blockkit.PrevOutOf(4300 + int(k)%50), Sequence: 0}, {Previous: *ctypes.NewOutPoint(parent.Hash(), k), Sequence: 0}})
	return sp
}

func (k *checker) bigIndexes() int64 {
	parent := wideParent(513)
	parent.Hash()
	var n int64
	cfgs := []cfg{
		{Origin: "wire", Size: 64, HashFuncs: 7, Tweak: 12345},
		{Origin: "wire", Size: 36000, HashFuncs: 50, Tweak: 1},
		{Origin: "new", Elements: 10, FPRate: 0.01, Tweak: 0, Flags: 1},
		{Origin: "wire", Size: 8, HashFuncs: 3, Tweak: 0},
	}
	for ci := range cfgs {
		if cfgs[ci].Origin == "new" {
			d, _, _, _ := k.instantiate(cfgs[ci], nil)
			m := d.GetFilterLoadMsg()
			cfgs[ci].Size, cfgs[ci].HashFuncs = len(m.Filter), m.HashFuncs
		}
	}
	for _, c := range cfgs {
		for _, idx := range []uint16{0, 1, 255, 256, 257, 511, 512, 65535} {
			sp := spenderOf(parent, idx)
			op := ctypes.NewOutPoint(parent.Hash(), idx)
			for _, route := range []string{"outpoint-added", "address-watched"} {
				if route == "address-watched" && int(idx) >= len(parent.Outputs()) {
					continue
				}
				for _, via := range []string{"Filter.MatchTxAndUpdate", "filter.Filter.MatchConfirmed", "filter.Filter.MatchUnconfirmed"} {
					direct, server, _, ok := k.instantiate(c, nil)
					if !ok {
						continue
					}
					art := artefact{Cfg: c, Step: "big-index", Tx: int(idx), Watched: route, Sequence: via}
					var parentOK, spenderOK, opOK bool
					site := guarded(func() {
						present := func(tx interfaces.Transaction) bool {
							switch via {
							case "Filter.MatchTxAndUpdate":
								return direct.MatchTxAndUpdate(tx)
							case "filter.Filter.MatchConfirmed":
								return server.MatchConfirmed(tx)
							}
							return server.MatchUnconfirmed(tx)
						}
						if route == "outpoint-added" {
							if via == "Filter.MatchTxAndUpdate" {
								direct.AddOutPoint(op)
								opOK = direct.MatchesOutPoint(op)
							} else {
								server.Add(op.Bytes())
								opOK = true
							}
							parentOK = true
						} else {
							ph := parent.Outputs()[idx].ProgramHash
							if via == "Filter.MatchTxAndUpdate" {
								direct.Add(ph[:])
							} else {
								server.Add(ph[:])
							}
							parentOK = present(parent)
							opOK = via != "Filter.MatchTxAndUpdate" || direct.MatchesOutPoint(op)
						}
						spenderOK = present(sp)
					})
					if site != "" {
						k.panicked(site, "big-index "+route+" via "+via, art)
						continue
					}
					n++
					k.evals += 3
					k.cases.Add(fmt.Sprintf("bigidx/%s/%d/%s/%s", c.String(), idx, route, via))
					cls := "index<256"
					if idx >= 256 {
						cls = "index>=256"
					}
					if !parentOK {
						k.violate("C39|false-negative|big-index|parent|"+cls, fmt.Sprintf("a transaction paying to a watched address at output %d does not match (%s; %s)", idx, via, c.String()), art)
					}
					if !opOK {
						k.violate("C39|false-negative|big-index|outpoint|"+cls, fmt.Sprintf("outpoint (tx, %d) is in the filter but MatchesOutPoint says no (%s; %s)", idx, route, c.String()), art)
					}
					if !spenderOK {
						k.violate("C39|false-negative|big-index|spender|"+cls, fmt.Sprintf("the transaction spending output %d of a watched transaction does not match (%s; %s; %s)", idx, route, via, c.String()), art)
					}
				}
			}
		}
	}
	return n
}
