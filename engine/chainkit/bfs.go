package chainkit

// Level-synchronous breadth-first search over a node-tier system, executed by pool workers.
//
// A System is one fresh execution (a node plus harness/reference state) of a named scenario.
// A state is the shortest history that reaches it; a transition is executed by replaying the
// history on a fresh System in a worker and applying one more operation. The parent keeps the
// global digest memo, merges results in frontier order (deterministic numbering) and never
// expands a state reached through a failing transition. Every replay must reproduce the digest
// recorded for the state and every failing history is re-run twice on fresh systems; the harness
// being deterministic (no divergence in hundreds of thousands of replays on the unchanged
// tree), a divergence is reported as a violation ("determinism|…", "…|unstable") with the
// history, and a request that kills two workers in a row as "crash|worker-died|…" if the
// worker's output shows a panic / fatal error of the code under test (exhaustive:false if the
// process was killed from outside).
//
//	worker:  chainkit.Serve(chainkit.BFSHandler(func(scenario string) chainkit.System { ... }))
//	parent:  res := chainkit.BFS(pool, newSystem, scenario, depth, deadline, onFail)

import (
	"encoding/json"
	"fmt"
	"runtime/debug"
	"strings"
	"time"

	"verif/evid"
)

// Fail is a violated oracle clause.
type Fail struct {
	Sig  string `json:"sig"`
	What string `json:"what"`
}

// Failf builds a Fail.
func Failf(sig, format string, a ...interface{}) *Fail {
	return &Fail{Sig: sig, What: fmt.Sprintf(format, a...)}
}

// System is one execution of a scenario.
type System interface {
	// Ops lists the operations enabled in the current state in canonical order.
	Ops() []string
	// Apply executes op and evaluates the oracles.
	Apply(op string) *Fail
	// Digest is the canonical property-relevant state (implementation + harness).
	Digest() string
	// Counters reports non-vacuity counters accumulated since ResetCounters.
	Counters() map[string]int
	ResetCounters()
	Close()
}

type bfsReq struct {
	Scenario string   `json:"s"`
	Hist     []string `json:"h"`
	Digest   string   `json:"d"`
}

type bfsTrans struct {
	Op     string         `json:"o"`
	Digest string         `json:"d,omitempty"`
	Fail   *Fail          `json:"x,omitempty"`
	C      map[string]int `json:"c,omitempty"`
}

type bfsResp struct {
	Trans []bfsTrans `json:"t"`
	Execs int        `json:"e"`
	Err   string     `json:"err,omitempty"`
}

// RunHistory executes hist on a fresh system. failAt is the index of the failing op (-1 none).
func RunHistory(newSystem func(string) System, scenario string, hist []string, wantOps bool) (digest string, ops []string, c map[string]int, f *Fail, failAt int) {
	Announce(strings.Join(hist, " "))
	sys := newSystem(scenario)
	defer sys.Close()
	failAt = -1
	defer func() {
		if e := recover(); e != nil {
			st := debug.Stack()
			f = &Fail{Sig: "panic|" + evid.PanicSite(st), What: fmt.Sprintf("panic: %v", e)}
			failAt = len(hist) - 1
		}
	}()
	for i, o := range hist {
		if i == len(hist)-1 {
			sys.ResetCounters()
		}
		if ff := sys.Apply(o); ff != nil {
			return "", nil, sys.Counters(), ff, i
		}
	}
	digest = sys.Digest()
	if wantOps {
		ops = sys.Ops()
	}
	return digest, ops, sys.Counters(), nil, -1
}

// BFSHandler is the pool-worker side: expand one state.
func BFSHandler(newSystem func(string) System) func([]byte) interface{} {
	return func(raw []byte) interface{} {
		var rq bfsReq
		var out bfsResp
		if err := json.Unmarshal(raw, &rq); err != nil {
			out.Err = "bad request: " + err.Error()
			return out
		}
		d, ops, _, f, _ := RunHistory(newSystem, rq.Scenario, rq.Hist, true)
		out.Execs++
		if f != nil || d != rq.Digest {
			// Same history, different outcome on a fresh system: the harness is deterministic
			// (every clean replay on the unchanged tree reproduces its digest), so the code under
			// test depends on something other than its inputs — a violation with the history,
			// not an engine error.
			out.Trans = append(out.Trans, bfsTrans{Op: "", Fail: &Fail{Sig: "determinism|same-history-different-state",
				What: fmt.Sprintf("replaying %v on a fresh node gave digest %s (failure: %v) but %s when the state was first reached", rq.Hist, d, f, rq.Digest)}})
			return out
		}
		for _, o := range ops {
			h := append(append([]string{}, rq.Hist...), o)
			d2, _, c, f, at := RunHistory(newSystem, rq.Scenario, h, false)
			out.Execs++
			t := bfsTrans{Op: o, Digest: d2, C: c}
			if f != nil {
				if at != len(h)-1 {
					t.Fail = &Fail{Sig: f.Sig + "|unstable", What: fmt.Sprintf("history %v failed at op %d, inside a prefix that was clean before: %s", h, at, f.What)}
					out.Trans = append(out.Trans, t)
					continue
				}
				stable := true
				for k := 0; k < 2; k++ {
					_, _, _, f2, _ := RunHistory(newSystem, rq.Scenario, h, false)
					out.Execs++
					if f2 == nil || f2.Sig != f.Sig {
						stable = false
					}
				}
				t.Fail = f
				if !stable {
					t.Fail = &Fail{Sig: f.Sig + "|unstable", What: "does not reproduce on every fresh node: " + f.What}
				}
			}
			out.Trans = append(out.Trans, t)
		}
		return out
	}
}

// BFSResult is the measured outcome of one scenario.
type BFSResult struct {
	Scenario    string                `json:"scenario"`
	States      int64                 `json:"states"`
	Transitions int64                 `json:"transitions"`
	Execs       int64                 `json:"executions"`
	DepthDone   int                   `json:"max_depth_completed"`
	PerDepth    []int                 `json:"states_per_depth"`
	Exhaustive  bool                  `json:"exhaustive"`
	Cap         string                `json:"cap,omitempty"`
	Counters    map[string]int        `json:"counters"`
	Failing     int                   `json:"failing_transitions"`
	WallS       float64               `json:"wall_s"`
	PerGroup    map[string]*GroupStat `json:"per_scenario,omitempty"`
	Samples     [][]string            `json:"-"`
}

// BFS explores scenario to maxDepth (0 = until the frontier is empty). onFail receives every
// failing transition (already confirmed twice by the worker).
func BFS(pool *Pool, newSystem func(string) System, scenario string, maxDepth int, deadline time.Time,
	onFail func(f *Fail, hist []string)) BFSResult {
	start := time.Now()
	res := BFSResult{Scenario: scenario, Exhaustive: true, Counters: map[string]int{}}
	d1, _, _, f, _ := RunHistory(newSystem, scenario, nil, false)
	d2, _, _, _, _ := RunHistory(newSystem, scenario, nil, false)
	res.Execs = 2
	if f != nil {
		onFail(f, []string{})
		res.Exhaustive = false
		res.Cap = "root state violates an oracle"
		return res
	}
	if d1 != d2 {
		evid.Fatalf("%s: two fresh systems disagree on the root digest", scenario)
	}
	type st struct {
		hist   []string
		digest string
	}
	seen := map[string]bool{d1: true}
	frontier := []st{{nil, d1}}
	res.States = 1
	res.PerDepth = []int{1}
	for depth := 0; (maxDepth == 0 || depth < maxDepth) && len(frontier) > 0; depth++ {
		if !deadline.IsZero() && time.Now().After(deadline) {
			res.Exhaustive = false
			res.Cap = fmt.Sprintf("time budget reached before depth %d", depth+1)
			break
		}
		reqs := make([]interface{}, len(frontier))
		for i, s := range frontier {
			h := s.hist
			if h == nil {
				h = []string{}
			}
			reqs[i] = bfsReq{Scenario: scenario, Hist: h, Digest: s.digest}
		}
		outs, deaths, err := pool.Map(reqs, deadline)
		if err != nil {
			evid.Fatalf("%s: %v", scenario, err)
		}
		died := map[int]bool{}
		for _, d := range deaths {
			died[d.Index] = true
			hist := frontier[d.Index].hist
			if d.Announced != "" {
				hist = strings.Fields(d.Announced)
			}
			if f := DeathFail(d); f != nil {
				// the code under test crashed the process twice on this history: a verdict
				res.Failing++
				onFail(f, hist)
			} else {
				// killed from outside / out of memory twice: a limit of the harness, not a verdict
				res.Exhaustive = false
				res.Cap = fmt.Sprintf("worker killed twice (resource limit) while expanding %v: %s", hist, d.ExitErr)
			}
		}
		var next []st
		cut := false
		levelTrans := 0
		for i, raw := range outs {
			if raw == nil {
				if !died[i] {
					cut = true
				}
				continue
			}
			var wo bfsResp
			if err := json.Unmarshal(raw, &wo); err != nil {
				evid.Fatalf("%s: worker output: %v", scenario, err)
			}
			if wo.Err != "" {
				evid.Fatalf("%s", wo.Err)
			}
			res.Execs += int64(wo.Execs)
			for _, t := range wo.Trans {
				res.Transitions++
				levelTrans++
				for k, v := range t.C {
					res.Counters[k] += v
				}
				h := append([]string{}, frontier[i].hist...)
				if t.Op != "" {
					h = append(h, t.Op)
				}
				var g *GroupStat
				if strings.HasPrefix(h[0], "s:") && len(h) > 1 {
					if res.PerGroup == nil {
						res.PerGroup = map[string]*GroupStat{}
					}
					g = res.PerGroup[h[0][2:]]
					if g == nil {
						g = &GroupStat{States: 1}
						res.PerGroup[h[0][2:]] = g
					}
					g.Transitions++
					if len(h)-1 > g.MaxDepth {
						g.MaxDepth = len(h) - 1
					}
				}
				if t.Fail != nil {
					res.Failing++
					if g != nil {
						g.Failing++
					}
					onFail(t.Fail, h)
					continue
				}
				if !seen[t.Digest] {
					seen[t.Digest] = true
					res.States++
					if g != nil {
						g.States++
					}
					next = append(next, st{h, t.Digest})
				}
			}
		}
		if len(next) > 0 || cut {
			res.PerDepth = append(res.PerDepth, len(next))
		}
		frontier = next
		if cut {
			res.Exhaustive = false
			res.Cap = fmt.Sprintf("time budget reached while expanding depth %d", depth+1)
			break
		}
		if levelTrans > 0 {
			res.DepthDone = depth + 1
		}
	}
	short := scenario
	if strings.HasPrefix(short, "multi|") {
		short = "multi"
		res.Scenario = fmt.Sprintf("multi(%d scenarios)", strings.Count(scenario, "|"))
	}
	for i := 0; i < len(frontier) && len(res.Samples) < 3; i += 1 + len(frontier)/3 {
		res.Samples = append(res.Samples, append([]string{short + ":"}, frontier[i].hist...))
	}
	res.WallS = float64(int(time.Since(start).Seconds()*10)) / 10
	fmt.Printf("%s: depth %d, %d states, %d transitions (%d failing), %d executions, %.0fs%s\n", short, res.DepthDone, res.States, res.Transitions, res.Failing, res.Execs, time.Since(start).Seconds(),
		map[bool]string{true: "", false: " [" + res.Cap + "]"}[res.Exhaustive])
	return res
}

// Multi wraps several scenarios into one search so that their frontiers share the worker pool
// level by level (a linear scenario alone would use one worker per level): the scenario string
// is "multi|name1|name2|…", the first operation "s:<name>" selects the scenario, everything
// after it is that scenario's own history. BFSResult.PerGroup then reports per scenario.
func Multi(newSystem func(string) System) func(string) System {
	return func(sc string) System {
		if !strings.HasPrefix(sc, "multi|") {
			return newSystem(sc)
		}
		return &multiSys{names: strings.Split(sc, "|")[1:], mk: newSystem}
	}
}

// MultiName builds the scenario string for Multi.
func MultiName(names []string) string { return "multi|" + strings.Join(names, "|") }

// SplitMulti returns the scenario and history of a Multi history.
func SplitMulti(hist []string) (string, []string) {
	if len(hist) == 0 {
		return "", nil
	}
	return strings.TrimPrefix(hist[0], "s:"), hist[1:]
}

type multiSys struct {
	names []string
	mk    func(string) System
	name  string
	inner System
}

func (m *multiSys) Ops() []string {
	if m.inner == nil {
		var ops []string
		for _, n := range m.names {
			ops = append(ops, "s:"+n)
		}
		return ops
	}
	return m.inner.Ops()
}

func (m *multiSys) Apply(op string) *Fail {
	if m.inner == nil {
		m.name = strings.TrimPrefix(op, "s:")
		m.inner = m.mk(m.name)
		return nil
	}
	return m.inner.Apply(op)
}

func (m *multiSys) Digest() string {
	if m.inner == nil {
		return "root"
	}
	return m.name + "|" + m.inner.Digest()
}

func (m *multiSys) Counters() map[string]int {
	if m.inner == nil {
		return nil
	}
	return m.inner.Counters()
}

func (m *multiSys) ResetCounters() {
	if m.inner != nil {
		m.inner.ResetCounters()
	}
}

func (m *multiSys) Close() {
	if m.inner != nil {
		m.inner.Close()
	}
}

// GroupStat is the per-scenario share of a Multi search.
type GroupStat struct {
	States      int `json:"states"`
	Transitions int `json:"transitions"`
	Failing     int `json:"failing_transitions"`
	MaxDepth    int `json:"max_depth"`
}

// DeathFail turns a twice-dead request into a violation if the worker's output shows that the
// code under test crashed the process (panic in a goroutine the harness cannot recover, fatal
// error, fault); nil if the process was killed from outside or ran out of memory.
func DeathFail(d Death) *Fail {
	if !d.Crashed() {
		return nil
	}
	return &Fail{Sig: "crash|worker-died|" + evid.PanicSite([]byte(d.Tail)),
		What: "the worker process died twice on this history (second time on a fresh process); output tail:\n" + d.Tail}
}

// JoinHist renders a history for messages.
func JoinHist(h []string) string { return strings.Join(h, " ") }
