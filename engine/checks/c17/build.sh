#!/bin/bash
# Custom build of the C17 check: instruments the CURRENT working tree of $VERIF_REPO (statement
# crash points in the ffldb commit/flush/rollback/block-write functions) into a scratch directory
# and builds the check with `go build -overlay`. Nothing is written into the repository.
# Inputs (from ./run or setup.sh): VERIF_BIN, VERIF_REPO, VERIF_MODFLAGS (VERIF_ROOT is not needed:
# the engine module is located relative to this script).
set -eu
export GOFLAGS=-mod=mod GOPROXY=off GOSUMDB=off GOTOOLCHAIN=local
ENGINE="$(cd "$(dirname "$0")/../.." && pwd)" # the engine module this script belongs to
REPO="${VERIF_REPO:-/repo}"
SCR="$(mktemp -d /dev/shm/verif-c17-build-XXXXXX)"
trap 'rm -rf "$SCR"' EXIT
cd "$ENGINE"
FUNCS="transaction.writePendingAndCommit,transaction.Commit,transaction.close,blockStore.writeBlock,blockStore.writeData,blockStore.handleRollback,blockStore.syncBlocks,dbCache.flush,dbCache.commitTx,dbCache.commitTreaps,dbCache.updateDB,dbCache.needsFlush,dbCache.Close,db.Close"
go build -o "$SCR/vinst" ./vinst
# named functions that exist are instrumented, plus every function of the three files that calls a
# file or leveldb write primitive (so that moved / inlined / renamed code keeps its crash points)
"$SCR/vinst" -repo "$REPO" -out "$SCR/ov" -pkg database/ffldb -call verifCP -funcs "$FUNCS" \
  -auto-files db.go,dbcache.go,blockio.go,reconcile.go \
  -auto-calls OpenTransaction,Write,WriteAt,Truncate,Sync,Remove,OpenFile,openWriteFileFunc,deleteFileFunc,commitTreaps,writeBlock,handleRollback
N="$(wc -l < "$SCR/ov/sites.txt")"
F="$(cat "$SCR/ov/funcs.txt")"
# shellcheck disable=SC2086
go build -tags verif ${VERIF_MODFLAGS:-} -overlay "$SCR/ov/overlay.json" -ldflags "-X main.instrumentedSites=$N -X main.instrumentedFuncs=$F" -o "$VERIF_BIN" ./checks/c17
