#!/bin/bash
# Instrumented build for C24: math/rand of dpos/state and database/internal/treap rewritten to the
# vrand shim (regenerated from the current working tree), scheduler shims added as virtual packages.
set -eu
export GOFLAGS=-mod=mod GOPROXY=off GOSUMDB=off GOTOOLCHAIN=local
ROOT="${VERIF_ROOT:-/verif}"
REPO="${VERIF_REPO:-/repo}"
SCR="$(mktemp -d /dev/shm/verif-c24-build-XXXXXX)"
trap 'rm -rf "$SCR"' EXIT
cd "$ROOT/engine"
go build -o "$SCR/schedinst" ./cmd/schedinst
"$SCR/schedinst" -repo "$REPO" -out "$SCR" -shims "$ROOT/engine/shim" \
  -pkg dpos/state:rand -pkg database/internal/treap:rand \
  -stmt "dpos/state:Arbiters.getCandidateIndexAtRandom,Arbiters.getRandomDposV2Producers" >/dev/null
go build -tags "verif vsched" ${VERIF_MODFLAGS:-} -overlay "$SCR/overlay.json" -o "$VERIF_BIN" ./checks/c24
