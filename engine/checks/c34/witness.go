package main

import (
	"fmt"

	"github.com/elastos/Elastos.ELA/blockchain"
	"github.com/elastos/Elastos.ELA/common"
	"github.com/elastos/Elastos.ELA/core/checkpoint"
	pg "github.com/elastos/Elastos.ELA/core/contract/program"
	"github.com/elastos/Elastos.ELA/core/transaction"
	"github.com/elastos/Elastos.ELA/core/types"
	ctypes "github.com/elastos/Elastos.ELA/core/types/common"
	"github.com/elastos/Elastos.ELA/core/types/functions"
	"github.com/elastos/Elastos.ELA/core/types/interfaces"
	"github.com/elastos/Elastos.ELA/core/types/payload"
	crstate "github.com/elastos/Elastos.ELA/cr/state"
	"github.com/elastos/Elastos.ELA/dpos/state"
)

// witnessUpdateProducer ties the one rule of the chain model on which a verdict can hinge to the
// real code: "a second UpdateProducer of a registered producer stays valid after another update
// of the same producer was connected". It follows the repository's own
// TestCheckUpdateProducerTransaction: a real DPoS State processes a block that registers the
// producer (owner k0) and a block with the menu's UP2; then the real
// UpdateProducerTransaction.SpecialContextCheck is asked about the menu's UP1 (really signed
// payload). A rejection means the model is wrong → engine error, never a verdict.
func witnessUpdateProducer() string {
	chain := blockchain.DefaultLedger.Blockchain
	chain.SetCRCommittee(crstate.NewCommittee(params, checkpoint.NewManager(params)))
	st := state.NewState(params, nil, nil, nil, func() bool { return false },
		func(common.Uint168) (common.Fixed64, error) { return 0, nil }, nil, nil, nil, nil, nil, nil)
	chain.SetState(st)
	info := &payload.ProducerInfo{OwnerKey: k0, NodePublicKey: n0, NickName: nick0, Url: "http://example.org", Location: 1, NetAddress: "127.0.0.1:20338"}
	signProducerInfo(info, 1)
	if err := checkReal(chain, menu[menuIndex("UP1")], 1); err == nil {
		return "UP1 accepted although the producer is not registered (the real check is not effective in this fixture)"
	}
	reg := functions.CreateTransaction(ctypes.TxVersion09, ctypes.RegisterProducer, 0, info, nil, nil, nil, 0, []*pg.Program{})
	st.ProcessBlock(&types.Block{Header: ctypes.Header{Height: 1}, Transactions: []interfaces.Transaction{reg}}, nil, 0)
	if st.GetProducer(k0) == nil {
		return "producer registration was not taken by the DPoS state"
	}
	// producers a CancelProducer of the pair stage may name (node key = owner key): the pool
	// derives the cancel key from the registered node key
	var regs []interfaces.Transaction
	for _, seed := range cancelOwnerSeeds() {
		pi := &payload.ProducerInfo{OwnerKey: pub(seed), NodePublicKey: pub(seed), NickName: fmt.Sprintf("cancel-%02x", seed), Url: "http://example.org", Location: 1, NetAddress: "127.0.0.1:20338"}
		regs = append(regs, functions.CreateTransaction(ctypes.TxVersion09, ctypes.RegisterProducer, 0, pi, nil, nil, nil, 0, []*pg.Program{}))
	}
	st.ProcessBlock(&types.Block{Header: ctypes.Header{Height: 1}, Transactions: regs}, nil, 0)
	for _, seed := range cancelOwnerSeeds() {
		if st.GetProducer(pub(seed)) == nil {
			return "pair-stage producer registration was not taken by the DPoS state"
		}
	}
	up1, up2 := menu[menuIndex("UP1")], menu[menuIndex("UP2")]
	check := func(m *mtx, height uint32) error { return checkReal(chain, m, height) }
	if err := check(up1, 2); err != nil {
		return "UP1 rejected before any update: " + err.Error()
	}
	st.ProcessBlock(&types.Block{Header: ctypes.Header{Height: 2}, Transactions: []interfaces.Transaction{up2.real}}, nil, 0)
	if p := st.GetProducer(k0); p == nil || p.Info().NickName != up2.nick {
		return "UP2 was not applied by the DPoS state"
	}
	if err := check(up1, 3); err != nil {
		return "UP1 rejected after UP2 was connected: " + err.Error()
	}
	if err := check(up2, 3); err != nil {
		return "UP2 (same content as the current registration) rejected: " + err.Error()
	}
	return ""
}

// checkReal runs the transaction type's own SpecialContextCheck against the chain's state.
func checkReal(chain *blockchain.BlockChain, m *mtx, height uint32) error {
	o := m.real
	tx := functions.CreateTransaction(o.Version(), o.TxType(), o.PayloadVersion(), o.Payload(), o.Attributes(), o.Inputs(), o.Outputs(), o.LockTime(), o.Programs())
	tx.SetParameters(&transaction.TransactionParameters{Transaction: tx, BlockHeight: height, Config: params, BlockChain: chain})
	err, _ := tx.SpecialContextCheck()
	if err != nil {
		return err
	}
	return nil
}

var _ = fmt.Sprint
