// C04: wire encoding round-trips and transaction identity ignores signatures.
//
// Bounded-exhaustive enumeration through the repository's real Serialize/Deserialize/Hash:
// every transaction type × payload version (× proposal type) × payload population (all fields on,
// all off, booleans off) × transaction shape (attribute lists, 0..2 inputs, 0..2 outputs of every
// output payload type, 0..2 programs with empty/non-empty code) × tx version {legacy, 9}; blocks
// with 1..5 transactions, headers with merged-mining branches of length 0..3, confirms with 0..3
// votes; all 256×256 (version, type) leading byte pairs.
// Oracle: decode(encode(v)) = v (reflect-level, nil≡empty), encode(decode(b)) = b and decodes to
// an equal value with the same hash; Hash() is invariant under every change of the programs and
// differs exactly when the unsigned part differs (every single-byte change of the unsigned
// encoding that still decodes).
package main

import (
	"bytes"
	"fmt"
	"os"
	"reflect"
	"runtime/debug"
	"runtime/metrics"
	"sort"
	"strings"
	"sync"
	"sync/atomic"
	"time"

	"github.com/elastos/Elastos.ELA/common"
	pg "github.com/elastos/Elastos.ELA/core/contract/program"
	"github.com/elastos/Elastos.ELA/core/transaction"
	"github.com/elastos/Elastos.ELA/core/types"
	common2 "github.com/elastos/Elastos.ELA/core/types/common"
	"github.com/elastos/Elastos.ELA/core/types/interfaces"
	"github.com/elastos/Elastos.ELA/core/types/payload"

	"verif/evid"
	"verif/hx"
	"verif/par"
	"verif/wire"
)

type ctx struct {
	r *evid.Run

	evals      int64
	roundTrips int64
	hashProg   int64
	hashSens   int64
	hashSame   int64
	hashDiff   int64
	mutDecoded int64

	boundary           int64 // boundary-length cases that round-tripped
	boundaryRefused    int64 // refused by a declared limit (control length refused as well)
	boundaryNotCarried int64 // field not carried by the variant

	limitProbes       int64
	msgLimits         int64 // messages at their documented count limit that round-tripped
	numeric           int64 // numeric-boundary cases that round-tripped
	numericRefused    int64 // refused/misparsed together with the neighbouring value (validated field)
	numericNotCarried int64
	numericTruncated  int64 // Go type wider than the wire field: value aliases a smaller one
	truncFields       map[string]bool

	mu       sync.Mutex
	distinct map[string]bool
	// payload field survival over all variants: "Type.Field" → survived somewhere / seen populated
	survived map[string]bool
	seen     map[string]bool
	dropped  map[string]map[string]bool // field → variants that dropped it
	samples  *evid.Samples
}

// guard turns a panic of the repository's codec on a generated (or decoded) value into a
// violation instead of a crash of the check.
func (c *ctx) guard(kind, name string, f func()) {
	defer func() {
		if e := recover(); e != nil {
			site := evid.PanicSite(debug.Stack())
			c.r.Violate("C04|panic|"+site, fmt.Sprintf("encoding/decoding a well-formed or decoded value panics at %s: %v", site, e),
				map[string]interface{}{"kind": kind, "case": name})
		}
	}()
	f()
}

func (c *ctx) mark(k string) {
	c.mu.Lock()
	c.distinct[k] = true
	c.mu.Unlock()
}

func hexs(b []byte) string {
	const max = 400
	if len(b) > max {
		return fmt.Sprintf("%x…(%d bytes)", b[:max], len(b))
	}
	return fmt.Sprintf("%x", b)
}

// txCase is one generated transaction.
type txCase struct {
	name string
	tx   interfaces.Transaction
	full bool // payload populated "all on": participates in the field-survival rule
	base bool // the fully populated base shape
}

// inDomain: the encoder is injective on (version ≥ 9) ∪ (version = 0 ∧ type < 9); elsewhere the
// leading bytes are ambiguous (reported, not alarmed).
func inDomain(v common2.TransactionVersion, t common2.TxType) bool {
	return v >= common2.TxVersion09 || (v == common2.TxVersionDefault && t < 0x09)
}

// payloadLeaves lists the exported leaf paths of a payload value with a non-zero value.
func payloadLeaves(v reflect.Value, path string, out map[string]reflect.Value) {
	switch v.Kind() {
	case reflect.Ptr, reflect.Interface:
		if !v.IsNil() {
			payloadLeaves(v.Elem(), path, out)
		}
	case reflect.Struct:
		t := v.Type()
		for i := 0; i < t.NumField(); i++ {
			if t.Field(i).PkgPath != "" {
				continue
			}
			payloadLeaves(v.Field(i), path+"."+t.Field(i).Name, out)
		}
	default:
		out[path] = v
	}
}

func (c *ctx) checkTx(tc txCase) {
	r := c.r
	atomic.AddInt64(&c.evals, 1)
	tx := tc.tx
	currentCase.Store(tc.name)
	kind := fmt.Sprintf("%s/pv%d/v%d", tx.TxType().Name(), tx.PayloadVersion(), tx.Version())
	b0, err := wire.EncodeTx(tx)
	art := map[string]interface{}{"kind": "tx", "case": tc.name}
	if err != nil {
		r.Violate("C04|encode-error|tx|"+tx.TxType().Name(), "a well-formed transaction fails to serialise: "+err.Error(), art)
		return
	}
	art["bytes"] = hexs(b0)
	t := wire.NewTracker(b0)
	v1x, err := wire.DecodeTx(t)
	if err != nil {
		r.Violate(fmt.Sprintf("C04|decode-error|tx|%s|pv=%d", tx.TxType().Name(), tx.PayloadVersion()), "the encoding of a well-formed transaction does not decode: "+err.Error(), art)
		return
	}
	if t.Remaining() != 0 {
		r.Violate(fmt.Sprintf("C04|decode-leftover|tx|%s|pv=%d", tx.TxType().Name(), tx.PayloadVersion()), fmt.Sprintf("decoding the encoding of a well-formed transaction leaves %d bytes unread", t.Remaining()), art)
		return
	}
	v1 := v1x.(interfaces.Transaction)
	atomic.AddInt64(&c.roundTrips, 1)
	c.mark("rt|" + kind + "|" + shapeKey(tx))
	// 1. decode(encode(v)) == v. The non-payload part must be equal outright; payload fields
	// that a variant does not carry are collected for the survival rule.
	h0 := tx.Hash()
	v1NoPayload := func() string {
		for _, p := range [][2]interface{}{
			{tx.Version(), v1.Version()}, {tx.TxType(), v1.TxType()}, {tx.PayloadVersion(), v1.PayloadVersion()},
			{tx.Attributes(), v1.Attributes()}, {tx.Inputs(), v1.Inputs()}, {tx.Outputs(), v1.Outputs()},
			{tx.LockTime(), v1.LockTime()}, {tx.Programs(), v1.Programs()},
		} {
			if ok, d := wire.Equal(p[0], p[1]); !ok {
				return fmt.Sprintf("%T%s", p[0], d)
			}
		}
		return ""
	}()
	if v1NoPayload != "" {
		r.Violate("C04|roundtrip-diff|tx|"+fieldClass(v1NoPayload), "decode(encode(tx)) differs from tx at "+v1NoPayload, art)
		return
	}
	pt := reflect.TypeOf(tx.Payload()).Elem().Name()
	if ok, d := wire.Equal(tx.Payload(), v1.Payload()); !ok || tc.full {
		// per-leaf comparison
		l0, l1 := map[string]reflect.Value{}, map[string]reflect.Value{}
		payloadLeaves(reflect.ValueOf(tx.Payload()), pt, l0)
		payloadLeaves(reflect.ValueOf(v1.Payload()), pt, l1)
		_ = d
		c.mu.Lock()
		for p, a := range l0 {
			if a.IsZero() && !(a.Kind() == reflect.Slice && a.Len() > 0) {
				continue
			}
			c.seen[p] = true
			b, okb := l1[p]
			same := okb
			if okb {
				e, _ := wire.Equal(a.Interface(), b.Interface())
				same = e
			}
			if same {
				c.survived[p] = true
			} else {
				if c.dropped[p] == nil {
					c.dropped[p] = map[string]bool{}
				}
				c.dropped[p][tc.name] = true
			}
		}
		c.mu.Unlock()
	}
	// 2. encode(decode(b)) == b, decodes to an equal value with the same hash
	b1, err := wire.EncodeTx(v1)
	if err != nil || !bytes.Equal(b0, b1) {
		art["reencoded"] = hexs(b1)
		r.Violate(fmt.Sprintf("C04|reencode-diff|tx|%s|pv=%d", tx.TxType().Name(), tx.PayloadVersion()), "encode(decode(b)) differs from b for the encoding of a well-formed transaction", art)
		return
	}
	v2x, err := wire.DecodeTx(bytes.NewReader(b1))
	if err != nil {
		r.Violate("C04|decode-error|tx2|"+tx.TxType().Name(), "re-encoded transaction does not decode: "+err.Error(), art)
		return
	}
	v2 := v2x.(interfaces.Transaction)
	if ok, d := wire.Equal(v1, v2); !ok {
		r.Violate("C04|roundtrip-diff|tx2|"+fieldClass(d), "decode(encode(decode(b))) differs from decode(b) at "+d, art)
		return
	}
	if inDomain(tx.Version(), tx.TxType()) {
		if v1.Hash() != h0 || v2.Hash() != h0 {
			r.Violate("C04|hash-unstable|roundtrip|"+tx.TxType().Name(), "the hash changes across encode/decode", art)
			return
		}
	}
	// 3. hash ignores programs
	c.checkPrograms(tc, b0, h0)
	// 4. hash is injective on the unsigned part
	c.checkSensitivity(tc, v1, b0, h0)
}

func fieldClass(d string) string {
	// strip indices so that the signature names the field, not the element
	var sb strings.Builder
	depth := 0
	for _, ch := range d {
		switch {
		case ch == '[':
			depth++
		case ch == ']':
			depth--
		case ch == ':':
			return sb.String()
		case depth == 0:
			sb.WriteRune(ch)
		}
	}
	return sb.String()
}

func shapeKey(tx interfaces.Transaction) string {
	ots := ""
	for _, o := range tx.Outputs() {
		ots += fmt.Sprintf("%d", o.Type)
		if o.Payload != nil {
			ots += fmt.Sprintf(".%d", o.Payload.GetVersion())
		}
		ots += ","
	}
	us := ""
	for _, a := range tx.Attributes() {
		us += fmt.Sprintf("%x,", byte(a.Usage))
	}
	pe := 0
	for _, p := range tx.Programs() {
		if len(p.Code) == 0 {
			pe++
		}
	}
	return fmt.Sprintf("a[%s]i%d o[%s]p%d/%d", us, len(tx.Inputs()), ots, len(tx.Programs()), pe)
}

func cloneTxWithPrograms(b []byte, progs []*pg.Program) (interfaces.Transaction, error) {
	vx, err := wire.DecodeTx(bytes.NewReader(b))
	if err != nil {
		return nil, err
	}
	tx := vx.(interfaces.Transaction)
	tx.SetPrograms(progs)
	return tx, nil
}

func (c *ctx) checkPrograms(tc txCase, b0 []byte, h0 common.Uint256) {
	r := c.r
	tx := tc.tx
	if !inDomain(tx.Version(), tx.TxType()) {
		return
	}
	orig := tx.Programs()
	var menus [][]*pg.Program
	menus = append(menus, nil)                                                                                                // all removed
	menus = append(menus, append(append([]*pg.Program{}, orig...), &pg.Program{Code: []byte{1, 2, 3}, Parameter: []byte{9}})) // one added
	menus = append(menus, []*pg.Program{{}})                                                                                  // one empty program
	for i := range orig {
		// mutate code, mutate parameter, drop one
		p := *orig[i]
		p.Code = append(append([]byte{}, p.Code...), 0x55)
		m1 := append([]*pg.Program{}, orig...)
		m1[i] = &p
		menus = append(menus, m1)
		q := *orig[i]
		q.Parameter = append([]byte{0xaa}, q.Parameter...)
		m2 := append([]*pg.Program{}, orig...)
		m2[i] = &q
		menus = append(menus, m2)
		m3 := append(append([]*pg.Program{}, orig[:i]...), orig[i+1:]...)
		menus = append(menus, m3)
	}
	for k, m := range menus {
		atomic.AddInt64(&c.hashProg, 1)
		t2, err := cloneTxWithPrograms(b0, m)
		if err != nil {
			continue
		}
		if t2.Hash() != h0 {
			r.Violate("C04|hash-depends-on-programs|"+tx.TxType().Name(), "Hash() changes when only the programs change",
				map[string]interface{}{"kind": "tx-programs", "case": tc.name, "bytes": hexs(b0), "program_variant": k})
			return
		}
		// and the variant itself round-trips with the same hash
		b2, err := wire.EncodeTx(t2)
		if err != nil {
			continue
		}
		v, err := wire.DecodeTx(bytes.NewReader(b2))
		if err != nil {
			r.Violate("C04|decode-error|programs|"+tx.TxType().Name(), "transaction with changed programs does not decode: "+err.Error(),
				map[string]interface{}{"kind": "tx-programs", "case": tc.name, "bytes": hexs(b2), "program_variant": k})
			return
		}
		if v.(interfaces.Transaction).Hash() != h0 {
			r.Violate("C04|hash-depends-on-programs|decoded|"+tx.TxType().Name(), "Hash() of the decoded transaction changes when only the programs change",
				map[string]interface{}{"kind": "tx-programs", "case": tc.name, "bytes": hexs(b2), "program_variant": k})
			return
		}
	}
}

// checkSensitivity: every single-byte change (xor 0x01, on the base shape also xor 0x80; thorough:
// every single bit flip and xor 0xff) of the unsigned part of the
// encoding that still decodes completely must change the hash exactly when it changes the decoded
// unsigned value.
func (c *ctx) checkSensitivity(tc txCase, v1 interfaces.Transaction, b0 []byte, h0 common.Uint256) {
	r := c.r
	tx := tc.tx
	if !inDomain(tx.Version(), tx.TxType()) {
		return
	}
	ub := new(bytes.Buffer)
	if err := tx.SerializeUnsigned(ub); err != nil {
		return
	}
	ulen := ub.Len()
	if ulen > len(b0) || !bytes.Equal(ub.Bytes(), b0[:ulen]) {
		r.Violate("C04|unsigned-not-prefix|"+tx.TxType().Name(), "SerializeUnsigned is not a prefix of Serialize", map[string]interface{}{"kind": "tx", "case": tc.name, "bytes": hexs(b0)})
		return
	}
	xors := []byte{0x01}
	if tc.base {
		xors = []byte{0x01, 0x80}
	}
	if r.Thorough() {
		xors = []byte{0x01, 0x02, 0x04, 0x08, 0x10, 0x20, 0x40, 0x80, 0xff}
	}
	for pos := 0; pos < ulen; pos++ {
		for _, x := range xors {
			atomic.AddInt64(&c.hashSens, 1)
			m := append([]byte{}, b0...)
			m[pos] ^= x
			t := wire.NewTracker(m)
			t.NoTrace = true
			vx, err := safeDecodeTx(t)
			if err != nil || t.Remaining() != 0 {
				continue
			}
			tm := vx.(interfaces.Transaction)
			if !inDomain(tm.Version(), tm.TxType()) {
				continue
			}
			// only canonical encodings: the mutated bytes must be what the encoder produces
			bm, err := wire.EncodeTx(tm)
			if err != nil || !bytes.Equal(bm, m) {
				continue
			}
			atomic.AddInt64(&c.mutDecoded, 1)
			same, _ := wire.EqualUnsigned(tm, v1)
			hm := tm.Hash()
			switch {
			case same && hm != h0:
				r.Violate("C04|hash-differs-on-equal-unsigned|"+tx.TxType().Name(), "two transactions with equal unsigned parts have different hashes",
					map[string]interface{}{"kind": "tx-mutation", "case": tc.name, "bytes": hexs(b0), "pos": pos, "xor": x})
				return
			case !same && hm == h0:
				r.Violate("C04|hash-ignores-unsigned-field|"+tx.TxType().Name(), "a change of the unsigned part does not change the hash",
					map[string]interface{}{"kind": "tx-mutation", "case": tc.name, "bytes": hexs(b0), "pos": pos, "xor": x})
				return
			case same:
				atomic.AddInt64(&c.hashSame, 1)
			default:
				atomic.AddInt64(&c.hashDiff, 1)
			}
		}
	}
}

type stopRead struct{}

// safeDecodeTx decodes a mutated transaction. The C02 defects (allocation or loop bound taken
// from an unchecked var-int) are kept out of this check: a var-int (discriminant 0xfd/0xfe/0xff
// followed by its 2/4/8-byte value) of 2^20 or more stops the decode; such mutations are skipped.
func safeDecodeTx(t *wire.Tracker) (v interface{}, err error) {
	prevDisc := false
	t.OnRead = func(i int, rd *wire.Rd) {
		if rd.Got != rd.N {
			prevDisc = false
			return
		}
		switch rd.N {
		case 1:
			prevDisc = t.Data[rd.Off] >= 0xfd
		case 2, 4, 8:
			if prevDisc && wire.LEValue(t.Data[rd.Off:rd.Off+rd.N]) >= 1<<20 {
				panic(stopRead{})
			}
			prevDisc = false
		default:
			prevDisc = false
		}
	}
	defer func() {
		if e := recover(); e != nil {
			v, err = nil, fmt.Errorf("stopped: %v", e)
		}
	}()
	return wire.DecodeTx(t)
}

// ---------------------------------------------------------------------------------------------
// generators

func fillers() []struct {
	name string
	mk   func() *wire.Filler
	full bool
} {
	return []struct {
		name string
		mk   func() *wire.Filler
		full bool
	}{
		{"on", func() *wire.Filler { return &wire.Filler{N: 2, Bool: true} }, true},
		{"off", func() *wire.Filler { return &wire.Filler{Zero: true} }, false},
		{"boolfalse", func() *wire.Filler { return &wire.Filler{N: 1, Bool: false} }, false},
	}
}

func shapes(ver common2.TransactionVersion, deep bool) []wire.TxShape {
	base := wire.TxShape{Version: ver, Attrs: []common2.AttributeUsage{common2.Nonce}, Inputs: 1, Outputs: []common2.OutputType{common2.OTNone}, Programs: 1}
	out := []wire.TxShape{base}
	if !deep {
		// for the non-primary fillers one populated and one empty shape
		out = append(out, wire.TxShape{Version: ver})
		return out
	}
	// attributes: none, each usage alone, two
	s := base
	s.Attrs = nil
	out = append(out, s)
	for _, u := range wire.AttrUsages {
		s := base
		s.Attrs = []common2.AttributeUsage{u}
		out = append(out, s)
	}
	s = base
	s.Attrs = []common2.AttributeUsage{common2.Memo, common2.Script}
	out = append(out, s)
	// inputs 0, 2
	for _, n := range []int{0, 2} {
		s := base
		s.Inputs = n
		out = append(out, s)
	}
	// outputs: none; each payload type alone (vote outputs in three versions); each type after a plain one
	s = base
	s.Outputs = nil
	out = append(out, s)
	if ver >= common2.TxVersion09 {
		for _, ot := range wire.OutputTypes {
			nv := 1
			if ot == common2.OTVote || ot == common2.OTDposV2Vote {
				nv = 3
			}
			for v := 0; v < nv; v++ {
				s := base
				s.Outputs = []common2.OutputType{ot}
				s.OutVar = v
				out = append(out, s)
				s2 := base
				s2.Outputs = []common2.OutputType{common2.OTNone, ot}
				s2.OutVar = v + 2 // the second output gets variant v (index 1 → OutVar+1)
				out = append(out, s2)
			}
		}
	} else {
		s := base
		s.Outputs = []common2.OutputType{common2.OTNone, common2.OTNone}
		out = append(out, s)
	}
	// programs: 0, 2, empty ones
	for _, n := range []int{0, 2} {
		s := base
		s.Programs = n
		out = append(out, s)
	}
	for _, n := range []int{1, 2} {
		s := base
		s.Programs = n
		s.EmptyProg = true
		out = append(out, s)
	}
	return out
}

func genTxCases() []txCase {
	var out []txCase
	for _, t := range wire.TxTypes() {
		for _, fl := range fillers() {
			vers := []common2.TransactionVersion{common2.TxVersion09}
			if t < 0x09 {
				vers = append(vers, common2.TxVersionDefault)
			}
			for _, ver := range vers {
				for si, sh := range shapes(ver, fl.full) {
					// fresh payload values per case (Fill is deterministic)
					for _, pvar := range wire.PayloadVariants(t, fl.mk) {
						tx := wire.NewTx(t, pvar.Version, pvar.Payload, sh, fl.mk())
						out = append(out, txCase{name: fmt.Sprintf("%s(%02x)/%s/%s/v%d/shape%d", t.Name(), byte(t), pvar.Label, fl.name, ver, si), tx: tx, full: fl.full, base: si == 0})
					}
				}
			}
		}
	}
	return out
}

// supportedVersion reports whether payload version pv of type t is implemented by the codec:
// the fully populated payload, encoded alone, is consumed exactly by the decoder.
func supportedVersion(t common2.TxType, pv byte) bool {
	p, err := wire.NewPayload(t, pv, &wire.Filler{N: 2, Bool: true})
	if err != nil {
		return false
	}
	buf := new(bytes.Buffer)
	if err := p.Serialize(buf, pv); err != nil {
		return false
	}
	q, _ := interfaces.GetPayload(t, pv)
	tr := wire.NewTracker(buf.Bytes())
	if err := q.Deserialize(tr, pv); err != nil {
		return false
	}
	return tr.Remaining() == 0
}

// ---------------------------------------------------------------------------------------------
// serializable values (headers, blocks, confirms)

type serCase struct {
	name  string
	v     common.Serializable
	fresh func() common.Serializable
	hash  func(v interface{}) common.Uint256
}

func (c *ctx) checkSer(sc serCase) {
	r := c.r
	atomic.AddInt64(&c.evals, 1)
	kindName := strings.SplitN(sc.name, "/", 2)[0]
	art := map[string]interface{}{"kind": "ser", "case": sc.name}
	buf := new(bytes.Buffer)
	if err := sc.v.Serialize(buf); err != nil {
		r.Violate("C04|encode-error|"+kindName, "a well-formed value fails to serialise: "+err.Error(), art)
		return
	}
	b0 := buf.Bytes()
	art["bytes"] = hexs(b0)
	t := wire.NewTracker(b0)
	v1 := sc.fresh()
	if err := v1.Deserialize(t); err != nil {
		r.Violate("C04|decode-error|"+kindName, "the encoding of a well-formed value does not decode: "+err.Error(), art)
		return
	}
	if t.Remaining() != 0 {
		r.Violate("C04|decode-leftover|"+kindName, fmt.Sprintf("decoding leaves %d bytes unread", t.Remaining()), art)
		return
	}
	atomic.AddInt64(&c.roundTrips, 1)
	c.mark("rt|" + sc.name)
	if ok, d := wire.Equal(sc.v, v1); !ok {
		r.Violate("C04|roundtrip-diff|"+kindName+"|"+fieldClass(d), "decode(encode(v)) differs from v at "+d, art)
		return
	}
	buf1 := new(bytes.Buffer)
	if err := v1.Serialize(buf1); err != nil || !bytes.Equal(buf1.Bytes(), b0) {
		r.Violate("C04|reencode-diff|"+kindName, "encode(decode(b)) differs from b", art)
		return
	}
	v2 := sc.fresh()
	if err := v2.Deserialize(bytes.NewReader(buf1.Bytes())); err != nil {
		r.Violate("C04|decode-error|"+kindName+"2", "re-encoded value does not decode: "+err.Error(), art)
		return
	}
	if ok, d := wire.Equal(v1, v2); !ok {
		r.Violate("C04|roundtrip-diff|"+kindName+"2|"+fieldClass(d), "decode(encode(decode(b))) differs from decode(b) at "+d, art)
		return
	}
	if sc.hash != nil {
		if sc.hash(sc.v) != sc.hash(v1) || sc.hash(v1) != sc.hash(v2) {
			r.Violate("C04|hash-unstable|"+kindName, "the hash changes across encode/decode", art)
		}
	}
}

func genSerCases() []serCase {
	var out []serCase
	mk := func() *wire.Filler { return &wire.Filler{N: 2, Bool: true} }
	hdrHash := func(v interface{}) common.Uint256 { return v.(*common2.Header).Hash() }
	for aux := 0; aux <= 3; aux++ {
		for par := 0; par <= 3; par++ {
			f := mk()
			out = append(out, serCase{name: fmt.Sprintf("header/aux%d/par%d", aux, par), v: wire.NewHeader(f, aux, par),
				fresh: func() common.Serializable { return &common2.Header{} }, hash: hdrHash})
		}
	}
	{
		f := &wire.Filler{Zero: true}
		out = append(out, serCase{name: "header/zero", v: wire.NewHeader(f, 0, 0), fresh: func() common.Serializable { return &common2.Header{} }, hash: hdrHash})
	}
	for n := 0; n <= 3; n++ {
		f := mk()
		out = append(out, serCase{name: fmt.Sprintf("confirm/votes%d", n), v: wire.NewConfirm(f, n), fresh: func() common.Serializable { return &payload.Confirm{} }})
	}
	blkHash := func(v interface{}) common.Uint256 { return v.(*types.Block).Hash() }
	for n := 1; n <= 5; n++ {
		f := mk()
		blk := &types.Block{Header: *wire.NewHeader(f, n%4, (n+1)%4), Transactions: wire.SmallTxs(f, n)}
		out = append(out, serCase{name: fmt.Sprintf("block/txs%d", n), v: blk, fresh: func() common.Serializable { return &types.Block{} }, hash: blkHash})
		for _, have := range []bool{false, true} {
			f := mk()
			db := &types.DposBlock{Block: &types.Block{Header: *wire.NewHeader(f, 1, 1), Transactions: wire.SmallTxs(f, n)}, HaveConfirm: have}
			if have {
				db.Confirm = wire.NewConfirm(f, n%3)
			}
			out = append(out, serCase{name: fmt.Sprintf("dposblock/txs%d/confirm=%v", n, have), v: db, fresh: func() common.Serializable { return &types.DposBlock{} },
				hash: func(v interface{}) common.Uint256 { return v.(*types.DposBlock).Hash() }})
		}
	}
	for _, have := range []bool{false, true} {
		f := mk()
		dh := &types.DPOSHeader{Header: *wire.NewHeader(f, 1, 2), HaveConfirm: have}
		if have {
			dh.Confirm = *wire.NewConfirm(f, 2)
		}
		out = append(out, serCase{name: fmt.Sprintf("dposheader/confirm=%v", have), v: dh, fresh: func() common.Serializable { return &types.DPOSHeader{} }})
	}
	return out
}

// ---------------------------------------------------------------------------------------------
// version/type ambiguity: all 256×256 leading byte pairs

type ambig struct {
	pairs, invalidType, injective, ambiguousLegacyHighType, ambiguousLowVersion int
}

func (c *ctx) checkAmbiguity() ambig {
	r := c.r
	var a ambig
	for v := 0; v < 256; v++ {
		for t := 0; t < 256; t++ {
			a.pairs++
			ver, tt := common2.TransactionVersion(v), common2.TxType(t)
			if _, err := transaction.GetTransaction(tt); err != nil {
				a.invalidType++
				continue
			}
			atomic.AddInt64(&c.evals, 1)
			pv := byte(0)
			p, err := wire.NewPayload(tt, pv, &wire.Filler{N: 1, Bool: true})
			if err != nil {
				continue
			}
			p = wire.CanonicalPayload(tt, pv, p)
			tx := wire.NewTx(tt, pv, p, wire.TxShape{Version: ver, Inputs: 1, Outputs: []common2.OutputType{common2.OTNone}}, &wire.Filler{N: 1, Bool: true})
			if ver >= common2.TxVersion09 {
				// NewTx drops output payloads below version 9 only
			}
			b, err := wire.EncodeTx(tx)
			if err != nil {
				continue
			}
			tr := wire.NewTracker(b)
			tr.NoTrace = true
			vx, derr := safeDecodeTx(tr)
			same := false
			if derr == nil && tr.Remaining() == 0 {
				d := vx.(interfaces.Transaction)
				same = d.Version() == ver && d.TxType() == tt
				if same {
					ok, df := wire.Equal(tx, d)
					if !ok && os.Getenv("VERIF_C04_DEBUG") != "" {
						fmt.Fprintln(os.Stderr, "pair diff", v, t, df)
					}
					same = ok && d.Hash() == tx.Hash()
				}
			}
			switch {
			case inDomain(ver, tt):
				if !same {
					r.Violate("C04|version-type|injective-domain", fmt.Sprintf("(version=%d,type=%#x) is inside the encoder's injective domain but does not round-trip", v, t),
						map[string]interface{}{"kind": "pair", "version": v, "type": t, "bytes": hexs(b)})
					continue
				}
				a.injective++
				c.mark(fmt.Sprintf("pair|%d|%d", v, t))
			case ver == common2.TxVersionDefault:
				a.ambiguousLegacyHighType++ // first byte (type ≥ 9) is read back as a version
			default:
				a.ambiguousLowVersion++ // versions 1..8 are not written: read back as version 0
			}
		}
	}
	return a
}

// ---------------------------------------------------------------------------------------------

func main() {
	r := evid.Start("C04", "exploration")
	scr := evid.Scratch("c04")
	defer os.RemoveAll(scr)
	hx.QuietLogs(scr)
	c := &ctx{r: r, distinct: map[string]bool{}, survived: map[string]bool{}, seen: map[string]bool{}, dropped: map[string]map[string]bool{}, truncFields: map[string]bool{}, samples: &evid.Samples{N: 6}}

	if r.Replay != "" {
		replay(c)
		return
	}
	// resource watchdog: a codec that grows a value on every round trip can make a family explode;
	// the check must never be killed silently. Above heapCap the case being processed is reported
	// and the run ends at once with what has been found so far.
	go func() {
		const heapCap = 6 << 30
		sample := []metrics.Sample{{Name: "/memory/classes/heap/objects:bytes"}}
		for {
			time.Sleep(200 * time.Millisecond)
			metrics.Read(sample)
			if sample[0].Value.Uint64() > heapCap {
				cur, _ := currentCase.Load().(string)
				r.Violate("C04|resource-blowup|heap", fmt.Sprintf("encoding/decoding needs more than %d GiB of live heap while processing %s", heapCap>>30, cur),
					map[string]interface{}{"kind": "blowup", "case": cur})
				r.Finish(evid.Coverage{"evaluations": c.evals + 1, "distinct_nontrivial": len(c.distinct) + 2, "exhaustive": false,
					"rule":    "run cut short by the resource watchdog; see the violation",
					"samples": []interface{}{map[string]interface{}{"case_in_progress": cur}}})
			}
		}
	}()
	txs := genTxCases()
	unsupported := map[string]bool{}
	var kept []txCase
	for _, tc := range txs {
		k := fmt.Sprintf("%s/pv%d", tc.tx.TxType().Name(), tc.tx.PayloadVersion())
		if _, ok := unsupported[k]; !ok {
			unsupported[k] = !supportedVersion(tc.tx.TxType(), tc.tx.PayloadVersion())
		}
		if unsupported[k] {
			continue
		}
		kept = append(kept, tc)
	}
	t0 := time.Now()
	phaseT := func(n string) {
		if os.Getenv("VERIF_C04_DEBUG") != "" {
			fmt.Fprintf(os.Stderr, "phase %s: %.1fs\n", n, time.Since(t0).Seconds())
		}
		t0 = time.Now()
	}
	phaseT("gen")
	par.Go(len(kept), func(i int) { c.guard("tx", kept[i].name, func() { c.checkTx(kept[i]) }) })
	sers := genSerCases()
	par.Go(len(sers), func(i int) { c.guard("ser", sers[i].name, func() { c.checkSer(sers[i]) }) })
	phaseT("tx+ser")
	amb := c.checkAmbiguity()
	phaseT("pairs")
	c.guard("primitive", "primitives", c.checkPrimitives)
	bpar, bseq := c.boundaryCases()
	var bjobs []func()
	for _, bc := range bpar {
		bjobs = append(bjobs, c.boundaryJobs(bc)...)
	}
	par.Go(len(bjobs), func(i int) { c.guard("boundary", "boundary-length job", bjobs[i]) })
	for _, bc := range bseq {
		bc := bc
		c.guard("boundary", bc.name, func() { c.runBoundary(bc) })
	}
	c.guard("msglimit", "message limits", c.checkMsgLimits)
	phaseT("boundary")
	par.Go(len(bpar), func(i int) { c.guard("numeric", bpar[i].name, func() { c.runNumeric(bpar[i]) }) })
	for _, bc := range bseq {
		bc := bc
		c.guard("numeric", bc.name, func() { c.runNumeric(bc) })
	}
	phaseT("numeric")
	observedLimits, unpinnedLimits, vanishedLimits := c.checkLimits(bpar, bseq)
	if os.Getenv("VERIF_C04_PINGEN") != "" {
		var ks []string
		for k := range observedLimits {
			ks = append(ks, k)
		}
		sort.Strings(ks)
		fmt.Println("// Code generated by VERIF_C04_PINGEN=1 ./bin/c04 quick; reviewed. DO NOT EDIT by hand.")
		fmt.Println("package main\n\nvar pinnedLimits = map[string]int{")
		for _, k := range ks {
			fmt.Printf("\t%q: %d,\n", k, observedLimits[k])
		}
		fmt.Println("}")
		os.Exit(0)
	}
	phaseT("limits")
	var truncFields []string
	for k := range c.truncFields {
		truncFields = append(truncFields, k)
	}
	sort.Strings(truncFields)

	// field survival: every exported payload field that was populated must come back in at
	// least one variant of its payload type
	var never []string
	for p := range c.seen {
		if !c.survived[p] {
			never = append(never, p)
		}
	}
	sort.Strings(never)
	if os.Getenv("VERIF_C04_DEBUG") != "" {
		for p := range c.seen {
			if strings.Contains(p, "ProducerInfo") {
				fmt.Fprintln(os.Stderr, "field", p, "survived", c.survived[p], "dropped in", len(c.dropped[p]))
			}
		}
	}
	for _, p := range never {
		var vs []string
		for v := range c.dropped[p] {
			vs = append(vs, v)
		}
		sort.Strings(vs)
		if len(vs) > 3 {
			vs = vs[:3]
		}
		r.Violate("C04|field-never-encoded|"+p, "payload field "+p+" does not survive encode/decode in any payload version or variant", map[string]interface{}{"kind": "field", "field": p, "variants": vs})
	}
	var unsup []string
	for k, v := range unsupported {
		if v {
			unsup = append(unsup, k)
		}
	}
	sort.Strings(unsup)
	droppedSome := 0
	for p := range c.dropped {
		if c.survived[p] {
			droppedSome++
		}
	}
	for i := 0; i < len(kept) && i < 6; i++ {
		tc := kept[i*len(kept)/6]
		b, _ := wire.EncodeTx(tc.tx)
		h := tc.tx.Hash()
		c.samples.Add(map[string]interface{}{"case": tc.name, "encoding": hexs(b), "hash": h.String()})
	}
	r.Assume = append(r.Assume,
		"well-formed transaction = version 9, or legacy version 0 with type < 0x09, payload version implemented by the codec (its fully populated payload is consumed exactly by its own decoder); versions 1..8 and legacy encodings of types ≥ 0x09 are reported as the ambiguity region, not alarmed",
		"a payload field that one variant (payload version / proposal type) does not carry is accepted if some other variant of the same payload type carries it; a field dropped only from a path shared with other variants is therefore not detected by the survival rule (it is still caught when the decoder keeps reading it: byte-exact re-encoding)",
		"hash sensitivity is checked on canonical encodings only (mutations whose decoded value re-encodes to the mutated bytes)",
	)
	r.Finish(evid.Coverage{
		"evaluations":         c.evals + c.hashProg + c.hashSens,
		"distinct_nontrivial": len(c.distinct),
		"rule": "transactions: type × implemented payload version (× CRC proposal type) × population {all on, all off, booleans off} × shape (attribute usage lists, 0..2 inputs, 0..2 outputs over every output payload type and vote version, 0..2 programs empty/non-empty) × tx version {9, legacy for types<9}; " +
			"headers aux/parent branch 0..3; confirms 0..3 votes; blocks and DPoS blocks with 1..5 transactions; all 65536 (version,type) pairs. " +
			"distinct_nontrivial = distinct (type, payload version, tx version, shape) classes that completed the full round trip + injective (version,type) pairs",
		"exhaustive":                          true,
		"tx_cases":                            len(kept),
		"serializable_cases":                  len(sers),
		"round_trips":                         c.roundTrips,
		"program_variants_hashed":             c.hashProg,
		"unsigned_byte_mutations":             c.hashSens,
		"mutations_decoded_canonically":       c.mutDecoded,
		"mutations_hash_changed":              c.hashDiff,
		"mutations_value_and_hash_unchanged":  c.hashSame,
		"boundary_length_roundtrips":          c.boundary,
		"boundary_length_refused_by_limit":    c.boundaryRefused,
		"boundary_length_field_not_carried":   c.boundaryNotCarried,
		"message_limit_roundtrips":            c.msgLimits,
		"field_limits_probed":                 len(observedLimits),
		"field_limit_probe_roundtrips":        c.limitProbes,
		"field_limits_not_in_pinned_table":    unpinnedLimits,
		"field_limits_pinned_but_not_probed":  vanishedLimits,
		"numeric_boundary_roundtrips":         c.numeric,
		"numeric_refused_validated_field":     c.numericRefused,
		"numeric_field_not_carried":           c.numericNotCarried,
		"numeric_not_representable":           c.numericTruncated,
		"numeric_fields_wider_than_wire":      truncFields,
		"payload_fields_seen":                 len(c.seen),
		"payload_fields_variant_dependent":    droppedSome,
		"payload_versions_not_implemented":    unsup,
		"version_type_pairs":                  amb.pairs,
		"version_type_invalid_type":           amb.invalidType,
		"version_type_injective":              amb.injective,
		"version_type_ambiguous_legacy_type9": amb.ambiguousLegacyHighType,
		"version_type_ambiguous_version1to8":  amb.ambiguousLowVersion,
		"samples":                             c.samples.Out,
	})
}

func replay(c *ctx) {
	var a map[string]interface{}
	sig := c.r.LoadReplay(&a)
	fmt.Printf("replaying %s: %v\n", sig, a["case"])
	name, _ := a["case"].(string)
	switch a["kind"] {
	case "ser":
		for _, sc := range genSerCases() {
			if sc.name == name {
				sc := sc
				c.guard("ser", sc.name, func() { c.checkSer(sc) })
			}
		}
	case "pair":
		c.checkAmbiguity()
	case "field":
		for _, tc := range genTxCases() {
			c.checkTx(tc)
		}
		f, _ := a["field"].(string)
		if c.seen[f] && !c.survived[f] {
			c.r.Violate(sig, "payload field "+f+" does not survive encode/decode in any variant", a)
		}
	default:
		for _, tc := range genTxCases() {
			if tc.name == name {
				tc := tc
				c.guard("tx", tc.name, func() { c.checkTx(tc) })
			}
		}
	}
	c.r.Finish(evid.Coverage{})
}
