package main

import (
	"fmt"
	"os"
	"runtime/pprof"

	"verif/chainkit"
)

func main() {
	if len(os.Args) > 1 && os.Args[1] == "--cost" {
		f, _ := os.Create("/tmp/ck.prof")
		pprof.StartCPUProfile(f)
		r, err := chainkit.Cost(30)
		pprof.StopCPUProfile()
		fmt.Printf("%+v err=%v\n", r, err)
		chainkit.Cleanup()
		return
	}
}
