// C27: DPoS reward distribution never pays out more than the pool.
//
// Real code driven: dpos/state Arbiters.distributeDPOSReward (and through it
// distributeWithNormalArbitratorsV0..V3) via the verif hook dpos/state/export_verif_c27.go, on a
// real Arbiters built by state.NewArbitrators whose current arbiters / candidates / CRC map /
// CurrentReward are set by the harness with the repository's own constructors
// (NewCRCArbiter, NewDPoSArbiter).
//
// The oracle is independent big.Int bookkeeping over the returned (roundReward, change, err).
package main

import (
	"fmt"
	"math/big"
	"os"
	"sort"
	"strings"
	"sync/atomic"

	"github.com/elastos/Elastos.ELA/common"
	"github.com/elastos/Elastos.ELA/common/config"
	"github.com/elastos/Elastos.ELA/core/checkpoint"
	"github.com/elastos/Elastos.ELA/core/types/payload"
	crstate "github.com/elastos/Elastos.ELA/cr/state"
	"github.com/elastos/Elastos.ELA/dpos/state"

	"verif/dposkit"
	"verif/evid"
	"verif/hx"
	"verif/par"
)

const (
	cfgCRC    = 2 // configured CRC arbiters
	cfgNormal = 3 // configured normal arbiters
	hV1       = 1000
	hV2       = 2000
	hV3       = 3000
)

// caseT is one input (also the replay artefact).
type caseT struct {
	Era    int      `json:"era"`              // 0..3 = distributeWithNormalArbitratorsV0..V3 (selected by height)
	Normal int      `json:"normal_seats"`     // configured NormalArbitratorsCount (0 = 3); with 1 the sitting arbiters can outnumber the 2+1 configured seats
	POW    bool     `json:"pow"`              // consensus algorithm POW (only read by V3)
	CRC    []string `json:"crc"`              // kinds of current CRC arbiters: key | nokey | out
	DPoS   int      `json:"dpos"`             // number of current DPoS (elected producer) arbiters
	Cand   int      `json:"candidates"`       // number of candidates
	Shared bool     `json:"shared_candidate"` // candidate 0 has the owner key of DPoS arbiter 0
	Mapped bool     `json:"nokey_mapped"`     // CRC arbiters without DPoS key are mapped (CurrentCRNodeOwnerKeys) to a producer with its own votes
	Votes  []int64  `json:"votes"`            // one entry per vote slot (DPoS arbiters, candidates, mapped producers)
	Reward int64    `json:"reward"`
}

func (c *caseT) String() string {
	return fmt.Sprintf("era=V%d seats=%d+%d pow=%v crc=[%s] dpos=%d cand=%d shared=%v mapped=%v votes=%v reward=%d",
		c.Era, cfgCRC, c.normal(), c.POW, strings.Join(c.CRC, ","), c.DPoS, c.Cand, c.Shared, c.Mapped, c.Votes, c.Reward)
}

func (c *caseT) normal() int {
	if c.Normal == 0 {
		return cfgNormal
	}
	return c.Normal
}

type world struct {
	a       *state.Arbiters
	params  *config.Configuration
	crcOwn  []*dposkit.Key
	crcNode []*dposkit.Key
	prodOwn []*dposkit.Key
	prodNod []*dposkit.Key
	candOwn []*dposkit.Key
	candNod []*dposkit.Key
	asgOwn  []*dposkit.Key

	shape    string
	slotHash []common.Uint168 // owner program hash of every vote slot of the current shape
	height   uint32
}

func newWorld() *world {
	w := &world{
		crcOwn: dposkit.Keys("crcowner", 2), crcNode: dposkit.Keys("crcnode", 2),
		prodOwn: dposkit.Keys("prod", 3), prodNod: dposkit.Keys("prodnode", 3),
		candOwn: dposkit.Keys("cand", 2), candNod: dposkit.Keys("candnode", 2),
		asgOwn: dposkit.Keys("assigned", 2),
	}
	p := config.GetDefaultParams()
	p.DPoSConfiguration.CRCArbiters = []string{w.crcNode[0].Hex(), w.crcNode[1].Hex()}
	p.DPoSConfiguration.NormalArbitratorsCount = cfgNormal
	p.PublicDPOSHeight = 100 // clearingDPOSReward does nothing below it
	p.CRConfiguration.CRCommitteeStartHeight = hV1
	p.CRConfiguration.CRClaimDPOSNodeStartHeight = hV2
	p.CRConfiguration.ChangeCommitteeNewCRHeight = hV3
	w.params = p
	a, err := state.NewArbitrators(p, nil, nil, nil, nil, nil, nil, nil, nil, checkpoint.NewManager(p))
	if err != nil {
		evid.Fatalf("NewArbitrators: %v", err)
	}
	w.a = a
	return w
}

func slots(c *caseT) int {
	n := c.DPoS + c.Cand
	if c.Shared {
		n--
	}
	if c.Mapped {
		for _, k := range c.CRC {
			if k == "nokey" {
				n++
			}
		}
	}
	return n
}

func hashOf(k *dposkit.Key) common.Uint168 {
	h, err := state.GetOwnerKeyStandardProgramHash(k.PK)
	if err != nil {
		evid.Fatalf("program hash: %v", err)
	}
	return *h
}

// shapeKey identifies everything of a case except votes and reward.
func shapeKey(c *caseT) string {
	return fmt.Sprintf("%d|%d|%v|%s|%d|%d|%v|%v", c.Era, c.normal(), c.POW, strings.Join(c.CRC, ","), c.DPoS, c.Cand, c.Shared, c.Mapped)
}

// setup installs the case into the Arbiters (members are rebuilt only when the shape changes:
// the constructors decompress public keys) and returns the height selecting the era.
func (w *world) setup(c *caseT) uint32 {
	if k := shapeKey(c); k != w.shape {
		w.setupShape(c)
		w.shape = k
	}
	if len(w.slotHash) != len(c.Votes) {
		evid.Fatalf("case %s: %d vote slots, %d votes", c, len(w.slotHash), len(c.Votes))
	}
	votes := make(map[common.Uint168]common.Fixed64, len(c.Votes))
	total := common.Fixed64(0)
	for i, h := range w.slotHash {
		votes[h] = common.Fixed64(c.Votes[i])
		total += common.Fixed64(c.Votes[i])
	}
	w.a.CurrentReward = state.RewardData{OwnerVotesInRound: votes, TotalVotesInRound: total}
	return w.height
}

func (w *world) setupShape(c *caseT) {
	a := w.a
	var cur, cand []state.ArbiterMember
	crcMap := map[common.Uint168]state.ArbiterMember{}
	nodeOwner := map[string]string{}
	w.slotHash = nil
	take := func(h common.Uint168) { w.slotHash = append(w.slotHash, h) }
	var nokey []int
	for i, kind := range c.CRC {
		m := &crstate.CRMember{MemberState: crstate.MemberElected}
		m.Info = payload.CRInfo{Code: w.crcOwn[i].Code(), NickName: fmt.Sprintf("cr%d", i)}
		switch kind {
		case "key":
			m.DPOSPublicKey = w.crcNode[i].PK
		case "nokey":
			nokey = append(nokey, i)
		case "out":
			m.MemberState = crstate.MemberImpeached
			m.DPOSPublicKey = w.crcNode[i].PK
		default:
			evid.Fatalf("bad crc kind %q", kind)
		}
		ar, err := state.NewCRCArbiter(w.crcNode[i].PK, w.crcOwn[i].PK, m, kind != "out")
		if err != nil {
			evid.Fatalf("NewCRCArbiter: %v", err)
		}
		cur = append(cur, ar)
		crcMap[ar.GetOwnerProgramHash()] = ar
	}
	for i := 0; i < c.DPoS; i++ {
		p := &state.Producer{}
		p.SetInfo(payload.ProducerInfo{OwnerKey: w.prodOwn[i].PK, NodePublicKey: w.prodNod[i].PK, NickName: fmt.Sprintf("p%d", i)})
		ar, err := state.NewDPoSArbiter(p)
		if err != nil {
			evid.Fatalf("NewDPoSArbiter: %v", err)
		}
		cur = append(cur, ar)
		take(ar.GetOwnerProgramHash())
	}
	for i := 0; i < c.Cand; i++ {
		own, nod := w.candOwn[i], w.candNod[i]
		if i == 0 && c.Shared {
			own = w.prodOwn[0]
		}
		p := &state.Producer{}
		p.SetInfo(payload.ProducerInfo{OwnerKey: own.PK, NodePublicKey: nod.PK, NickName: fmt.Sprintf("c%d", i)})
		ar, err := state.NewDPoSArbiter(p)
		if err != nil {
			evid.Fatalf("NewDPoSArbiter: %v", err)
		}
		cand = append(cand, ar)
		if !(i == 0 && c.Shared) {
			take(ar.GetOwnerProgramHash())
		}
	}
	if c.Mapped {
		for _, i := range nokey {
			nodeOwner[w.crcNode[i].Hex()] = w.asgOwn[i].Hex()
			take(hashOf(w.asgOwn[i]))
		}
	}
	w.params.DPoSConfiguration.NormalArbitratorsCount = c.normal()
	a.CurrentArbitrators = cur
	a.CurrentCandidates = cand
	a.CurrentCRCArbitersMap = crcMap
	a.State.CurrentCRNodeOwnerKeys = nodeOwner
	a.State.ConsensusAlgorithm = state.DPOS
	if c.POW {
		a.State.ConsensusAlgorithm = state.POW
	}
	n := uint32(len(cur))
	switch c.Era {
	case 0:
		w.height = hV1 / 2
	case 1:
		w.height = hV1 + 2*n
	case 2:
		w.height = hV2 + 2*n
	default:
		w.height = hV3 + 2*n
	}
}

type counters struct {
	evals, ok, errs, destroyAll, multi, topUp, zeroTotal, beyond, beyondBad int64
}

// eval runs one case against the real code and applies the oracle.
func (w *world) eval(sk *dposkit.Sink, c *caseT, ct *counters, verbose bool) {
	height := w.setup(c)
	informational := c.Reward > supplyBound
	if informational {
		atomic.AddInt64(&ct.beyond, 1)
	} else {
		atomic.AddInt64(&ct.evals, 1)
	}
	total := w.a.CurrentReward.TotalVotesInRound
	class := "positive-total-votes"
	if total == 0 {
		class = "zero-total-votes"
		atomic.AddInt64(&ct.zeroTotal, 1)
	}
	round, change, err := w.a.VerifDistributeDPOSReward(height, common.Fixed64(c.Reward))
	if verbose {
		fmt.Printf("case %s\n  height %d total votes %d -> err=%v change=%d\n", c, height, int64(total), err, int64(change))
		var ks []string
		for k, v := range round {
			ks = append(ks, fmt.Sprintf("    %s: %d", k.String(), int64(v)))
		}
		sort.Strings(ks)
		fmt.Println(strings.Join(ks, "\n"))
	}
	if err != nil {
		atomic.AddInt64(&ct.errs, 1)
		if len(round) != 0 || change != 0 {
			sk.Violate("C27|paid-on-error|"+class, fmt.Sprintf("distributeDPOSReward returned an error together with %d payouts / change %d (%s)", len(round), int64(change), c), c)
		}
		return
	}
	atomic.AddInt64(&ct.ok, 1)
	sum := new(big.Int)
	neg, positive := 0, 0
	var worst int64
	recipients := new(big.Int) // payouts to anything but the destroy address
	for k, v := range round {
		sum.Add(sum, big.NewInt(int64(v)))
		if !k.IsEqual(*w.params.DestroyELAProgramHash) {
			recipients.Add(recipients, big.NewInt(int64(v)))
		}
		if v < 0 {
			neg++
			if int64(v) < worst {
				worst = int64(v)
			}
		}
		if v > 0 {
			positive++
		}
	}
	reward := big.NewInt(c.Reward)
	if informational {
		// inputs beyond the coin supply: float64 rounding is expected to bite; counted, never a verdict
		if neg > 0 || change < 0 || int64(change) > c.Reward || sum.Cmp(reward) > 0 {
			atomic.AddInt64(&ct.beyondBad, 1)
		}
		return
	}
	if neg > 0 && !sk.Seen("C27|negative-payout|"+class) {
		sk.Violate("C27|negative-payout|"+class, fmt.Sprintf("%d negative payout(s), lowest %d, returned without error (%s)", neg, worst, c), c)
	}
	if change < 0 && !sk.Seen("C27|negative-change|"+class) {
		sk.Violate("C27|negative-change|"+class, fmt.Sprintf("change %d < 0 returned without error (%s)", int64(change), c), c)
	}
	if int64(change) > c.Reward && !sk.Seen("C27|paid-amount-negative|"+class) {
		sk.Violate("C27|paid-amount-negative|"+class, fmt.Sprintf("change %d exceeds the reward %d, i.e. the amount attributed as paid is negative (%s)", int64(change), c.Reward, c), c)
	}
	if sum.Cmp(reward) > 0 && !sk.Seen("C27|payouts-exceed-reward|"+class) {
		sk.Violate("C27|payouts-exceed-reward|"+class, fmt.Sprintf("payouts sum to %s > reward %d (%s)", sum, c.Reward, c), c)
	}
	// what reaches real recipients plus the remainder carried forward must fit into the pool
	// (destroy-address entries are left out: V2/V3 add burn top-ups for unfilled seats on purpose)
	if neg == 0 && change >= 0 && new(big.Int).Add(recipients, big.NewInt(int64(change))).Cmp(reward) > 0 && !sk.Seen("C27|recipients-plus-change-exceed-reward|"+class) {
		sk.Violate("C27|recipients-plus-change-exceed-reward|"+class, fmt.Sprintf("payouts to non-destroy addresses %s + change %d > reward %d: paid amount understated (%s)", recipients, int64(change), c.Reward, c), c)
	}
	// informational (not a verdict): coinbase spends payouts + change
	if neg == 0 && change >= 0 && new(big.Int).Add(sum, big.NewInt(int64(change))).Cmp(reward) > 0 {
		atomic.AddInt64(&ct.topUp, 1)
	}
	if positive >= 2 {
		atomic.AddInt64(&ct.multi, 1)
	}
	if len(round) == 1 && positive <= 1 && sum.Cmp(reward) == 0 {
		atomic.AddInt64(&ct.destroyAll, 1)
	}
}

// supplyBound: amounts above the coin supply (about 2.8e15 sela < 2^52) cannot occur as votes of
// a producer or as an accumulated reward; 2^51+1 is the "huge" value of the verdict alphabets.
const supplyBound = int64(1) << 52

var voteAlphabet = []int64{0, 1, 3, 100000000, 1<<51 + 1}

// voteAlphabetSmall is used in quick tier for shapes in which the code under test derives a
// program hash per elected CRC arbiter (0.4 ms each: public key decompression).
var voteAlphabetSmall = []int64{0, 1, 1<<51 + 1}
var voteAlphabetMid = []int64{0, 1, 100000000, 1<<51 + 1} // same shapes, thorough tier
var rewardAlphabet = []int64{0, 1, 2, 3, 7, 100000001, 100000000000, 130000000000, 1000000000000, 1<<51 + 1}

// rewardBeyond (thorough tier, informational only): rewards beyond the supply, where float64
// arithmetic is no longer exact.
var rewardBeyond = []int64{1<<53 + 1, 1 << 62}

// expensive reports whether the shape makes the code decompress public keys.
func expensive(c *caseT) bool {
	if c.Era == 0 {
		return false
	}
	for _, k := range c.CRC {
		if k == "key" || (k == "nokey" && c.Era != 2) {
			return true
		}
	}
	return false
}

// shapes enumerates every (era, pow, crc kinds, dpos, cand, shared, mapped) combination.
func shapes() []caseT {
	var crcSets [][]string
	kinds := []string{"key", "nokey", "out"}
	crcSets = append(crcSets, nil)
	for _, a := range kinds {
		crcSets = append(crcSets, []string{a})
	}
	for _, a := range kinds {
		for _, b := range kinds {
			crcSets = append(crcSets, []string{a, b})
		}
	}
	var out []caseT
	for _, normal := range []int{cfgNormal, 1} {
		for era := 0; era < 4; era++ {
			for _, pow := range []bool{false, true} {
				if pow && era != 3 {
					continue // only V3 reads the consensus algorithm (stated in check.json)
				}
				for _, crc := range crcSets {
					hasNoKey := false
					for _, k := range crc {
						hasNoKey = hasNoKey || k == "nokey"
					}
					for d := 0; d <= 3; d++ {
						for cand := 0; cand <= 2; cand++ {
							for _, shared := range []bool{false, true} {
								if shared && (cand == 0 || d == 0) {
									continue
								}
								for _, mapped := range []bool{false, true} {
									if mapped && !hasNoKey {
										continue
									}
									out = append(out, caseT{Era: era, Normal: normal, POW: pow, CRC: crc, DPoS: d, Cand: cand, Shared: shared, Mapped: mapped})
								}
							}
						}
					}
				}
			}
		}
	}
	return out
}

func main() {
	r := evid.Start("C27", "exploration")
	scr := evid.Scratch("c27")
	finish := func(c evid.Coverage) { os.RemoveAll(scr); r.Finish(c) }
	hx.QuietLogs(scr)

	if r.Replay != "" {
		var probe struct {
			Kind string `json:"kind"`
		}
		r.LoadReplay(&probe)
		if probe.Kind == "clearing" {
			var c clearingCase
			sig := r.LoadReplay(&c)
			fmt.Println("replay", sig)
			var sk dposkit.Sink
			newWorld().evalClearing(&sk, &c)
			sk.MergeInto(r)
			finish(evid.Coverage{})
		}
		var c caseT
		sig := r.LoadReplay(&c)
		fmt.Println("replay", sig)
		var ct counters
		var sk dposkit.Sink
		newWorld().eval(&sk, &c, &ct, true)
		sk.MergeInto(r)
		finish(evid.Coverage{})
	}

	sh := shapes()
	quick := r.Quick()
	rewards := rewardAlphabet
	if !quick {
		rewards = append(append([]int64{}, rewardAlphabet...), rewardBeyond...)
	}
	var sinks []dposkit.Sink
	var ct counters
	nw := par.Workers()
	worlds := make(chan *world, nw)
	for i := 0; i < nw; i++ {
		worlds <- newWorld()
	}
	// jobs: one per (shape, value of the first vote slot) so that the large vote spaces are
	// spread over the workers; sinks are per job and merged in job order.
	type job struct{ shape, first int }
	var jobs []job
	alpha := func(base *caseT) []int64 {
		if expensive(base) || base.normal() != cfgNormal {
			if quick {
				return voteAlphabetSmall
			}
			return voteAlphabetMid
		}
		return voteAlphabet
	}
	for i := range sh {
		if slots(&sh[i]) == 0 {
			jobs = append(jobs, job{i, -1})
			continue
		}
		for f := range alpha(&sh[i]) {
			jobs = append(jobs, job{i, f})
		}
	}
	sinks = make([]dposkit.Sink, len(jobs))
	par.Go(len(jobs), func(j int) {
		w := <-worlds
		defer func() { worlds <- w }()
		base := sh[jobs[j].shape]
		n := slots(&base)
		va := alpha(&base)
		idx := make([]int, n)
		if n > 0 {
			idx[0] = jobs[j].first
		}
		for {
			c := base
			c.Votes = make([]int64, n)
			for k := range idx {
				c.Votes[k] = va[idx[k]]
			}
			for _, rew := range rewards {
				cc := c
				cc.Reward = rew
				w.eval(&sinks[j], &cc, &ct, false)
			}
			k := 1 // slot 0 is fixed by the job
			for ; k < n; k++ {
				idx[k]++
				if idx[k] < len(va) {
					break
				}
				idx[k] = 0
			}
			if k >= n {
				break
			}
		}
	})
	for i := range sinks {
		sinks[i].MergeInto(r)
	}
	var skB dposkit.Sink
	clEvals, clOK := clearingFamily(&skB, sh)
	skB.MergeInto(r)
	samples := []interface{}{}
	for _, c := range []caseT{
		{Era: 0, CRC: []string{"key"}, DPoS: 2, Cand: 1, Votes: []int64{3, 1, 100000000}, Reward: 100000001},
		{Era: 2, CRC: []string{"key", "out"}, DPoS: 3, Cand: 2, Shared: true, Votes: []int64{1, 3, 0, 1<<51 + 1}, Reward: 1<<51 + 1},
		{Era: 3, CRC: []string{"nokey"}, DPoS: 1, Cand: 0, Mapped: true, Votes: []int64{3, 1}, Reward: 7},
	} {
		samples = append(samples, c)
	}
	r.Assume = append(r.Assume,
		"vote data are consistent, as snapshotVotesStates produces them: TotalVotesInRound = sum of the votes of the participating owner hashes (a total of zero therefore means every participant has zero votes)",
		"votes per producer and rewards are bounded by the coin supply (largest value 2^51+1 sela); rewards 2^53+1 and 2^62 are evaluated in thorough tier as information only (float64 rounding then lets payouts exceed the reward by a few dozen sela)",
		"shapes in which the code derives a program hash per elected CRC arbiter (0.4 ms each) use the vote alphabet {0,1,2^51+1} in quick tier and {0,1,10^8,2^51+1} in thorough tier; all other shapes use the full alphabet",
		"the consensus-algorithm flag is varied only in the V3 era (the only rule that reads it)",
		"float64 -> int64 conversion of NaN/Inf is the platform's (amd64: MinInt64)",
		"payouts + change <= reward (what the coinbase spends in total) is counted but NOT part of the verdict: V2/V3 add destroy-address top-ups for unfilled arbiter seats that are not included in the amount attributed as paid")
	finish(evid.Coverage{
		"evaluations":          ct.evals + clEvals,
		"clearing_evaluations": clEvals,
		"clearing_succeeded":   clOK,
		"distinct_nontrivial":  ct.multi,
		"rule":                 fmt.Sprintf("every shape {era V0..V3 (by height) x [POW flag in V3] x current CRC arbiters: all sequences of length 0..2 over {elected+DPoS key, elected without DPoS key, impeached} x DPoS arbiters 0..3 x candidates 0..2 x [candidate 0 shares the owner key of DPoS arbiter 0] x [key-less CRC arbiters mapped to a producer with its own votes]} (%d shapes; configured seats: %d CRC + {%d, 1} normal — with 1 normal seat the sitting arbiters equal the configured seats or exceed them by 1 and 2) x every vote vector over %v (%v quick / %v thorough for shapes with elected CRC arbiters and for the 1-normal-seat shapes; one entry per distinct participant) x every reward in %v. non-trivial = successful distributions with at least two positive payouts (cases are distinct by construction). Family B (round end): clearingDPOSReward for smoothClearing in {true,false} x every 3-normal-seat shape (all participants 3 votes) x accumulated in {0,1,7,10^8+1,10^11} x block fees {0,1 ELA}: payouts to non-destroy addresses + change + carried-forward reward <= accumulated + block reward, nothing negative", len(sh), cfgCRC, cfgNormal, voteAlphabet, voteAlphabetSmall, voteAlphabetMid, rewardAlphabet),
		"exhaustive":           true,
		"shapes":               len(sh),
		"succeeded":            ct.ok,
		"returned_error":       ct.errs,
		"zero_total_votes":     ct.zeroTotal,
		"whole_reward_to_one":  ct.destroyAll,
		"two_or_more_payouts":  ct.multi,
		"informational_payouts_plus_change_exceed_reward": ct.topUp,
		"informational_beyond_supply_evaluations":         ct.beyond,
		"informational_beyond_supply_oracle_failures":     ct.beyondBad,
		"samples": samples,
	})
}
