// Package chainkit is the node-tier fixture: an in-process regnet-style full node assembled the
// way the repository's own benchmark/tools/generator/chain and main.go do it — real
// blockchain.BlockChain + ChainStore (ffldb + leveldb on a scratch directory under /dev/shm),
// dpos/state.Arbiters, cr/state.Committee, mempool.TxPool, checkpoint manager with saving
// disabled, blockchain.DefaultLedger — plus a deterministic block/transaction factory.
//
// # API (keep it small; other checks import this)
//
//	Setup()                                process-wide one-time wiring (logger, tx factory functions,
//	                                       event dispatcher); called implicitly by NewNode
//	NewNode(cfg) (*Node, error) / Close()  one live node per process at a time (the repository uses the
//	                                       globals blockchain.DefaultLedger, config.DefaultParams,
//	                                       blockchain.FoundationAddress and the events registry);
//	                                       shard over worker processes with par.Procs
//	n.BuildBlock(parent, txs, forkID)      next block on parent containing exactly txs (no miner
//	                                       filtering: conflicting / unknown-input transactions are
//	                                       included as given); cached by (parent, tx ids, forkID)
//	n.SignedTransfer(from, ins, outs, salt) TransferAsset signed by one harness key (SignedTransferInputs:
//	                                       explicit Sequence per input)
//	n.ProcessBlock(b) (inMain, orphan, err) BlockChain.ProcessBlock on a private copy of b
//	n.Tip() / Height() / BlockHashAt(h) / ActiveChain()
//	n.Submit(tx) / PoolHashes() / PoolTxs() mempool access (TxPool.AppendToTxPoolWithoutEvent)
//	n.Unspent(txid)                        ChainStoreFFLDB.GetUnspent
//	n.Digest()                             canonical state: active chain hashes, sorted unspent index
//	                                       of every transaction the factory ever produced, sorted
//	                                       pool hashes
//	Key(name) / n.Genesis() / NewParams(cfg) harness-owned fixed keys; genesis and parameters of a regime
//	KnownTxs() / KnownTx(id) / KnownBlock(h) registry of everything the factory produced (reference models
//	                                       resolve active-chain hashes through it)
//	CopyBlock / CopyTx                     private deep copies through the wire encoding
//	n.Connected / n.Disconnected / n.OnEvent chain events seen while the node was live
//
// Search support (pool.go, bfs.go): Serve/StartPool/Pool.Map keep N warm worker processes of the
// check binary; System + BFSHandler + BFS + RunHistory are a level-synchronous breadth-first
// search with a global digest memo (fresh System per transition, failing histories confirmed
// twice, clean replays must reproduce the recorded digest); Budget(def) is the internal time cap
// (VERIF_BUDGET_S overrides).
//
// # Regimes
//
// PurePoW (default): RegNet parameters with every DPoS/CR activation height far above anything a
// check explores (VoteStartHeight 170000, CRCOnlyDPOSHeight 211000, PublicDPOSHeight 231500,
// RevertToPOWStartHeight 706240, …), PowLimitBits 0x207fffff (difficulty never retargets,
// blockchain/difficulty.go), CoinbaseMaturity shrunk to Config.CoinbaseMaturity (it is a
// parameter), foundation / miner / CRC arbiter keys owned by the harness. Config.Tweak edits the
// parameter set before the node is assembled (second regimes are expressed this way).
//
// # Determinism
//
// Nothing in a block hash or transaction hash comes from a clock or a PRNG: timestamp =
// genesis + 2·height + (forkID mod 2) (always above the median of the previous 11 blocks, so any
// forkID is usable at any height); the coinbase nonce attribute is sha256(parent hash, forkID)[:8]
// (pow.Service.CreateCoinbaseTx draws rand.Uint64 and is not used; reward amounts come from the
// real pow.Service.AssignCoinbaseTxRewards); the merged-mining proof is auxpow.GenerateAuxPow
// with its parent-header timestamp overwritten by the block timestamp and the parent nonce
// solved by a plain loop (no ticker). ECDSA signatures are randomised by the repository's signer
// but are not part of any hash. The same (parent, txs, forkID) therefore yields the same block
// in every process, and a block can be delivered in any order to any fresh node.
//
// # Pool wiring
//
// With Config.NoPoolWiring unset the node reacts to chain events exactly like
// elanet/netsync.SyncManager.handleBlockchainEvents does (ETBlockProcessed →
// CheckAndCleanAllTransactions; ETBlockConnected → CleanSubmittedTransactions +
// UTXOCache.CleanTxCache; ETBlockDisconnected → MaybeAcceptTransaction / RemoveTransaction), so
// "the node's own post-block cleanup" has run when ProcessBlock returns.
//
// # Cost (measured on this image, /dev/shm, while other builders kept the 16 cores at load 40-120)
//
// A fresh node is dominated by the six 4 MiB goleveldb memtables that blockchain.NewChainStore /
// ffldb allocate and clear (72% of the CPU profile), i.e. by how fast this VM hands out memory:
// NewNode+Close ≈ 5-12 ms once the process heap is warm and resident (GOMAXPROCS=1,
// GODEBUG=madvdontneed=0 — what Pool sets), 40-70 ms when the heap is being re-faulted
// (GOGC=off, large GOGC), 100-600 ms for the first ~10 nodes of a process (hence Pool instead
// of one process per job). ProcessBlock: coinbase-only block 0.9-2 ms, block with two signed
// transfers 2-3 ms; BuildBlock (uncached) 0.1-0.4 ms; Digest 0.02-0.7 ms. End to end a
// transition (fresh node, 4-block prefix, <= 5 operations, oracles, close) costs 15-25 ms of CPU
// in steady state; under the load above the 16 workers together sustained 50-70 transitions/s.
// Cost(k) re-measures.
package chainkit

import (
	"bytes"
	"crypto/sha256"
	"encoding/binary"
	"encoding/hex"
	"errors"
	"fmt"
	"math"
	"os"
	"path/filepath"
	"sort"
	"strings"
	"sync"
	"time"

	"github.com/elastos/Elastos.ELA/account"
	"github.com/elastos/Elastos.ELA/auxpow"
	"github.com/elastos/Elastos.ELA/blockchain"
	"github.com/elastos/Elastos.ELA/common"
	"github.com/elastos/Elastos.ELA/common/config"
	"github.com/elastos/Elastos.ELA/core"
	"github.com/elastos/Elastos.ELA/core/checkpoint"
	"github.com/elastos/Elastos.ELA/core/contract/program"
	"github.com/elastos/Elastos.ELA/core/transaction"
	"github.com/elastos/Elastos.ELA/core/types"
	common2 "github.com/elastos/Elastos.ELA/core/types/common"
	"github.com/elastos/Elastos.ELA/core/types/functions"
	"github.com/elastos/Elastos.ELA/core/types/interfaces"
	"github.com/elastos/Elastos.ELA/core/types/outputpayload"
	"github.com/elastos/Elastos.ELA/core/types/payload"
	crstate "github.com/elastos/Elastos.ELA/cr/state"
	"github.com/elastos/Elastos.ELA/crypto"
	"github.com/elastos/Elastos.ELA/dpos/state"
	"github.com/elastos/Elastos.ELA/events"
	"github.com/elastos/Elastos.ELA/mempool"
	"github.com/elastos/Elastos.ELA/p2p"
	"github.com/elastos/Elastos.ELA/pow"

	"verif/evid"
	"verif/hx"
)

// PowLimitBits is the regnet "instant block" difficulty: every block carries the same work.
const PowLimitBits = 0x207fffff

// Config selects the parameter regime of a node.
type Config struct {
	// CoinbaseMaturity overrides PowConfiguration.CoinbaseMaturity (0 = 1 block).
	CoinbaseMaturity uint32
	// Tweak edits the parameters (already RegNet + PoW limit + harness keys) before the genesis
	// block is derived and the node is assembled.
	Tweak func(p *config.Configuration)
	// NoPoolWiring leaves chain events unconnected to the pool.
	NoPoolWiring bool
}

// Node is one live in-process node.
type Node struct {
	Params    *config.Configuration
	Chain     *blockchain.BlockChain
	Store     blockchain.IChainStore
	Arbiters  *state.Arbiters
	Committee *crstate.Committee
	Pool      *mempool.TxPool
	Ckp       *checkpoint.Manager
	Pow       *pow.Service

	// Events counts the chain events seen by the dispatcher while this node was live.
	Connected, Disconnected int
	// OnEvent, if set, sees every event after the pool wiring ran.
	OnEvent func(e *events.Event)

	dir    string
	wired  bool
	closed bool
}

var (
	setupOnce sync.Once
	logDir    string
	current   *Node // the live node (events are dispatched to it)
	curMu     sync.Mutex
)

// Setup performs the process-wide wiring. Safe to call repeatedly.
func Setup() {
	setupOnce.Do(func() {
		logDir = evid.Scratch("cklog")
		hx.QuietLogs(logDir)
		functions.GetTransactionByTxType = transaction.GetTransaction
		functions.GetTransactionByBytes = transaction.GetTransactionByBytes
		functions.CreateTransaction = transaction.CreateTransaction
		functions.GetTransactionParameters = transaction.GetTransactionparameters
		events.Subscribe(dispatch)
	})
}

// Cleanup removes process-wide scratch (call at the end of main / of a worker).
func Cleanup() {
	if logDir != "" {
		os.RemoveAll(logDir)
	}
}

func dispatch(e *events.Event) {
	n := current
	if n == nil || n.closed {
		return
	}
	switch e.Type {
	case events.ETBlockConnected:
		n.Connected++
	case events.ETBlockDisconnected:
		n.Disconnected++
	}
	if n.wired {
		// Mirror of elanet/netsync.(*SyncManager).handleBlockchainEvents, pool-related cases.
		switch e.Type {
		case events.ETBlockProcessed:
			if b, ok := e.Data.(*types.Block); ok {
				n.Pool.CheckAndCleanAllTransactions()
				n.Pool.BroadcastSmallCrossChainTransactions(b.Height)
			}
		case events.ETBlockConnected:
			if b, ok := e.Data.(*types.Block); ok {
				n.Pool.CleanSubmittedTransactions(b)
				n.Chain.UTXOCache.CleanTxCache()
				n.Pool.ResendOutdatedTransactions(b)
			}
		case events.ETBlockDisconnected:
			if b, ok := e.Data.(*types.Block); ok {
				for _, tx := range b.Transactions[1:] {
					if err := n.Pool.MaybeAcceptTransaction(tx); err != nil {
						n.Pool.RemoveTransaction(tx)
					}
				}
			}
		}
	}
	if n.OnEvent != nil {
		n.OnEvent(e)
	}
}

// ---------------------------------------------------------------------------------------------
// keys

var (
	keyMu sync.Mutex
	keys  = map[string]*account.Account{}
)

// Key returns the harness-owned account of that name (private key = sha256("chainkit/"+name)).
// Names used by the fixture itself: "foundation", "miner", "crc0".."crc11".
func Key(name string) *account.Account {
	keyMu.Lock()
	defer keyMu.Unlock()
	if a, ok := keys[name]; ok {
		return a
	}
	h := sha256.Sum256([]byte("chainkit/" + name))
	a, err := account.NewAccountWithPrivateKey(h[:])
	if err != nil {
		evid.Fatalf("chainkit: key %s: %v", name, err)
	}
	keys[name] = a
	return a
}

// ---------------------------------------------------------------------------------------------
// parameters

// NewParams returns the parameter set of cfg (fresh object each call).
func NewParams(cfg Config) *config.Configuration {
	Setup()
	p := config.GetDefaultParams().RegNet()
	p.ActiveNet = "regnet"
	p.PowConfiguration.PowLimitBits = PowLimitBits
	p.PowConfiguration.CoinbaseMaturity = cfg.CoinbaseMaturity
	if p.PowConfiguration.CoinbaseMaturity == 0 {
		p.PowConfiguration.CoinbaseMaturity = 1
	}
	p.PowConfiguration.PayToAddr = Key("miner").Address
	p.PowConfiguration.MinerInfo = "chainkit"
	p.FoundationProgramHash = &Key("foundation").ProgramHash
	crc := make([]string, 0, 12)
	for i := 0; i < 12; i++ {
		pk, _ := Key(fmt.Sprintf("crc%d", i)).PublicKey.EncodePoint(true)
		crc = append(crc, hex.EncodeToString(pk))
	}
	p.DPoSConfiguration.CRCArbiters = crc
	p.CheckPointConfiguration.NeedSave = false
	p.DPoSConfiguration.SponsorsFilePath = "/nonexistent/chainkit-sponsors"
	if cfg.Tweak != nil {
		cfg.Tweak(p)
	}
	p.GenesisBlock = core.GenesisBlock(*p.FoundationProgramHash)
	return p
}

// ---------------------------------------------------------------------------------------------
// node

// NewNode assembles a fresh node on a new scratch directory. Only one node may be live per
// process; the previous one must have been closed.
func NewNode(cfg Config) (*Node, error) {
	Setup()
	curMu.Lock()
	defer curMu.Unlock()
	if current != nil && !current.closed {
		return nil, errors.New("chainkit: a node is already live in this process")
	}
	p := NewParams(cfg)
	dir := evid.Scratch("ck")
	p.DataDir = dir
	n := &Node{Params: p, dir: dir, wired: !cfg.NoPoolWiring}

	config.DefaultParams = *p
	blockchain.FoundationAddress = *p.FoundationProgramHash

	ckp := checkpoint.NewManager(p)
	ckp.SetDataPath(filepath.Join(dir, "checkpoints"))
	ckp.SetNeedSave(false)
	n.Ckp = ckp

	ledger := &blockchain.Ledger{}
	store, err := blockchain.NewChainStore(dir, p)
	if err != nil {
		os.RemoveAll(dir)
		return nil, err
	}
	n.Store = store
	ledger.Store = store
	n.Pool = mempool.NewTxPool(p, ckp)
	blockchain.DefaultLedger = ledger

	n.Committee = crstate.NewCommittee(p, ckp)
	ledger.Committee = n.Committee
	arb, err := state.NewArbitrators(p, n.Committee, ledger.GetAmount,
		n.Committee.TryUpdateCRMemberInactivity,
		n.Committee.TryRevertCRMemberInactivity,
		n.Committee.TryUpdateCRMemberIllegal,
		n.Committee.TryRevertCRMemberIllegal,
		n.Committee.UpdateCRInactivePenalty,
		n.Committee.RevertUpdateCRInactivePenalty,
		ckp)
	if err != nil {
		n.shutdown()
		return nil, err
	}
	n.Arbiters = arb
	ledger.Arbitrators = arb

	chain, err := blockchain.New(store, p, arb.State, n.Committee, ckp)
	if err != nil {
		n.shutdown()
		return nil, err
	}
	n.Chain = chain
	if err := chain.Init(nil); err != nil {
		n.shutdown()
		return nil, err
	}
	ledger.Blockchain = chain
	arb.RegisterFunction(chain.GetHeight, chain.GetBestBlockHash, chain.GetBlock, chain.UTXOCache.GetTxReference)
	arb.State.RegisterFuncitons(&state.StateFuncsConfig{
		GetHeight:                           store.GetHeight,
		IsCurrent:                           func() bool { return true },
		Broadcast:                           func(p2p.Message) {},
		AppendToTxpool:                      n.Pool.AppendToTxPoolWithoutEvent,
		CreateDposV2RealWithdrawTransaction: chain.CreateDposV2RealWithdrawTransaction,
		CreateVotesRealWithdrawTransaction:  chain.CreateVotesRealWithdrawTransaction,
	})
	n.Committee.RegisterFuncitons(&crstate.CommitteeFuncsConfig{
		GetTxReference:                   chain.UTXOCache.GetTxReference,
		GetUTXO:                          store.GetFFLDB().GetUTXO,
		GetHeight:                        store.GetHeight,
		CreateCRAppropriationTransaction: chain.CreateCRCAppropriationTransaction,
		CreateCRAssetsRectifyTransaction: chain.CreateCRAssetsRectifyTransaction,
		CreateCRRealWithdrawTransaction:  chain.CreateCRRealWithdrawTransaction,
		IsCurrent:                        func() bool { return true },
		Broadcast:                        func(p2p.Message) {},
		AppendToTxpool:                   n.Pool.AppendToTxPoolWithoutEvent,
		GetCurrentArbiters:               arb.GetCurrentArbitratorKeys,
	})
	n.Pow = pow.NewService(&pow.Config{
		PayToAddr:   p.PowConfiguration.PayToAddr,
		MinerInfo:   p.PowConfiguration.MinerInfo,
		Chain:       chain,
		ChainParams: p,
		TxMemPool:   n.Pool,
		Arbitrators: arb,
	})
	current = n
	// Same call main.go makes after assembling the node (replays stored blocks into the state
	// machines — only the genesis block here — and marks the arbiters started).
	if err := chain.InitCheckpoint(nil, nil, nil); err != nil {
		n.shutdown()
		current = nil
		return nil, err
	}
	registerGenesis(p.GenesisBlock)
	return n, nil
}

func (n *Node) shutdown() {
	n.closed = true
	if n.Store != nil {
		n.Store.Close()
		n.Store.CloseLeveldb()
	}
	if n.Ckp != nil {
		n.Ckp.Close()
	}
	os.RemoveAll(n.dir)
}

// Close stops the node and removes its scratch directory.
func (n *Node) Close() {
	curMu.Lock()
	defer curMu.Unlock()
	if n.closed {
		return
	}
	n.shutdown()
	if current == n {
		current = nil
	}
	blockchain.DefaultLedger = nil
	// events.Subscribe has no counterpart: without this every State ever created (and all it
	// references, ~0.7 MB per node) stays reachable through its callback
	// (hook events/export_verif_c06.go)
	events.VerifResetSubscribers()
	events.Subscribe(dispatch)
}

// ---------------------------------------------------------------------------------------------
// factory (process-wide caches; content-addressed, so independent of the live node)

var (
	facMu    sync.Mutex
	blkCache = map[string]*types.Block{}                   // shape key -> master copy (never handed to a chain)
	blkByHsh = map[common.Uint256]*types.Block{}           // hash -> master copy
	txReg    = map[common.Uint256]interfaces.Transaction{} // every transaction ever produced (incl. coinbases, genesis)
	txOrder  []common.Uint256                              // sorted lazily
	txSorted bool
)

func registerTx(tx interfaces.Transaction) {
	h := tx.Hash()
	if _, ok := txReg[h]; !ok {
		txReg[h] = tx
		txOrder = append(txOrder, h)
		txSorted = false
	}
}

func registerGenesis(g *types.Block) {
	facMu.Lock()
	defer facMu.Unlock()
	for _, tx := range g.Transactions {
		registerTx(tx)
	}
	blkByHsh[g.Hash()] = g
}

// KnownTxs lists every transaction id the factory produced so far, sorted.
func KnownTxs() []common.Uint256 {
	facMu.Lock()
	defer facMu.Unlock()
	if !txSorted {
		sort.Slice(txOrder, func(i, j int) bool { return bytes.Compare(txOrder[i][:], txOrder[j][:]) < 0 })
		txSorted = true
	}
	return append([]common.Uint256{}, txOrder...)
}

// KnownTx returns a produced transaction by id (master copy; do not mutate).
func KnownTx(h common.Uint256) interfaces.Transaction {
	facMu.Lock()
	defer facMu.Unlock()
	return txReg[h]
}

// KnownBlock returns a produced block by hash (master copy; do not mutate).
func KnownBlock(h common.Uint256) *types.Block {
	facMu.Lock()
	defer facMu.Unlock()
	return blkByHsh[h]
}

// CopyTx returns a private deep copy of tx (through its wire encoding).
func CopyTx(tx interfaces.Transaction) interfaces.Transaction {
	buf := new(bytes.Buffer)
	if err := tx.Serialize(buf); err != nil {
		evid.Fatalf("chainkit: serialize tx: %v", err)
	}
	r := bytes.NewReader(buf.Bytes())
	c, err := functions.GetTransactionByBytes(r)
	if err != nil {
		evid.Fatalf("chainkit: decode tx: %v", err)
	}
	if err := c.Deserialize(r); err != nil {
		evid.Fatalf("chainkit: decode tx: %v", err)
	}
	return c
}

// CopyBlock returns a private deep copy of b (through its wire encoding).
func CopyBlock(b *types.Block) *types.Block {
	buf := new(bytes.Buffer)
	if err := b.Serialize(buf); err != nil {
		evid.Fatalf("chainkit: serialize block: %v", err)
	}
	c := new(types.Block)
	if err := c.Deserialize(bytes.NewReader(buf.Bytes())); err != nil {
		evid.Fatalf("chainkit: decode block: %v", err)
	}
	return c
}

// Out is one transfer output.
type Out struct {
	To    *account.Account
	Value common.Fixed64
}

// SignedTransfer builds a TransferAsset transaction spending ins (all owned by from) into outs,
// signed by from. salt distinguishes otherwise identical transfers. Nothing is checked: the
// outpoints may be spent, unborn or foreign.
func (n *Node) SignedTransfer(from *account.Account, ins []common2.OutPoint, outs []Out, salt uint32) interfaces.Transaction {
	return SignedTransfer(from, ins, outs, salt)
}

// SignedTransfer is the node-independent form.
func SignedTransfer(from *account.Account, ins []common2.OutPoint, outs []Out, salt uint32) interfaces.Transaction {
	inputs := make([]common2.Input, 0, len(ins))
	for _, op := range ins {
		inputs = append(inputs, common2.Input{Previous: op, Sequence: 0})
	}
	return SignedTransferInputs(from, inputs, outs, salt)
}

// SignedTransferInputs is SignedTransfer with explicit inputs (outpoint + Sequence), for
// transactions that refer to the same outpoint under different sequence numbers.
func SignedTransferInputs(from *account.Account, ins []common2.Input, outs []Out, salt uint32) interfaces.Transaction {
	Setup()
	nonce := make([]byte, 8)
	binary.BigEndian.PutUint32(nonce[4:], salt)
	inputs := make([]*common2.Input, 0, len(ins))
	for _, in := range ins {
		c := in
		inputs = append(inputs, &c)
	}
	outputs := make([]*common2.Output, 0, len(outs))
	for _, o := range outs {
		outputs = append(outputs, &common2.Output{
			AssetID:     core.ELAAssetID,
			Value:       o.Value,
			OutputLock:  0,
			ProgramHash: o.To.ProgramHash,
			Type:        common2.OTNone,
			Payload:     &outputpayload.DefaultOutput{},
		})
	}
	tx := functions.CreateTransaction(common2.TxVersion09, common2.TransferAsset, 0, &payload.TransferAsset{},
		[]*common2.Attribute{{Usage: common2.Nonce, Data: nonce}}, inputs, outputs, 0, nil)
	pg := &program.Program{Code: from.RedeemScript}
	accounts := map[common.Uint160]*account.Account{from.ProgramHash.ToCodeHash(): from}
	pg, err := account.SignStandardTransaction(tx, pg, accounts)
	if err != nil {
		evid.Fatalf("chainkit: sign: %v", err)
	}
	tx.SetPrograms([]*program.Program{pg})
	facMu.Lock()
	registerTx(tx)
	facMu.Unlock()
	return tx
}

// feeOf computes Σ referenced output values − Σ outputs from the factory's own registry; an
// unknown reference counts 0 (such a block is invalid anyway).
func feeOf(tx interfaces.Transaction) common.Fixed64 {
	var in, out common.Fixed64
	for _, i := range tx.Inputs() {
		if ref, ok := txReg[i.Previous.TxID]; ok && int(i.Previous.Index) < len(ref.Outputs()) {
			in += ref.Outputs()[i.Previous.Index].Value
		}
	}
	for _, o := range tx.Outputs() {
		out += o.Value
	}
	return in - out
}

// BuildOpts are the deviations BuildBlock can apply (zero value = a well-formed block).
type BuildOpts struct {
	// RewardDelta is added to the total reward handed to AssignCoinbaseTxRewards (≠0 makes a
	// block that is sane but fails the coinbase amount check in context validation).
	RewardDelta common.Fixed64
}

// BuildBlock builds (or returns from the cache) the block at parent.Height+1 on parent holding
// the coinbase followed by exactly txs, in that order — no finality, context or conflict
// filtering as pow.Service.GenerateBlock would do. forkID makes sibling blocks with equal
// contents distinct. The returned block is a master copy: hand it to ProcessBlock (which copies),
// never mutate it.
func (n *Node) BuildBlock(parent *types.Block, txs []interfaces.Transaction, forkID uint32) *types.Block {
	return n.BuildBlockOpts(parent, txs, forkID, BuildOpts{})
}

func (n *Node) BuildBlockOpts(parent *types.Block, txs []interfaces.Transaction, forkID uint32, o BuildOpts) *types.Block {
	ph := parent.Hash()
	var kb strings.Builder
	fmt.Fprintf(&kb, "%x|%d|%d|", ph[:], forkID, int64(o.RewardDelta))
	for _, tx := range txs {
		h := tx.Hash()
		kb.Write(h[:])
	}
	key := kb.String()
	facMu.Lock()
	if b, ok := blkCache[key]; ok {
		facMu.Unlock()
		return b
	}
	facMu.Unlock()

	p := n.Params
	height := parent.Height + 1
	seed := sha256.New()
	seed.Write(ph[:])
	var fb [4]byte
	binary.BigEndian.PutUint32(fb[:], forkID)
	seed.Write(fb[:])
	nonce := seed.Sum(nil)[:8]
	attr := common2.NewAttribute(common2.Nonce, nonce)
	crReward := p.FoundationProgramHash
	if height >= p.CRConfiguration.CRCommitteeStartHeight {
		crReward = p.CRConfiguration.CRAssetsProgramHash
	}
	miner := Key("miner").ProgramHash
	cb := functions.CreateTransaction(
		n.Pow.GetDefaultTxVersion(height),
		common2.CoinBase, payload.CoinBaseVersion,
		&payload.CoinBase{Content: []byte(p.PowConfiguration.MinerInfo)},
		[]*common2.Attribute{&attr},
		[]*common2.Input{{Previous: common2.OutPoint{TxID: common.EmptyHash, Index: math.MaxUint16}, Sequence: math.MaxUint32}},
		[]*common2.Output{
			{AssetID: core.ELAAssetID, Value: 0, ProgramHash: *crReward, Type: common2.OTNone, Payload: &outputpayload.DefaultOutput{}},
			{AssetID: core.ELAAssetID, Value: 0, ProgramHash: miner, Type: common2.OTNone, Payload: &outputpayload.DefaultOutput{}},
		},
		height, []*program.Program{})
	blk := &types.Block{
		Header: common2.Header{
			Version:   0,
			Previous:  ph,
			Timestamp: p.GenesisBlock.Timestamp + 2*height + forkID%2,
			Bits:      p.PowConfiguration.PowLimitBits,
			Height:    height,
		},
		Transactions: []interfaces.Transaction{cb},
	}
	facMu.Lock()
	var fees common.Fixed64
	for _, tx := range txs {
		blk.Transactions = append(blk.Transactions, CopyTx(tx))
		fees += feeOf(tx)
	}
	facMu.Unlock()
	if err := n.Pow.AssignCoinbaseTxRewards(blk, fees+p.GetBlockReward(height)+o.RewardDelta); err != nil {
		evid.Fatalf("chainkit: AssignCoinbaseTxRewards: %v", err)
	}
	ids := make([]common.Uint256, 0, len(blk.Transactions))
	for _, tx := range blk.Transactions {
		ids = append(ids, tx.Hash())
	}
	root, err := crypto.ComputeRoot(ids)
	if err != nil {
		evid.Fatalf("chainkit: merkle root: %v", err)
	}
	blk.Header.MerkleRoot = root
	// merged-mining proof: the repository's own faker, clock removed, nonce by plain loop
	ap := auxpow.GenerateAuxPow(blk.Hash())
	ap.ParBlockHeader.Timestamp = blk.Header.Timestamp
	target := blockchain.CompactToBig(blk.Header.Bits)
	solved := false
	for i := uint32(0); i < math.MaxUint32; i++ {
		ap.ParBlockHeader.Nonce = i
		h := ap.ParBlockHeader.Hash()
		if blockchain.HashToBig(&h).Cmp(target) <= 0 {
			solved = true
			break
		}
	}
	if !solved {
		evid.Fatalf("chainkit: no PoW solution")
	}
	blk.Header.AuxPow = *ap

	facMu.Lock()
	defer facMu.Unlock()
	blkCache[key] = blk
	blkByHsh[blk.Hash()] = blk
	registerTx(cb)
	return blk
}

// Genesis returns the genesis block of the node's regime.
func (n *Node) Genesis() *types.Block { return n.Params.GenesisBlock }

// ProcessBlock hands a private copy of b to BlockChain.ProcessBlock.
func (n *Node) ProcessBlock(b *types.Block) (inMainChain, isOrphan bool, err error) {
	return n.Chain.ProcessBlock(CopyBlock(b), nil)
}

// Tip is the hash of the best block.
func (n *Node) Tip() common.Uint256 { return *n.Chain.GetBestChain().Hash }

// Height of the best block.
func (n *Node) Height() uint32 { return n.Chain.GetHeight() }

// BlockHashAt is BlockChain.GetBlockHash.
func (n *Node) BlockHashAt(h uint32) (common.Uint256, error) { return n.Chain.GetBlockHash(h) }

// ActiveChain lists the main-chain hashes genesis..tip as the node reports them.
func (n *Node) ActiveChain() []common.Uint256 {
	var out []common.Uint256
	for h := uint32(0); ; h++ {
		x, err := n.Chain.GetBlockHash(h)
		if err != nil {
			break
		}
		out = append(out, x)
	}
	return out
}

// Submit offers a private copy of tx to the mempool.
func (n *Node) Submit(tx interfaces.Transaction) error {
	if e := n.Pool.AppendToTxPoolWithoutEvent(CopyTx(tx)); e != nil {
		return e
	}
	return nil
}

// PoolTxs returns the pool contents sorted by hash.
func (n *Node) PoolTxs() []interfaces.Transaction {
	txs := n.Pool.GetTxsInPool()
	sort.Slice(txs, func(i, j int) bool {
		a, b := txs[i].Hash(), txs[j].Hash()
		return bytes.Compare(a[:], b[:]) < 0
	})
	return txs
}

// PoolHashes returns the sorted pool transaction ids.
func (n *Node) PoolHashes() []common.Uint256 {
	txs := n.PoolTxs()
	out := make([]common.Uint256, len(txs))
	for i, tx := range txs {
		out[i] = tx.Hash()
	}
	return out
}

// Unspent is ChainStoreFFLDB.GetUnspent (sorted); ok=false if the index has no entry.
func (n *Node) Unspent(txid common.Uint256) (idx []uint16, ok bool) {
	u, err := n.Store.GetFFLDB().GetUnspent(txid)
	if err != nil {
		return nil, false
	}
	u = append([]uint16{}, u...)
	sort.Slice(u, func(i, j int) bool { return u[i] < u[j] })
	return u, true
}

// Digest is the canonical property-relevant state: active chain hashes, the unspent index
// restricted to every transaction the factory knows (sorted by id), sorted pool hashes.
// Dropped: orphan pool, side-chain block cache, block index flags, UTXO reference cache,
// per-address UTXO index, fee-rate ordering of the pool (not observable through the properties
// decided on this fixture; checks that need them extend the digest).
func (n *Node) Digest() string {
	h := sha256.New()
	for _, x := range n.ActiveChain() {
		h.Write(x[:])
	}
	h.Write([]byte("|U|"))
	for _, id := range KnownTxs() {
		u, ok := n.Unspent(id)
		if !ok || len(u) == 0 {
			continue
		}
		h.Write(id[:])
		for _, i := range u {
			var b [2]byte
			binary.BigEndian.PutUint16(b[:], i)
			h.Write(b[:])
		}
		h.Write([]byte{';'})
	}
	h.Write([]byte("|P|"))
	for _, x := range n.PoolHashes() {
		h.Write(x[:])
	}
	return hex.EncodeToString(h.Sum(nil)[:16])
}

// CoinbaseSelfCheck builds coinbase-only blocks with the real pow.Service.AssignCoinbaseTxRewards
// and hands them to the node's own validation in the one reward regime no check of the fixture
// mines in otherwise: DPoS v2 active (State.DPoSV2ActiveHeight set to 1 on an otherwise pure-PoW
// node, CheckRewardHeight 0 so the amount/address rules are on) with the consensus reverted to
// POW, where checkCoinbaseTransactionContext wants the CR and DPoS shares at the destroy
// address. A refusal means miner and validator disagree about the coinbase; it is returned as
// (regime, error) for the caller to report.
func CoinbaseSelfCheck() (regime string, err error) {
	regime = "dposv2-active+consensus-pow"
	n, e := NewNode(Config{Tweak: func(p *config.Configuration) { p.CheckRewardHeight = 0 }})
	if e != nil {
		return regime, e
	}
	defer n.Close()
	st := n.Chain.GetState()
	st.DPoSV2ActiveHeight = 1
	st.ConsensusAlgorithm = state.POW
	parent := n.Genesis()
	for i := 0; i < 4; i++ {
		b := n.BuildBlock(parent, nil, 7000)
		in, orphan, e := n.ProcessBlock(b)
		if e != nil || !in || orphan {
			return regime, fmt.Errorf("block at height %d built by AssignCoinbaseTxRewards is refused by BlockChain.ProcessBlock: inMain=%v orphan=%v err=%v (coinbase outputs: %s)", b.Height, in, orphan, e, describeOutputs(b))
		}
		parent = b
	}
	return regime, nil
}

func describeOutputs(b *types.Block) string {
	var sb strings.Builder
	for i, o := range b.Transactions[0].Outputs() {
		a, _ := o.ProgramHash.ToAddress()
		fmt.Fprintf(&sb, "[%d] %d -> %s ", i, o.Value, a)
	}
	return sb.String()
}

// Short renders a hash prefix for messages.
func Short(h common.Uint256) string { return hex.EncodeToString(h[:4]) }

// CostReport is the measured cost of the fixture's primitives.
type CostReport struct {
	NewNodeMs, CloseMs, ProcessEmptyBlockMs, BuildBlockMs float64
}

// Cost measures a fresh node and ProcessBlock on this machine (k nodes, 6 blocks each).
func Cost(k int) (CostReport, error) {
	var r CostReport
	var tNew, tClose, tProc, tBuild time.Duration
	blocks := 0
	for i := 0; i < k; i++ {
		t0 := time.Now()
		n, err := NewNode(Config{})
		if err != nil {
			return r, err
		}
		tNew += time.Since(t0)
		parent := n.Genesis()
		for j := 0; j < 6; j++ {
			t1 := time.Now()
			b := n.BuildBlock(parent, nil, uint32(1000+i)) // distinct per round: never cached
			tBuild += time.Since(t1)
			t2 := time.Now()
			if _, _, err := n.ProcessBlock(b); err != nil {
				n.Close()
				return r, err
			}
			tProc += time.Since(t2)
			blocks++
			parent = b
		}
		t3 := time.Now()
		n.Close()
		tClose += time.Since(t3)
	}
	ms := func(d time.Duration, c int) float64 { return float64(d.Microseconds()) / 1000 / float64(c) }
	r.NewNodeMs, r.CloseMs = ms(tNew, k), ms(tClose, k)
	r.ProcessEmptyBlockMs, r.BuildBlockMs = ms(tProc, blocks), ms(tBuild, blocks)
	return r, nil
}
