package crkit

import (
	"bytes"
	"encoding/binary"

	"github.com/elastos/Elastos.ELA/common"
	"github.com/elastos/Elastos.ELA/core"
	"github.com/elastos/Elastos.ELA/core/contract/program"
	common2 "github.com/elastos/Elastos.ELA/core/types/common"
	"github.com/elastos/Elastos.ELA/core/types/functions"
	"github.com/elastos/Elastos.ELA/core/types/interfaces"
	"github.com/elastos/Elastos.ELA/core/types/outputpayload"
	"github.com/elastos/Elastos.ELA/core/types/payload"
)

type Tx = interfaces.Transaction

func newTx(t common2.TxType, payloadVersion byte, p interfaces.Payload, ins []*common2.Input, outs []*common2.Output, progs []*program.Program) Tx {
	if ins == nil {
		ins = []*common2.Input{}
	}
	if outs == nil {
		outs = []*common2.Output{}
	}
	if progs == nil {
		progs = []*program.Program{}
	}
	return functions.CreateTransaction(common2.TxVersion09, t, payloadVersion, p, []*common2.Attribute{}, ins, outs, 0, progs)
}

func plainOut(to common.Uint168, v common.Fixed64) *common2.Output {
	return &common2.Output{AssetID: core.ELAAssetID, Value: v, ProgramHash: to, Type: common2.OTNone, Payload: new(outputpayload.DefaultOutput)}
}

func In(txid common.Uint256, idx uint16) *common2.Input {
	return &common2.Input{Previous: common2.OutPoint{TxID: txid, Index: idx}, Sequence: 0}
}

func prog(k *Key) []*program.Program {
	return []*program.Program{{Code: k.Code, Parameter: nil}}
}

func nonceAttr(tx Tx, n uint64) {
	b := make([]byte, 8)
	binary.LittleEndian.PutUint64(b, n)
	a := common2.NewAttribute(common2.Nonce, b)
	tx.SetAttributes([]*common2.Attribute{&a})
}

// CoinBase is the first transaction of every harness block (the committee sorts and scans
// "transactions after the coinbase"); after the CR committee start it pays the CR share to the CR
// assets address as the real coinbase does.
func CoinBase(height uint32, crAssets *common.Uint168, crShare common.Fixed64, miner *Key, minerShare common.Fixed64) Tx {
	outs := []*common2.Output{}
	if crAssets != nil {
		outs = append(outs, plainOut(*crAssets, crShare))
	}
	outs = append(outs, plainOut(miner.Addr, minerShare))
	tx := newTx(common2.CoinBase, 0, &payload.CoinBase{Content: []byte("verif")}, []*common2.Input{{
		Previous: common2.OutPoint{TxID: common.EmptyHash, Index: 0xffff}, Sequence: 0xffffffff}}, outs, nil)
	tx.SetLockTime(height)
	return tx
}

// Fund is a plain transfer to an address (used to put coins on the CR assets address).
func Fund(from *Key, to common.Uint168, amount common.Fixed64, nonce uint64) Tx {
	tx := newTx(common2.TransferAsset, 0, &payload.TransferAsset{}, nil, []*common2.Output{plainOut(to, amount)}, prog(from))
	nonceAttr(tx, nonce)
	return tx
}

func crInfo(k *Key, nick string) *payload.CRInfo {
	info := &payload.CRInfo{Code: k.Code, CID: k.CID, DID: k.DID, NickName: nick, Url: "http://verif.example/" + k.Label, Location: 1}
	buf := new(bytes.Buffer)
	must(info.SerializeUnsigned(buf, payload.CRInfoDIDVersion))
	info.Signature = k.Sign(buf.Bytes())
	return info
}

func RegisterCR(k *Key, nick string, deposit common.Fixed64) Tx {
	return newTx(common2.RegisterCR, payload.CRInfoDIDVersion, crInfo(k, nick), nil,
		[]*common2.Output{plainOut(k.Deposit, deposit)}, prog(k))
}

func UpdateCR(k *Key, nick string) Tx {
	return newTx(common2.UpdateCR, payload.CRInfoDIDVersion, crInfo(k, nick), nil, nil, prog(k))
}

func UnregisterCR(k *Key) Tx {
	p := &payload.UnregisterCR{CID: k.CID}
	buf := new(bytes.Buffer)
	must(p.SerializeUnsigned(buf, 0))
	p.Signature = k.Sign(buf.Bytes())
	return newTx(common2.UnregisterCR, 0, p, nil, nil, prog(k))
}

// CV is one (candidate, votes) pair of a vote output.
type CV struct {
	Candidate []byte
	Votes     common.Fixed64
}

// VoteTx is a TransferAsset carrying one vote output of the given type at the voter's address;
// prev (optional) spends the voter's previous vote output, which is how a wallet replaces or
// cancels votes. With vt == 0xff the output is a plain one (pure cancellation).
func VoteTx(voter *Key, prev *common2.Input, vt outputpayload.VoteType, cvs []CV, value common.Fixed64, nonce uint64) Tx {
	var ins []*common2.Input
	if prev != nil {
		ins = []*common2.Input{prev}
	}
	var out *common2.Output
	if vt == 0xff {
		out = plainOut(voter.Addr, value)
	} else {
		var l []outputpayload.CandidateVotes
		for _, c := range cvs {
			l = append(l, outputpayload.CandidateVotes{Candidate: c.Candidate, Votes: c.Votes})
		}
		out = &common2.Output{AssetID: core.ELAAssetID, Value: value, ProgramHash: voter.Addr, Type: common2.OTVote,
			Payload: &outputpayload.VoteOutput{Version: outputpayload.VoteProducerAndCRVersion,
				Contents: []outputpayload.VoteContent{{VoteType: vt, CandidateVotes: l}}}}
	}
	tx := newTx(common2.TransferAsset, 0, &payload.TransferAsset{}, ins, []*common2.Output{out}, prog(voter))
	nonceAttr(tx, nonce)
	return tx
}

// DraftHash is the draft hash of the proposal built under this label.
func DraftHash(label string) common.Uint256 { return draftHash(label) }

func draftHash(label string) common.Uint256 {
	return common.Hash([]byte("verif-draft-" + label))
}

func finishProposal(p *payload.CRCProposal, owner, member *Key, extra func(buf *bytes.Buffer)) Tx {
	buf := new(bytes.Buffer)
	must(p.SerializeUnsigned(buf, payload.CRCProposalVersion))
	p.Signature = owner.Sign(buf.Bytes())
	must(common.WriteVarBytes(buf, p.Signature))
	if extra != nil {
		extra(buf)
	}
	must(p.CRCouncilMemberDID.Serialize(buf))
	p.CRCouncilMemberSignature = member.Sign(buf.Bytes())
	tx := newTx(common2.CRCProposal, payload.CRCProposalVersion, p, nil, nil, prog(owner))
	p.Hash(payload.CRCProposalVersion) // memoise before the payload is shared
	return tx
}

// Budget3 is the three-stage budget (imprest, one normal payment, final payment).
func Budget3(imprest, normal, final common.Fixed64) []payload.Budget {
	return []payload.Budget{
		{Type: payload.Imprest, Stage: 0, Amount: imprest},
		{Type: payload.NormalPayment, Stage: 1, Amount: normal},
		{Type: payload.FinalPayment, Stage: 2, Amount: final},
	}
}

func ProposalNormal(label string, typ payload.CRCProposalType, owner, member *Key, recipient common.Uint168, budgets []payload.Budget) Tx {
	p := &payload.CRCProposal{ProposalType: typ, OwnerKey: owner.Pub, CRCouncilMemberDID: member.DID,
		DraftHash: draftHash(label), Budgets: budgets, Recipient: recipient}
	return finishProposal(p, owner, member, nil)
}

func ProposalClose(label string, owner, member *Key, target common.Uint256) Tx {
	p := &payload.CRCProposal{ProposalType: payload.CloseProposal, OwnerKey: owner.Pub, CRCouncilMemberDID: member.DID,
		DraftHash: draftHash(label), TargetProposalHash: target}
	return finishProposal(p, owner, member, nil)
}

func ProposalSecretaryGeneral(label string, owner, member, newSG *Key) Tx {
	p := &payload.CRCProposal{ProposalType: payload.SecretaryGeneral, OwnerKey: owner.Pub, CRCouncilMemberDID: member.DID,
		DraftHash: draftHash(label), SecretaryGeneralPublicKey: newSG.Pub, SecretaryGeneralDID: newSG.DID}
	return finishProposal(p, owner, member, func(buf *bytes.Buffer) {
		// the candidate secretary-general signs the unsigned payload only
		ub := new(bytes.Buffer)
		must(p.SerializeUnsigned(ub, payload.CRCProposalVersion))
		p.SecretaryGeneraSignature = newSG.Sign(ub.Bytes())
		must(common.WriteVarBytes(buf, p.SecretaryGeneraSignature))
	})
}

func ProposalChangeOwner(label string, owner, member, newOwner *Key, target common.Uint256, newRecipient common.Uint168) Tx {
	p := &payload.CRCProposal{ProposalType: payload.ChangeProposalOwner, OwnerKey: owner.Pub, CRCouncilMemberDID: member.DID,
		DraftHash: draftHash(label), TargetProposalHash: target, NewOwnerKey: newOwner.Pub, NewRecipient: newRecipient}
	return finishProposal(p, owner, member, func(buf *bytes.Buffer) {
		ub := new(bytes.Buffer)
		must(p.SerializeUnsigned(ub, payload.CRCProposalVersion))
		p.NewOwnerSignature = newOwner.Sign(ub.Bytes())
		must(common.WriteVarBytes(buf, p.NewOwnerSignature))
	})
}

// ProposalHash of a proposal transaction built by this package.
func ProposalHash(tx Tx) common.Uint256 {
	return tx.Payload().(*payload.CRCProposal).Hash(tx.PayloadVersion())
}

func Review(member *Key, proposal common.Uint256, r payload.VoteResult) Tx {
	p := &payload.CRCProposalReview{ProposalHash: proposal, VoteResult: r, DID: member.DID}
	buf := new(bytes.Buffer)
	must(p.SerializeUnsigned(buf, payload.CRCProposalReviewVersion))
	p.Signature = member.Sign(buf.Bytes())
	return newTx(common2.CRCProposalReview, payload.CRCProposalReviewVersion, p, nil, nil, prog(member))
}

// Tracking builds a proposal tracking transaction signed by the owner, the new owner (ChangeOwner
// only) and the secretary-general, in the layout CRCProposalTracking.SpecialContextCheck verifies.
func Tracking(typ payload.CRCProposalTrackingType, proposal common.Uint256, stage uint8, owner, newOwner, sg *Key, label string) Tx {
	p := &payload.CRCProposalTracking{ProposalTrackingType: typ, ProposalHash: proposal, Stage: stage,
		MessageHash: common.Hash([]byte("verif-msg-" + label)), OwnerKey: owner.Pub,
		SecretaryGeneralOpinionHash: common.Hash([]byte("verif-opinion-" + label))}
	if newOwner != nil {
		p.NewOwnerKey = newOwner.Pub
	}
	buf := new(bytes.Buffer)
	must(p.SerializeUnsigned(buf, payload.CRCProposalTrackingVersion))
	p.OwnerSignature = owner.Sign(buf.Bytes())
	must(common.WriteVarBytes(buf, p.OwnerSignature))
	if newOwner != nil {
		p.NewOwnerSignature = newOwner.Sign(buf.Bytes())
	}
	must(common.WriteVarBytes(buf, p.NewOwnerSignature))
	buf.Write([]byte{byte(typ)})
	must(p.SecretaryGeneralOpinionHash.Serialize(buf))
	p.SecretaryGeneralSignature = sg.Sign(buf.Bytes())
	return newTx(common2.CRCProposalTracking, payload.CRCProposalTrackingVersion, p, nil, nil, nil)
}

// Withdraw builds the payload-version-01 withdrawal request (recipient and amount in the payload;
// the coins move later in a CRCProposalRealWithdraw transaction).
func Withdraw(proposal common.Uint256, owner *Key, recipient common.Uint168, amount common.Fixed64, nonce uint64) Tx {
	p := &payload.CRCProposalWithdraw{ProposalHash: proposal, OwnerKey: owner.Pub, Recipient: recipient, Amount: amount}
	buf := new(bytes.Buffer)
	must(p.SerializeUnsigned(buf, payload.CRCProposalWithdrawVersion01))
	p.Signature = owner.Sign(buf.Bytes())
	tx := newTx(common2.CRCProposalWithdraw, payload.CRCProposalWithdrawVersion01, p, nil, nil, nil)
	nonceAttr(tx, nonce)
	return tx
}

func Appropriation(ins []*common2.Input, expenses, assets common.Uint168, amount, change common.Fixed64) Tx {
	return newTx(common2.CRCAppropriation, 0, &payload.CRCAppropriation{}, ins,
		[]*common2.Output{plainOut(expenses, amount), plainOut(assets, change)}, nil)
}

func RealWithdraw(hashes []common.Uint256, ins []*common2.Input, outs []*common2.Output) Tx {
	return newTx(common2.CRCProposalRealWithdraw, 0, &payload.CRCProposalRealWithdraw{WithdrawTransactionHashes: hashes}, ins, outs, nil)
}

func PlainOut(to common.Uint168, v common.Fixed64) *common2.Output { return plainOut(to, v) }

// ClaimNode: council member (version CurrentCRClaimDPoSNodeVersion) or elected next member
// (NextCRClaimDPoSNodeVersion) claims the DPoS node key of node.
func ClaimNode(member, node *Key, version byte) Tx {
	p := &payload.CRCouncilMemberClaimNode{NodePublicKey: node.Pub, CRCouncilCommitteeDID: member.DID}
	buf := new(bytes.Buffer)
	must(p.SerializeUnsigned(buf, payload.CurrentCRClaimDPoSNodeVersion))
	p.CRCouncilCommitteeSignature = member.Sign(buf.Bytes())
	return newTx(common2.CRCouncilMemberClaimNode, version, p, nil, nil, prog(member))
}
