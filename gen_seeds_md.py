#!/usr/bin/env python3
"""Generates SEEDS.md from seeded/<id>/{meta.json,confirm.json} (+ seeded/notes.json for misses that led to strengthening)."""
import json, glob, os
here=os.path.dirname(os.path.abspath(__file__))
notes={}
try: notes=json.load(open(os.path.join(here,'seeded','notes.json')))
except Exception: pass
rows=[]
for d in sorted(glob.glob(os.path.join(here,'seeded','C*-*'))):
    sid=os.path.basename(d)
    try:
        m=json.load(open(os.path.join(d,'meta.json'))); c=json.load(open(os.path.join(d,'confirm.json')))
    except Exception as e:
        continue
    caught = 'yes' if c.get('check_exit')==1 and c.get('violation_lines',0)>0 else 'NO'
    sig = (c.get('signatures') or [''])[0].split(' — ')[0]
    def cl(s): return str(s).replace('|','\\|').replace('\n',' ')
    rows.append(f"| {sid} | {cl(m.get('summary',''))[:260]} | {cl(m.get('needs',''))[:220]} | {c.get('demo_with_change')}/{c.get('demo_without_change')} | {caught} | `{cl(sig)[:110]}` | {cl(notes.get(sid,''))} |")
out=["# Independent seeded changes","",
"Each change was written by a sub-agent that saw only the property text and its own scratch worktree (nothing from /verif).",
"`seedcheck.sh` confirmed every one in a fresh worktree (build; demonstration fails with the change / passes without it) and ran the property's quick check against it (`VERIF_REPO=<worktree> ./run <ID> quick`).",
"Column *caught* is the result with the checks as committed now; *note* records changes that were missed at first and what was strengthened.","",
"| seed | change | needs | demo with/without | caught | first signature | note |","|---|---|---|---|---|---|---|"]+rows
open(os.path.join(here,'SEEDS.md'),'w').write('\n'.join(out)+'\n')
print(len(rows),'seeds;', sum(1 for r in rows if '| NO |' in r),'not caught')
