#!/bin/bash
# Build every claimed check binary once from files on disk (offline); warms the go build cache.
set -u
HERE="$(cd "$(dirname "$0")" && pwd)"
cd "$HERE"
export GOFLAGS=-mod=mod GOPROXY=off GOSUMDB=off GOTOOLCHAIN=local
mkdir -p bin evidence
cp -f /repo/go.sum engine/go.sum 2>/dev/null || true
rc=0
ids=$(python3 -c "
import json
print(' '.join(c['property_id'].lower() for c in json.load(open('MANIFEST.json'))['checks']))")
for id in $ids; do
  d="engine/checks/$id"
  [ -d "$d" ] || { echo "setup: missing $d" >&2; rc=1; continue; }
  if [ -x "$d/build.sh" ]; then
    VERIF_BIN="$HERE/bin/$id" VERIF_ID="$id" VERIF_REPO=/repo VERIF_ROOT="$HERE" VERIF_MODFLAGS="" "$d/build.sh" || { echo "setup: build failed for $id" >&2; rc=1; }
  else
    (cd engine && go build -tags verif -o "$HERE/bin/$id" "./checks/$id") || { echo "setup: build failed for $id" >&2; rc=1; }
  fi
done
exit $rc
