package main

// Immutable treap: depth-first enumeration of ALL put/delete sequences up to the depth bound.
// Persistence makes replay unnecessary: the versions on the DFS stack are exactly the versions
// a history has retained, and they are never released while their subtree is explored. After
// every operation EVERY retained version is re-read (readBasic with the iterator that was created
// together with that version, i.e. before all later updates) and compared with the model recorded
// when the version was produced; the newest version gets the full read (ranges, seeks, zig-zag).
// Additionally every version owns a forward and a backward iterator that are in the middle of a
// traversal while later versions are produced: each later step advances them by one position.
//
// Priorities: one rand.Seed per shard; a shadow generator with the same seed is advanced in
// lock-step by locating a marker value drawn after every operation, so the stream position
// before each operation of a path is known exactly and a failing path is replayable by
// fast-forwarding the stream (artefact: seed, ops, positions).

import (
	"math/rand"
	"strings"

	"github.com/elastos/Elastos.ELA/database"
)

type version struct {
	t      *database.VerifTreapImmutable
	m      model
	prio   [4]int                      // priority of each present key as read from the shadow stream (-1 absent/unknown)
	it     database.VerifTreapIterator // created with the version, reused for every re-read
	fwd    database.VerifTreapIterator // mid-traversal iterators, advanced one step per later update
	bwd    database.VerifTreapIterator
	fi, bi int // next expected positions in e (forward index / backward index)
	e      [4]int
	n      int
}

type immFail struct {
	Clause string
	What   string
	Ops    []string
	Pos    []int64
}

type immRun struct {
	seed      int64
	shadow    *rand.Rand
	pos       int64 // values consumed from the global stream so far
	depth     int
	stack     []version
	ops       []string
	opPos     []int64
	nodes     int64 // operations executed (= DFS nodes)
	reads     int64 // version re-reads
	fullReads int64
	canon     []bool
	distinct  int64
	noMemo    bool
	broken    bool // a retained version was found damaged
	fails     map[string]*immFail
	maxSeen   int
	samples   [][]string
	stop      func() bool
	capped    bool
	f         failures
	ctx       []byte
	savePool  [][]savedIter
}

func newImmRun(seed int64, depth int) *immRun {
	rand.Seed(seed)
	r := &immRun{stack: make([]version, 0, depth+2), seed: seed, shadow: rand.New(rand.NewSource(seed)), depth: depth, fails: map[string]*immFail{}}
	r.push(database.VerifNewTreapImmutable(), emptyModel(), [4]int{-1, -1, -1, -1})
	r.canon = append(r.canon, true)
	return r
}

func (r *immRun) push(t *database.VerifTreapImmutable, m model, prio [4]int) {
	r.stack = append(r.stack, version{})
	v := &r.stack[len(r.stack)-1]
	v.t, v.m, v.prio = t, m, prio
	v.it = newIter(t, nil, nil)
	v.fwd, v.bwd = v.it, v.it
	v.n = m.within(rng{}, &v.e)
	v.fi, v.bi = 0, v.n-1
}

// sync locates the marker in the shadow stream. It returns the number of values the operation
// consumed before the marker and the first of them (the priority of a new node).
func (r *immRun) sync() (ok bool, draws int, first int) {
	g := rand.Int()
	for i := 0; i < 4096; i++ {
		r.pos++
		x := r.shadow.Int()
		if x == g {
			return true, i, first
		}
		if i == 0 {
			first = x
		}
	}
	return false, 0, 0
}

// skipTo fast-forwards both generators to stream position p (replay).
func (r *immRun) skipTo(p int64) {
	for r.pos < p {
		rand.Int()
		r.shadow.Int()
		r.pos++
	}
}

// firstNoop returns the first operation (in alphabet order) that leaves m unchanged.
func (r *immRun) firstNoop(m model) string {
	for _, op := range allOps {
		put, k, v := parseOp(op)
		if (put && m[k] == v) || (!put && m[k] < 0) {
			return op
		}
	}
	return ""
}

// step applies op to the newest version, pushes the result and evaluates every oracle class.
func (r *immRun) step(op string) *failures {
	put, k, v := parseOp(op)
	top := &r.stack[len(r.stack)-1]
	m, prio := top.m, top.prio
	wasAbsent := m[k] < 0
	r.ops = append(r.ops, op)
	r.opPos = append(r.opPos, r.pos)
	progress++ // (single writer; read by the watchdog)
	var nt *database.VerifTreapImmutable
	if put {
		nt = top.t.Put(keys[k], vals[v])
		m[k] = v
	} else {
		nt = top.t.Delete(keys[k])
		m[k] = -1
		prio[k] = -1
	}
	r.nodes++
	f := &r.f
	f.list = f.list[:0]
	ok, draws, firstDraw := r.sync()
	if put && wasAbsent {
		prio[k] = -1
		if draws == 1 {
			prio[k] = firstDraw
		}
	}
	r.push(nt, m, prio)
	// distinct version stacks: operations that change nothing all produce the same stack of
	// contents as their first such sibling; a stack is counted through its canonical path only
	changed := m != top.m
	canon := r.canon[len(r.canon)-1] && (changed || op == r.firstNoop(top.m))
	r.canon = append(r.canon, canon)
	if canon {
		r.distinct++
	}
	if !ok {
		f.add("priority-stream", "marker not found in the shadow priority stream")
		return f
	}

	// newest version: full read
	nf := len(f.list)
	nv := &r.stack[len(r.stack)-1]
	if r.noMemo || fullReadNeeded(1, opIndex(op), m, prio) {
		r.fullReads++
		readFull(nt, m, f, "new version after "+op)
	} else if c := readLean(nt, m, nv.e[:nv.n], &nv.it, int(r.nodes)); c != "" {
		f.add(c, "new version after %s: treap disagrees with the sorted-map model %v (%s)", op, m, c)
	}
	for i := nf; i < len(f.list); i++ {
		f.list[i][0] = "new-version|" + f.list[i][0]
	}
	// every older retained version: complete re-read against the model recorded at its creation
	oldRead, oldIter := false, false
	for i := len(r.stack) - 2; i >= 0; i-- {
		ver := &r.stack[i]
		r.reads++
		if !oldRead {
			if c := readLean(ver.t, ver.m, ver.e[:ver.n], &ver.it, int(r.nodes)+i); c != "" {
				oldRead = true
				f.add("old-version|"+c, "after %s (%d updates later) retained version %d no longer answers as recorded %v (%s)", op, len(r.stack)-1-i, i, ver.m, c)
			}
		}
		// mid-traversal iterators created before the later updates
		wf, wb := -1, -1
		if ver.fi < ver.n {
			wf = ver.e[ver.fi]
		}
		if ver.bi >= 0 {
			wb = ver.e[ver.bi]
		}
		if ver.fi <= ver.n {
			ver.fwd.ForceReseek() // no effect on immutable treaps per the API contract
			if !atOK(&ver.fwd, ver.fwd.Next(), ver.m, wf) && !oldIter {
				oldIter = true
				f.add("old-version|iter-midway|next", "after %s: forward iterator of retained version %d (model %v), in mid-traversal across later updates, does not yield its next key", op, i, ver.m)
			}
			ver.fi++
		}
		if ver.bi >= -1 {
			if !atOK(&ver.bwd, ver.bwd.Prev(), ver.m, wb) && !oldIter {
				oldIter = true
				f.add("old-version|iter-midway|prev", "after %s: backward iterator of retained version %d (model %v), in mid-traversal across later updates, does not yield its previous key", op, i, ver.m)
			}
			ver.bi--
		}
	}
	return f
}

type savedIter struct {
	fwd, bwd database.VerifTreapIterator
	fi, bi   int
	active   bool
}

// active reports whether the mid-traversal iterators of s still move (after they have reported
// exhaustion once they are left alone, so they need no save/restore).
func (s *version) active() bool { return s.fi <= s.n || s.bi >= -1 }

// dfs explores every extension of the current stack up to the depth bound.
func (r *immRun) dfs() {
	d := len(r.stack) - 1
	if d >= r.depth {
		if len(r.samples) < 3 {
			r.samples = append(r.samples, append([]string{}, r.ops...))
		}
		return
	}
	if r.stop != nil && r.nodes&0xfff == 0 && r.stop() {
		r.capped = true
	}
	if r.capped || r.broken {
		return
	}
	// mid-traversal iterator states to restore after each child
	for len(r.savePool) <= d {
		r.savePool = append(r.savePool, make([]savedIter, r.depth+2))
	}
	saved := r.savePool[d]
	for i := range r.stack {
		s := &r.stack[i]
		saved[i].active = s.active()
		if saved[i].active {
			saved[i].fwd, saved[i].bwd, saved[i].fi, saved[i].bi = s.fwd, s.bwd, s.fi, s.bi
		}
	}
	for _, op := range allOps {
		f := r.step(op)
		diverged := false
		for _, x := range f.list {
			if _, dup := r.fails[x[0]]; !dup {
				r.fails[x[0]] = &immFail{Clause: x[0], What: x[1], Ops: append([]string{}, r.ops...), Pos: append([]int64{}, r.opPos...)}
			}
			if x[0] == "priority-stream" || strings.HasPrefix(x[0], "new-version|contents|") {
				diverged = true // model and implementation disagree on the contents: do not go deeper
			}
			if strings.HasPrefix(x[0], "old-version|") {
				// a retained version has been damaged: the versions on the DFS stack can no longer
				// be trusted, this shard stops here (reported, exhaustive=false)
				r.broken = true
			}
		}
		if !diverged && !r.broken {
			r.dfs()
		}
		// pop
		r.stack = r.stack[:len(r.stack)-1]
		r.canon = r.canon[:len(r.canon)-1]
		r.ops = r.ops[:len(r.ops)-1]
		r.opPos = r.opPos[:len(r.opPos)-1]
		for i := range r.stack {
			if saved[i].active {
				s := &r.stack[i]
				s.fwd, s.bwd, s.fi, s.bi = saved[i].fwd, saved[i].bwd, saved[i].fi, saved[i].bi
			}
		}
		if r.broken || r.capped {
			return // (broken: nothing on the stack can be trusted any more)
		}
	}
}

// replayPath executes one recorded path (fast-forwarding the priority stream to the recorded
// positions) and returns the violated classes of its LAST step (earlier steps are reported by
// their own shorter paths).
func replayPath(seed int64, ops []string, pos []int64) map[string]string {
	r := newImmRun(seed, len(ops))
	r.noMemo = true
	out := map[string]string{}
	for i, op := range ops {
		if i < len(pos) {
			r.skipTo(pos[i])
		}
		f := r.step(op)
		if i == len(ops)-1 {
			for _, x := range f.list {
				out[x[0]] = x[1]
			}
		}
	}
	return out
}
