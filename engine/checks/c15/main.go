// C15: caches are transparent.
//
// Five explicit-state searches (engine mc: breadth-first, replay from a fresh instance, states
// deduplicated by digest), one per cache in front of persistent data, each with its bound shrunk
// through the exported knobs:
//
//	utxocache   blockchain.UTXOCache (MaxReferenceSize = 2) over a real chain store
//	txcache     indexers.TxCache behind ChainStoreFFLDB.GetTransaction → UnspentIndex.FetchTx
//	txcache-trim  the same cache pushed over its trim trigger by a bulk block (TxCacheVolume = 2)
//	blockcache  ChainStoreFFLDB.GetBlock (BlocksCacheSize = 2)
//	sendcache   p2p.WriteMessage's serialized-block cache (BlocksCacheSize = 2)
//
// Oracle everywhere: the answer given through the cache equals the answer of a fresh, empty
// instance of the same component opened on the same data (for the send cache: the direct
// serialisation of the message), and the number of entries that hold payload never exceeds the
// configured bound. Cache contents are read through the verif hooks export_verif_c15.go.
package main

import (
	"bytes"
	"encoding/hex"
	"fmt"
	"net"
	"os"
	"sort"
	"strings"
	"sync/atomic"
	"time"

	"github.com/elastos/Elastos.ELA/blockchain"
	"github.com/elastos/Elastos.ELA/blockchain/indexers"
	"github.com/elastos/Elastos.ELA/common"
	"github.com/elastos/Elastos.ELA/core/types"
	common2 "github.com/elastos/Elastos.ELA/core/types/common"
	"github.com/elastos/Elastos.ELA/core/types/interfaces"
	"github.com/elastos/Elastos.ELA/core/types/payload"
	"github.com/elastos/Elastos.ELA/database"
	"github.com/elastos/Elastos.ELA/p2p"
	"github.com/elastos/Elastos.ELA/p2p/msg"

	"verif/evid"
	"verif/mc"
	"verif/par"
	sk "verif/storekit"
)

var (
	base   string
	dirSeq int64
	addrA  = sk.Addr(0xa1)
	addrB  = sk.Addr(0xb2)
	addrC  = sk.Addr(0xc3)
	gCb    common.Uint256 // genesis coinbase id
)

func ins(id common.Uint256, idx ...uint16) []*common2.Input {
	var out []*common2.Input
	for _, i := range idx {
		out = append(out, sk.In(id, i))
	}
	return out
}

func outs(o ...*common2.Output) []*common2.Output { return o }

func short(h common.Uint256) string { return hex.EncodeToString(h[:4]) }

func freshStore() *sk.Store {
	n := atomic.AddInt64(&dirSeq, 1)
	p := sk.Params()
	p.TxCacheVolume = 2
	s, err := sk.Create(sk.Fresh(base, "s", int(n)), p)
	if err != nil {
		evid.Fatalf("create store: %v", err)
	}
	return s
}

func txBytes(t interfaces.Transaction) string {
	b := new(bytes.Buffer)
	if err := t.Serialize(b); err != nil {
		return "unserializable"
	}
	h := common.Hash(b.Bytes())
	return short(h)
}

// fundTx: eight outputs of 1000 to A from the genesis coinbase.
func fundTx() interfaces.Transaction {
	var fo []*common2.Output
	for i := 0; i < 8; i++ {
		fo = append(fo, sk.Out(addrA, 1000))
	}
	return sk.Transfer(0xf0, ins(gCb, 0), fo)
}

// ---------------------------------------------------------------------------------------------
// (a) UTXOCache

type sysA struct {
	stores []*sk.Store // stores[k] holds the funding block and the first k chain blocks (read-only)
	fund   interfaces.Transaction
	sib    interfaces.Transaction     // three distinct outputs, in every store
	chain  [][]interfaces.Transaction // blocks connectable in this order
	refs   map[string]interfaces.Transaction
	ids    map[string]common.Uint256
}

func newSysA() *sysA {
	a := &sysA{refs: map[string]interfaces.Transaction{}, ids: map[string]common.Uint256{}}
	a.fund = fundTx()
	f := a.fund.Hash()
	t1 := sk.Transfer(1, ins(f, 0), outs(sk.Out(addrA, 400), sk.Out(addrB, 600)))
	t2 := sk.Transfer(2, ins(t1.Hash(), 0), outs(sk.Out(addrC, 400)))
	a.chain = [][]interfaces.Transaction{{t1}, {t2}}
	a.refs["u1"] = sk.Transfer(21, ins(f, 2, 3), outs(sk.Out(addrB, 2000)))
	a.refs["u2"] = sk.Transfer(22, ins(t1.Hash(), 1), outs(sk.Out(addrB, 600)))
	a.refs["u3"] = sk.Transfer(23, append(append(ins(f, 2), ins(t1.Hash(), 1)...), ins(t2.Hash(), 0)...), outs(sk.Out(addrB, 2000)))
	a.refs["u4"] = sk.Transfer(24, ins(sk.H("no such transaction"), 0), outs(sk.Out(addrB, 1)))
	a.refs["u5"] = sk.Transfer(25, ins(f, 99), outs(sk.Out(addrB, 1)))
	// a previous transaction with three outputs of distinct values and addresses, spent one
	// output at a time and two at a time (sibling outpoints must never be confused)
	a.sib = sk.Transfer(26, ins(f, 4), outs(sk.Out(addrA, 100), sk.Out(addrB, 250), sk.Out(addrC, 650)))
	p := a.sib.Hash()
	a.refs["s0"] = sk.Transfer(27, ins(p, 0), outs(sk.Out(addrB, 100)))
	a.refs["s1"] = sk.Transfer(28, ins(p, 1), outs(sk.Out(addrB, 250)))
	a.refs["s2"] = sk.Transfer(29, ins(p, 2), outs(sk.Out(addrB, 650)))
	a.refs["s01"] = sk.Transfer(30, ins(p, 0, 1), outs(sk.Out(addrB, 350)))
	a.refs["s21"] = sk.Transfer(31, ins(p, 2, 1), outs(sk.Out(addrB, 900)))
	a.ids["F"] = f
	a.ids["t1"] = t1.Hash()
	a.ids["none"] = sk.H("no such transaction")
	return a
}

// The UTXOCache reaches its store only through IUTXOCacheStore.GetTransaction, so the chain
// positions are materialised once as read-only stores (stores[k] = funding block + k chain
// blocks, each built through the real SaveBlock path) and "connect"/"reorg" re-point the cache's
// exported DB field at the neighbouring position. This keeps every explored history in memory;
// the store-internal caches are the subject of the txcache and blockcache systems.
type instA struct {
	sys   *sysA
	s     *sk.Store
	cache *blockchain.UTXOCache
	next  int
}

func (a *sysA) build() {
	for k := 0; k <= len(a.chain); k++ {
		s := freshStore()
		if err := s.Connect(s.NewBlock(a.fund), nil); err != nil {
			evid.Fatalf("utxocache: funding block: %v", err)
		}
		if err := s.Connect(s.NewBlock(a.sib), nil); err != nil {
			evid.Fatalf("utxocache: sibling block: %v", err)
		}
		for _, txs := range a.chain[:k] {
			if err := s.Connect(s.NewBlock(txs...), nil); err != nil {
				evid.Fatalf("utxocache: chain block: %v", err)
			}
		}
		a.stores = append(a.stores, s)
	}
}

func (a *sysA) destroy() {
	for _, s := range a.stores {
		s.Destroy()
	}
}

func (a *sysA) New() mc.Instance {
	s := a.stores[0]
	return &instA{sys: a, s: s, cache: blockchain.NewUTXOCache(s.CS, s.Params)}
}

func (in *instA) Ops() []string {
	var ops []string
	if in.next < len(in.sys.chain) {
		ops = append(ops, "connect")
	}
	if in.next > 0 {
		ops = append(ops, "reorg")
	}
	ops = append(ops, "ref:u1", "ref:u2", "ref:u3", "ref:u4", "ref:u5", "ref:s0", "ref:s1", "ref:s2", "ref:s01", "ref:s21", "get:F", "get:t1", "get:none", "cleantx", "cleanall")
	return ops
}

func renderRef(tx interfaces.Transaction, m map[*common2.Input]common2.Output, err error) string {
	if err != nil {
		return "error"
	}
	var parts []string
	for _, in := range tx.Inputs() {
		o, ok := m[in]
		if !ok {
			parts = append(parts, "absent")
			continue
		}
		b := new(bytes.Buffer)
		o.Serialize(b, common2.TxVersion09)
		parts = append(parts, hex.EncodeToString(b.Bytes()))
	}
	return strings.Join(parts, ",")
}

func (in *instA) Apply(op string) *mc.Fail {
	kind, arg, _ := strings.Cut(op, ":")
	switch kind {
	case "connect":
		in.next++
		in.s = in.sys.stores[in.next]
		in.cache.DB = in.s.CS
		// netsync does this on every connected block
		in.cache.CleanTxCache()
	case "reorg":
		// BlockChain.reorganizeChain cleans the cache before it disconnects anything
		in.cache.CleanCache()
		in.next--
		in.s = in.sys.stores[in.next]
		in.cache.DB = in.s.CS
	case "ref":
		tx := in.sys.refs[arg]
		m, err := in.cache.GetTxReference(tx)
		got := renderRef(tx, m, err)
		fm, ferr := blockchain.NewUTXOCache(in.s.CS, in.s.Params).GetTxReference(tx)
		want := renderRef(tx, fm, ferr)
		if got != want {
			return mc.Failf("C15|utxocache|GetTxReference|"+mismatch(got, want), "GetTxReference(%s) through the cache: %s; fresh cache on the same store: %s", arg, got, want)
		}
	case "get":
		id := in.sys.ids[arg]
		tx, err := in.cache.GetTransaction(id)
		ftx, ferr := blockchain.NewUTXOCache(in.s.CS, in.s.Params).GetTransaction(id)
		got, want := renderTx(tx, err), renderTx(ftx, ferr)
		if got != want {
			return mc.Failf("C15|utxocache|GetTransaction|"+mismatch(got, want), "GetTransaction(%s) through the cache: %s; fresh cache: %s", arg, got, want)
		}
	case "cleantx":
		in.cache.CleanTxCache()
	case "cleanall":
		in.cache.CleanCache()
	}
	order, refs, txs := in.cache.VerifSnapshot()
	if len(order) > blockchain.MaxReferenceSize || refs > blockchain.MaxReferenceSize {
		return mc.Failf("C15|utxocache|bound|reference", "reference cache holds %d queue entries / %d map entries, MaxReferenceSize = %d", len(order), refs, blockchain.MaxReferenceSize)
	}
	if refs != len(order) {
		return mc.Failf("C15|utxocache|bound|reference-map-vs-queue", "reference map has %d entries but the eviction queue %d: entries outside the queue are never evicted", refs, len(order))
	}
	// insertTransaction evicts only when the map is already above the bound, so bound+1 is its
	// designed ceiling
	if len(txs) > blockchain.MaxReferenceSize+1 {
		return mc.Failf("C15|utxocache|bound|txcache", "transaction cache holds %d entries, MaxReferenceSize = %d", len(txs), blockchain.MaxReferenceSize)
	}
	return nil
}

func mismatch(got, want string) string {
	switch {
	case want == "error" || want == "notfound":
		return "stale-hit"
	case got == "error" || got == "notfound":
		return "lost"
	}
	return "different"
}

func renderTx(tx interfaces.Transaction, err error) string {
	if err != nil || tx == nil {
		return "notfound"
	}
	return short(tx.Hash()) + "/" + txBytes(tx)
}

func (in *instA) Digest() string {
	order, _, txs := in.cache.VerifSnapshot()
	var o []string
	for _, i := range order {
		o = append(o, fmt.Sprintf("%s:%d", short(i.Previous.TxID), i.Previous.Index))
	}
	// the transaction cache evicts by Go map iteration once it is above its bound, so only its
	// size (which is deterministic) is part of the state
	return fmt.Sprintf("n%d|%v|%d", in.next, o, len(txs))
}

func (in *instA) Close() {}

// ---------------------------------------------------------------------------------------------
// (b) indexers.TxCache behind GetTransaction / UnspentIndex.FetchTx

type bop struct {
	name  string
	txs   []interfaces.Transaction
	needs []string
}

type sysB struct {
	fund interfaces.Transaction
	ops  []*bop
	by   map[string]*bop
	ids  []common.Uint256
}

func newSysB() *sysB {
	b := &sysB{by: map[string]*bop{}}
	b.fund = fundTx()
	f := b.fund.Hash()
	add := func(o *bop) { b.ops = append(b.ops, o); b.by[o.name] = o }
	one := func(t interfaces.Transaction) []interfaces.Transaction { return []interfaces.Transaction{t} }
	t1 := sk.Transfer(1, ins(f, 0), outs(sk.Out(addrA, 400), sk.Out(addrB, 600)))
	add(&bop{name: "split", txs: one(t1)})
	// spends every output of split: the cache entry of split is dropped on connect
	add(&bop{name: "join", txs: one(sk.Transfer(2, ins(t1.Hash(), 0, 1), outs(sk.Out(addrC, 1000)))), needs: []string{"split"}})
	t3 := sk.Transfer(3, ins(f, 1), outs(sk.Out(addrA, 300), sk.Out(addrA, 300), sk.Out(addrA, 400)))
	add(&bop{name: "fanout", txs: one(t3)})
	add(&bop{name: "part", txs: one(sk.Transfer(4, ins(t3.Hash(), 0, 2), outs(sk.Out(addrB, 700)))), needs: []string{"fanout"}})
	// a transaction without inputs and outputs: cached on connect, no unspent entry at all
	add(&bop{name: "nextturn", txs: one(sk.NextTurn(5, 100))})
	add(&bop{name: "empty"})
	b.ids = []common.Uint256{gCb, f, sk.H("no such transaction")}
	for _, o := range b.ops {
		for _, t := range o.txs {
			b.ids = append(b.ids, t.Hash())
		}
	}
	return b
}

// fetchBoth compares the cached lookup with a fresh UnspentIndex (empty TxCache) on the same
// open database.
func fetchBoth(s *sk.Store, id common.Uint256) (got, want string) {
	tx, h, err := s.CS.GetFFLDB().GetTransaction(id)
	got = renderFetch(tx, h, err, id)
	fresh := indexers.NewUnspentIndex(s.FFL, s.Params)
	ftx, fh, ferr := fresh.FetchTx(id)
	want = renderFetch(ftx, fh, ferr, id)
	return
}

func renderFetch(tx interfaces.Transaction, h uint32, err error, id common.Uint256) string {
	if err != nil || tx == nil {
		return "notfound"
	}
	if tx.Hash() != id {
		return "wrong-transaction"
	}
	return fmt.Sprintf("height%d/%s", h, txBytes(tx))
}

// The TxCache lives inside the store, so this system is explored like C13/C14: connect and
// disconnect(tip) form a stack walk; every enabled connect sequence up to the depth bound is
// enumerated depth-first on one store per task, with connect(B) … disconnect(B) executed in
// place and the oracle evaluated after both. After a violation the state is rebuilt by a clean
// replay.
type bExplorer struct {
	sys      *sysB
	r        *evid.Run
	maxDepth int

	nodes, transitions, lookups, instances int64
	mu                                     chan struct{}
	states                                 map[string]bool
	found                                  map[string]*bFound
	sample                                 [][]string
}

type bFound struct {
	hist  []string
	what  string
	count int
}

func (e *bExplorer) lock()   { e.mu <- struct{}{} }
func (e *bExplorer) unlock() { <-e.mu }

func (e *bExplorer) enabled(path []string, name string) bool {
	on := map[string]bool{}
	for _, p := range path {
		on[p] = true
	}
	if name != "empty" && on[name] {
		return false
	}
	for _, n := range e.sys.by[name].needs {
		if !on[n] {
			return false
		}
	}
	return true
}

func (e *bExplorer) build(hist []string) (*sk.Store, []common.Uint256) {
	s := freshStore()
	atomic.AddInt64(&e.instances, 1)
	if err := s.Connect(s.NewBlock(e.sys.fund), nil); err != nil {
		evid.Fatalf("txcache: funding block: %v", err)
	}
	var removed []common.Uint256
	for _, h := range hist {
		if h == "~" {
			b, err := s.DisconnectTip(nil)
			if err != nil {
				evid.Fatalf("txcache: replay %v: %v", hist, err)
			}
			removed = append(removed, b.Transactions[0].Hash())
			continue
		}
		if err := s.Connect(s.NewBlock(e.sys.by[h].txs...), nil); err != nil {
			evid.Fatalf("txcache: replay %v: %v", hist, err)
		}
	}
	return s, removed
}

// check compares every known id through the cache and through a fresh UnspentIndex.
func (e *bExplorer) check(s *sk.Store, after string, removed []common.Uint256) *mc.Fail {
	ids := append([]common.Uint256{}, e.sys.ids...)
	for _, b := range s.Blocks[1:] {
		ids = append(ids, b.Transactions[0].Hash())
	}
	ids = append(ids, removed...)
	for _, id := range ids {
		got, want := fetchBoth(s, id)
		atomic.AddInt64(&e.lookups, 1)
		if got != want {
			return mc.Failf("C15|txcache|FetchTx|"+mismatch(got, want)+"|after="+after, "GetTransaction(%s) after %s: through the TxCache %s, fresh UnspentIndex on the same database %s", short(id), after, got, want)
		}
	}
	n := s.FFL.VerifTxCacheLen()
	if lim := int(s.Params.TxCacheVolume) + indexers.TrimmingInterval + 3; n > lim {
		return mc.Failf("C15|txcache|bound", "TxCache holds %d transactions, bound TxCacheVolume+TrimmingInterval+block = %d", n, lim)
	}
	return nil
}

func (e *bExplorer) record(hist []string, f *mc.Fail) {
	e.lock()
	first := e.found[f.Signature] == nil
	e.unlock()
	if first {
		// confirm on a fresh store with the literal history
		s, removed := e.build(hist[:len(hist)-1])
		last := hist[len(hist)-1]
		after := "connect"
		if last == "~" {
			b, err := s.DisconnectTip(nil)
			if err != nil {
				evid.Fatalf("txcache: confirm %v: %v", hist, err)
			}
			removed = append(removed, b.Transactions[0].Hash())
			after = "disconnect"
		} else if err := s.Connect(s.NewBlock(e.sys.by[last].txs...), nil); err != nil {
			evid.Fatalf("txcache: confirm %v: %v", hist, err)
		}
		f2 := e.check(s, after, removed)
		s.Destroy()
		if f2 == nil || f2.Signature != f.Signature {
			evid.Fatalf("txcache: failure of %v does not reproduce on a fresh store (%s)", hist, f.Signature)
		}
	}
	e.lock()
	cur := e.found[f.Signature]
	if cur == nil {
		cur = &bFound{}
		e.found[f.Signature] = cur
	}
	cur.count++
	if cur.hist == nil || len(hist) < len(cur.hist) || (len(hist) == len(cur.hist) && strings.Join(hist, ",") < strings.Join(cur.hist, ",")) {
		cur.hist, cur.what = hist, f.What
	}
	e.unlock()
}

type bCtx struct {
	s       *sk.Store
	removed []common.Uint256
}

func (e *bExplorer) expand(c *bCtx, path []string, budget, stopAt int) {
	if budget <= 0 || e.r.Expired() {
		return
	}
	for _, o := range e.sys.ops {
		if !e.enabled(path, o.name) {
			continue
		}
		child := append(append([]string{}, path...), o.name)
		if err := c.s.Connect(c.s.NewBlock(o.txs...), nil); err != nil {
			evid.Fatalf("txcache: connect %s after %v: %v", o.name, path, err)
		}
		atomic.AddInt64(&e.transitions, 1)
		atomic.AddInt64(&e.nodes, 1)
		e.lock()
		e.states[strings.Join(child, ",")] = true
		if len(child) == e.maxDepth && len(e.sample) < 3 {
			e.sample = append(e.sample, child)
		}
		e.unlock()
		bad := false
		if f := e.check(c.s, "connect", c.removed); f != nil {
			e.record(child, f)
			bad = true
		}
		if !bad && (stopAt == 0 || len(child) < stopAt) {
			e.expand(c, child, budget-1, stopAt)
		}
		undo := append(append([]string{}, child...), "~")
		b, err := c.s.DisconnectTip(nil)
		if err != nil {
			evid.Fatalf("txcache: disconnect after %v: %v", child, err)
		}
		atomic.AddInt64(&e.transitions, 1)
		c.removed = append(c.removed, b.Transactions[0].Hash())
		if f := e.check(c.s, "disconnect", c.removed); f != nil {
			e.record(undo, f)
			bad = true
		}
		if bad {
			c.s.Destroy()
			c.s, c.removed = e.build(path)
		}
	}
}

func (e *bExplorer) explore() {
	var tasks [][]string
	for _, o := range e.sys.ops {
		if e.enabled(nil, o.name) {
			tasks = append(tasks, []string{o.name})
		}
	}
	par.Go(len(tasks)+1, func(i int) {
		var prefix []string
		stopAt := 1
		if i > 0 {
			prefix, stopAt = tasks[i-1], 0
		}
		s, removed := e.build(prefix)
		c := &bCtx{s, removed}
		if i == 0 {
			if f := e.check(c.s, "connect", nil); f != nil {
				e.record([]string{"empty"}, f)
			}
		}
		e.expand(c, prefix, e.maxDepth-len(prefix), stopAt)
		c.s.Destroy()
	})
	var ks []string
	for k := range e.found {
		ks = append(ks, k)
	}
	sort.Strings(ks)
	for _, k := range ks {
		f := e.found[k]
		e.r.MergeViolation(evid.Violation{Signature: k, What: f.what, Count: f.count,
			Artefact: map[string]interface{}{"system": "txcache", "history": f.hist}})
	}
}

// replayB re-executes one stored txcache history, evaluating the oracle after every step.
func replayB(r *evid.Run, sys *sysB, hist []string) {
	e := &bExplorer{sys: sys, r: r, mu: make(chan struct{}, 1), states: map[string]bool{}, found: map[string]*bFound{}}
	s, removed := e.build(nil)
	defer func() { s.Destroy() }()
	for i, h := range hist {
		after := "connect"
		if h == "~" {
			b, err := s.DisconnectTip(nil)
			if err != nil {
				evid.Fatalf("txcache replay: %v", err)
			}
			removed = append(removed, b.Transactions[0].Hash())
			after = "disconnect"
		} else if err := s.Connect(s.NewBlock(sys.by[h].txs...), nil); err != nil {
			evid.Fatalf("txcache replay: %v", err)
		}
		if f := e.check(s, after, removed); f != nil {
			fmt.Printf("replay txcache %v: FAIL at step %d: %s: %s\n", hist, i+1, f.Signature, f.What)
			r.Violate(f.Signature, f.What, map[string]interface{}{"system": "txcache", "history": hist})
			return
		}
	}
	fmt.Printf("replay txcache %v -> ok\n", hist)
}

// ---------------------------------------------------------------------------------------------
// (b2) TxCache trim: a bulk block pushes the cache over TxCacheVolume + TrimmingInterval

type trimCase struct {
	offset int // how many small connects precede the one whose trim fires (0 or 1)
	hist   []string
}

// bulk builds the fan-out transaction and n spenders (one output each, all cached).
func bulk(f common.Uint256, n int) (interfaces.Transaction, []interfaces.Transaction) {
	var fo []*common2.Output
	for i := 0; i < n; i++ {
		fo = append(fo, sk.Out(addrB, 10))
	}
	big := sk.Transfer(0xb0, ins(f, 7), fo)
	bh := big.Hash()
	sp := make([]interfaces.Transaction, 0, n)
	for i := 0; i < n; i++ {
		t := sk.Typed(common2.TransferAsset, 0, &payload.TransferAsset{}, byte(i), ins(bh, uint16(i)), outs(sk.Out(addrC, 10)))
		t.SetLockTime(uint32(i)) // distinct hashes beyond the one-byte nonce
		sp = append(sp, t)
	}
	return big, sp
}

func runTrimCase(r *evid.Run, tc trimCase, stats *trimStats) {
	s := freshStore()
	defer s.Destroy()
	fund := fundTx()
	f := fund.Hash()
	if err := s.Connect(s.NewBlock(fund), nil); err != nil {
		evid.Fatalf("trim: funding: %v", err)
	}
	// cache after funding: genesis coinbase, funding coinbase, fund = 3 entries. The trigger is
	// len > TxCacheVolume + TrimmingInterval = 10002. With offset 0 the bulk leaves 10003
	// entries (first small connect trims); with offset 1 it leaves 10001 (the first small
	// connect adds 2, the second trims).
	target := indexers.TrimmingInterval + 3 - 2*tc.offset
	nSp := target - 3 - 2     // big + bulk coinbase
	big, sp := bulk(f, nSp+8) // a few outputs stay unspent so that big itself stays cached
	if err := s.Connect(s.NewBlock(big), nil); err != nil {
		evid.Fatalf("trim: big: %v", err)
	}
	// the big transaction and its coinbase are cached too: recompute
	nSp = target - s.FFL.VerifTxCacheLen() - 1
	if err := s.Connect(s.NewBlock(sp[:nSp]...), nil); err != nil {
		evid.Fatalf("trim: bulk: %v", err)
	}
	if got := s.FFL.VerifTxCacheLen(); got != target {
		evid.Fatalf("trim: cache holds %d entries after the bulk block, wanted %d", got, target)
	}
	small := map[string]interfaces.Transaction{
		"x": sk.Transfer(0x51, ins(f, 0), outs(sk.Out(addrA, 1000))),
		"y": sk.Transfer(0x52, ins(f, 1), outs(sk.Out(addrB, 1000))),
	}
	ids := []common.Uint256{gCb, f, big.Hash(), small["x"].Hash(), small["y"].Hash()}
	for _, t := range sp[:nSp] {
		ids = append(ids, t.Hash())
	}
	maxLen := 0
	trimmed := false
	for step, h := range tc.hist {
		before := s.FFL.VerifTxCacheLen()
		if h == "~" {
			if _, err := s.DisconnectTip(nil); err != nil {
				evid.Fatalf("trim: disconnect: %v", err)
			}
		} else if err := s.Connect(s.NewBlock(small[h]), nil); err != nil {
			evid.Fatalf("trim: connect %s: %v", h, err)
		}
		n := s.FFL.VerifTxCacheLen()
		if n < before-2 {
			trimmed = true
		}
		if n > maxLen {
			maxLen = n
		}
		// every id on the last step, a stride of them (plus the recent ones) before
		stride := 1
		if step < len(tc.hist)-1 {
			stride = 16
		}
		for i, id := range ids {
			if i >= 5 && i%stride != 0 {
				continue
			}
			got, want := fetchBoth(s, id)
			atomic.AddInt64(&stats.lookups, 1)
			if got != want {
				r.Violate("C15|txcache-trim|FetchTx|"+mismatch(got, want), fmt.Sprintf("after trim history %v (offset %d): GetTransaction(%s) through the TxCache %s, fresh UnspentIndex %s", tc.hist, tc.offset, short(id), got, want),
					map[string]interface{}{"system": "txcache-trim", "offset": tc.offset, "history": tc.hist})
				return
			}
		}
		// bounds: trim runs at the start of every ConnectBlock, so right after connecting a
		// block of k transactions the cache holds at most trigger+k entries, and when the trim
		// fired (more than trigger entries before) it must have come down to the configured
		// volume (+k). A disconnect never adds entries.
		trigger := int(s.Params.TxCacheVolume) + indexers.TrimmingInterval
		k := 2 // coinbase + one transfer
		art := map[string]interface{}{"system": "txcache-trim", "offset": tc.offset, "history": tc.hist}
		switch {
		case h == "~" && n > before:
			r.Violate("C15|txcache-trim|bound|grows-on-disconnect", fmt.Sprintf("TxCache grew from %d to %d on a disconnect", before, n), art)
			return
		case h != "~" && n > trigger+k:
			r.Violate("C15|txcache-trim|bound|above-trigger", fmt.Sprintf("TxCache holds %d transactions after a connect, TxCacheVolume+TrimmingInterval+block = %d", n, trigger+k), art)
			return
		case h != "~" && before > trigger && n > int(s.Params.TxCacheVolume)+k:
			r.Violate("C15|txcache-trim|bound|trim-ineffective", fmt.Sprintf("TxCache held %d transactions (> trigger %d) before a connect and still holds %d afterwards, TxCacheVolume = %d", before, trigger, n, s.Params.TxCacheVolume), art)
			return
		}
	}
	atomic.AddInt64(&stats.histories, 1)
	atomic.AddInt64(&stats.steps, int64(len(tc.hist)))
	if trimmed {
		atomic.AddInt64(&stats.trimmed, 1)
	}
	for {
		old := atomic.LoadInt64(&stats.maxLen)
		if int64(maxLen) <= old || atomic.CompareAndSwapInt64(&stats.maxLen, old, int64(maxLen)) {
			break
		}
	}
}

type trimStats struct {
	histories, steps, trimmed, lookups, maxLen int64
}

// trimHistories: all histories over {x, y, ~} up to length d in which no block is connected
// twice at once and ~ only removes a small block.
func trimHistories(d int) [][]string {
	var out [][]string
	var rec func(h []string, stack []string)
	rec = func(h []string, stack []string) {
		if len(h) > 0 {
			out = append(out, append([]string{}, h...))
		}
		if len(h) == d {
			return
		}
		for _, o := range []string{"x", "y"} {
			on := false
			for _, s := range stack {
				on = on || s == o
			}
			if !on {
				rec(append(h, o), append(append([]string{}, stack...), o))
			}
		}
		if len(stack) > 0 {
			rec(append(h, "~"), stack[:len(stack)-1])
		}
	}
	rec(nil, nil)
	return out
}

// ---------------------------------------------------------------------------------------------
// (c) ChainStoreFFLDB.GetBlock

type sysC struct {
	fund interfaces.Transaction
}

type instC struct {
	sys    *sysC
	s      *sk.Store
	known  map[string]common.Uint256 // position name → block hash once built
	flags  []string                  // how each connected block was stored
	stored map[string]string         // position → first stored variant ("plain"/"confirmed")
}

// Base state: funding block stored without confirmation, block b2 stored with one; b3 can be
// connected plain or confirmed, disconnected and connected again (dbStoreBlock keeps the first
// stored variant).
func (c *sysC) New() mc.Instance {
	s := freshStore()
	fb := s.NewBlock(c.fund)
	if err := s.Connect(fb, nil); err != nil {
		evid.Fatalf("blockcache: funding block: %v", err)
	}
	b2 := s.NewBlock()
	if err := s.Connect(b2, confirmFor(b2)); err != nil {
		evid.Fatalf("blockcache: b2: %v", err)
	}
	in := &instC{sys: c, s: s, known: map[string]common.Uint256{}, stored: map[string]string{}}
	in.known["g"] = s.Blocks[0].Hash()
	in.known["f"] = fb.Hash()
	in.known["b2"] = b2.Hash()
	in.known["b3"] = s.NewBlock().Hash()
	in.known["none"] = sk.H("no such block")
	return in
}

func confirmFor(b *types.Block) *payload.Confirm {
	h := b.Hash()
	p := payload.DPOSProposal{Sponsor: bytes.Repeat([]byte{2}, 33), BlockHash: h, ViewOffset: 0, Sign: bytes.Repeat([]byte{7}, 64)}
	return &payload.Confirm{Proposal: p, Votes: []payload.DPOSProposalVote{
		{ProposalHash: p.Hash(), Signer: bytes.Repeat([]byte{3}, 33), Accept: true, Sign: bytes.Repeat([]byte{8}, 64)},
	}}
}

func (in *instC) Ops() []string {
	var ops []string
	if len(in.flags) < 1 {
		ops = append(ops, "connect", "connectc")
	}
	if len(in.flags) > 0 {
		ops = append(ops, "disconnect")
	}
	ops = append(ops, "get:g", "get:f", "get:b2", "get:b3", "get:none")
	return ops
}

func renderBlock(b *types.DposBlock, err error) string {
	if err != nil || b == nil {
		return "notfound"
	}
	buf := new(bytes.Buffer)
	if e := b.Serialize(buf); e != nil {
		return "unserializable"
	}
	h := common.Hash(buf.Bytes())
	return fmt.Sprintf("confirm=%v/%s", b.HaveConfirm, short(h))
}

func (in *instC) Apply(op string) *mc.Fail {
	kind, arg, _ := strings.Cut(op, ":")
	switch kind {
	case "connect", "connectc":
		b := in.s.NewBlock()
		var cf *payload.Confirm
		v := "plain"
		if kind == "connectc" {
			cf = confirmFor(b)
			v = "confirmed"
		}
		if err := in.s.Connect(b, cf); err != nil {
			evid.Fatalf("blockcache: connect: %v", err)
		}
		pos := "b3"
		if in.stored[pos] == "" {
			in.stored[pos] = v
		}
		in.flags = append(in.flags, v)
	case "disconnect":
		if _, err := in.s.DisconnectTip(nil); err != nil {
			evid.Fatalf("blockcache: disconnect: %v", err)
		}
		in.flags = in.flags[:len(in.flags)-1]
	case "get":
		h := in.known[arg]
		got := renderBlock(in.s.FFL.GetBlock(h))
		// uncached: the stored bytes, decoded
		var raw []byte
		err := in.s.FFL.View(func(tx database.Tx) error {
			var e error
			raw, e = tx.FetchBlock(&h)
			return e
		})
		var fb *types.DposBlock
		if err == nil {
			fb = new(types.DposBlock)
			err = fb.Deserialize(bytes.NewReader(raw))
		}
		want := renderBlock(fb, err)
		if got != want {
			return mc.Failf("C15|blockcache|GetBlock|"+mismatch(got, want), "GetBlock(%s) through the cache: %s; stored bytes decoded: %s", arg, got, want)
		}
	}
	order, keys := in.s.FFL.VerifBlockCache()
	if len(order) > blockchain.BlocksCacheSize || len(keys) > blockchain.BlocksCacheSize {
		return mc.Failf("C15|blockcache|bound", "block cache holds %d queue entries / %d blocks, BlocksCacheSize = %d", len(order), len(keys), blockchain.BlocksCacheSize)
	}
	if len(order) != len(keys) {
		return mc.Failf("C15|blockcache|bound|map-vs-queue", "block cache map has %d blocks but the eviction queue %d", len(keys), len(order))
	}
	return nil
}

func (in *instC) Digest() string {
	order, _ := in.s.FFL.VerifBlockCache()
	var o []string
	for _, h := range order {
		name := short(h)
		for k, v := range in.known {
			if v == h {
				name = k
			}
		}
		o = append(o, name)
	}
	return fmt.Sprintf("%v|%s|%v", in.flags, in.stored["b3"], o)
}

func (in *instC) Close() { in.s.Destroy() }

// (c2) GetBlock under concurrency — AUXILIARY, free-running (a sampling of timings, like the
// race pass of C40): many goroutines miss the same uncached hash at the same time; afterwards
// the size bound must hold (queue <= BlocksCacheSize, map <= BlocksCacheSize), every cached block
// must own a queue slot (otherwise it can never be evicted) and every answer must equal the
// stored bytes. On the unchanged tree overlapping misses may put one hash into the queue twice
// (a harmless duplicate slot: the queue stays within the bound), which is why the sequential
// "queue length == map size" clause is not applied here.
type concStats struct{ rounds, lookups, maxQueue, maxMap int64 }

func concurrentGetBlock(r *evid.Run, rounds, workers int, st *concStats) {
	s := freshStore()
	defer s.Destroy()
	var hashes []common.Uint256
	hashes = append(hashes, s.Blocks[0].Hash())
	for i := 0; i < 3; i++ {
		b := s.NewBlock()
		if err := s.Connect(b, nil); err != nil {
			evid.Fatalf("blockcache-concurrent: connect: %v", err)
		}
		hashes = append(hashes, b.Hash())
	}
	want := map[common.Uint256]string{}
	for _, h := range hashes {
		h := h
		var raw []byte
		if err := s.FFL.View(func(tx database.Tx) error { var e error; raw, e = tx.FetchBlock(&h); return e }); err != nil {
			evid.Fatalf("blockcache-concurrent: fetch: %v", err)
		}
		fb := new(types.DposBlock)
		want[h] = renderBlock(fb, fb.Deserialize(bytes.NewReader(raw)))
	}
	for round := 0; round < rounds; round++ {
		target := hashes[round%len(hashes)]
		// make sure the target is not cached: look up two other hashes first
		for k := 1; k <= 2; k++ {
			s.FFL.GetBlock(hashes[(round+k)%len(hashes)])
		}
		start := make(chan struct{})
		done := make(chan string, workers)
		for w := 0; w < workers; w++ {
			go func() {
				<-start
				done <- renderBlock(s.FFL.GetBlock(target))
			}()
		}
		close(start)
		for w := 0; w < workers; w++ {
			if got := <-done; got != want[target] {
				r.Violate("C15|blockcache-concurrent|GetBlock|different", fmt.Sprintf("concurrent GetBlock returned %s, stored bytes decode to %s", got, want[target]), map[string]interface{}{"system": "blockcache-concurrent"})
				return
			}
			atomic.AddInt64(&st.lookups, 1)
		}
		order, keys := s.FFL.VerifBlockCache()
		if int64(len(order)) > st.maxQueue {
			st.maxQueue = int64(len(order))
		}
		if int64(len(keys)) > st.maxMap {
			st.maxMap = int64(len(keys))
		}
		art := map[string]interface{}{"system": "blockcache-concurrent", "rounds": rounds, "workers": workers}
		if len(order) > blockchain.BlocksCacheSize || len(keys) > blockchain.BlocksCacheSize {
			r.Violate("C15|blockcache-concurrent|bound", fmt.Sprintf("after %d overlapping misses of one hash the block cache holds %d queue entries / %d blocks, BlocksCacheSize = %d", workers, len(order), len(keys), blockchain.BlocksCacheSize), art)
			return
		}
		inQueue := map[common.Uint256]bool{}
		for _, h := range order {
			inQueue[h] = true
		}
		for _, k := range keys {
			if !inQueue[k] {
				r.Violate("C15|blockcache-concurrent|bound|block-without-queue-slot", "a cached block has no slot in the eviction queue and can never be evicted", art)
				return
			}
		}
		st.rounds++
	}
}

// ---------------------------------------------------------------------------------------------
// (d) p2p.WriteMessage send cache (process-global: serial exploration, reset between instances)

type recConn struct{ bytes.Buffer }

func (c *recConn) Read(b []byte) (int, error)         { return 0, fmt.Errorf("write only") }
func (c *recConn) Close() error                       { return nil }
func (c *recConn) LocalAddr() net.Addr                { return &net.TCPAddr{} }
func (c *recConn) RemoteAddr() net.Addr               { return &net.TCPAddr{} }
func (c *recConn) SetDeadline(t time.Time) error      { return nil }
func (c *recConn) SetReadDeadline(t time.Time) error  { return nil }
func (c *recConn) SetWriteDeadline(t time.Time) error { return nil }

type sysD struct {
	msgs  map[string]p2p.Message
	names []string
}

const magic = 2017001

func newSysD() *sysD {
	d := &sysD{msgs: map[string]p2p.Message{}}
	g := sk.Params().GenesisBlock
	mk := func(tag byte) *types.Block {
		h := g.Hash()
		return &types.Block{Header: common2.Header{Version: 0, Previous: h, Timestamp: g.Timestamp + uint32(tag), Bits: 0x207fffff, Height: 1},
			Transactions: []interfaces.Transaction{sk.Coinbase(1, []byte{tag}, sk.Out(addrA, int64(tag)))}}
	}
	for i, n := range []string{"A", "B", "C"} {
		b := mk(byte(i + 1))
		d.msgs[n] = msg.NewBlock(&types.DposBlock{Block: b})
		d.msgs[n+"c"] = msg.NewBlock(&types.DposBlock{Block: b, HaveConfirm: true, Confirm: confirmFor(b)})
		d.names = append(d.names, n, n+"c")
	}
	d.msgs["ping"] = msg.NewPing(7)
	d.names = append(d.names, "ping")
	return d
}

type instD struct {
	sys      *sysD
	maxOuter int
}

func (d *sysD) New() mc.Instance {
	p2p.VerifSendCacheReset()
	return &instD{sys: d}
}

func (in *instD) Ops() []string { return in.sys.names }

func getDposBlock(m p2p.Message) (*types.DposBlock, bool) {
	mb, ok := m.(*msg.Block)
	if !ok {
		return nil, false
	}
	db, ok := mb.Serializable.(*types.DposBlock)
	return db, ok
}

var maxOuterSeen int64

func (in *instD) Apply(op string) *mc.Fail {
	m := in.sys.msgs[op]
	conn := &recConn{}
	if err := p2p.WriteMessage(conn, magic, m, time.Minute, getDposBlock); err != nil {
		return mc.Failf("C15|sendcache|write-error", "WriteMessage(%s): %v", op, err)
	}
	direct := new(bytes.Buffer)
	if err := m.Serialize(direct); err != nil {
		evid.Fatalf("sendcache: serialize %s: %v", op, err)
	}
	hdr, err := p2p.BuildHeader(magic, m.CMD(), direct.Bytes()).Serialize()
	if err != nil {
		evid.Fatalf("sendcache: header: %v", err)
	}
	want := append(hdr, direct.Bytes()...)
	if !bytes.Equal(conn.Bytes(), want) {
		kind := "different-bytes"
		for n, o := range in.sys.msgs {
			b := new(bytes.Buffer)
			o.Serialize(b)
			if n != op && bytes.HasSuffix(conn.Bytes(), b.Bytes()) && b.Len() > 0 {
				kind = "bytes-of-other-variant"
			}
		}
		return mc.Failf("C15|sendcache|WriteMessage|"+kind, "WriteMessage(%s) wrote %d bytes that differ from header+direct serialisation (%d bytes)", op, conn.Len(), len(want))
	}
	queue, outer, payloads := p2p.VerifSendCacheSnapshot()
	if len(queue) > p2p.BlocksCacheSize || len(payloads) > p2p.BlocksCacheSize {
		return mc.Failf("C15|sendcache|bound", "send cache holds %d queue entries / %d payloads, BlocksCacheSize = %d", len(queue), len(payloads), p2p.BlocksCacheSize)
	}
	if len(outer) > in.maxOuter {
		in.maxOuter = len(outer)
	}
	for {
		old := atomic.LoadInt64(&maxOuterSeen)
		if int64(len(outer)) <= old || atomic.CompareAndSwapInt64(&maxOuterSeen, old, int64(len(outer))) {
			break
		}
	}
	return nil
}

func (in *instD) Digest() string {
	queue, outer, payloads := p2p.VerifSendCacheSnapshot()
	name := func(h common.Uint256) string {
		for n, m := range in.sys.msgs {
			if db, ok := getDposBlock(m); ok && db.Hash() == h {
				return strings.TrimSuffix(n, "c")
			}
		}
		return short(h)
	}
	var q, o, p []string
	for _, e := range queue {
		q = append(q, fmt.Sprintf("%s/%v", name(e.Hash), e.Confirm))
	}
	for _, h := range outer {
		o = append(o, name(h))
	}
	for e := range payloads {
		p = append(p, fmt.Sprintf("%s/%v", name(e.Hash), e.Confirm))
	}
	sort.Strings(o)
	sort.Strings(p)
	return fmt.Sprintf("%v|%v|%v", q, o, p)
}

func (in *instD) Close() {}

// ---------------------------------------------------------------------------------------------

func main() {
	r := evid.Start("C15", "model_checking")
	base = evid.Scratch("c15")
	defer os.RemoveAll(base)
	sk.Setup(base + "/logs")
	gCb = sk.Params().GenesisBlock.Transactions[0].Hash()
	blockchain.MaxReferenceSize = 2

	sysA := newSysA()
	sysA.build()
	defer sysA.destroy()
	sysB := newSysB()
	specs := map[string]*mc.Spec{
		"utxocache":  {Name: "utxocache", New: sysA.New, MaxDepth: r.Pick(11, 14)},
		"blockcache": {Name: "blockcache", New: (&sysC{fund: fundTx()}).New, MaxDepth: r.Pick(5, 7)},
		"sendcache":  {Name: "sendcache", New: newSysD().New, MaxDepth: r.Pick(6, 8), Serial: true},
	}
	order := []string{"utxocache", "blockcache", "sendcache"}

	if r.Replay != "" {
		var a struct {
			System  string   `json:"system"`
			History []string `json:"history"`
			Offset  int      `json:"offset"`
		}
		r.LoadReplay(&a)
		if a.System == "txcache-trim" {
			runTrimCase(r, trimCase{offset: a.Offset, hist: a.History}, &trimStats{})
			fmt.Printf("replay txcache-trim offset=%d %v: %d violation(s)\n", a.Offset, a.History, r.NumViolations())
		} else if a.System == "txcache" {
			replayB(r, sysB, a.History)
		} else {
			sp := specs[a.System]
			if sp == nil {
				evid.Fatalf("unknown system %q", a.System)
			}
			mc.Replay(r, sp, a.History)
		}
		os.RemoveAll(base)
		r.Finish(evid.Coverage{})
	}

	var states, transitions, executions int64
	exhaustive := true
	var systems []map[string]interface{}
	samples := []interface{}{}
	only := os.Getenv("VERIF_C15_ONLY")
	for _, name := range order {
		if only != "" && only != name {
			continue
		}
		t0 := time.Now()
		res := mc.Explore(r, specs[name])
		fmt.Printf("%s: depth %d, %d states, %d transitions, %d executions, per depth %v, %.1fs\n", name, specs[name].MaxDepth, res.States, res.Transitions, res.Executions, res.PerDepth, time.Since(t0).Seconds())
		states += res.States
		transitions += res.Transitions
		executions += res.Executions
		exhaustive = exhaustive && res.Exhaustive
		for _, s := range res.Samples {
			if len(samples) < 8 {
				samples = append(samples, append([]string{name}, s...))
			}
		}
		systems = append(systems, map[string]interface{}{"system": name, "depth": specs[name].MaxDepth, "states": res.States,
			"transitions": res.Transitions, "executions": res.Executions, "states_per_depth": res.PerDepth, "exhaustive": res.Exhaustive, "cap": res.Capped})
	}
	// blockcache under concurrency (auxiliary, free-running)
	var cs concStats
	if only == "" || only == "blockcache-concurrent" {
		t0 := time.Now()
		concurrentGetBlock(r, r.Pick(200, 2000), 32, &cs)
		fmt.Printf("blockcache-concurrent (auxiliary): %d rounds x 32 overlapping lookups, max queue %d, max map %d, %.1fs\n", cs.rounds, cs.maxQueue, cs.maxMap, time.Since(t0).Seconds())
		systems = append(systems, map[string]interface{}{"system": "blockcache-concurrent", "auxiliary": true, "rounds": cs.rounds, "lookups": cs.lookups,
			"max_queue_len": cs.maxQueue, "max_map_len": cs.maxMap,
			"note": "free-running goroutines (sampling of timings, not an enumeration): 32 overlapping GetBlock misses of one hash per round; size bound and queue/map consistency checked after every round; not counted in states/transitions"})
	}
	// txcache: in-place depth-first search
	if only == "" || only == "txcache" {
		t0 := time.Now()
		be := &bExplorer{sys: sysB, r: r, maxDepth: r.Pick(6, 8), mu: make(chan struct{}, 1), states: map[string]bool{}, found: map[string]*bFound{}}
		be.explore()
		fmt.Printf("txcache: depth %d, %d connect sequences, %d transitions, %d lookups, %d instances, %.1fs\n", be.maxDepth, be.nodes, be.transitions, be.lookups, be.instances, time.Since(t0).Seconds())
		states += int64(len(be.states)) + 1
		transitions += be.transitions
		executions += be.nodes
		for _, sm := range be.sample {
			samples = append(samples, append([]string{"txcache"}, sm...))
		}
		systems = append(systems, map[string]interface{}{"system": "txcache", "depth": be.maxDepth, "connect_sequences": be.nodes, "transitions": be.transitions,
			"cached_vs_fresh_lookups": be.lookups, "exploration": "depth-first over connect sequences, connect/disconnect pairs executed in place (as C13/C14)"})
		if r.Expired() {
			exhaustive = false
		}
	}
	// trim histories
	var ts trimStats
	var cases []trimCase
	for _, off := range []int{0, 1} {
		for _, h := range trimHistories(r.Pick(3, 4)) {
			cases = append(cases, trimCase{offset: off, hist: h})
		}
	}
	if only != "" && only != "txcache-trim" {
		cases = nil
	}
	t0 := time.Now()
	par.Go(len(cases), func(i int) {
		if r.Expired() {
			exhaustive = false
			return
		}
		runTrimCase(r, cases[i], &ts)
	})
	fmt.Printf("txcache-trim: %d histories, %d steps, trim fired in %d, %d lookups, %.1fs\n", ts.histories, ts.steps, ts.trimmed, ts.lookups, time.Since(t0).Seconds())
	states += ts.steps
	transitions += ts.steps
	executions += ts.histories
	systems = append(systems, map[string]interface{}{"system": "txcache-trim", "histories": ts.histories, "steps": ts.steps,
		"histories_in_which_trim_fired": ts.trimmed, "cached_vs_fresh_lookups": ts.lookups, "max_cache_len": ts.maxLen,
		"space": "all histories over {connect x, connect y, disconnect} up to the depth bound after a bulk block that leaves the cache 1 above (offset 0) or 1 below (offset 1) its trim trigger"})
	if len(samples) == 0 {
		samples = append(samples, []string{})
	}
	cov := evid.Coverage{
		"states":                        states,
		"transitions":                   transitions,
		"traces_validated_against_impl": executions,
		"systems":                       systems,
		"exhaustive":                    exhaustive,
		"samples":                       samples,
		"sendcache_max_outer_map_keys":  maxOuterSeen,
		"observation": "p2p send cache: the outer map keeps one (empty) inner map per block hash ever cached (max keys seen above, with 3 distinct blocks); no payload is retained beyond BlocksCacheSize, " +
			"and a hash that was evicted once is never cached again (served by direct serialisation)",
		"rule": "per cache: breadth-first search over lookups / inserts / cleans / connects / reorg-disconnects with replay from a fresh instance and digest = cache contents read through the verif hooks + chain position; " +
			"oracle after every operation: cached answer == answer of a fresh empty instance on the same data (send cache: header + direct serialisation), entries holding payload <= configured bound; " +
			"TxCache trim: bulk block of ~10000 transactions, then every short history, every transaction looked up both ways",
	}
	r.Assume = append(r.Assume,
		"UTXOCache is cleaned the way the repository does it: CleanCache before a reorganisation disconnects blocks (BlockChain.reorganizeChain), CleanTxCache after every connected block (netsync)",
		"the confirmation attached to a block is a function of the block (one Confirm per block hash); two different confirmations of one block are not in the send-cache alphabet",
		"eviction victims picked by Go map iteration (UTXOCache.TxCache above bound+1, TxCache.trim) are not enumerated; the oracle does not depend on which entries survive",
		"the transaction cache of UTXOCache is allowed its designed ceiling MaxReferenceSize+1 (insertTransaction evicts only when already above the bound)",
	)
	os.RemoveAll(base)
	r.Finish(cov)
}
