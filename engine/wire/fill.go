package wire

import (
	"net"
	"reflect"
	"time"
)

// Filler populates values through reflection with deterministic, pairwise distinct, small
// contents: every exported slice gets N elements, every string and byte string is non-empty,
// every number is a distinct small value, every bool is Bool. Unexported fields (hash caches)
// are left alone. Interface-typed fields are left nil unless Iface supplies a value.
type Filler struct {
	N     int  // elements per slice
	Bool  bool // value of every bool
	Zero  bool // leave every number/string/array zero and every slice empty ("all off")
	ctr   int
	Iface func(t reflect.Type, path string) interface{}
	// Override may set a field itself (return true) — used for enum fields with a closed menu.
	Override func(path string, v reflect.Value) bool
}

var (
	tTime = reflect.TypeOf(time.Time{})
	tIP   = reflect.TypeOf(net.IP{})
)

func (f *Filler) next() int { f.ctr++; return f.ctr }

// Fill populates *ptr.
func (f *Filler) Fill(ptr interface{}) {
	v := reflect.ValueOf(ptr)
	if v.Kind() != reflect.Ptr {
		panic("Fill needs a pointer")
	}
	f.fill(v.Elem(), v.Elem().Type().Name())
}

func (f *Filler) fill(v reflect.Value, path string) {
	if !v.CanSet() {
		return
	}
	if f.Override != nil && f.Override(path, v) {
		return
	}
	t := v.Type()
	switch {
	case t == tTime:
		if f.Zero {
			v.Set(reflect.ValueOf(time.Unix(0, 0)))
		} else {
			v.Set(reflect.ValueOf(time.Unix(1500000000+int64(f.next()), 0)))
		}
		return
	case t == tIP:
		ip := make(net.IP, 16)
		if !f.Zero {
			ip[0] = 0x20
			for i := 1; i < 16; i++ {
				ip[i] = byte(f.next())
			}
		}
		v.Set(reflect.ValueOf(ip))
		return
	}
	switch v.Kind() {
	case reflect.Bool:
		v.SetBool(f.Bool && !f.Zero)
	case reflect.Uint8, reflect.Uint16, reflect.Uint32, reflect.Uint64, reflect.Uint:
		if !f.Zero {
			v.SetUint(uint64(1 + f.next()%120))
		}
	case reflect.Int8, reflect.Int16, reflect.Int32, reflect.Int64, reflect.Int:
		if !f.Zero {
			v.SetInt(int64(1 + f.next()%120))
		}
	case reflect.String:
		if !f.Zero {
			k := f.next()
			v.SetString("s" + string(rune('a'+k%26)) + string(rune('a'+(k/26)%26)))
		}
	case reflect.Array:
		if f.Zero {
			return
		}
		if t.Elem().Kind() == reflect.Uint8 {
			k := f.next()
			for i := 0; i < v.Len(); i++ {
				v.Index(i).SetUint(uint64(byte(k*7 + i + 1)))
			}
			return
		}
		for i := 0; i < v.Len(); i++ {
			f.fill(v.Index(i), path)
		}
	case reflect.Slice:
		if f.Zero {
			return
		}
		if t.Elem().Kind() == reflect.Uint8 {
			k := f.next()
			n := 2 + k%3
			b := reflect.MakeSlice(t, n, n)
			for i := 0; i < n; i++ {
				b.Index(i).SetUint(uint64(byte(k*5 + i + 1)))
			}
			v.Set(b)
			return
		}
		s := reflect.MakeSlice(t, f.N, f.N)
		for i := 0; i < f.N; i++ {
			f.fill(s.Index(i), path)
		}
		v.Set(s)
	case reflect.Ptr:
		p := reflect.New(t.Elem())
		f.fill(p.Elem(), path)
		v.Set(p)
	case reflect.Struct:
		for i := 0; i < t.NumField(); i++ {
			sf := t.Field(i)
			if sf.PkgPath != "" { // unexported: caches
				continue
			}
			f.fill(v.Field(i), path+"."+sf.Name)
		}
	case reflect.Interface:
		if f.Iface != nil {
			if x := f.Iface(t, path); x != nil {
				v.Set(reflect.ValueOf(x))
			}
		}
	}
}
