package wire

import (
	"fmt"
	"reflect"
	"strings"

	"github.com/elastos/Elastos.ELA/crypto"
	"github.com/elastos/Elastos.ELA/elanet/pact"
	"github.com/elastos/Elastos.ELA/p2p/msg"
)

// MsgLimit is one per-message limit a message decoder enforces, taken from the repository's own
// constants: the list / byte-string / numeric field at Path of the message built by spec Spec may
// hold at most Limit elements (or, for Numeric, have at most that value).
type MsgLimit struct {
	Spec    string // MsgSpec.Name
	Path    string // dotted field path from the message value
	Limit   int
	Numeric bool
	Const   string // the constant the limit comes from (for reports)
}

// MsgLimits lists the documented per-message limits.
func MsgLimits() []MsgLimit {
	var out []MsgLimit
	add := func(spec, path string, limit int, c string) {
		out = append(out, MsgLimit{Spec: spec, Path: path, Limit: limit, Const: c})
	}
	add("p2pmsg/getblocks", "Locator", msg.MaxBlockLocatorsPerMsg, "msg.MaxBlockLocatorsPerMsg")
	add("p2pmsg/inv", "InvList", msg.MaxInvPerMsg, "msg.MaxInvPerMsg")
	add("p2pmsg/getdata", "InvList", msg.MaxInvPerMsg, "msg.MaxInvPerMsg")
	add("p2pmsg/notfound", "InvList", msg.MaxInvPerMsg, "msg.MaxInvPerMsg")
	add("p2pmsg/addr", "AddrList", msg.MaxAddrPerMsg, "msg.MaxAddrPerMsg")
	add("p2pmsg/filteradd", "Data", msg.MaxFilterAddDataSize, "msg.MaxFilterAddDataSize")
	add("p2pmsg/filterload", "Filter", msg.MaxFilterLoadFilterSize, "msg.MaxFilterLoadFilterSize")
	out = append(out, MsgLimit{Spec: "p2pmsg/filterload", Path: "HashFuncs", Limit: msg.MaxFilterLoadHashFuncs, Numeric: true, Const: "msg.MaxFilterLoadHashFuncs"})
	add("p2pmsg/txfilter", "Data", msg.MaxTxFilterLoadDataSize, "msg.MaxTxFilterLoadDataSize")
	add("p2pmsg/merkleblock", "Hashes", int(pact.MaxTxPerBlock), "pact.MaxTxPerBlock")
	add("p2pmsg/merkleblock", "Flags", int(pact.MaxTxPerBlock/8), "pact.MaxTxPerBlock/8")
	add("p2pmsg/daddr", "Signature", crypto.SignatureLength, "crypto.SignatureLength")
	// DPoS messages: public keys and signatures
	add("dposmsg/proposal", "Proposal.Sponsor", crypto.NegativeBigLength, "crypto.NegativeBigLength")
	add("dposmsg/proposal", "Proposal.Sign", crypto.SignatureLength, "crypto.SignatureLength")
	for _, v := range []string{"dposmsg/acc_vote", "dposmsg/rej_vote"} {
		add(v, "Vote.Signer", crypto.NegativeBigLength, "crypto.NegativeBigLength")
		add(v, "Vote.Sign", crypto.SignatureLength, "crypto.SignatureLength")
	}
	add("dposmsg/reset_view", "Sponsor", crypto.NegativeBigLength, "crypto.NegativeBigLength")
	add("dposmsg/reset_view", "Sign", crypto.SignatureLength, "crypto.SignatureLength")
	for _, v := range []string{"dposmsg/ina_ars", "dposmsg/rev_to_dpos"} {
		add(v, "Signer", crypto.NegativeBigLength, "crypto.NegativeBigLength")
		add(v, "Sign", crypto.SignatureLength, "crypto.SignatureLength")
	}
	return out
}

// FieldByPath follows a dotted path of exported (possibly promoted) field names from a pointer
// or struct value.
func FieldByPath(v reflect.Value, path string) (reflect.Value, error) {
	for _, name := range strings.Split(path, ".") {
		for v.Kind() == reflect.Ptr || v.Kind() == reflect.Interface {
			if v.IsNil() {
				return reflect.Value{}, fmt.Errorf("nil on the way to %s", path)
			}
			v = v.Elem()
		}
		if v.Kind() != reflect.Struct {
			return reflect.Value{}, fmt.Errorf("%s: not a struct", path)
		}
		v = v.FieldByName(name)
		if !v.IsValid() {
			return reflect.Value{}, fmt.Errorf("no field %s", path)
		}
	}
	return v, nil
}

// ApplyLimit sets the limited field of message value m to n (length, or value for numeric limits).
// Lists repeat their first element with a distinguishing first byte where the element allows it.
func ApplyLimit(m interface{}, l MsgLimit, n int) error {
	f, err := FieldByPath(reflect.ValueOf(m), l.Path)
	if err != nil {
		return err
	}
	if !f.CanSet() {
		return fmt.Errorf("%s cannot be set", l.Path)
	}
	if l.Numeric {
		f.SetUint(uint64(n))
		return nil
	}
	switch f.Kind() {
	case reflect.Slice:
		s := reflect.MakeSlice(f.Type(), n, n)
		if f.Type().Elem().Kind() == reflect.Uint8 {
			for i := 0; i < n; i++ {
				s.Index(i).SetUint(uint64(byte(i*5 + 1)))
			}
		} else {
			if f.Len() == 0 {
				return fmt.Errorf("%s is empty in the populated message", l.Path)
			}
			for i := 0; i < n; i++ {
				s.Index(i).Set(f.Index(0))
			}
		}
		f.Set(s)
		return nil
	}
	return fmt.Errorf("%s: unsupported kind %s", l.Path, f.Kind())
}

// SpecByName builds the message specs afresh and returns the named one.
func SpecByName(name string) (MsgSpec, bool) {
	for _, s := range append(P2PMsgSpecs(), DposMsgSpecs()...) {
		if s.Name == name {
			return s, true
		}
	}
	return MsgSpec{}, false
}
