// C20: utils.History — explicit-state search over block/temp/rollback/seek sequences on the real
// History, compared with a reference list-of-changes model after every operation.
//
// Closure styles are the two the repository itself uses with History: commutative deltas
// (x += d / x -= d) on variable A, and "set" with the previous value captured when the change is
// appended (ori := x; Append(h, func(){x = v}, func(){x = ori})) on variable B. Sets are only
// appended while the history is not seeked away from its best height (a value captured from a
// historical view is a caller error, not a History property).
package main

import (
	"fmt"
	"strconv"
	"strings"

	"github.com/elastos/Elastos.ELA/utils"

	"verif/evid"
	"verif/mc"
)

const capacity = 3

type chg struct {
	v    byte // 'a' or 'b'
	n    int
	temp bool
}

type hchanges struct {
	height uint32
	ch     []chg
}

type inst struct {
	h       *utils.History
	A, B, C int

	// reference model
	baseA, baseB int        // fold of changes already dropped from the retained window
	baseC        int
	held         []hchanges // retained heights, ascending
	height       uint32
	view         uint32 // seek height (== height when not seeked)
	temp         []chg  // pending temporary changes (executed, to be undone by the next block)
	tempB        []int  // captured previous B values for temp sets (model needs none; kept for digest)
}

func newInst() mc.Instance {
	return &inst{h: utils.NewHistory(capacity)}
}

func parseChanges(s string) []chg {
	if s == "" {
		return nil
	}
	var out []chg
	for _, p := range strings.Split(s, ",") {
		n, _ := strconv.Atoi(p[1:])
		out = append(out, chg{v: p[0], n: n})
	}
	return out
}

func (in *inst) appendReal(height uint32, c chg) {
	switch c.v {
	case 'a':
		d := c.n
		in.h.Append(height, func() { in.A += d }, func() { in.A -= d })
	case 'b':
		ori := in.B
		v := c.n
		in.h.Append(height, func() { in.B = v }, func() { in.B = ori })
	case 'c': // relative change on C
		d := c.n
		in.h.Append(height, func() { in.C += d }, func() { in.C -= d })
	case 'd': // absolute change on C, previous value captured at Append time
		ori := in.C
		v := c.n
		in.h.Append(height, func() { in.C = v }, func() { in.C = ori })
	}
}

func apply(a, b int, cs []chg) (int, int) {
	for _, c := range cs {
		switch c.v {
		case 'a':
			a += c.n
		case 'b':
			b = c.n
		}
	}
	return a, b
}

func applyC(cv int, cs []chg) int {
	for _, c := range cs {
		switch c.v {
		case 'c':
			cv += c.n
		case 'd':
			cv = c.n
		}
	}
	return cv
}

func (in *inst) expectedC() int {
	cv := in.baseC
	for _, hc := range in.held {
		if hc.height <= in.view {
			cv = applyC(cv, hc.ch)
		}
	}
	return applyC(cv, in.temp)
}

// expected returns the model's variables for the current view.
func (in *inst) expected() (int, int) {
	a, b := in.baseA, in.baseB
	for _, hc := range in.held {
		if hc.height <= in.view {
			a, b = apply(a, b, hc.ch)
		}
	}
	a, b = apply(a, b, in.temp)
	return a, b
}

func (in *inst) Ops() []string {
	var ops []string
	seeked := in.view != in.height
	if !seeked {
		for _, c := range []string{"", "a1", "b5", "a1,a3", "b5,b7", "a1,b5", "b7,a3", "c2,d9"} {
			ops = append(ops, "blk:"+c)
		}
		// a temporary change arriving between two appends of the same (uncommitted) height
		if len(in.temp) == 0 {
			ops = append(ops, "blkt:a1|a1|a3")
		}
		if len(in.temp) == 0 {
			ops = append(ops, "tmp:a1", "tmp:b7")
		}
	} else {
		for _, c := range []string{"", "a1", "a1,a3"} {
			ops = append(ops, "blk:"+c)
		}
	}
	for d := 1; d <= len(in.held); d++ {
		ops = append(ops, fmt.Sprintf("rb:%d", d))
	}
	for d := 1; d <= len(in.held); d++ {
		ops = append(ops, fmt.Sprintf("rbs:%d", d))
	}
	if len(in.temp) == 0 {
		for d := 0; d <= len(in.held); d++ {
			if in.height-uint32(d) != in.view {
				ops = append(ops, fmt.Sprintf("seek:%d", d))
			}
		}
	}
	return ops
}

func (in *inst) Apply(op string) *mc.Fail {
	kind, arg, _ := strings.Cut(op, ":")
	// scenario class for signatures: what was pending when the operation started
	class := fmt.Sprintf("%s|temp=%v|seeked=%v", kind, len(in.temp) > 0, in.view != in.height)
	if kind == "blk" {
		class += fmt.Sprintf("|empty=%v", arg == "")
	}
	switch kind {
	case "blk":
		cs := parseChanges(arg)
		h := in.height + 1
		for _, c := range cs {
			in.appendReal(h, c)
		}
		in.h.Commit(h)
		// model: a block undoes pending temporary changes, re-syncs the view and commits.
		in.temp = nil
		if len(in.held) >= capacity {
			in.baseA, in.baseB = apply(in.baseA, in.baseB, in.held[0].ch)
			in.baseC = applyC(in.baseC, in.held[0].ch)
			in.held = in.held[1:]
		}
		in.held = append(in.held, hchanges{height: h, ch: cs})
		in.height = h
		in.view = h
	case "blkt":
		parts := strings.Split(arg, "|")
		h := in.height + 1
		c1, tc, c2 := parseChanges(parts[0]), parseChanges(parts[1]), parseChanges(parts[2])
		for _, c := range c1 {
			in.appendReal(h, c)
		}
		for _, c := range tc {
			in.appendReal(0, c)
		}
		in.h.Commit(in.height) // executes the temporary change
		for _, c := range c2 {
			in.appendReal(h, c) // must undo the temporary change first
		}
		in.h.Commit(h)
		in.temp = nil
		if len(in.held) >= capacity {
			in.baseA, in.baseB = apply(in.baseA, in.baseB, in.held[0].ch)
			in.baseC = applyC(in.baseC, in.held[0].ch)
			in.held = in.held[1:]
		}
		in.held = append(in.held, hchanges{height: h, ch: append(append([]chg{}, c1...), c2...)})
		in.height = h
		in.view = h
	case "tmp":
		cs := parseChanges(arg)
		for _, c := range cs {
			in.appendReal(0, c)
		}
		in.h.Commit(in.height)
		in.temp = append(in.temp, cs...)
	case "rb":
		d, _ := strconv.Atoi(arg)
		k := in.height - uint32(d)
		if err := in.h.RollbackTo(k); err != nil {
			return mc.Failf("C20|rollback-error", "RollbackTo(%d) within capacity failed: %v", k, err)
		}
		in.temp = nil
		for len(in.held) > 0 && in.held[len(in.held)-1].height > k {
			in.held = in.held[:len(in.held)-1]
		}
		in.height = k
		in.view = k
	case "rbs":
		// RollbackSeekTo drops history without undoing it; its caller (checkpoint restore)
		// replaces the state wholesale, which the harness mimics by loading the model's fold.
		d, _ := strconv.Atoi(arg)
		k := in.height - uint32(d)
		in.h.RollbackSeekTo(k)
		in.temp = nil
		for len(in.held) > 0 && in.held[len(in.held)-1].height > k {
			in.held = in.held[:len(in.held)-1]
		}
		in.height = k
		in.view = k
		in.A, in.B = in.expected()
		in.C = in.expectedC()
	case "seek":
		d, _ := strconv.Atoi(arg)
		k := in.height - uint32(d)
		if err := in.h.SeekTo(k); err != nil {
			return mc.Failf("C20|seek-error", "SeekTo(%d) within capacity failed: %v", k, err)
		}
		in.view = k
	}
	ea, eb := in.expected()
	if ec := in.expectedC(); in.C != ec {
		return mc.Failf("C20|state-mismatch|mixed-relative-then-absolute|after="+class, "after %s: C=%d, fold of changes at or below height %d gives %d (a block held a relative change followed by an absolute change with the pre-block value captured)", op, in.C, in.view, ec)
	}
	if in.A != ea || in.B != eb {
		return mc.Failf("C20|state-mismatch|after="+class, "after %s: implementation (A=%d,B=%d) != fold of changes at or below height %d (A=%d,B=%d)", op, in.A, in.B, in.view, ea, eb)
	}
	if in.h.Height() != in.height {
		return mc.Failf("C20|height-mismatch|after="+class, "History.Height()=%d, model %d", in.h.Height(), in.height)
	}
	return nil
}

func (in *inst) Digest() string {
	var sb strings.Builder
	fmt.Fprintf(&sb, "C%d A%d B%d z%v v%d t%v|", in.C, in.A, in.B, in.height == 0, in.height-in.view, in.temp)
	for _, hc := range in.held {
		fmt.Fprintf(&sb, "%v;", hc.ch)
	}
	// implementation-side bookkeeping that the model does not determine (relative heights)
	nt, sh, cc, hs := in.h.VerifInternals()
	fmt.Fprintf(&sb, "|n%d t%d s%d c%d h", len(in.h.Changes()), nt, int64(in.h.Height())-int64(sh), cc)
	for _, x := range hs {
		fmt.Fprintf(&sb, "%d,", int64(in.h.Height())-int64(x))
	}
	return sb.String()
}

func (in *inst) Close() {}

func main() {
	r := evid.Start("C20", "model_checking")
	sp := &mc.Spec{Name: "history", New: newInst, MaxDepth: r.Pick(8, 11)}
	if r.Replay != "" {
		var a struct {
			History []string `json:"history"`
		}
		r.LoadReplay(&a)
		mc.Replay(r, sp, a.History)
		r.Finish(evid.Coverage{})
	}
	res := mc.Explore(r, sp)
	cov := res.Coverage("BFS over ops {blk:<0-2 changes>, tmp:<change>, rb:<d>, rbs:<d> (RollbackSeekTo + external state restore), seek:<d>} on utils.History(capacity 3) with delta changes on A and set-with-captured-previous-value changes on B; state digest = variables, retained per-height change lists, pending temporary changes, seek offset; oracle after every op: variables == fold of model changes at or below the viewed height, Height() == model height, no error within capacity")
	r.Assume = append(r.Assume, "closure styles limited to those the repository uses (commutative deltas; sets capturing the previous value at Append time, appended only at the best height)", "heights are consecutive, as produced by block processing")
	r.Finish(cov)
}
