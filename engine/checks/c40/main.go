//go:build vsched

// C40: validation and state queries are safe under concurrency.
//
// Deciding step (engine E2): controlled-scheduler exploration of block processing
// (State.ProcessBlock of a block that both adds vote rights and uses votes for one stake address)
// against concurrent transaction validation (ReturnVotes / Voting SpecialContextCheck, as run by
// TxPool.AppendToTxPool → CheckTransactionContext for a transaction from RPC or a peer) and
// RPC-style state getters. sync in dpos/state is rewritten to the vsync shim and the validation
// functions that read state without the mutex plus History's commit loop carry a scheduling
// point before every statement (build.sh), so every interleaving within the preemption bound is
// executed. Oracle: no deadlock, no panic, and each validation verdict equals the verdict against
// the state before the block or the state after it (never a torn mixture).
//
// Auxiliary (free-running sibling, same bodies, real sync, -race): a data race reported by the
// race detector is a violation (signature = the two access sites).
package main

import (
	"bytes"
	"fmt"
	"os"
	"os/exec"
	"path/filepath"
	"reflect"
	"regexp"
	"sort"
	"strings"
	"sync"

	"github.com/elastos/Elastos.ELA/blockchain"
	"github.com/elastos/Elastos.ELA/common"
	"github.com/elastos/Elastos.ELA/common/config"
	"github.com/elastos/Elastos.ELA/core"
	"github.com/elastos/Elastos.ELA/core/checkpoint"
	"github.com/elastos/Elastos.ELA/core/contract"
	"github.com/elastos/Elastos.ELA/core/contract/program"
	"github.com/elastos/Elastos.ELA/core/transaction"
	"github.com/elastos/Elastos.ELA/core/types"
	ctypes "github.com/elastos/Elastos.ELA/core/types/common"
	"github.com/elastos/Elastos.ELA/core/types/functions"
	"github.com/elastos/Elastos.ELA/core/types/interfaces"
	"github.com/elastos/Elastos.ELA/core/types/outputpayload"
	"github.com/elastos/Elastos.ELA/core/types/payload"
	crstate "github.com/elastos/Elastos.ELA/cr/state"
	"github.com/elastos/Elastos.ELA/dpos/state"
	"github.com/elastos/Elastos.ELA/zzverif/vsched"

	"verif/evid"
	"verif/hx"
)

const (
	rights0 = 10 * 1e8 // vote rights of the stake address before the block
	used0   = 3 * 1e8  // DPoS v2 votes in use before the block
	addR    = 10 * 1e8 // block: stake +10
	addU    = 7 * 1e8  // block: vote +7
	// before: available 7, after: available 10; torn(rights before, used after) = 0,
	// torn(rights after, used before) = 17
)

type fixture struct {
	chain  *blockchain.BlockChain
	params *config.Configuration
	code   []byte
	stake  common.Uint168
	height uint32
	ownerK []byte
}

var fx *fixture

func hexKey(i byte) []byte {
	// 33-byte compressed-key-shaped constants; never verified in these paths
	k := make([]byte, 33)
	k[0] = 0x02
	for j := 1; j < 33; j++ {
		k[j] = i
	}
	return k
}

func setupFixture(dir string) *fixture {
	functions.GetTransactionByTxType = transaction.GetTransaction
	functions.GetTransactionByBytes = transaction.GetTransactionByBytes
	functions.CreateTransaction = transaction.CreateTransaction
	functions.GetTransactionParameters = transaction.GetTransactionparameters
	config.DefaultParams = *config.GetDefaultParams()
	params := &config.DefaultParams
	params.Sterilize()
	params.DPoSV2StartHeight = 0
	params.GenesisBlock = core.GenesisBlock(*params.FoundationProgramHash)
	blockchain.FoundationAddress = *params.FoundationProgramHash
	store, err := blockchain.NewChainStore(filepath.Join(dir, "chain"), params)
	if err != nil {
		evid.Fatalf("chain store: %v", err)
	}
	ckp := checkpoint.NewManager(config.GetDefaultParams())
	st := newState(params)
	chain, err := blockchain.New(store, params, st, crstate.NewCommittee(params, ckp), ckp)
	if err != nil {
		evid.Fatalf("blockchain.New: %v", err)
	}
	f := &fixture{chain: chain, params: params, height: 100}
	f.code = append([]byte{33}, hexKey(7)...)
	f.code = append(f.code, 0xac)
	ct, err := contract.CreateStakeContractByCode(f.code)
	if err != nil {
		evid.Fatalf("stake contract: %v", err)
	}
	f.stake = *ct.ToProgramHash()
	f.ownerK = hexKey(9)
	return f
}

func newState(params *config.Configuration) *state.State {
	return state.NewState(params, nil, nil, nil, func() bool { return false }, nil, nil, nil, nil, nil, nil, nil)
}

func mkTx(t ctypes.TxType, pv byte, pl interfaces.Payload, outs []*ctypes.Output, progs []*program.Program) interfaces.Transaction {
	return functions.CreateTransaction(ctypes.TxVersion09, t, pv, pl, []*ctypes.Attribute{}, []*ctypes.Input{}, outs, 0, progs)
}

func (f *fixture) progs() []*program.Program {
	return []*program.Program{{Code: f.code, Parameter: []byte{1}}}
}

// freshState builds the pre-block state: one active DPoS v2 producer (when withProducer),
// vote rights 10 and used votes 3 for the stake address.
func (f *fixture) freshState(withProducer bool) *state.State {
	st := newState(f.params)
	h := f.height - 10
	if withProducer {
		info := &payload.ProducerInfo{OwnerKey: f.ownerK, NodePublicKey: f.ownerK, NickName: "p", Url: "u", Location: 1, NetAddress: "a", StakeUntil: f.height + 100000}
		st.ProcessBlock(&types.Block{Header: ctypes.Header{Height: h}, Transactions: []interfaces.Transaction{mkTx(ctypes.RegisterProducer, payload.ProducerInfoDposV2Version, info, nil, nil)}}, nil, 0)
		h++
	}
	for ; h < f.height; h++ {
		st.ProcessBlock(&types.Block{Header: ctypes.Header{Height: h}}, nil, 0)
	}
	st.DposV2VoteRights[f.stake] = rights0
	st.UsedDposV2Votes[f.stake] = used0
	f.chain.SetState(st)
	return st
}

// the block under test: stake +10 rights, then vote using +7
func (f *fixture) block() *types.Block {
	stakeTx := mkTx(ctypes.ExchangeVotes, 0, &payload.ExchangeVotes{}, []*ctypes.Output{{Value: addR, Type: ctypes.OTStake, Payload: &outputpayload.ExchangeVotesOutput{StakeAddress: f.stake}}}, f.progs())
	voteTx := mkTx(ctypes.Voting, payload.VoteVersion, &payload.Voting{Contents: []payload.VotesContent{{VoteType: outputpayload.DposV2,
		VotesInfo: []payload.VotesWithLockTime{{Candidate: hexKey(0x55), Votes: addU, LockTime: f.height + 10000}}}}}, nil, f.progs())
	return &types.Block{Header: ctypes.Header{Height: f.height, Timestamp: 1700000000}, Transactions: []interfaces.Transaction{stakeTx, voteTx}}
}

func (f *fixture) returnVotesTx(value common.Fixed64) interfaces.Transaction {
	tx := mkTx(ctypes.ReturnVotes, payload.ReturnVotesSchnorrVersion, &payload.ReturnVotes{Value: value}, nil, f.progs())
	tx.SetParameters(&transaction.TransactionParameters{Transaction: tx, BlockHeight: f.height + 1, TimeStamp: 1700000000, Config: f.params, BlockChain: f.chain})
	return tx
}

func (f *fixture) votingTx(votes common.Fixed64) interfaces.Transaction {
	tx := mkTx(ctypes.Voting, payload.VoteVersion, &payload.Voting{Contents: []payload.VotesContent{{VoteType: outputpayload.DposV2,
		VotesInfo: []payload.VotesWithLockTime{{Candidate: f.ownerK, Votes: votes, LockTime: f.height + 1 + f.params.DPoSConfiguration.DPoSV2MinVotesLockTime + 1}}}}}, nil, f.progs())
	tx.SetParameters(&transaction.TransactionParameters{Transaction: tx, BlockHeight: f.height + 1, TimeStamp: 1700000000, Config: f.params, BlockChain: f.chain})
	return tx
}

func verdict(tx interfaces.Transaction) string {
	err, _ := tx.SpecialContextCheck()
	if err == nil {
		return "accept"
	}
	return "reject"
}

type scen struct {
	Name  string `json:"name"`
	Kind  string `json:"kind"`  // returnvotes | voting
	Value int64  `json:"value"` // in ELA
	Query bool   `json:"query"` // add an RPC-style getter thread
	Bound int    `json:"bound"`
}

func (f *fixture) mk(s scen) interfaces.Transaction {
	if s.Kind == "voting" {
		return f.votingTx(common.Fixed64(s.Value * 1e8))
	}
	return f.returnVotesTx(common.Fixed64(s.Value * 1e8))
}

// sequential reference verdicts: against the state before and after the block
func (f *fixture) refVerdicts(s scen) (before, after string) {
	if s.Kind == "checkpoint" || s.Kind == "producers" || s.Kind == "getters" || isMempoolKind(s.Kind) {
		return "equal", "equal"
	}
	f.freshState(s.Kind == "voting")
	before = verdict(f.mk(s))
	st := f.freshState(s.Kind == "voting")
	st.ProcessBlock(f.block(), nil, 0)
	after = verdict(f.mk(s))
	return
}

// checkpointScenario: a checkpoint snapshot taken at the block boundary is written by the
// checkpoint file goroutine while the next block is processed. The bytes written must be those
// of the state at snapshot time (deep copy), whatever the interleaving.
func (f *fixture) checkpointScenario(s scen) *vsched.Scenario {
	return &vsched.Scenario{
		Name:     s.Name,
		Bound:    s.Bound,
		MaxSteps: 20000,
		Setup: func() ([]string, []func(), func(*vsched.Exec) (string, *vsched.Fail)) {
			st := f.freshState(false)
			ar := &state.Arbiters{State: st, ChainParams: f.params}
			cp := state.NewCheckpoint(ar)
			snap := cp.Snapshot()
			if snap == nil {
				evid.Fatalf("harness: CheckPoint.Snapshot returned nil")
			}
			ref := new(bytes.Buffer)
			if err := snap.Serialize(ref); err != nil {
				evid.Fatalf("harness: snapshot serialize: %v", err)
			}
			blk := f.block()
			var got []byte
			names := []string{"block", "save"}
			bodies := []func(){
				func() { st.ProcessBlock(blk, nil, 0) },
				func() {
					b := new(bytes.Buffer)
					snap.Serialize(b)
					got = b.Bytes()
				},
			}
			check := func(x *vsched.Exec) (string, *vsched.Fail) {
				if !bytes.Equal(got, ref.Bytes()) {
					return "differs", &vsched.Fail{Signature: "C40|checkpoint-snapshot-not-isolated",
						What: "the checkpoint snapshot taken before the block serialises to different bytes when it is written after the next block was processed: the snapshot shares mutable state with the live DPoS state"}
				}
				return "equal", nil
			}
			return names, bodies, check
		},
	}
}

// producerBlock: updates the registered producer's info (UpdateProducer) and, in separate
// history entries, attaches DPoS v2 votes to it — two changes to the same producer record.
func (f *fixture) producerBlock() *types.Block {
	upd := &payload.ProducerInfo{OwnerKey: f.ownerK, NodePublicKey: f.ownerK, NickName: "p-renamed", Url: "u2", Location: 2, NetAddress: "b", StakeUntil: f.height + 100000}
	updTx := mkTx(ctypes.UpdateProducer, payload.ProducerInfoDposV2Version, upd, nil, nil)
	voteTx := mkTx(ctypes.Voting, payload.VoteVersion, &payload.Voting{Contents: []payload.VotesContent{{VoteType: outputpayload.DposV2,
		VotesInfo: []payload.VotesWithLockTime{{Candidate: f.ownerK, Votes: addU, LockTime: f.height + 10000}}}}}, nil, f.progs())
	return &types.Block{Header: ctypes.Header{Height: f.height, Timestamp: 1700000000}, Transactions: []interfaces.Transaction{updTx, voteTx}}
}

func producersView(ps []state.Producer) string {
	var out []string
	for i := range ps {
		p := &ps[i]
		info := p.Info()
		out = append(out, fmt.Sprintf("%x:%s/%d/%s/votes=%d/detailed=%d", info.OwnerKey[:4], info.NickName, info.Location, info.Url, p.DposV2Votes(), len(p.GetAllDetailedDPoSV2Votes())))
	}
	sort.Strings(out)
	return strings.Join(out, ";")
}

// producersScenario: an RPC-style list request (State.GetAllProducers, which hands out copies)
// concurrent with a block that changes a producer in two steps. The copy must show the record
// as it was before the block or as it is after it.
func (f *fixture) producersScenario(s scen) *vsched.Scenario {
	f.freshState(true)
	st0 := f.chain.GetState()
	before := producersView(st0.GetAllProducers())
	st0.ProcessBlock(f.producerBlock(), nil, 0)
	after := producersView(st0.GetAllProducers())
	if before == after {
		evid.Fatalf("harness: the producer block does not change the producer list view")
	}
	return &vsched.Scenario{
		Name:     s.Name,
		Bound:    s.Bound,
		MaxSteps: 20000,
		Setup: func() ([]string, []func(), func(*vsched.Exec) (string, *vsched.Fail)) {
			st := f.freshState(true)
			blk := f.producerBlock()
			var got string
			names := []string{"block", "list"}
			bodies := []func(){
				func() { st.ProcessBlock(blk, nil, 0) },
				func() { got = producersView(st.GetAllProducers()) },
			}
			check := func(x *vsched.Exec) (string, *vsched.Fail) {
				switch got {
				case before:
					return "before", nil
				case after:
					return "after", nil
				}
				return "torn", &vsched.Fail{Signature: "C40|torn-query|GetAllProducers",
					What: "a producer list request concurrent with block processing returned a record that matches neither the state before the block nor the state after it: " + got}
			}
			return names, bodies, check
		},
	}
}

// gettersScenario: an RPC-style thread calls every exported zero-argument Get* method of the
// DPoS state (found by reflection, sorted by name) plus the keyed getters, while a block is
// processed. Oracle: no deadlock, no panic (the engine reports both), block effect intact.
func (f *fixture) gettersScenario(s scen) *vsched.Scenario {
	return &vsched.Scenario{
		Name:     s.Name,
		Bound:    s.Bound,
		MaxSteps: 50000,
		Setup: func() ([]string, []func(), func(*vsched.Exec) (string, *vsched.Fail)) {
			st := f.freshState(true)
			blk := f.producerBlock()
			calls := 0
			names := []string{"block", "getters"}
			bodies := []func(){
				func() { st.ProcessBlock(blk, nil, 0) },
				func() {
					rv := reflect.ValueOf(st)
					rt := rv.Type()
					for i := 0; i < rt.NumMethod(); i++ {
						m := rt.Method(i)
						if !strings.HasPrefix(m.Name, "Get") || m.Type.NumIn() != 1 || m.Name == "GetHistory" {
							continue
						}
						rv.Method(i).Call(nil)
						calls++
					}
					st.GetDetailedDPoSV2Votes(&f.stake)
					st.GetProducer(f.ownerK)
					st.GetDposV2VoteRights(f.stake)
					calls += 3
				},
			}
			check := func(x *vsched.Exec) (string, *vsched.Fail) {
				if calls < 10 {
					return "few", &vsched.Fail{Signature: "C40|harness|getters-not-called", What: "the getter thread made too few calls"}
				}
				return "ok", nil
			}
			return names, bodies, check
		},
	}
}

func (f *fixture) scenario(s scen, before, after string) *vsched.Scenario {
	if isMempoolKind(s.Kind) { // mempool.go
		return f.mempoolScenario(s)
	}
	if s.Kind == "getters" {
		return f.gettersScenario(s)
	}
	if s.Kind == "checkpoint" {
		return f.checkpointScenario(s)
	}
	if s.Kind == "producers" {
		return f.producersScenario(s)
	}
	return &vsched.Scenario{
		Name:     s.Name,
		Bound:    s.Bound,
		MaxSteps: 20000,
		Setup: func() ([]string, []func(), func(*vsched.Exec) (string, *vsched.Fail)) {
			st := f.freshState(s.Kind == "voting")
			blk := f.block()
			tx := f.mk(s)
			var got string
			var nProducers, nAfter int
			names := []string{"block", "validate"}
			bodies := []func(){
				func() { st.ProcessBlock(blk, nil, 0) },
				func() { got = verdict(tx); vsched.Log("verdict=%s", got) },
			}
			if s.Query {
				names = append(names, "query")
				bodies = append(bodies, func() {
					nProducers = len(st.GetProducers())
					_ = st.GetConsensusAlgorithm()
					nAfter = len(st.GetActivityV2Producers())
					_ = st.GetLastIrreversibleHeight()
				})
			}
			check := func(x *vsched.Exec) (string, *vsched.Fail) {
				_ = nProducers
				_ = nAfter
				if got != before && got != after {
					return got, &vsched.Fail{Signature: fmt.Sprintf("C40|torn-verdict|%s|got=%s", s.Kind, got),
						What: fmt.Sprintf("%s validation of %d ELA concurrent with block processing returned %s, but the verdict is %s against the state before the block and %s after it: the check read vote rights and used votes from different states (unlocked map reads)", s.Kind, s.Value, got, before, after)}
				}
				if st.DposV2VoteRights[f.stake] != rights0+addR || st.UsedDposV2Votes[f.stake] != used0+addU {
					return got, &vsched.Fail{Signature: "C40|block-effect-lost", What: "state after the block differs from the sequential result"}
				}
				return got, nil
			}
			return names, bodies, check
		},
	}
}

func scenarios(r *evid.Run) []scen {
	var out []scen
	bounds := []int{0, 1, 2}
	if r.Thorough() {
		bounds = []int{0, 1, 2, 3}
	}
	for _, b := range bounds {
		// return 5: allowed before (7 free) and after (10 free)
		out = append(out, scen{Name: fmt.Sprintf("returnvotes-5-b%d", b), Kind: "returnvotes", Value: 5, Bound: b})
		// return 12: refused before and after
		out = append(out, scen{Name: fmt.Sprintf("returnvotes-12-b%d", b), Kind: "returnvotes", Value: 12, Bound: b})
		// vote 15: refused before (7 free) and after (10 free)
		out = append(out, scen{Name: fmt.Sprintf("voting-15-b%d", b), Kind: "voting", Value: 15, Bound: b})
		out = append(out, scen{Name: fmt.Sprintf("voting-5-b%d", b), Kind: "voting", Value: 5, Bound: b})
	}
	// 9: refused before (7 free), allowed after (10 free): both verdicts must be observed
	out = append(out, scen{Name: "returnvotes-9-b2", Kind: "returnvotes", Value: 9, Bound: 2})
	out = append(out, scen{Name: "voting-9-b2", Kind: "voting", Value: 9, Bound: 2})
	out = append(out, scen{Name: "checkpoint-save-b1", Kind: "checkpoint", Bound: 1})
	out = append(out, scen{Name: "producers-list-b2", Kind: "producers", Bound: 2})
	out = append(out, scen{Name: "all-getters-b1", Kind: "getters", Bound: 1})
	qb := 1
	if r.Thorough() {
		qb = 2
	}
	out = append(out, scen{Name: fmt.Sprintf("returnvotes-5-query-b%d", qb), Kind: "returnvotes", Value: 5, Query: true, Bound: qb})
	out = append(out, scen{Name: fmt.Sprintf("voting-15-query-b%d", qb), Kind: "voting", Value: 15, Query: true, Bound: qb})
	out = append(out, mempoolScens(r)...) // mempool.go
	return out
}

// freeRun is executed by the -race sibling: the same bodies, free-running, N repetitions.
func freeRun(f *fixture, n int) {
	for i := 0; i < n; i++ {
		for _, s := range []scen{{Kind: "returnvotes", Value: 5}, {Kind: "voting", Value: 15}} {
			st := f.freshState(s.Kind == "voting")
			blk := f.block()
			tx := f.mk(s)
			var wg sync.WaitGroup
			wg.Add(3)
			go func() { defer wg.Done(); st.ProcessBlock(blk, nil, 0) }()
			go func() { defer wg.Done(); verdict(tx) }()
			go func() { defer wg.Done(); _ = len(st.GetProducers()); _ = st.GetActivityV2Producers() }()
			wg.Wait()
		}
		// producer list request while a block changes the producer
		{
			st := f.freshState(true)
			blk := f.producerBlock()
			var wg sync.WaitGroup
			wg.Add(2)
			go func() { defer wg.Done(); st.ProcessBlock(blk, nil, 0) }()
			go func() { defer wg.Done(); producersView(st.GetAllProducers()) }()
			wg.Wait()
		}
		// checkpoint snapshot written while the next block is processed
		st := f.freshState(false)
		cp := state.NewCheckpoint(&state.Arbiters{State: st, ChainParams: f.params})
		snap := cp.Snapshot()
		blk := f.block()
		var wg sync.WaitGroup
		wg.Add(2)
		go func() { defer wg.Done(); st.ProcessBlock(blk, nil, 0) }()
		go func() { defer wg.Done(); snap.Serialize(new(bytes.Buffer)) }()
		wg.Wait()
		// transaction pool: admission ‖ conflicting admission ‖ checkpoint snapshot ‖ block cleanup ‖ queries
		mempoolFreeRun(f)
	}
	fmt.Println("free-run done")
}

var raceSite = regexp.MustCompile(`(?m)^  (github\.com/elastos/Elastos\.ELA/\S+)\(\)$`)

// parseRaces turns race detector output into stable signatures (sorted pair of top repository frames).
func parseRaces(out string) map[string]string {
	res := map[string]string{}
	for _, rep := range strings.Split(out, "WARNING: DATA RACE")[1:] {
		if i := strings.Index(rep, "=================="); i >= 0 {
			rep = rep[:i]
		}
		// split into access stanzas
		parts := regexp.MustCompile(`(?m)^(Read at|Write at|Previous read at|Previous write at)`).Split(rep, -1)
		var sites []string
		for _, p := range parts[1:] {
			if j := strings.Index(p, "\n\n"); j >= 0 {
				p = p[:j]
			}
			site := "runtime"
			for _, m := range raceSite.FindAllStringSubmatch(p, -1) {
				if strings.Contains(m[1], "zzverif/") {
					continue
				}
				site = strings.TrimPrefix(m[1], "github.com/elastos/Elastos.ELA/")
				break
			}
			sites = append(sites, site)
			if len(sites) == 2 {
				break
			}
		}
		sort.Strings(sites)
		sig := "C40|data-race|" + strings.Join(sites, "|")
		if _, ok := res[sig]; !ok {
			res[sig] = strings.TrimSpace(rep)
		}
	}
	return res
}

func main() {
	if os.Getenv("VERIF_C40_FREERUN") != "" {
		scr := evid.Scratch("c40f")
		defer os.RemoveAll(scr)
		hx.QuietLogs(scr)
		n := 50
		fmt.Sscan(os.Getenv("VERIF_C40_FREERUN"), &n)
		freeRun(setupFixture(scr), n)
		os.RemoveAll(scr)
		return
	}
	r := evid.Start("C40", "model_checking")
	scr := evid.Scratch("c40")
	defer os.RemoveAll(scr)
	hx.QuietLogs(scr)
	fx = setupFixture(scr)
	finish := func(c evid.Coverage) { os.RemoveAll(scr); r.Finish(c) }
	if r.Replay != "" {
		var a struct {
			Scenario scen  `json:"scenario"`
			Schedule []int `json:"schedule"`
		}
		r.LoadReplay(&a)
		if a.Scenario.Kind == "" {
			fmt.Println("replay of a data-race finding: re-running the free-running -race pass")
			raceFindings(r, 200)
			finish(evid.Coverage{})
		}
		before, after := fx.refVerdicts(a.Scenario)
		out, f, trace, div := vsched.Replay(fx.scenario(a.Scenario, before, after), a.Schedule)
		if div != "" {
			evid.Fatalf("replay diverged: %s", div)
		}
		fmt.Printf("replay %s before=%s after=%s outcome=%s (%d trace events)\n", a.Scenario.Name, before, after, out, len(trace))
		if f != nil {
			r.Violate(f.Signature, f.What, a)
		}
		finish(evid.Coverage{})
	}
	var execs, points, states int64
	per := map[string]interface{}{}
	var samples []interface{}
	exhaustive := true
	nonVacuous := 0
	for _, s := range scenarios(r) {
		before, after := fx.refVerdicts(s)
		if s.Kind == "voting" && s.Value == 5 && before != "accept" {
			evid.Fatalf("harness: voting 5 ELA is not accepted sequentially (before=%s) — fixture no longer reaches the vote-rights comparison", before)
		}
		if s.Kind == "returnvotes" && s.Value == 5 && before != "accept" {
			evid.Fatalf("harness: returning 5 ELA is not accepted sequentially (before=%s)", before)
		}
		st := vsched.Explore(fx.scenario(s, before, after), r.Expired)
		if st.EngineError != "" {
			evid.Fatalf("%s: %s", s.Name, st.EngineError)
		}
		execs += int64(st.Executions)
		points += int64(st.Points)
		states += int64(len(st.Outcomes))
		if !st.Exhaustive {
			exhaustive = false
		}
		if st.MaxPoints > 10 {
			nonVacuous++
		}
		if s.Value == 9 && len(st.Outcomes) < 2 {
			evid.Fatalf("harness: scenario %s observed only %v — block processing and validation never interleaved in both orders", s.Name, st.Outcomes)
		}
		per[s.Name] = map[string]interface{}{"executions": st.Executions, "outcomes": st.Outcomes, "max_points": st.MaxPoints, "ref_before": before, "ref_after": after}
		if len(samples) < 3 && len(st.Sample) > 0 {
			smp := st.Sample[len(st.Sample)-1]
			if len(smp) > 40 {
				smp = smp[:40]
			}
			samples = append(samples, map[string]interface{}{"scenario": s.Name, "schedule_prefix": smp})
		}
		for _, f := range st.Failures {
			tr := f.Trace
			r.Violate(f.Fail.Signature, f.Fail.What, map[string]interface{}{"scenario": s, "schedule": f.Schedule, "trace": tr})
		}
	}
	races := raceFindings(r, r.Pick(150, 2000))
	r.Assume = append(r.Assume,
		"the scheduler is sequentially consistent; preemption points: every lock operation of dpos/state (vsync shim) and every statement of ReturnVotesTransaction.SpecialContextCheck, VotingTransaction.SpecialContextCheck/checkDPoSV2Content and utils.HeightChanges.commit",
		"data races proper are outside a cooperative scheduler's view and are covered by the auxiliary free-running -race pass (a sampling of timings; the harness bodies force both accesses to execute)",
		"the checkpoint file-channel goroutine is not scheduled: it only receives deep copies")
	finish(evid.Coverage{
		"states":                        states,
		"transitions":                   points,
		"traces_validated_against_impl": execs,
		"schedules":                     execs,
		"scenarios_with_real_interleaving": nonVacuous,
		"per_scenario":                  per,
		"exhaustive":                    exhaustive,
		"race_pass":                     races,
		"rule":                          "all interleavings of {block processing, validation, optional RPC-style getters} at lock operations and instrumented statements within preemption bounds 0,1,2 (thorough: 3); states = distinct (scenario, verdict) outcomes, transitions = scheduling points executed",
		"samples":                       samples,
	})
}

// raceFindings runs the -race sibling binary free-running and records every reported race.
func raceFindings(r *evid.Run, n int) map[string]interface{} {
	self, _ := os.Executable()
	bin := self + ".race"
	if _, err := os.Stat(bin); err != nil {
		evid.Fatalf("race sibling binary missing: %v", err)
	}
	cmd := exec.Command(bin)
	cmd.Env = append(os.Environ(), fmt.Sprintf("VERIF_C40_FREERUN=%d", n), "GORACE=halt_on_error=0 history_size=3", "GOMAXPROCS=16")
	var buf bytes.Buffer
	cmd.Stdout = &buf
	cmd.Stderr = &buf
	err := cmd.Run()
	out := buf.String()
	found := parseRaces(out)
	sigs := make([]string, 0, len(found))
	for s := range found {
		sigs = append(sigs, s)
	}
	sort.Strings(sigs)
	for _, s := range sigs {
		rep := found[s]
		if len(rep) > 3000 {
			rep = rep[:3000]
		}
		r.Violate(s, "race detector: unsynchronised concurrent access between block processing and validation/query", map[string]interface{}{"race_report": rep})
	}
	// sequential epilogue of the mempool bodies: the pool left by the concurrent phase is inconsistent
	for _, l := range strings.Split(out, "\n") {
		if rest, ok := strings.CutPrefix(l, "MEMPOOL-INCONSISTENT "); ok {
			sig, what, _ := strings.Cut(rest, " ")
			r.Violate(sig, "free-running pass: "+what, map[string]interface{}{"free_run": true})
		}
	}
	fatal := ""
	if strings.Contains(out, "fatal error: concurrent map") {
		fatal = "concurrent map read and map write"
		r.Violate("C40|fatal|concurrent-map-access", "Go runtime aborted the process: concurrent map read and map write between block processing and validation", map[string]interface{}{"output_tail": tail(out, 2000)})
	} else if err != nil && !strings.Contains(out, "free-run done") && len(found) == 0 {
		evid.Fatalf("free-running pass failed: %v\n%s", err, tail(out, 3000))
	}
	return map[string]interface{}{"repetitions": n, "race_reports": len(found), "fatal": fatal}
}

func tail(s string, n int) string {
	if len(s) > n {
		return s[len(s)-n:]
	}
	return s
}
