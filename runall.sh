#!/bin/bash
# runs every claimed check's quick command once; prints id, exit, seconds, verdict summary
cd "$(dirname "$0")"
ids=$(python3 -c "
import json
print(' '.join(c['property_id'] for c in json.load(open('MANIFEST.json'))['checks']))")
[ $# -gt 0 ] && ids="$@"
for id in $ids; do
  s=$(date +%s)
  out=$(./run $id ${TIER:-quick} 2>&1); rc=$?
  e=$(date +%s)
  echo "$id rc=$rc t=$((e-s))s $(echo "$out" | grep -c '^KNOWN-FINDING') known $(echo "$out" | grep -c '^VIOLATION') viol | $(echo "$out" | tail -1)"
  [ $rc -ne 0 ] && echo "$out" | grep -E "VIOLATION|violated|ENGINE" | head -5
done
