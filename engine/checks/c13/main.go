// C13: disconnecting a block exactly undoes connecting it.
//
// Explicit-state search on the store tier (verif/storekit): a real blockchain.NewChainStore on
// /dev/shm driven through ChainStore.SaveBlock / RollbackBlock (→ ChainStoreFFLDB.SaveBlock /
// RollbackBlock with the real per-transaction save/rollback processors and index manager).
//
// Alphabet: connect(B) for B in a fixed menu of synthetic blocks (one "interesting" transaction
// each, see menu()), and disconnect(tip). Because disconnect always removes the most recent
// connect, every history over this alphabet is a stack walk: the states it visits are the
// connect sequences, and its transitions are connect(B) from a connect sequence and
// disconnect(tip) back to it. The explorer therefore enumerates every enabled connect sequence
// up to the depth bound depth-first and executes, at every node and for every enabled B,
// connect(B) … disconnect(B) in place, comparing the full canonical metadata dump and the
// named queries taken before connect(B) with those after disconnect(B). When (and only when)
// they are equal the instance is used on for the next sibling — exactly the state
// identification a breadth-first search with dump digests would make. When they differ, a
// violation is recorded (after confirmation on a fresh store with the minimal history), the
// residual state is explored further with the remaining depth (re-inclusion oracle), and the
// instance is rebuilt from scratch. At shallow nodes the in-place dump is additionally compared
// with the dump of a fresh store that only replayed the pure connect sequence.
package main

import (
	"encoding/hex"
	"fmt"
	"os"
	"runtime/debug"
	"sort"
	"strings"
	"sync"
	"sync/atomic"

	"github.com/elastos/Elastos.ELA/common"
	"github.com/elastos/Elastos.ELA/core/types"
	common2 "github.com/elastos/Elastos.ELA/core/types/common"
	"github.com/elastos/Elastos.ELA/core/types/interfaces"
	"github.com/elastos/Elastos.ELA/core/types/outputpayload"
	"github.com/elastos/Elastos.ELA/core/types/payload"

	"verif/evid"
	"verif/par"
	sk "verif/storekit"
)

// ---------------------------------------------------------------------------------------------
// menu

type op struct {
	name      string
	txs       []interfaces.Transaction
	needs     []string // ops that must be on the active chain (inputs / reviewed proposal)
	conflicts []string // ops that must not be on the active chain (validation would reject)
}

type menuT struct {
	fund   interfaces.Transaction
	ops    []*op
	by     map[string]*op
	addrs  []common.Uint168
	sideH  []common.Uint256 // side-chain withdrawal hashes
	depH   []common.Uint256 // deposit-return hashes
	drafts []common.Uint256
	txids  []common.Uint256
}

var (
	addrA = sk.Addr(0xa1)
	addrB = sk.Addr(0xb2)
	addrC = sk.Addr(0xc3)
	addrX = sk.XAddr(0xd4)
)

const nFund = 24

func ins(id common.Uint256, idx ...uint16) []*common2.Input {
	var out []*common2.Input
	for _, i := range idx {
		out = append(out, sk.In(id, i))
	}
	return out
}

func outs(o ...*common2.Output) []*common2.Output { return o }

// menu builds the fixed transaction menu. Every menu transaction owns its funding outputs, so
// the only dependencies are the explicit needs/conflicts.
func menu(genesisCoinbase common.Uint256) *menuT {
	m := &menuT{by: map[string]*op{}}
	var fo []*common2.Output
	for i := 0; i < nFund; i++ {
		to := addrA
		switch {
		case i == 16 || i == 17 || i == 21:
			to = addrB
		case i == 18:
			to = addrC
		case i%4 == 3:
			to = addrX
		}
		fo = append(fo, sk.Out(to, 1000))
	}
	m.fund = sk.Transfer(0xf0, ins(genesisCoinbase, 0), fo)
	f := m.fund.Hash()
	hSide := sk.H("side-chain tx 1")
	hSide2 := sk.H("side-chain tx 2")
	hDep := sk.H("deposit tx 1")
	hDep2 := sk.H("deposit tx 2")
	hDep3 := sk.H("deposit tx 3")
	draft := []byte("draft: build a bridge")
	opinion := []byte("I agree")
	sgOpinion := []byte("approved")
	msg1 := []byte("milestone 1 reached")
	msg2 := []byte("milestone 2 reached")
	add := func(o *op) { m.ops = append(m.ops, o); m.by[o.name] = o }

	add(&op{name: "empty"})
	xfer := sk.Transfer(1, ins(f, 0), outs(sk.Out(addrA, 600), sk.Out(addrB, 0), sk.Out(addrC, 400)))
	add(&op{name: "xfer", txs: []interfaces.Transaction{xfer}})
	xfer2 := sk.Transfer(2, ins(xfer.Hash(), 0, 2), outs(sk.Out(addrB, 1000)))
	add(&op{name: "xfer2", txs: []interfaces.Transaction{xfer2}, needs: []string{"xfer"}})
	// spends the zero-value output of xfer together with a funded one
	xfer0 := sk.Transfer(3, ins(xfer.Hash(), 1), outs(sk.Out(addrC, 0)))
	add(&op{name: "xfer0", txs: []interfaces.Transaction{xfer0}, needs: []string{"xfer"}})
	add(&op{name: "w0", txs: []interfaces.Transaction{sk.WithdrawV0(4, ins(f, 3), addrA, 1000, hSide)}, conflicts: []string{"w1", "w2"}})
	// output order variants: every index that walks outputs sees an ordinary (change) output in
	// front of, between and behind the outputs it records
	add(&op{name: "w1", txs: []interfaces.Transaction{sk.WithdrawV1(5, ins(f, 7), sk.Out(addrA, 100), sk.WithdrawOut(addrB, 900, hSide))}, conflicts: []string{"w0", "w2"}})
	add(&op{name: "w2", txs: []interfaces.Transaction{sk.WithdrawV2(6, ins(f, 11), sk.WithdrawOut(addrC, 600, hSide), sk.Out(addrA, 100), sk.WithdrawOut(addrC, 300, hSide2))}, conflicts: []string{"w0", "w1"}})
	add(&op{name: "retdep", txs: []interfaces.Transaction{sk.ReturnDepositTx(7, ins(f, 15), sk.ReturnDepositOut(addrA, 900, hDep), sk.Out(addrB, 100))}})
	add(&op{name: "retdep2", txs: []interfaces.Transaction{sk.ReturnDepositTx(17, ins(f, 19), sk.Out(addrB, 100), sk.ReturnDepositOut(addrA, 400, hDep2), sk.Out(addrC, 100), sk.ReturnDepositOut(addrA, 400, hDep3))}})
	prop := sk.Proposal(8, ins(f, 1), outs(sk.Out(addrA, 1000)), draft)
	add(&op{name: "prop", txs: []interfaces.Transaction{prop}})
	add(&op{name: "rev1", txs: []interfaces.Transaction{sk.Review(9, ins(f, 2), outs(sk.Out(addrA, 1000)), prop.Hash(), 1, opinion)}, needs: []string{"prop"}})
	add(&op{name: "rev2", txs: []interfaces.Transaction{sk.Review(10, ins(f, 4), outs(sk.Out(addrA, 1000)), prop.Hash(), 2, opinion)}, needs: []string{"prop"}})
	add(&op{name: "trk1", txs: []interfaces.Transaction{sk.Tracking(11, ins(f, 5), outs(sk.Out(addrA, 1000)), prop.Hash(), msg1, sgOpinion)}, needs: []string{"prop"}})
	add(&op{name: "trk2", txs: []interfaces.Transaction{sk.Tracking(12, ins(f, 6), outs(sk.Out(addrA, 1000)), prop.Hash(), msg2, sgOpinion)}, needs: []string{"prop"}})
	// legacy payload versions (0x00): the save processors still record the hash, with no data
	prop0 := sk.WithPayloadVersion(sk.Proposal(40, ins(f, 14), outs(sk.Out(addrA, 1000)), []byte("legacy draft")), payload.CRCProposalVersion)
	add(&op{name: "prop0", txs: []interfaces.Transaction{prop0}})
	add(&op{name: "rev0", txs: []interfaces.Transaction{sk.WithPayloadVersion(sk.Review(41, ins(f, 9), outs(sk.Out(addrA, 1000)), prop.Hash(), 3, []byte("legacy opinion")), payload.CRCProposalReviewVersion)}, needs: []string{"prop"}})
	add(&op{name: "trk0", txs: []interfaces.Transaction{sk.WithPayloadVersion(sk.Tracking(42, ins(f, 16), outs(sk.Out(addrB, 1000)), prop.Hash(), []byte("legacy message"), []byte("legacy sg opinion")), payload.CRCProposalTrackingVersion)}, needs: []string{"prop"}})
	// a transaction with more than 256 outputs and a spend of outputs 7 and 263
	big := sk.FanOut(43, ins(f, 12), addrB, 300, 3)
	add(&op{name: "big300", txs: []interfaces.Transaction{big}})
	add(&op{name: "bigspend", txs: []interfaces.Transaction{sk.Transfer(44, ins(big.Hash(), 7, 263), outs(sk.Out(addrC, 6)))}, needs: []string{"big300"}})
	add(&op{name: "regp", txs: []interfaces.Transaction{sk.RegisterProducer(13, ins(f, 8), outs(sk.Out(addrB, 1000)))}})
	add(&op{name: "multi2", txs: []interfaces.Transaction{
		sk.Transfer(30, ins(f, 20), outs(sk.Out(addrB, 1000))),
		sk.Transfer(31, ins(f, 21), outs(sk.Out(addrA, 1000)))}})
	add(&op{name: "multi3", txs: []interfaces.Transaction{
		sk.Transfer(32, ins(f, 13), outs(sk.Out(addrB, 600), sk.Out(addrC, 400))),
		sk.Transfer(33, ins(f, 17), outs(sk.Out(addrC, 1000))),
		sk.Transfer(34, ins(f, 18), outs(sk.Out(addrA, 700), sk.Out(addrB, 300)))}})
	add(&op{name: "nextturn", txs: []interfaces.Transaction{sk.NextTurn(16, 100)}})
	add(&op{name: "vote", txs: []interfaces.Transaction{sk.Transfer(15, ins(f, 10), outs(sk.VoteOut(addrC, 900), sk.Out(addrC, 100)))}})

	m.addrs = []common.Uint168{addrA, addrB, addrC, addrX, sk.MinerAddr}
	m.sideH = []common.Uint256{hSide, hSide2}
	m.depH = []common.Uint256{hDep, hDep2, hDep3}
	m.drafts = []common.Uint256{common.Hash(draft), common.Hash(opinion), common.Hash(sgOpinion), common.Hash(msg1), common.Hash(msg2),
		common.Hash([]byte("legacy draft")), common.Hash([]byte("legacy opinion")), common.Hash([]byte("legacy message")), common.Hash([]byte("legacy sg opinion"))}
	m.txids = []common.Uint256{genesisCoinbase, f}
	for _, o := range m.ops {
		for _, t := range o.txs {
			m.txids = append(m.txids, t.Hash())
		}
	}
	return m
}

func (m *menuT) enabled(path []string, name string) bool {
	on := map[string]bool{}
	for _, p := range path {
		on[p] = true
	}
	if on[name] {
		return false
	}
	o := m.by[name]
	for _, n := range o.needs {
		if !on[n] {
			return false
		}
	}
	for _, c := range o.conflicts {
		if on[c] {
			return false
		}
	}
	return true
}

// class names the transactions of a block for signatures: "WithdrawFromSideChain.v2".
func class(b *types.Block) string {
	var parts []string
	for _, t := range b.Transactions[1:] {
		parts = append(parts, fmt.Sprintf("%s.v%d", t.TxType().Name(), t.PayloadVersion()))
	}
	if len(parts) == 0 {
		return "CoinBase"
	}
	return strings.Join(parts, "+")
}

// ---------------------------------------------------------------------------------------------
// observations

// queries evaluates the named queries of the property over the whole menu universe plus extra
// transaction ids (coinbases of the blocks involved).
func queries(s *sk.Store, m *menuT, extra []common.Uint256) []string {
	var out []string
	ffl := s.CS.GetFFLDB()
	ids := append(append([]common.Uint256{}, m.txids...), extra...)
	for _, id := range ids {
		short := hex.EncodeToString(id[:4])
		u, err := ffl.GetUnspent(id)
		if err != nil {
			out = append(out, "GetUnspent "+short+"=error")
		} else {
			v := make([]int, 0, len(u))
			for _, x := range u {
				v = append(v, int(x))
			}
			sort.Ints(v)
			out = append(out, fmt.Sprintf("GetUnspent %s=%v", short, v))
		}
		tx, h, err := s.CS.GetTransaction(id)
		if err != nil || tx == nil {
			out = append(out, "GetTransaction "+short+"=notfound")
		} else {
			out = append(out, fmt.Sprintf("GetTransaction %s=height%d,%s,hash-ok=%v", short, h, tx.TxType().Name(), tx.Hash() == id))
		}
	}
	for _, a := range m.addrs {
		a := a
		us, err := ffl.GetUTXO(&a)
		if err != nil {
			out = append(out, "GetUTXO "+hex.EncodeToString(a[:2])+"=error")
		} else {
			out = append(out, fmt.Sprintf("GetUTXO %s=%v", hex.EncodeToString(a[:2]), sk.UTXOs(us)))
		}
	}
	for _, h := range m.sideH {
		h := h
		out = append(out, fmt.Sprintf("IsTx3Exist %s=%v", hex.EncodeToString(h[:4]), ffl.IsTx3Exist(&h)))
	}
	for _, h := range m.depH {
		h := h
		out = append(out, fmt.Sprintf("IsSideChainReturnDepositExist %s=%v", hex.EncodeToString(h[:4]), ffl.IsSideChainReturnDepositExist(&h)))
	}
	for _, h := range m.drafts {
		h := h
		d, err := s.CS.GetProposalDraftDataByDraftHash(&h)
		if err != nil {
			out = append(out, "GetProposalDraftDataByDraftHash "+hex.EncodeToString(h[:4])+"=none")
		} else {
			out = append(out, fmt.Sprintf("GetProposalDraftDataByDraftHash %s=%q", hex.EncodeToString(h[:4]), d))
		}
	}
	return out
}

type fail struct {
	sig, what string
}

// compare classifies the differences between the observations before connect(B) and after
// connect(B);disconnect(B).
func compare(preD, postD sk.Canon, preQ, postQ []string, cls string) []fail {
	var fs []fail
	seen := map[string]bool{}
	addf := func(sig, what string) {
		if !seen[sig] {
			seen[sig] = true
			fs = append(fs, fail{sig, what})
		}
	}
	// dump: group by path+key
	type pv struct{ pre, post string }
	m := map[string]*pv{}
	var keys []string
	for _, l := range sk.Diff(preD, postD) {
		body := l[1:]
		k, v, _ := strings.Cut(body, "=")
		e := m[k]
		if e == nil {
			e = &pv{}
			m[k] = e
			keys = append(keys, k)
		}
		if l[0] == '-' {
			e.pre = v + "\x00"
		} else {
			e.post = v + "\x00"
		}
	}
	sort.Strings(keys)
	for _, k := range keys {
		e := m[k]
		dir := "changed"
		switch {
		case e.pre == "":
			dir = "residue"
		case e.post == "":
			dir = "lost"
		}
		b := sk.Bucket(k)
		addf(fmt.Sprintf("C13|index-diff|%s|bucket=%s|undone=%s", dir, b, cls),
			fmt.Sprintf("metadata row %q: before connect %q, after connect+disconnect %q", k, strings.TrimSuffix(e.pre, "\x00"), strings.TrimSuffix(e.post, "\x00")))
	}
	// queries (same universe, same order)
	for i := range preQ {
		if i < len(postQ) && preQ[i] != postQ[i] {
			name, _, _ := strings.Cut(preQ[i], " ")
			addf(fmt.Sprintf("C13|query-diff|%s|%s|undone=%s", name, direction(preQ[i], postQ[i]), cls),
				fmt.Sprintf("before connect: %s; after connect+disconnect: %s", preQ[i], postQ[i]))
		}
	}
	return fs
}

// direction classifies a changed query answer: residue (an absent answer became present), lost
// (a present answer became absent) or changed.
func direction(pre, post string) string {
	absent := func(l string) bool {
		_, v, _ := strings.Cut(l, "=")
		return v == "none" || v == "false" || v == "notfound" || v == "[]" || v == "error"
	}
	switch {
	case absent(pre) && !absent(post):
		return "residue"
	case !absent(pre) && absent(post):
		return "lost"
	}
	return "changed"
}

// ---------------------------------------------------------------------------------------------
// explorer

type explorer struct {
	r        *evid.Run
	base     string
	m        *menuT
	ops      []string
	maxDepth int

	seq         int64
	nodes       int64 // connect sequences reached (each a distinct history executed)
	transitions int64
	pairs       int64
	instances   int64
	selfChecks  int64
	residual    int64
	mu          sync.Mutex
	confirmed   map[string]bool
	found       map[string]*found
	states      map[string]bool
	perDepth    []int64
	undone      evid.Distinct
	samples     evid.Samples
	expired     int32
}

func (e *explorer) fresh() *sk.Store {
	n := atomic.AddInt64(&e.seq, 1)
	s, err := sk.Create(sk.Fresh(e.base, "s", int(n)), nil)
	if err != nil {
		evid.Fatalf("create store: %v", err)
	}
	atomic.AddInt64(&e.instances, 1)
	if err := s.Connect(s.NewBlock(e.m.fund), nil); err != nil {
		evid.Fatalf("connect funding block: %v", err)
	}
	return s
}

// history entries: "name" = connect(block name), "~" = disconnect(tip).
func (e *explorer) run(s *sk.Store, hist []string) error {
	for _, h := range hist {
		if h == "~" {
			if _, err := s.DisconnectTip(nil); err != nil {
				return fmt.Errorf("disconnect: %v", err)
			}
			continue
		}
		if err := s.Connect(s.NewBlock(e.m.by[h].txs...), nil); err != nil {
			return fmt.Errorf("connect %s: %v", h, err)
		}
	}
	return nil
}

func (e *explorer) build(hist []string) *sk.Store {
	s := e.fresh()
	if err := e.run(s, hist); err != nil {
		evid.Fatalf("replay of %v failed: %v", hist, err)
	}
	return s
}

func (e *explorer) note(depth int, d sk.Canon) {
	k := strings.Join(d, "\n")
	e.mu.Lock()
	if !e.states[k] {
		e.states[k] = true
		for len(e.perDepth) <= depth {
			e.perDepth = append(e.perDepth, 0)
		}
		e.perDepth[depth]++
	}
	e.mu.Unlock()
}

func dump(s *sk.Store) sk.Canon {
	rows, err := s.Dump()
	if err != nil {
		evid.Fatalf("dump: %v", err)
	}
	return sk.Canonical(rows, sk.CanonRules{})
}

func coinbases(s *sk.Store, more ...*types.Block) []common.Uint256 {
	var ids []common.Uint256
	for _, b := range s.Blocks[1:] {
		ids = append(ids, b.Transactions[0].Hash())
	}
	for _, b := range more {
		ids = append(ids, b.Transactions[0].Hash())
	}
	return ids
}

// ctx is the store of one task; a rebuild after a violation replaces the store for every pending
// level (the rebuilt store is in the same state: it replayed the same history).
type ctx struct{ s *sk.Store }

// nodeChecks runs the oracles that need no transition: a withdrawal whose side-chain hash is
// not on the active chain (menu rule) must pass the node's duplicate check, i.e. it can be
// included (again).
func (e *explorer) nodeChecks(c *ctx, hist []string) []fail {
	var fs []fail
	path := active(hist)
	seen := map[string]bool{}
	for _, name := range e.ops {
		if !e.m.enabled(path, name) {
			continue
		}
		for _, t := range e.m.by[name].txs {
			if t.TxType() != common2.WithdrawFromSideChain {
				continue
			}
			for _, h := range withdrawHashes(t) {
				if c.s.CS.IsSidechainTxHashDuplicate(h) {
					sig := "C13|reinclude-blocked|IsSidechainTxHashDuplicate|after-undo-of=" + lastUndone(hist, e.m)
					if !seen[sig] {
						seen[sig] = true
						fs = append(fs, fail{sig, fmt.Sprintf("side-chain hash %s is not on the active chain, yet IsSidechainTxHashDuplicate reports it, so %s would be rejected as a duplicate", hex.EncodeToString(h[:4]), name)})
					}
				}
			}
		}
	}
	return fs
}

// pair executes connect(B);disconnect(B) on the store (which is in the state of hist), calling
// down between the two. It returns the failures and whether the store is back in the state of
// hist.
func (e *explorer) pair(c *ctx, hist []string, name string, preD sk.Canon, down func(b *types.Block)) ([]fail, bool) {
	o := e.m.by[name]
	b := c.s.NewBlock(o.txs...)
	cls := class(b)
	var fs []fail
	ex := coinbases(c.s, b)
	preQ := queries(c.s, e.m, ex)
	if err := c.s.Connect(b, nil); err != nil {
		evid.Fatalf("connect %s after %v failed: %v (menu blocks are valid; harness error)", name, hist, err)
	}
	atomic.AddInt64(&e.transitions, 1)
	if down != nil {
		down(b)
	}
	if _, err := c.s.DisconnectTip(nil); err != nil {
		fs = append(fs, fail{"C13|disconnect-error|undone=" + cls, fmt.Sprintf("RollbackBlock of the tip failed: %v", err)})
		return fs, false
	}
	atomic.AddInt64(&e.transitions, 1)
	atomic.AddInt64(&e.pairs, 1)
	e.undone.Add(cls)
	postD := dump(c.s)
	postQ := queries(c.s, e.m, ex)
	d := compare(preD, postD, preQ, postQ, cls)
	fs = append(fs, d...)
	return fs, len(d) == 0
}

func withdrawHashes(t interfaces.Transaction) []common.Uint256 {
	if t.PayloadVersion() == payload.WithdrawFromSideChainVersion {
		return t.Payload().(*payload.WithdrawFromSideChain).SideChainTransactionHashes
	}
	var hs []common.Uint256
	for _, o := range t.Outputs() {
		if w, ok := o.Payload.(*outputpayload.Withdraw); ok && o.Type == common2.OTWithdrawFromSideChain {
			hs = append(hs, w.SideChainTransactionHash)
		}
	}
	return hs
}

// lastUndone names the class of the most recent connect that was disconnected in hist.
func lastUndone(hist []string, m *menuT) string {
	var stack []string
	last := "none"
	for _, h := range hist {
		if h == "~" {
			if len(stack) > 0 {
				last = stack[len(stack)-1]
				stack = stack[:len(stack)-1]
			}
			continue
		}
		stack = append(stack, h)
	}
	if o, ok := m.by[last]; ok && len(o.txs) > 0 {
		t := o.txs[len(o.txs)-1]
		return fmt.Sprintf("%s.v%d", t.TxType().Name(), t.PayloadVersion())
	}
	return last
}

// active returns the connect sequence that hist reduces to.
func active(hist []string) []string {
	var stack []string
	for _, h := range hist {
		if h == "~" {
			stack = stack[:len(stack)-1]
		} else {
			stack = append(stack, h)
		}
	}
	return stack
}

// report records failures of the pair hist+[name,"~"]. The first time a signature is seen the
// history is re-executed on a fresh store and must fail identically; a divergence is an engine
// error, never a verdict.
func (e *explorer) report(hist []string, name string, fs []fail) {
	full := append([]string{}, hist...)
	if name != "" {
		full = append(full, name, "~")
	}
	need := false
	e.mu.Lock()
	for _, f := range fs {
		if !e.confirmed[f.sig] {
			need = true
		}
	}
	e.mu.Unlock()
	if need {
		s := e.build(hist)
		c := &ctx{s}
		var got []fail
		if name == "" {
			got = e.nodeChecks(c, hist)
		} else {
			got, _ = e.pair(c, hist, name, dump(c.s), nil)
		}
		c.s.Destroy()
		if a, b := sigs(fs), sigs(got); a != b {
			evid.Fatalf("failure of %v does not reproduce on a fresh store: first %s then %s", full, a, b)
		}
		e.mu.Lock()
		for _, f := range fs {
			e.confirmed[f.sig] = true
		}
		e.mu.Unlock()
	}
	e.mu.Lock()
	for _, f := range fs {
		cur := e.found[f.sig]
		if cur == nil {
			cur = &found{}
			e.found[f.sig] = cur
		}
		cur.count++
		if cur.hist == nil || less(full, cur.hist) {
			cur.hist, cur.what = full, f.what
		}
	}
	e.mu.Unlock()
}

type found struct {
	hist  []string
	what  string
	count int
}

// less orders histories by length, then lexicographically (the reported example is the least).
func less(a, b []string) bool {
	if len(a) != len(b) {
		return len(a) < len(b)
	}
	return strings.Join(a, ",") < strings.Join(b, ",")
}

// flush hands the collected violations to the run in signature order.
func (e *explorer) flush() {
	var ks []string
	for k := range e.found {
		ks = append(ks, k)
	}
	sort.Strings(ks)
	for _, k := range ks {
		f := e.found[k]
		e.r.MergeViolation(evid.Violation{Signature: k, What: f.what, Count: f.count,
			Artefact: map[string]interface{}{"system": "c13-store", "history": f.hist}})
	}
}

func sigs(fs []fail) string {
	var s []string
	for _, f := range fs {
		s = append(s, f.sig)
	}
	sort.Strings(s)
	return strings.Join(s, " ; ")
}

// divergence handles an in-place state (reached through earlier connect/disconnect pairs) whose
// dump differs from a fresh replay of the same connect sequence: a disconnect left something
// behind that the dump only shows at the next connect (e.g. an in-memory counter). The minimal
// witness [empty, ~] + path is executed on a fresh store; if it reproduces a difference it is a
// violation of "rollback to k equals building k directly", otherwise an engine error.
func (e *explorer) divergence(child []string, df []string) {
	fs := divergenceFails(e, append([]string{"empty", "~"}, child...))
	if len(fs) == 0 {
		evid.Fatalf("in-place state after %v differs from a fresh replay (%v) but [empty ~]+path does not", child, df)
	}
	full := append([]string{"empty", "~"}, child...)
	e.mu.Lock()
	for _, f := range fs {
		cur := e.found[f.sig]
		if cur == nil {
			cur = &found{}
			e.found[f.sig] = cur
		}
		cur.count++
		if cur.hist == nil || less(full, cur.hist) {
			cur.hist, cur.what = full, f.what
		}
	}
	e.mu.Unlock()
}

// divergenceFails compares the dump after hist with the dump after the connect sequence hist
// reduces to, both on fresh stores.
func divergenceFails(e *explorer, hist []string) []fail {
	a := e.build(hist)
	da := dump(a)
	a.Destroy()
	b := e.build(active(hist))
	db := dump(b)
	b.Destroy()
	var fs []fail
	seen := map[string]bool{}
	for _, l := range sk.Diff(db, da) {
		sig := "C13|replay-divergence|bucket=" + sk.Bucket(l)
		if !seen[sig] {
			seen[sig] = true
			fs = append(fs, fail{sig, fmt.Sprintf("history %v and its reduced connect sequence %v end in different metadata: %s", hist, active(hist), l)})
		}
	}
	return fs
}

// expand explores all children of the node reached by hist. The store is in that state on
// entry and on return. budget = connects still allowed below. stopAt > 0 limits the descent to
// connect sequences of that length (root task of a sharded run).
func (e *explorer) expand(c *ctx, hist []string, preD sk.Canon, budget int, stopAt int) {
	if fs := e.nodeChecks(c, hist); len(fs) > 0 {
		e.report(hist, "", fs)
	}
	if budget <= 0 {
		return
	}
	if atomic.LoadInt32(&e.expired) != 0 || e.r.Expired() {
		atomic.StoreInt32(&e.expired, 1)
		return
	}
	path := active(hist)
	if preD == nil {
		preD = dump(c.s)
	}
	for _, name := range e.ops {
		if !e.m.enabled(path, name) {
			continue
		}
		child := append(append([]string{}, hist...), name)
		fs, back := e.pair(c, hist, name, preD, func(b *types.Block) {
			atomic.AddInt64(&e.nodes, 1)
			cd := dump(c.s)
			e.note(len(path)+1, cd)
			if len(path)+1 <= 2 && !hasUndo(hist) {
				// state-identification self-check: the in-place state equals a fresh replay
				fs := e.build(child)
				fd := dump(fs)
				fs.Destroy()
				atomic.AddInt64(&e.selfChecks, 1)
				if df := sk.Diff(fd, cd); len(df) > 0 {
					e.divergence(child, df)
				}
			}
			if len(child) == e.maxDepth && !hasUndo(child) {
				e.samples.Add(child)
			}
			if stopAt == 0 || len(path)+1 < stopAt {
				e.expand(c, child, cd, budget-1, stopAt)
			}
		})
		if len(fs) > 0 {
			e.report(hist, name, fs)
		}
		if !back {
			// residual state: explore it in place with the remaining depth, then rebuild the
			// state of this node by a clean replay
			atomic.AddInt64(&e.residual, 1)
			res := append(append([]string{}, child...), "~")
			// (descendants of a residual state are consequences of the violation just
			// recorded; only the transition-free oracles are evaluated there)
			e.note(len(path), dump(c.s))
			if fs := e.nodeChecks(c, res); len(fs) > 0 {
				e.report(res, "", fs)
			}
			c.s.Destroy()
			c.s = e.build(hist)
			preD = dump(c.s)
		}
	}
}

func hasUndo(hist []string) bool {
	for _, h := range hist {
		if h == "~" {
			return true
		}
	}
	return false
}

// task = explore the subtree below a connect-sequence prefix on its own store.
func (e *explorer) task(prefix []string, stopAt int) {
	defer func() {
		if p := recover(); p != nil {
			st := debug.Stack()
			evid.Fatalf("panic in task %v: %v\n%s", prefix, p, st)
		}
	}()
	c := &ctx{e.build(prefix)}
	e.expand(c, prefix, nil, e.maxDepth-len(prefix), stopAt)
	c.s.Destroy()
}

func (e *explorer) prefixes(n int) [][]string {
	out := [][]string{{}}
	for d := 0; d < n; d++ {
		var next [][]string
		for _, p := range out {
			for _, name := range e.ops {
				if e.m.enabled(p, name) {
					next = append(next, append(append([]string{}, p...), name))
				}
			}
		}
		out = next
	}
	return out
}

func (e *explorer) explore() {
	split := 2
	if e.maxDepth <= 2 {
		split = 0
	}
	if split == 0 {
		e.task(nil, 0)
		return
	}
	// root task: all nodes of length < split are expanded; nodes of length == split are reached
	// and undone but expanded by their own task
	tasks := e.prefixes(split)
	par.Go(len(tasks)+1, func(i int) {
		if i == 0 {
			e.task(nil, split)
			return
		}
		e.task(tasks[i-1], 0)
	})
}

func main() {
	r := evid.Start("C13", "model_checking")
	base := evid.Scratch("c13")
	defer os.RemoveAll(base)
	sk.Setup(base + "/logs")
	g := sk.Params().GenesisBlock
	m := menu(g.Transactions[0].Hash())

	if r.Replay != "" {
		var a struct {
			History []string `json:"history"`
		}
		want := r.LoadReplay(&a)
		e := &explorer{r: r, base: base, m: m, states: map[string]bool{}, confirmed: map[string]bool{}, found: map[string]*found{}}
		h := a.History
		if strings.HasPrefix(want, "C13|replay-divergence") {
			fs := divergenceFails(e, h)
			fmt.Printf("replay %v (expected %s):\n", h, want)
			for _, f := range fs {
				fmt.Printf("  FAIL %s — %s\n", f.sig, f.what)
				r.Violate(f.sig, f.what, map[string]interface{}{"system": "c13-store", "history": h})
			}
			os.RemoveAll(base)
			r.Finish(evid.Coverage{})
		}
		if len(h) < 2 || h[len(h)-1] != "~" {
			evid.Fatalf("replay history must end with connect,disconnect: %v", h)
		}
		hist, name := h[:len(h)-2], h[len(h)-2]
		c := &ctx{e.build(hist)}
		fs, _ := e.pair(c, hist, name, dump(c.s), nil)
		fs = append(fs, e.nodeChecks(c, h)...)
		c.s.Destroy()
		fmt.Printf("replay %v (expected %s):\n", h, want)
		for _, f := range fs {
			fmt.Printf("  FAIL %s — %s\n", f.sig, f.what)
			r.Violate(f.sig, f.what, map[string]interface{}{"system": "c13-store", "history": h})
		}
		if len(fs) == 0 {
			fmt.Println("  ok: dump and queries identical")
		}
		os.RemoveAll(base)
		r.Finish(evid.Coverage{})
	}

	type phase struct {
		name  string
		ops   []string
		depth int
	}
	var all []string
	for _, o := range m.ops {
		all = append(all, o.name)
	}
	phases := []phase{{"full", all, r.Pick(4, 6)}}
	tot := &explorer{states: map[string]bool{}, confirmed: map[string]bool{}, found: map[string]*found{}}
	exhaustive := true
	var phaseInfo []map[string]interface{}
	samples := []interface{}{}
	undone := map[string]int{}
	for _, ph := range phases {
		e := &explorer{r: r, base: base, m: m, ops: ph.ops, maxDepth: ph.depth, states: map[string]bool{}, confirmed: map[string]bool{}, found: map[string]*found{}}
		e.samples.N = 5
		e.explore()
		e.flush()
		if e.expired != 0 {
			exhaustive = false
		}
		tot.nodes += e.nodes
		tot.transitions += e.transitions
		tot.pairs += e.pairs
		tot.instances += e.instances
		tot.selfChecks += e.selfChecks
		tot.residual += e.residual
		for k := range e.states {
			tot.states[k] = true
		}
		for k, v := range e.undone.Map() {
			undone[k] += v
		}
		samples = append(samples, e.samples.Out...)
		phaseInfo = append(phaseInfo, map[string]interface{}{"phase": ph.name, "alphabet": ph.ops, "depth": ph.depth,
			"connect_sequences": e.nodes, "pairs": e.pairs, "states_per_depth": e.perDepth, "completed": e.expired == 0})
	}
	if len(samples) == 0 {
		samples = append(samples, []string{})
	}
	cov := evid.Coverage{
		"states":                        len(tot.states) + 1,
		"transitions":                   tot.transitions,
		"traces_validated_against_impl": tot.nodes,
		"connect_disconnect_pairs":      tot.pairs,
		"fresh_store_instances":         tot.instances,
		"state_identification_checks":   tot.selfChecks,
		"residual_states_explored":      tot.residual,
		"undone_block_classes":          undone,
		"phases":                        phaseInfo,
		"exhaustive":                    exhaustive,
		"samples":                       samples,
		"canonical_dump_rules":          sk.Rules(),
		"rule": "depth-first enumeration of every enabled connect sequence over the block menu up to the depth bound on a real chain store " +
			"(ChainStore.SaveBlock/RollbackBlock); at every node, for every enabled block B: named queries + full canonical metadata dump before connect(B) " +
			"== after connect(B);disconnect(B); withdrawals enabled by the menu rule must pass IsSidechainTxHashDuplicate; residual states after a violating pair are expanded once more; " +
			"states = distinct canonical dumps; traces = connect sequences executed on the implementation",
	}
	r.Assume = append(r.Assume,
		"blocks are synthetic (no signatures, no proof of work, zero AuxPow); the store seam does not validate them",
		"menu rules keep blocks consensus-plausible: no output spent twice, no transaction twice on the active chain, reviews/trackings only after their proposal, a side-chain hash at most once on the active chain",
		"states with equal canonical dump are identified (the instance is reused after a verified connect/disconnect identity); the identification is cross-checked against fresh replays at depth <= 2",
	)
	os.RemoveAll(base)
	r.Finish(cov)
}
