// C07: block contents are bound to the header — bounded-exhaustive enumeration of transaction
// lists and of all single mutations of accepted blocks, decided by the real
// BlockChain.CheckBlockSanity (blocks carry a real merged-mining proof and real proof of work at
// the instant-block difficulty) against an independent statement of the rule: header root =
// reference merkle root of the ids, first transaction is the only coinbase, no id twice.
package main

import (
	"bytes"
	"encoding/hex"
	"fmt"
	"os"
	"runtime/debug"
	"sort"

	"github.com/elastos/Elastos.ELA/blockchain"
	"github.com/elastos/Elastos.ELA/common"
	"github.com/elastos/Elastos.ELA/common/config"
	"github.com/elastos/Elastos.ELA/core/types"
	"github.com/elastos/Elastos.ELA/core/types/interfaces"
	"github.com/elastos/Elastos.ELA/crypto"

	"verif/blockkit"
	"verif/chainkit"
	"verif/evid"
	"verif/hx"
	"verif/par"
)

const height = 7

type artefact struct {
	Class string `json:"class"`
	N     int    `json:"n"`
	What  string `json:"mutation"`
	Block string `json:"block"` // the block in the repository's wire format
	// node-tier cases are rebuilt from their indexes
	NodeCase *nodeReq `json:"node_case,omitempty"`
}

type checker struct {
	r      *evid.Run
	chain  *blockchain.BlockChain
	params *config.Configuration

	evals, accepted, rejected int64
	byClass                   map[string][2]int64
	reasons                   map[string]int64 // the code's rejection messages
	distinct                  map[[32]byte]struct{}
	rootsCompared             int64
	sameRootTwins             int64
	samples                   []interface{}
}

// oracle states the rule independently. "" = acceptable.
func oracle(hdrRoot [32]byte, txs []interfaces.Transaction) string {
	if len(txs) == 0 {
		return "no-transactions"
	}
	if !txs[0].IsCoinBaseTx() {
		return "first-not-coinbase"
	}
	seen := map[[32]byte]bool{}
	for i, t := range txs {
		if i > 0 && t.IsCoinBaseTx() {
			return "second-coinbase"
		}
		id := [32]byte(t.Hash())
		if seen[id] {
			return "duplicate-tx"
		}
		seen[id] = true
	}
	if blockkit.RefMerkleRoot(blockkit.TxIDs(txs)) != hdrRoot {
		return "merkle-root-mismatch"
	}
	return ""
}

func (k *checker) sanity(b *types.Block) (err error, site string) {
	defer func() {
		if x := recover(); x != nil {
			site = evid.PanicSite(debug.Stack())
			err = fmt.Errorf("panic: %v", x)
		}
	}()
	return k.chain.CheckBlockSanity(b), ""
}

func blockHex(b *types.Block) string {
	var buf bytes.Buffer
	if err := b.Serialize(&buf); err != nil {
		return "unserializable: " + err.Error()
	}
	return hex.EncodeToString(buf.Bytes())
}

// judge runs one block through CheckBlockSanity and compares with the oracle.
func (k *checker) judge(class, what string, n int, b *types.Block) {
	// the reference root and the repository's merkle root must agree on every list
	if len(b.Transactions) > 0 {
		ids := blockkit.TxIDs(b.Transactions)
		u := make([]common.Uint256, len(ids))
		for i := range ids {
			u[i] = common.Uint256(ids[i])
		}
		got, err := crypto.ComputeRoot(u)
		k.rootsCompared++
		if err != nil || [32]byte(got) != blockkit.RefMerkleRoot(ids) {
			k.r.Violate("C07|merkle-root-differs|crypto.ComputeRoot", fmt.Sprintf("crypto.ComputeRoot differs from the reference merkle root on a list of %d ids (%s)", len(ids), class), artefact{Class: class, N: n, What: what, Block: blockHex(b)})
		}
	}
	var key bytes.Buffer
	b.Header.Serialize(&key)
	for _, t := range b.Transactions {
		h := t.Hash()
		key.Write(h[:])
	}
	kk := blockkit.DSha(key.Bytes())
	if _, dup := k.distinct[kk]; dup {
		return
	}
	k.distinct[kk] = struct{}{}

	k.evals++
	err, site := k.sanity(b)
	want := oracle([32]byte(b.Header.MerkleRoot), b.Transactions)
	c := k.byClass[class]
	if err == nil {
		k.accepted++
		c[0]++
	} else {
		k.rejected++
		c[1]++
		msg := err.Error()
		if len(msg) > 90 {
			msg = msg[:90]
		}
		k.reasons[msg]++
	}
	k.byClass[class] = c
	switch {
	case site != "":
		k.r.Violate("C07|panic|"+site, "CheckBlockSanity panicked ("+class+": "+what+")", artefact{Class: class, N: n, What: what, Block: blockHex(b)})
	case err == nil && want != "":
		k.r.Violate("C07|accepted|"+want+"|"+class, fmt.Sprintf("CheckBlockSanity accepts a block that breaks the rule (%s) after mutation %s: %s", want, class, what), artefact{Class: class, N: n, What: what, Block: blockHex(b)})
	case err != nil && want == "" && class == "valid":
		k.r.Violate("C07|valid-block-rejected", "CheckBlockSanity rejects a well-formed block: "+err.Error(), artefact{Class: class, N: n, What: what, Block: blockHex(b)})
	case err != nil && want == "":
		// a mutation that left an acceptable block (e.g. header resealed over a still well-formed
		// list) must be accepted as well, otherwise the rule is not what decides
		k.r.Violate("C07|acceptable-block-rejected|"+class, "CheckBlockSanity rejects a block that satisfies the rule ("+what+"): "+err.Error(), artefact{Class: class, N: n, What: what, Block: blockHex(b)})
	}
}

// sameHeader: the sealed header stays, the list changes.
func (k *checker) sameHeader(class, what string, n int, base *types.Block, txs []interfaces.Transaction) {
	k.judge(class, what, n, &types.Block{Header: base.Header, Transactions: txs})
}

// resealed: the attacker recomputes the merkle root over the changed list and redoes the proof.
func (k *checker) resealed(class, what string, n int, txs []interfaces.Transaction) {
	var root [32]byte
	if len(txs) > 0 {
		root = blockkit.RefMerkleRoot(blockkit.TxIDs(txs))
	}
	h := blockkit.Header(k.params, height, root)
	blockkit.Seal(&h)
	k.judge(class, what, n, &types.Block{Header: h, Transactions: txs})
}

func cp(txs []interfaces.Transaction) []interfaces.Transaction {
	return append([]interfaces.Transaction{}, txs...)
}

func insertAt(txs []interfaces.Transaction, pos int, t interfaces.Transaction) []interfaces.Transaction {
	out := make([]interfaces.Transaction, 0, len(txs)+1)
	out = append(out, txs[:pos]...)
	out = append(out, t)
	return append(out, txs[pos:]...)
}

func width(n, h int) int { return (n + (1 << uint(h)) - 1) >> uint(h) }

func (k *checker) explore(n, variant int) {
	cbTag := byte(n*4 + variant)
	txs := []interfaces.Transaction{blockkit.Coinbase(k.params, height, cbTag)}
	for i := 1; i < n; i++ {
		switch {
		case variant == 2 && i%2 == 0, variant == 3:
			// variant 2: transfers and input-less transactions alternate; variant 3: only input-less
			txs = append(txs, inputless(n*40+i))
		default:
			txs = append(txs, blockkit.Transfer(variant*40+i))
		}
	}
	base := blockkit.Block(k.params, height, txs)
	k.judge("valid", fmt.Sprintf("coinbase + %d transactions (variant %d)", n-1, variant), n, base)
	if len(k.samples) < 4 && (n == 1 || n == 3 || n == 6 || n == 9) && variant == 0 {
		ids := []string{}
		for _, t := range txs {
			h := t.Hash()
			ids = append(ids, hex.EncodeToString(h[:4]))
		}
		k.samples = append(k.samples, map[string]interface{}{"n": n, "tx_id_prefixes": ids, "merkle_root": hex.EncodeToString(base.Header.MerkleRoot[:]), "block_hash": base.Header.Hash().String(), "parent_nonce": base.Header.AuxPow.ParBlockHeader.Nonce})
	}
	other := blockkit.Transfer(900 + n)
	if variant >= 2 {
		other = inputless(5000 + n*2 + variant)
	}
	otherCb := blockkit.Coinbase(k.params, height, cbTag+100)

	// --- family A: same sealed header, changed list --------------------------------------------
	// the CVE-2012-2459 twins: repeating the last 2^k ids when level k has an odd width leaves the
	// merkle root unchanged, so only the duplicate rule can reject them
	for kk := 0; 1<<uint(kk) <= n; kk++ {
		w := width(n, kk)
		if w%2 == 0 || w == 1 || n%(1<<uint(kk)) != 0 {
			continue
		}
		twin := append(cp(txs), txs[n-(1<<uint(kk)):]...)
		if blockkit.RefMerkleRoot(blockkit.TxIDs(twin)) != [32]byte(base.Header.MerkleRoot) {
			evid.Fatalf("twin root differs n=%d k=%d", n, kk)
		}
		k.sameRootTwins++
		k.sameHeader("dup-tail-same-root", fmt.Sprintf("last %d transactions repeated (merkle root unchanged)", 1<<uint(kk)), n, base, twin)
	}
	for i := 0; i < n; i++ {
		l := append(cp(txs[:i]), txs[i+1:]...)
		k.sameHeader("drop", fmt.Sprintf("drop tx %d", i), n, base, l)
		for j := i + 1; j < n; j++ {
			l := cp(txs)
			l[i], l[j] = l[j], l[i]
			k.sameHeader("swap", fmt.Sprintf("swap %d<->%d", i, j), n, base, l)
		}
		for pos := 0; pos <= n; pos++ {
			k.sameHeader("duplicate", fmt.Sprintf("copy of tx %d inserted at %d", i, pos), n, base, insertAt(txs, pos, txs[i]))
		}
		l = cp(txs)
		l[i] = other
		k.sameHeader("replace", fmt.Sprintf("tx %d replaced by another transfer", i), n, base, l)
		if i > 0 {
			l = cp(txs)
			l[i] = otherCb
			k.sameHeader("replace", fmt.Sprintf("tx %d replaced by a coinbase", i), n, base, l)
			// move the coinbase to position i
			l = append(cp(txs[1:i+1]), txs[0])
			l = append(l, txs[i+1:]...)
			k.sameHeader("coinbase-move", fmt.Sprintf("coinbase moved to %d", i), n, base, l)
		}
	}
	l := cp(txs)
	l[0] = otherCb
	k.sameHeader("replace", "coinbase replaced by another coinbase", n, base, l)
	k.sameHeader("append", "another transfer appended", n, base, append(cp(txs), other))
	k.sameHeader("drop", "all transactions dropped", n, base, nil)
	// repeated tails whose root does change (even widths) — rejected by root or duplicate rule
	for t := 1; t <= n && t <= 4; t++ {
		k.sameHeader("dup-tail", fmt.Sprintf("last %d transactions repeated", t), n, base, append(cp(txs), txs[n-t:]...))
	}
	// header merkle root corruption: every byte, proof left as is (the block hash changes) …
	for i := 0; i < 32; i++ {
		h := base.Header
		h.MerkleRoot[i] ^= 1 << uint(i%8)
		k.judge("root-flip", fmt.Sprintf("header merkle root byte %d flipped, proof unchanged", i), n, &types.Block{Header: h, Transactions: txs})
	}

	// --- family B: list changed, merkle root recomputed, proof redone ------------------------------
	// … and with the proof redone over the corrupted root
	for i := 0; i < 32; i++ {
		h := base.Header
		h.MerkleRoot[i] ^= 1 << uint(i%8)
		blockkit.Seal(&h)
		k.judge("resealed/root-flip", fmt.Sprintf("header merkle root byte %d flipped, proof redone", i), n, &types.Block{Header: h, Transactions: txs})
	}
	for i := 1; i < n; i++ {
		l := cp(txs)
		l[0], l[i] = l[i], l[0]
		k.resealed("resealed/coinbase-not-first", fmt.Sprintf("coinbase swapped with tx %d", i), n, l)
	}
	if n > 1 {
		k.resealed("resealed/no-coinbase", "coinbase dropped", n, cp(txs[1:]))
	}
	for pos := 1; pos <= n; pos++ {
		k.resealed("resealed/second-coinbase", fmt.Sprintf("a different coinbase inserted at %d", pos), n, insertAt(txs, pos, otherCb))
		k.resealed("resealed/coinbase-twice", fmt.Sprintf("the coinbase repeated at %d", pos), n, insertAt(txs, pos, txs[0]))
	}
	for i := 1; i < n; i++ {
		for pos := 1; pos <= n; pos++ {
			k.resealed("resealed/duplicate", fmt.Sprintf("copy of tx %d inserted at %d", i, pos), n, insertAt(txs, pos, txs[i]))
		}
	}
	k.resealed("resealed/empty", "no transactions", n, nil)
	// well-formed again after the change: must be accepted (the rule, nothing else, decides)
	if n > 1 {
		k.resealed("resealed/well-formed", "last transaction dropped", n, cp(txs[:n-1]))
		l := cp(txs)
		l[n-1] = other
		k.resealed("resealed/well-formed", "last transaction replaced", n, l)
		l = cp(txs)
		l[1], l[n-1] = l[n-1], l[1]
		k.resealed("resealed/well-formed", "transfers reordered", n, l)
	}
}

func main() {
	if chainkit.Serve(serveNode) {
		return
	}
	r := evid.Start("C07", "exploration")
	scr := evid.Scratch("c07")
	hx.QuietLogs(scr)
	blockkit.Register()
	params := blockkit.Params()
	config.DefaultParams = *params
	k := &checker{r: r, params: params, chain: blockchain.VerifNewSanityChain(params),
		byClass: map[string][2]int64{}, reasons: map[string]int64{}, distinct: map[[32]byte]struct{}{}}

	if r.Replay != "" {
		var a artefact
		sig := r.LoadReplay(&a)
		if a.NodeCase != nil {
			resp := runNodeCase(*a.NodeCase)
			fmt.Printf("replaying %s\n node case %+v: mutation %q, schedule %q\n steps: %v\n rule broken by the delivered block: %q; its hash on the active chain: %v\n", sig, *a.NodeCase, mutationNames[a.NodeCase.Mut], scheduleNames[a.NodeCase.Sched], resp.Steps, resp.Rule, resp.Connected)
			if resp.EngineErr != "" {
				evid.Fatalf("replay: %s", resp.EngineErr)
			}
			for _, v := range resp.Viol {
				r.Violate(v.Sig, v.What, a)
			}
			chainkit.Cleanup()
			os.RemoveAll(scr)
			r.Finish(evid.Coverage{})
		}
		raw, err := hex.DecodeString(a.Block)
		if err != nil {
			evid.Fatalf("replay: %v", err)
		}
		var b types.Block
		if err := b.Deserialize(bytes.NewReader(raw)); err != nil {
			evid.Fatalf("replay: block does not deserialize: %v", err)
		}
		e, site := k.sanity(&b)
		fmt.Printf("replaying %s\n class=%s n=%d mutation=%s\n CheckBlockSanity: err=%v panic=%q\n oracle: %q\n", sig, a.Class, a.N, a.What, e, site, oracle([32]byte(b.Header.MerkleRoot), b.Transactions))
		k.judge(a.Class, a.What, a.N, &b)
		os.RemoveAll(scr)
		r.Finish(evid.Coverage{})
	}

	maxN := r.Pick(17, 33)
	for n := 1; n <= maxN; n++ {
		for v := 0; v < 4; v++ {
			k.explore(n, v)
		}
	}

	ns := nodeTier(r, par.Workers())

	classes := map[string]interface{}{}
	var names []string
	for c := range k.byClass {
		names = append(names, c)
	}
	sort.Strings(names)
	mutants := int64(0)
	for _, c := range names {
		v := k.byClass[c]
		classes[c] = map[string]int64{"accepted": v[0], "rejected": v[1]}
		if c != "valid" {
			mutants += v[0] + v[1]
		}
	}
	r.Assume = append(r.Assume,
		"transactions are structurally valid transfers without real signatures: CheckBlockSanity runs the per-transaction sanity check only (signatures belong to the context check, C05)",
		"BlockChain is a minimal instance from the verif hook blockchain.VerifNewSanityChain (chain parameters + median time source); CheckBlockSanity reads nothing else",
		"block timestamps are fixed in the past, so the 'too far in the future' rule never depends on the wall clock",
		"removing only one of the two duplicate guards of CheckBlockSanity (tx id map / spent outpoint map) does not break the property, because every duplicated transaction also duplicates its inputs")
	os.RemoveAll(scr)
	r.Finish(evid.Coverage{
		"evaluations":                           k.evals + int64(ns.cases),
		"distinct_nontrivial":                   len(k.distinct) + ns.cases,
		"rule":                                  fmt.Sprintf("transaction lists of length 1..%d (coinbase + distinct transactions, 4 variants per length: two sets of transfers, transfers alternating with input-less NextTurnDPOSInfo/ActivateProducer transactions, input-less transactions only), each sealed with auxpow.GenerateAuxPow + solved parent nonce at PowLimitBits 0x207fffff and accepted by CheckBlockSanity; per accepted block, with the sealed header unchanged: drop each tx, swap every pair, copy of every tx inserted at every position, every tx replaced (by a transfer / by a coinbase), coinbase moved to every position, append, repeated tails of 1..4, every merkle-root-preserving repeated tail (CVE-2012-2459 twins), every header root byte flipped; with merkle root recomputed and proof redone: root byte flips, coinbase not first, no coinbase, second coinbase / repeated coinbase at every position, copy of every tx at every position, empty list, and three still-well-formed variants that must be accepted. Oracle: header root = reference merkle root, first tx the only coinbase, ids pairwise distinct; crypto.ComputeRoot compared with the reference on every list. Node tier (chainkit, fresh real node per case): 3- and 4-transaction blocks with signed transfers x 14 list mutations under the sealed header x delivery schedules {parent then block; block then parent (orphan); grandchild, block, parent; block, grandchild, parent; parent, block, child}: every block on the active chain, read back from the store, must satisfy the rule, and the well-formed variants must get connected. distinct_nontrivial = distinct (header, id list) pairs judged + node cases", maxN),
		"exhaustive":                            true,
		"max_n":                                 maxN,
		"valid_blocks":                          k.byClass["valid"][0],
		"mutants":                               mutants,
		"accepted":                              k.accepted,
		"rejected":                              k.rejected,
		"same_root_twins":                       k.sameRootTwins,
		"roots_compared":                        k.rootsCompared,
		"by_class":                              classes,
		"rejection_messages":                    k.reasons,
		"node_cases":                            ns.cases,
		"node_mutants_delivered":                ns.mutantsDelivered,
		"node_well_formed_connected":            ns.wellFormedConnected,
		"node_orphan_schedule_cases":            ns.orphanSchedules,
		"node_rules_broken_by_delivered_blocks": ns.rules,
		"samples":                               append(k.samples, ns.samples...),
	})
}
